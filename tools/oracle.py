#!/usr/bin/env python3
"""
Property oracles evaluated on the IMPLEMENTATION's trace (request lines + reply lines of the
Rust harness), independent of the Lean model: a plain map + set of guards + FIFO waiters,
written directly from the property statements C01..C15 (sequential histories).

check_case(kind, pairs) -> list of (property_ids, line_index, message)
"""
import re

BIG = 10**18


class Fail(Exception):
    pass


# which properties make promises about which request (used to attribute panics, hangs and undecodable replies)
REQ_PROPS = {'into': ['C12', 'C06'], 'expire': ['C10'], 'spoll': ['C11'], 'lockall': ['C11'], 'sdrop': ['C06', 'C11'],
             'cancel': ['C06'], 'lock': ['C07', 'C08', 'C15', 'C06'], 'count': ['C04'], 'keys': ['C04'], 'drop': ['C02', 'C04'], 'op': ['C02', 'C15']}


def parse_reply(reply):
    if ' | ' not in reply:
        return reply.strip(), None
    res, snap = reply.split(' | ', 1)
    return res.strip(), snap.strip()


def parse_snap(snap):
    """-> (entries list of (k, val, locked, refs) in order, now) or None if poisoned"""
    if snap is None or snap.startswith('[poisoned]'):
        return None
    m = re.match(r'\[(.*)\] now=(\d+)', snap)
    if not m:
        return None
    ents = []
    body = m.group(1).strip()
    if body:
        for tok in body.split(' '):
            k, val, lu, refs = tok.split(':')
            ents.append((int(k), val, lu == 'L', int(refs)))
    return ents, int(m.group(2))


class Shadow:
    def __init__(self, kind):
        self.susp = {}       # handle -> lock call suspended in its eviction callback
        self.kind = kind
        self.vals = {}
        self.stamp = {}
        self.guards = {}      # h -> k
        self.pend = {}        # h -> k   (pending waiting acquisitions made by lock calls)
        self.queue = {}       # k -> [h]  waiters in arrival order (pending futures and polled stream items)
        self.streams = {}     # sid -> dict(items={h:k} unresolved, ready=[h], polled=set())
        self.now = 0
        self.dead = False     # after into
        self.uses = {}        # k -> list of [begin, end or None]  (for C09)
        self.use_of = {}      # h -> (k, index)
        self.step = 0
        self.busy_end = {}    # k -> step at which k last became free (not held, not awaited)
        self.was_busy = set()

    # ---- derived
    def held(self, k):
        return k in self.guards.values()

    def free(self, k):
        return not self.held(k) and not self.queue.get(k)

    def stream_items_on(self, k):
        return sum(1 for st in self.streams.values() for kk in st['items'].values() if kk == k)

    def present(self):
        ks = set(self.vals)
        ks |= set(self.guards.values())
        ks |= set(self.pend.values())
        for st in self.streams.values():
            ks |= set(st['items'].values())
        return ks

    def refs(self, k):
        return (sum(1 for kk in self.guards.values() if kk == k) + sum(1 for kk in self.pend.values() if kk == k)
                + self.stream_items_on(k))

    # ---- mutations
    def begin_use(self, h, k):
        self.uses.setdefault(k, []).append([self.step, None])
        self.use_of[h] = (k, len(self.uses[k]) - 1)

    def end_use(self, h):
        if h in self.use_of:
            k, i = self.use_of.pop(h)
            self.uses[k][i][1] = self.step

    def drop_guard(self, h):
        k = self.guards.pop(h)
        self.end_use(h)
        if self.kind == 'lru' and k in self.vals:
            self.stamp[k] = self.now
        self.wake(k)
        return k

    def update_busy(self, i):
        """busy periods per key (for C09): a key is busy while it is held by any guard or awaited"""
        busy_now = set(k for k in self.present() if not self.free(k))
        for k in self.was_busy - busy_now:
            self.busy_end[k] = i
        self.was_busy = busy_now

    def wake(self, k):
        """the first waiter of a key that is not held is handed the lock (it stays 'reserved' until polled)"""
        q = self.queue.get(k)
        if q and not self.held(k):
            w = q[0]
            for st in self.streams.values():
                if w in st['items'] and w not in st['ready']:
                    st['ready'].append(w)

    def set_val(self, k, v, fresh):
        self.vals[k] = v
        if fresh:
            self.stamp[k] = self.now if self.kind == 'lru' else 0


def fmt_list(l):
    return ','.join(str(x) for x in l) if l else '-'


def check_case(kind, pairs):
    """pairs: list of (request, reply) for one case (starting with its init line)"""
    fails = []
    sh = Shadow(kind)

    def fail(props, i, msg):
        fails.append((props, i, msg))

    for i, (req, reply) in enumerate(pairs):
        sh.step = i
        toks = req.split()
        res, snap = parse_reply(reply)
        cmd = toks[0]
        if cmd == 'init':
            continue
        if sh.dead:
            continue
        # ---- C13: no library panic / poison, ever
        if 'panic:' in res or res.startswith('poisoned') or (snap or '').startswith('[poisoned]'):
            # a call that panics also fails whatever the property promises about that call
            fail(['C13'] + REQ_PROPS.get(cmd, []) + (['C14'] if kind == 'pool' else []), i, f'library panic or poisoned lock on `{req}`: {reply}')
            break
        if res in ('bad', 'bad-op', 'would-block'):
            # not an implementation behaviour; stop judging this case
            break
        try:
            check_one(sh, kind, toks, res, i, fail)
        except Fail as e:
            fail(['C05'] + REQ_PROPS.get(cmd, []), i, f'oracle cannot follow the trace: {e}')
            break
        except Exception as e:  # malformed / unexpected reply
            fail(['C05'] + REQ_PROPS.get(cmd, []), i, f'unexpected reply `{reply}` to `{req}`: {e!r}')
            break
        # busy periods per key (for C09): a key is busy while it is held by any guard or awaited
        sh.update_busy(i)
        # ---- after every step: accounting (C04), values (C02), lock flags (C01), stamps (C10)
        ps = parse_snap(snap)
        if ps is None:
            continue
        ents, now = ps
        keys = [e[0] for e in ents]
        if len(set(keys)) != len(keys):
            fail(['C04'], i, f'duplicate keys in snapshot {keys}')
        if set(keys) != sh.present():
            fail(['C04', 'C06', 'C14'] if kind == 'pool' or cmd in ('cancel', 'sdrop') else ['C04'], i,
                 f'keys {sorted(keys)} but values+guards+pending justify {sorted(sh.present())} after `{req}`')
            continue
        for (k, val, locked, refs) in ents:
            exp_locked = sh.held(k) or bool(sh.queue.get(k))
            if locked != exp_locked:
                fail(['C01', 'C03'], i, f'key {k}: locked={locked} but expected {exp_locked} after `{req}`')
            if refs != sh.refs(k):
                fail(['C04'], i, f'key {k}: {refs} handles but expected {sh.refs(k)} after `{req}`')
            if not locked and not exp_locked:
                if k in sh.vals:
                    exp = f'{sh.vals[k]}@{sh.stamp.get(k, 0)}'
                    if val != exp:
                        if val.split('@')[0] != str(sh.vals[k]):
                            fail(['C02'], i, f'key {k}: stored {val} but last guard left {exp} after `{req}`')
                        else:
                            fail(['C10'], i, f'key {k}: stamp {val} but expected {exp} after `{req}`')
                elif val != '-':
                    fail(['C02'], i, f'key {k}: stored {val} but no value expected after `{req}`')
        if now != sh.now:
            fail(['C10'], i, f'clock {now} vs {sh.now}')
    return fails


EV = re.compile(r'ev\(([^)]*)\)')
SUSP = re.compile(r'susp\(([^)]*)\)')


def cand_checks(sh, kind, cands, limit, i, fail):
    """C07/C09: what an eviction callback may be given, judged when it is invoked; registers the guards"""
    if True:
        if True:
            n_present = len(sh.present())
            # C07: only at the limit, right candidates, not more than needed
            if n_present < limit:
                fail(['C07'], i, f'callback invoked with {n_present} entries < limit {limit}')
            ck = [c[1] for c in cands]
            if len(set(ck)) != len(ck):
                fail(['C07', 'C01'], i, f'duplicate candidates {ck}')
            for (_, c) in cands:
                if c not in sh.vals:
                    fail(['C07'], i, f'candidate {c} has no value')
                if not sh.free(c):
                    fail(['C07', 'C01'], i, f'candidate {c} is locked or reserved by somebody else')
            excess = n_present - (limit - 1)
            eligible = [c for c in sh.vals if sh.free(c)]
            if len(cands) > excess:
                fail(['C07'], i, f'{len(cands)} candidates but only {excess} needed')
            if len(cands) != min(excess, len(eligible)):
                fail(['C07'], i, f'{len(cands)} candidates, expected min(excess {excess}, eligible {len(eligible)})')
            if not cands:
                fail(['C08'], i, 'callback invoked with no guards')
            # C09 (lru): least recently used first
            if kind == 'lru':
                check_lru_order(sh, [c[1] for c in cands], eligible, i, fail)
            for (ch, c) in cands:
                sh.guards[ch] = c


def lock_reply(sh, kind, call, res, i, fail):
    """the reply to a `lock` request, or to the `poll` that resumes a call suspended in its eviction callback"""
    var, h, k, limit, script = call['var'], call['h'], call['k'], call['limit'], call['script']
    trying = var in ('t', 'to', 'ta', 'tao')
    locked_before = call['locked_before']
    if True:
        parts = res.split(' ')
        evs = [p for p in parts if p.startswith('ev(') or p.startswith('susp(')]
        outcome = parts[-1]
        if limit is None and evs:
            fail(['C07'], i, 'eviction callback invoked without a limit')
        cooperative = call['cooperative']
        r0 = call['r']
        for r, ev in enumerate(evs, r0):
            suspending = ev.startswith('susp(')
            body = SUSP.match(ev).group(1) if suspending else EV.match(ev).group(1)
            segs = body.split(';')
            cands = [] if segs[0] == '-' else [tuple(int(x) for x in c.split(':')) for c in segs[0].split(',')]
            rnd = script[r] if r < len(script) else ['ok']
            fin = rnd[-1]
            acts = [a for a in rnd[:-1] if a not in ('recount', 'pend')]
            resumed = call['susp'] is not None
            if resumed:
                # the round whose callback future was pending: same guards, now it does its work
                if cands != call['susp']:
                    fail(['C08', 'C05'], i, f'resumed round works on {cands}, the suspended callback owned {call["susp"]}')
                call['susp'] = None
            if not resumed:
                cand_checks(sh, kind, cands, limit, i, fail)
            if suspending:
                cooperative = False
                if 'pend' not in rnd:
                    fail(['C08'], i, f'round {r} is reported as suspended but its script is {rnd}')
                if r - r0 != len(evs) - 1 or parts[-1] != 'pending':
                    fail(['C08', 'C05'], i, f'suspended in round {r} but the call answered {parts[-1]}')
                call.update(r=r, cooperative=False, susp=cands)
                sh.susp[h] = call
                return
            if 'pend' in rnd and not resumed:
                fail(['C08'], i, f'round {r} has a pending callback future but ran through')
            if fin == 'panic':
                cooperative = False
                for (ch, c) in cands:
                    sh.drop_guard(ch)
                if outcome != 'upanic' or r - r0 != len(evs) - 1:
                    fail(['C15'], i, f'callback panicked in round {r} but the call answered {outcome}')
                continue
            for j, (ch, c) in enumerate(cands):
                a = acts[j] if j < len(acts) else 'rm'
                if a == 'rm':
                    sh.vals.pop(c, None)
                    sh.stamp.pop(c, None)
                    sh.drop_guard(ch)
                elif a == 'keep':
                    cooperative = False
                    sh.drop_guard(ch)
                elif a.startswith('set:'):
                    cooperative = False
                    sh.set_val(c, int(a[4:]), True)
                    sh.drop_guard(ch)
                elif a == 'stash':
                    cooperative = False
            if resumed:
                sh.update_busy(i)
            if 'recount' in rnd:
                m = re.search(r'c=(\d+);k=(\S+)$', body)
                if not m:
                    fail(['C08'], i, 'recount requested but not reported')
                else:
                    seen_k = set() if m.group(2) == '-' else set(int(x) for x in m.group(2).split(','))
                    if int(m.group(1)) != len(sh.present()) or seen_k != sh.present():
                        fail(['C04', 'C08'], i, f're-entrant count/keys {m.group(1)}/{sorted(seen_k)} vs {sorted(sh.present())}')
            if fin == 'err':
                cooperative = False
                if outcome != 'err' or r - r0 != len(evs) - 1:
                    fail(['C08'], i, f'callback failed in round {r} but the call answered {outcome}')
            if fin == 'lpanic':
                # the guards were worked on in place and then dropped by the unwinding: same net effect as above
                cooperative = False
                if outcome != 'upanic' or r - r0 != len(evs) - 1:
                    fail(['C15'], i, f'callback panicked (after working on its guards) in round {r} but the call answered {outcome}')
        if outcome in ('err', 'upanic'):
            if not evs:
                fail(['C08', 'C15'], i, f'{outcome} without a callback invocation')
            return
        if limit is not None:
            # the loop may only stop when there is room or nothing can be evicted
            n_present = len(sh.present())
            if n_present >= limit and any(sh.free(c) for c in sh.vals):
                fail(['C07', 'C05'], i, f'lookup proceeded with {n_present} entries >= limit {limit} although entries were evictable '
                                      f'(variant {var}: every variant must keep evicting until there is room or nothing is evictable)')
        isfree = sh.free(k)
        if outcome == 'guard':
            if sh.held(k):
                fail(['C01', 'C14'], i, f'second guard for key {k} while guard(s) {[g for g, kk in sh.guards.items() if kk == k]} alive')
            elif not isfree:
                fail(['C03', 'C05'], i, f'key {k} acquired ahead of queued waiters {sh.queue.get(k)}')
            sh.guards[h] = k
            sh.begin_use(h, k)
            if limit is not None and cooperative:
                bound = max(limit, locked_before + 1)
                if len(sh.present()) > bound:
                    fail(['C07'], i, f'{len(sh.present())} entries after a cooperative eviction, bound max({limit},{locked_before}+1)')
        elif outcome == 'none':
            if not trying:
                fail(['C05'], i, 'waiting variant answered none')
            if isfree:
                fail(['C05', 'C14', 'C03'], i, f'try on free key {k} failed')
        elif outcome == 'pending':
            if trying:
                fail(['C03', 'C05'], i, 'try variant is pending')
            if isfree:
                fail(['C03', 'C05', 'C14'], i, f'lock of free key {k} is pending')
            sh.pend[h] = k
            sh.queue.setdefault(k, []).append(h)
            sh.begin_use(h, k)
        else:
            raise Fail(f'unknown lock outcome {outcome}')


def check_one(sh, kind, toks, res, i, fail):
    cmd = toks[0]
    if cmd == 'lock':
        var, h, k, h0 = toks[1], int(toks[2]), int(toks[3]), int(toks[4])
        limit, script = None, []
        if toks[5] == 'soft':
            limit = int(toks[6])
            script = [] if toks[7] == '-' else [r.split(',') for r in toks[7].split(';')]
        # keys that are locked, awaited or referenced by a pending acquisition / stream item cannot be evicted
        locked_before = len([c for c in sh.present() if sh.refs(c) > 0 or not sh.free(c)])
        call = dict(var=var, h=h, k=k, limit=limit, script=script, r=0, locked_before=locked_before, cooperative=True, susp=None)
        lock_reply(sh, kind, call, res, i, fail)
    elif cmd == 'poll' and int(toks[1]) in sh.susp:
        # the pending future of the eviction callback is polled again: the call goes on
        lock_reply(sh, kind, sh.susp.pop(int(toks[1])), res, i, fail)
    elif cmd == 'cancel' and int(toks[1]) in sh.susp:
        # the suspended call is abandoned: the callback's future releases its guards untouched
        call = sh.susp.pop(int(toks[1]))
        for (ch, c) in call['susp']:
            sh.drop_guard(ch)
        if res != 'ok':
            fail(['C06'], i, f'cancel answered {res}')
    elif cmd == 'poll':
        h = int(toks[1])
        if h not in sh.pend:
            raise Fail('poll of unknown handle')
        k = sh.pend[h]
        can = (not sh.held(k)) and sh.queue.get(k, [None])[0] == h
        if res == 'guard':
            if sh.held(k):
                fail(['C01', 'C14'], i, f'waiter got key {k} while a guard is alive')
            elif not can:
                fail(['C03'], i, f'waiter overtook the queue {sh.queue.get(k)}')
            del sh.pend[h]
            sh.queue[k].remove(h)
            sh.guards[h] = k
        elif res == 'pending':
            if can:
                fail(['C03', 'C14'], i, f'lost wake-up: key {k} is free and {h} is first in line but still pending')
        else:
            raise Fail(f'poll answered {res}')
    elif cmd == 'cancel':
        h = int(toks[1])
        if h not in sh.pend:
            raise Fail('cancel of unknown handle')
        k = sh.pend.pop(h)
        sh.queue[k].remove(h)
        sh.end_use(h)
        sh.wake(k)
        if res != 'ok':
            fail(['C06'], i, f'cancel answered {res}')
    elif cmd == 'drop':
        h = int(toks[1])
        if h not in sh.guards:
            raise Fail('drop of unknown guard')
        sh.drop_guard(h)
    elif cmd == 'op':
        h = int(toks[1])
        if h not in sh.guards:
            raise Fail('op on unknown guard')
        k = sh.guards[h]
        op = toks[2]
        cur = sh.vals.get(k)
        cur_s = f'some {cur}' if cur is not None else 'nil'
        exp = None
        if op == 'value':
            exp = cur_s
        elif op == 'vmut':
            exp = 'true' if cur is not None else 'false'
            if cur is not None:
                sh.vals[k] = int(toks[3])
        elif op == 'insert':
            exp = cur_s
            sh.set_val(k, int(toks[3]), True)
        elif op == 'tinsert':
            exp = 'false' if cur is not None else 'true'
            if cur is None:
                sh.set_val(k, int(toks[3]), True)
        elif op in ('voi', 'voiw'):
            if cur is None:
                sh.set_val(k, int(toks[3]), True)
            exp = str(sh.vals[k])
        elif op == 'voiwp':
            exp = str(cur) if cur is not None else 'upanic'
        elif op == 'remove':
            exp = cur_s
            sh.vals.pop(k, None)
            sh.stamp.pop(k, None)
        elif op == 'key':
            exp = str(k)
        if res != exp:
            fail(['C15'] if op == 'voiwp' else ['C02', 'C05'], i, f'`{" ".join(toks)}` answered {res}, plain map says {exp}')
    elif cmd == 'count':
        if res != str(len(sh.present())):
            fail(['C04', 'C05', 'C14'], i, f'count {res} vs {len(sh.present())}')
    elif cmd == 'keys':
        got = set() if res == '-' else set(int(x) for x in res.split(','))
        if got != sh.present():
            fail(['C04', 'C05', 'C14'], i, f'keys {sorted(got)} vs {sorted(sh.present())}')
    elif cmd == 'adv':
        sh.now += int(toks[1])
    elif cmd == 'expire':
        d, h0 = int(toks[1]), int(toks[2])
        hs = [] if res == 'hs -' else [tuple(int(x) for x in c.split(':')) for c in res[3:].split(',')]
        got = [c[1] for c in hs]
        exp = set(k for k in sh.vals if sh.free(k) and (d < BIG and sh.stamp.get(k, 0) + d <= sh.now))
        if len(set(got)) != len(got):
            fail(['C10', 'C01'], i, f'expiry returned duplicates {got}')
        for k in got:
            if sh.held(k):
                fail(['C01', 'C10'], i, f'expiry returned key {k} which is locked')
        if set(got) != exp:
            fail(['C10'], i, f'expire({d}) at now={sh.now} returned {sorted(got)}, exactly {sorted(exp)} are idle that long '
                            f'(stamps {dict((k, sh.stamp.get(k)) for k in sh.vals)})')
        for (h, k) in hs:
            sh.guards[h] = k
    elif cmd == 'lockall':
        sid, h0 = int(toks[1]), int(toks[2])
        hs = [] if res == 'hs -' else [tuple(int(x) for x in c.split(':')) for c in res[3:].split(',')]
        if set(c[1] for c in hs) != sh.present() or len(hs) != len(sh.present()):
            fail(['C11'], i, f'stream snapshot {[c[1] for c in hs]} vs present {sorted(sh.present())}')
        sh.streams[sid] = dict(items=dict(hs), ready=[c[0] for c in hs], polled=set(), all=[c[0] for c in reversed(hs)])
    elif cmd == 'spoll':
        sid = int(toks[1])
        st = sh.streams.get(sid)
        if st is None:
            raise Fail('spoll of unknown stream')
        m = re.match(r'item (\S+):(\d+)', res) if res.startswith('item') else None
        target = None
        if m:
            k = int(m.group(2))
            target = int(m.group(1)) if m.group(1).isdigit() else None
            # C11 does not fix the ORDER in which obtainable items are yielded; it fixes WHICH items may be yielded
            if target is None or target not in st['items'] or st['items'][target] != k:
                fail(['C11'], i, f'stream yielded {res}: not an unresolved item of its snapshot {sorted(st["items"].items())}')
                target = None
            else:
                if k not in sh.vals:
                    fail(['C11'], i, f'stream yielded key {k} which has no value')
                if sh.held(k):
                    fail(['C11', 'C01'], i, f'stream yielded key {k} while a guard for it is alive')
                elif target in st['polled']:
                    if sh.queue.get(k, [None])[0] != target:
                        fail(['C11', 'C03'], i, f'stream item {target} overtook the waiters {sh.queue.get(k)} of key {k}')
                elif not sh.free(k):
                    fail(['C11', 'C03'], i, f'stream item {target} got key {k} ahead of the waiters {sh.queue.get(k)}')
        yielded = None
        skipped = []
        while st['ready']:
            w = st['ready'].pop(0)
            if w not in st['items']:
                continue
            k = st['items'][w]
            if w in st['polled']:
                can = (not sh.held(k)) and sh.queue.get(k, [None])[0] == w
                if not can:
                    continue
                if target is not None and w != target and k in sh.vals:
                    skipped.append(w)          # another obtainable item: the implementation chose a different order
                    continue
                sh.queue[k].remove(w)
            else:
                if sh.free(k) and target is not None and w != target and k in sh.vals:
                    skipped.append(w)
                    continue
                st['polled'].add(w)
                if w in st['all']:
                    st['all'].remove(w)
                st['all'].insert(0, w)
                if not sh.free(k):
                    sh.queue.setdefault(k, []).append(w)
                    continue
            # lock obtained: resolved either way
            del st['items'][w]
            if w in st['all']:
                st['all'].remove(w)
            if k in sh.vals:
                sh.guards[w] = k
                yielded = w
                break
            sh.guards[w] = k
            sh.drop_guard(w)     # valueless: dropped right away
        st['ready'] = skipped + st['ready']
        if target is not None and yielded != target:
            # the item was legal but not where the oracle's ready queue had it: take it as the implementation did
            if yielded is not None:
                sh.guards.pop(yielded, None)
                pass
            k = int(m.group(2))
            st['items'].pop(target, None)
            if target in st['all']:
                st['all'].remove(target)
            for q in sh.queue.values():
                if target in q:
                    q.remove(target)
            sh.guards[target] = k
        if not m:
            if yielded is not None:
                fail(['C11'], i, f'spoll answered {res} although item {yielded} (key {sh.guards[yielded]}) has a value and its key is obtainable')
                sh.guards.pop(yielded, None)
            elif res == 'end' and st['items']:
                fail(['C11'], i, f'stream ended with unresolved items {sorted(st["items"].items())}')
                for w1, k1 in list(st['items'].items()):
                    if w1 in sh.queue.get(k1, []):
                        sh.queue[k1].remove(w1)
                st['items'].clear()
                st['ready'] = []
            elif res == 'pending' and not st['items']:
                fail(['C11'], i, 'stream is pending although every item of its snapshot is resolved')
            elif res not in ('end', 'pending'):
                raise Fail(f'spoll answered {res}')
    elif cmd == 'sdrop':
        sid = int(toks[1])
        st = sh.streams.pop(sid, None)
        if st is None:
            raise Fail('sdrop of unknown stream')
        # FuturesUnordered drops its tasks from the head of its all-tasks list
        order = [w for w in st['all'] if w in st['items']] + [w for w in st['items'] if w not in st['all']]
        for w in order:
            k = st['items'].pop(w)
            if w in sh.queue.get(k, []):
                sh.queue[k].remove(w)
            sh.wake(k)
    elif cmd == 'into':
        exp = fmt_list([f'{k}={sh.vals[k]}' for k in sorted(sh.vals)])
        if res != exp:
            fail(['C12'], i, f'into_entries_unordered gave {res}, values are {exp}')
        sh.dead = True
    elif cmd == 'reorder':
        pass
    else:
        raise Fail(f'unknown request {cmd}')


def check_lru_order(sh, cands, eligible, i, fail):
    """C09: if every use of A ended before the last use of B began, A is offered no later than B;
    an unlocked entry is never passed over for one used strictly later.
    'use of B began' = the lookup of a lock call for B (the only thing that refreshes B's recency at its begin);
    'every use of A ended' = A became free (no guard of any origin, no pending acquisition) for the last time."""
    def last_begin(k):
        u = sh.uses.get(k)
        return u[-1][0] if u else -1

    for b in cands:
        for a in eligible:
            if a == b:
                continue
            ea = sh.busy_end.get(a, -1)
            if ea < last_begin(b):
                if a not in cands:
                    fail(['C09'], i, f'key {a} (free since step {ea}) passed over for {b} (last use began at {last_begin(b)})')
                elif cands.index(a) > cands.index(b):
                    fail(['C09'], i, f'key {b} offered before older key {a}')


def split_cases(reqs, reps):
    """-> list of (kind, [(req, rep)], first_line_index)"""
    cases = []
    cur = None
    for idx, (q, p) in enumerate(zip(reqs, reps)):
        if q.startswith('init '):
            cur = (q.split()[1], [], idx)
            cases.append(cur)
        elif q.startswith('sinit '):
            # a scheduled case (threads): kind `sched:<kind>`; judged by tools/schedmode.py
            cur = ('sched:' + q.split()[1], [], idx)
            cases.append(cur)
        if cur is not None:
            cur[1].append((q, p))
    return cases
