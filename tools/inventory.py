#!/usr/bin/env python3
"""
Inventory of panic-capable sites in the non-test library code of /repo (for C13).

The Lean model lists every `expect` / `assert!` / `panic!` of the library as an explicit outcome and proves it
unreachable. A site that is not in the recorded inventory is not covered by that theorem. Sites with a message are
identified by their message, wherever they live and whichever macro raises them; sites without one are counted per kind — so moving code around,
extracting helpers or merging duplicates does not matter (found necessary by the behaviour-preserving refactorings
refA/refC/refE and, second batch, refA/refD; DESIGN.md §8).

  inventory.py            print the current inventory as JSON
  inventory.py --check    compare with tools/panic_sites.json: exit 1 and list sites that are new
  inventory.py --record   rewrite tools/panic_sites.json (done by hand when the model was extended)
"""
import json
import os
import re
import sys

SRC = '/repo/src'
REC = os.path.join(os.path.dirname(os.path.abspath(__file__)), 'panic_sites.json')
SKIP = {'tests.rs', 'verif.rs'}
KINDS = [('expect', re.compile(r'\.expect\(\s*"((?:[^"\\]|\\.)*)"', re.S)),
         ('panic', re.compile(r'\bpanic!\(\s*"((?:[^"\\]|\\.)*)"', re.S)),
         ('assert', re.compile(r'\bassert(?:_eq|_ne)?!\((?:[^;]*?),\s*"((?:[^"\\]|\\.)*)"\s*\)', re.S)),
         ('unwrap', re.compile(r'\.unwrap\(\)()')),
         ('unreachable', re.compile(r'\bunreachable!\(()')),
         ('index', re.compile(r'\w\[[a-z_][a-z_0-9]*\]()'))]


def strip_tests_and_comments(src):
    # cut `#[cfg(test)] mod tests { ... }` to the end of file (always last in this crate) and doc/line comments
    m = re.search(r'#\[cfg\(test\)\]\s*(#\[[^\]]*\]\s*)*mod\s+\w+\s*\{', src)
    if m:
        src = src[:m.start()]
    out = []
    for line in src.split('\n'):
        s = line.strip()
        if s.startswith('//'):
            out.append('')
        else:
            out.append(re.sub(r'\s//.*$', '', line))
    return '\n'.join(out)


def enclosing_fn(src, pos):
    fns = list(re.finditer(r'\bfn\s+(\w+)', src[:pos]))
    return fns[-1].group(1) if fns else '?'


def inventory():
    sites = []
    for d, _, fs in os.walk(SRC):
        for f in sorted(fs):
            if not f.endswith('.rs') or f in SKIP:
                continue
            path = os.path.join(d, f)
            src = strip_tests_and_comments(open(path).read())
            for kind, rx in KINDS:
                for m in rx.finditer(src):
                    msg = re.sub(r'\s+', ' ', m.group(1))[:80]
                    sites.append([os.path.relpath(path, SRC), enclosing_fn(src, m.start()), kind, msg])
    return sorted(sites)


def main():
    inv = inventory()
    if '--record' in sys.argv:
        json.dump(inv, open(REC, 'w'), indent=1)
        print(len(inv), 'sites recorded')
        return 0
    if '--check' in sys.argv:
        rec = json.load(open(REC))
        # A site with a message is known if the recorded inventory has a site with the same message, wherever it now lives
        # and whichever macro raises it (moving an assertion into a helper, merging two identical ones, splitting a
        # function or writing `.expect(m)` as `match … None => panic!(m)` is not a new way to panic). Sites without a message (`unwrap`, `unreachable!`, indexing) are counted per kind.
        known = set(x[3] for x in rec if x[3])
        budget = {}
        for x in rec:
            if not x[3]:
                budget[x[2]] = budget.get(x[2], 0) + 1
        new = []
        for s in inv:
            if s[3]:
                if s[3] not in known:
                    new.append(s)
            else:
                budget[s[2]] = budget.get(s[2], 0) - 1
                if budget[s[2]] < 0:
                    new.append(s)
        print(json.dumps(dict(sites=len(inv), recorded=len(rec), new=new)))
        return 1 if new else 0
    print(json.dumps(inv, indent=1))
    return 0


if __name__ == '__main__':
    sys.exit(main())
