#!/usr/bin/env python3
"""
Inventory of panic-capable sites in the non-test library code of /repo (for C13).

The Lean model lists every `expect` / `assert!` / `panic!` of the library as an explicit outcome and proves it
unreachable. A site that is not in the recorded inventory is not covered by that theorem. Sites are identified by
(file, enclosing fn, kind, message) — not by line number — so moving code around does not matter.

  inventory.py            print the current inventory as JSON
  inventory.py --check    compare with tools/panic_sites.json: exit 1 and list sites that are new
  inventory.py --record   rewrite tools/panic_sites.json (done by hand when the model was extended)
"""
import json
import os
import re
import sys

SRC = '/repo/src'
REC = os.path.join(os.path.dirname(os.path.abspath(__file__)), 'panic_sites.json')
SKIP = {'tests.rs', 'verif.rs'}
KINDS = [('expect', re.compile(r'\.expect\(\s*"((?:[^"\\]|\\.)*)"', re.S)),
         ('panic', re.compile(r'\bpanic!\(\s*"((?:[^"\\]|\\.)*)"', re.S)),
         ('assert', re.compile(r'\bassert(?:_eq|_ne)?!\((?:[^;]*?),\s*"((?:[^"\\]|\\.)*)"\s*\)', re.S)),
         ('unwrap', re.compile(r'\.unwrap\(\)()')),
         ('unreachable', re.compile(r'\bunreachable!\(()')),
         ('index', re.compile(r'\w\[[a-z_][a-z_0-9]*\]()'))]


def strip_tests_and_comments(src):
    # cut `#[cfg(test)] mod tests { ... }` to the end of file (always last in this crate) and doc/line comments
    m = re.search(r'#\[cfg\(test\)\]\s*(#\[[^\]]*\]\s*)*mod\s+\w+\s*\{', src)
    if m:
        src = src[:m.start()]
    out = []
    for line in src.split('\n'):
        s = line.strip()
        if s.startswith('//'):
            out.append('')
        else:
            out.append(re.sub(r'\s//.*$', '', line))
    return '\n'.join(out)


def enclosing_fn(src, pos):
    fns = list(re.finditer(r'\bfn\s+(\w+)', src[:pos]))
    return fns[-1].group(1) if fns else '?'


def inventory():
    sites = []
    for d, _, fs in os.walk(SRC):
        for f in sorted(fs):
            if not f.endswith('.rs') or f in SKIP:
                continue
            path = os.path.join(d, f)
            src = strip_tests_and_comments(open(path).read())
            for kind, rx in KINDS:
                for m in rx.finditer(src):
                    msg = re.sub(r'\s+', ' ', m.group(1))[:80]
                    sites.append([os.path.relpath(path, SRC), enclosing_fn(src, m.start()), kind, msg])
    return sorted(sites)


def main():
    inv = inventory()
    if '--record' in sys.argv:
        json.dump(inv, open(REC, 'w'), indent=1)
        print(len(inv), 'sites recorded')
        return 0
    if '--check' in sys.argv:
        rec = json.load(open(REC))
        pool = [tuple(x) for x in rec]
        new = []
        for s in inv:
            t = tuple(s)
            if t in pool:
                pool.remove(t)
            else:
                new.append(s)
        print(json.dumps(dict(sites=len(inv), recorded=len(rec), new=new)))
        return 1 if new else 0
    print(json.dumps(inv, indent=1))
    return 0


if __name__ == '__main__':
    sys.exit(main())
