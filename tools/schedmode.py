"""
Scheduled (multi-threaded) correspondence stage of ./check and its oracle.

The harness runs real threads one at a time (verif_hooks), the Lean driver interprets the same
programs and schedules (Lockable.Sched); replies are diffed. The oracle below follows every thread
through its program using only the implementation's replies (events + statuses) and checks, at
every scheduling point: at most one guard per key (C01/C14), values seen through guards = what the
previous guard left (C02), key set = valued ∪ keys with a live handle (C04), no hang / deadlock
under deadlock-free programs (C03), no library panic (C13), eviction candidates sound (C07/C08).
"""
import hashlib
import json
import os
import re
import subprocess
import sys

ROOT = os.path.dirname(os.path.dirname(os.path.abspath(__file__)))
HBIN = os.path.join(ROOT, 'harness', 'target', 'release', 'harness')
DRIVER = os.path.join(ROOT, 'lean', '.lake', 'build', 'bin', 'driver')

# which properties get a scheduled stage, and how much:  (sgen cases quick, thorough), (sdfs sets quick, thorough)
SCHED_PROPS = {
    'C01': ((1800, 12000), (18, 150)), 'C02': ((900, 9000), (12, 90)), 'C03': ((900, 9000), (18, 150)),
    'C04': ((900, 9000), (18, 150)), 'C08': ((900, 9000), (12, 90)), 'C13': ((900, 9000), (12, 90)),
    'C14': ((900, 9000), (18, 150)), 'C07': ((450, 4500), (6, 45)), 'C05': ((300, 3000), (3, 30)),
    'C06': ((900, 9000), (18, 150)), 'C12': ((300, 3000), (3, 30)),
    'C10': ((600, 6000), (0, 0)),
    'C11': ((1800, 12000), (12, 90)),
    'C15': ((0, 0), (0, 0)),
}


def read_lines(path, keep_comments=False):
    out = []
    for l in open(path):
        l = l.rstrip('\n')
        if not l.strip():
            continue
        if l.startswith('#') and not keep_comments:
            continue
        out.append(l)
    return out


class Thread:
    def __init__(self, prog):
        self.stmts = [s.strip().split() for s in prog.split(';') if s.strip()]
        self.pc = 0
        self.nslot = 0
        self.slots = {}       # slot -> key (guard alive)
        self.park = 'S'       # S, lookup, key, blocked, cleanup, release, count, keys, D
        self.cur = None       # dict for the lock in progress: slot, key, trying, limit
        self.releasing = None  # (key, kind) kind: 'slot' or 'cand'
        self.cancelling = None
        self.cands = []       # remaining candidates of the running callback [(h,k)]
        self.handle_key = None  # key on which the thread currently owns a not-yet-guard handle (replica/queued/failed)
        self.done_implicit = False
        self.prelocked = False
        self.pending = {}     # slot -> key: manually polled async acquisitions not yet completed
        self.exps = []        # guards of the running expiry call still to be dropped [(h,k)]
        self.exp_cutoff = 0   # clock value the running expiry call read
        # lock_all_entries stream owned by the thread: dict(snap=keys that may have been in the snapshot, yielded=keys yielded,
        # always=snapshot keys that have had a value ever since, blocked=snapshot keys held by one and the same guard ever since)
        self.stream = None
        self.sg = []          # guards the stream yielded and the thread still holds: [(n, key)], oldest first
        self.nsg = 0


class SchedOracle:
    def __init__(self, kind, n):
        self.now = 0          # mock clock (`adv` lines)
        self.stamp = {}       # k -> time of the last `on_unlock` / fresh insert of a valued entry (lru)
        self.kind = kind
        self.threads = [None] * n
        self.vals = {}
        self.guards = {}      # (t, 'slot'|'cand', id) -> key
        self.fails = []

    def fail(self, props, i, msg):
        self.fails.append((props, i, msg))

    def present(self):
        """keys that certainly are in the map: valued, or referenced by a guard / an acquisition in progress"""
        ks = set(self.vals)
        ks |= set(self.guards.values())
        for th in self.threads:
            if th and th.handle_key is not None:
                ks.add(th.handle_key)
            if th:
                ks |= set(th.pending.values())
        return ks

    def stream_keys(self, skip=None):
        """keys an unresolved item of some open stream may refer to. The oracle cannot see an item being resolved silently
        (its entry had no value when it obtained the lock), so this is an upper bound."""
        ks = set()
        for o, oth in enumerate(self.threads):
            if oth and oth.stream is not None and o != skip:
                ks |= oth.stream['snap'] - oth.stream['yielded']
        return ks

    def present_upper(self):
        return self.present() | self.stream_keys()

    def awaited(self, k, but=None, maybe=True, skip_stream=None):
        """some other thread is blocked on k or has a pending async acquisition on k; with `maybe`: or an unresolved stream
        item (of any thread, also `but`) may be queued on / have been handed k"""
        for o, oth in enumerate(self.threads):
            if not oth or o == but:
                continue
            if oth.park == 'blocked' and oth.cur and oth.cur['key'] == k:
                return True
            if k in oth.pending.values():
                return True
        if maybe and k in self.stream_keys(skip=skip_stream):
            return True
        return False

    def held(self, k, maybe=False):
        """a guard for k is alive, or a thread owns the pre-locked placeholder it just inserted for k (between its lookup
        section and the moment the lock call returns the guard). `prelocked` is None when the oracle cannot know whether the key
        was in the map (only a stream item may have referenced it): counted only with `maybe`."""
        if k in self.guards.values():
            return True
        for th in self.threads:
            if th and th.park == 'key' and th.cur and th.cur['key'] == k:
                if th.prelocked or (maybe and th.prelocked is None):
                    return True
        return False

    def value_removed(self, k):
        for th in self.threads:
            if th and th.stream is not None:
                th.stream['always'].discard(k)

    def guard_released(self, k):
        for th in self.threads:
            if th and th.stream is not None:
                th.stream['blocked'].discard(k)

    def expect_skip(self, t, th, evs, i, what):
        ev = evs.pop(0) if evs else None
        if ev != 'skip':
            self.fail(['C05'], i, f'thread {t}: expected skip for {what}, got {ev}')

    def stream_event(self, t, th, ev, i):
        """a completion event of `snext`"""
        st = th.stream
        if ev.startswith('item='):
            k = int(ev[5:])
            if k not in st['snap']:
                self.fail(['C11'], i, f'thread {t}: the stream yielded key {k}, which was neither valued nor in use when the stream was created')
            if k in st['yielded']:
                self.fail(['C11'], i, f'thread {t}: the stream yielded key {k} twice')
            if k not in self.vals:
                self.fail(['C11'], i, f'thread {t}: the stream yielded a guard for key {k}, which has no value')
            if self.held(k):
                self.fail(['C01', 'C11'], i, f'thread {t}: the stream yielded a guard for key {k} while another guard for it is alive')
            st['yielded'].add(k)
            n = th.nsg
            th.nsg += 1
            th.sg.append((n, k))
            self.guards[(t, 'sg', n)] = k
        elif ev == 'snext=end':
            miss = sorted(st['always'] - st['yielded'])
            if miss:
                self.fail(['C11'], i, f'thread {t}: the stream ended without yielding {miss}, which have had a value ever since it was created')
            stuck = sorted(st['blocked'] - st['yielded'])
            if stuck:
                self.fail(['C11'], i, f'thread {t}: the stream ended while its items for {stuck} still wait for a guard that was never dropped')
        elif ev == 'snext=pending':
            left = st['snap'] - st['yielded']
            if not any(self.held(k, maybe=True) or self.awaited(k, skip_stream=t) for k in left):
                self.fail(['C03', 'C11'], i, f'thread {t}: the stream is pending although none of its remaining keys {sorted(left)} is held or awaited by anybody')
        else:
            self.fail(['C05'], i, f'thread {t}: unexpected {ev} for snext')

    def snext_progress(self, t, th, evs, i):
        """-> the `snext` statement is complete"""
        if evs and (evs[0].startswith('item=') or evs[0].startswith('snext=')):
            self.stream_event(t, th, evs.pop(0), i)
            return True
        return False

    def sclose_progress(self, t, th, evs, i):
        if evs and evs[0] == 'sclosed':
            evs.pop(0)
            th.stream = None
            return True
        return False

    def drop_stream_guard(self, t, th):
        (n, k) = th.sg.pop(0)
        th.park = 'release'
        th.releasing = (k, ('sg', n))
        self.begin_release(k)

    # advance thread through hook-free statements
    def advance(self, t, th, evs, i):
        while True:
            if th.pc >= len(th.stmts):
                if th.slots or th.pending:
                    slot = min(list(th.slots) + list(th.pending))
                    if slot in th.slots:
                        k = th.slots.pop(slot)
                        th.park = 'release'
                        th.releasing = (k, ('slot', slot))
                        self.begin_release(k)
                    else:
                        th.park = 'cancel'
                        th.cancelling = slot
                    return
                if th.sg:
                    self.drop_stream_guard(t, th)
                    return
                if th.stream is not None:
                    if not self.sclose_progress(t, th, evs, i):
                        th.park = 'sclose_end'
                        return
                th.park = 'D'
                return
            st = th.stmts[th.pc]
            if st[0] == 'lock':
                th.pc += 1
                slot = th.nslot
                th.nslot += 1
                th.cur = dict(slot=slot, key=int(st[2]), trying=st[1] in ('t', 'to', 'ta', 'tao'),
                              limit=int(st[4]) if len(st) > 3 else None)
                th.park = 'lookup'
                return
            if st[0] == 'expire':
                th.pc += 1
                th.park = 'expire'
                th.exp_cutoff = self.now   # the clock is read before the global lock is taken
                return
            if st[0] == 'alock':
                th.pc += 1
                slot = th.nslot
                th.nslot += 1
                th.cur = dict(slot=slot, key=int(st[2]), trying=False, limit=None, poll=True)
                th.park = 'lookup'
                return
            if st[0] == 'apoll':
                th.pc += 1
                slot = int(st[1])
                ev = evs.pop(0) if evs else None
                if slot not in th.pending:
                    if ev != 'skip':
                        self.fail(['C05'], i, f'thread {t}: expected skip for apoll, got {ev}')
                    continue
                k = th.pending[slot]
                if ev == f'poll{slot}=guard':
                    if self.held(k):
                        self.fail(['C01', 'C14'], i, f'thread {t}: pending acquisition completed on key {k} while a guard for it is alive')
                    del th.pending[slot]
                    th.slots[slot] = k
                    self.guards[(t, 'slot', slot)] = k
                elif ev == f'poll{slot}=pending':
                    if not self.held(k, maybe=True) and not self.awaited(k, but=t) and list(th.pending.values()).count(k) == 1:
                        self.fail(['C03', 'C14'], i, f'thread {t}: lost wake-up: key {k} is free, {t} is the only waiter, still pending')
                else:
                    self.fail(['C05'], i, f'thread {t}: unexpected {ev} for apoll')
                continue
            if st[0] == 'acancel':
                th.pc += 1
                slot = int(st[1])
                if slot not in th.pending:
                    ev = evs.pop(0) if evs else None
                    if ev != 'skip':
                        self.fail(['C05'], i, f'thread {t}: expected skip for acancel, got {ev}')
                    continue
                th.park = 'cancel'
                th.cancelling = slot
                return
            if st[0] == 'op':
                th.pc += 1
                slot = int(st[1])
                ev = evs.pop(0) if evs else None
                if slot not in th.slots:
                    if ev != 'skip':
                        self.fail(['C05'], i, f'thread {t}: expected skip for `{" ".join(st)}`, got {ev}')
                    continue
                k = th.slots[slot]
                exp = self.apply_op(k, st[2:])
                if ev != f'op{slot}={exp}':
                    self.fail(['C02', 'C05'], i, f'thread {t}: `{" ".join(st)}` on key {k} answered {ev}, the previous guard left {exp}')
                continue
            if st[0] == 'drop':
                th.pc += 1
                slot = int(st[1])
                if slot not in th.slots:
                    ev = evs.pop(0) if evs else None
                    if ev != 'skip':
                        self.fail(['C05'], i, f'thread {t}: expected skip for drop, got {ev}')
                    continue
                k = th.slots.pop(slot)
                th.park = 'release'
                th.releasing = (k, ('slot', slot))
                self.begin_release(k)
                return
            if st[0] in ('count', 'keys'):
                th.pc += 1
                th.park = st[0]
                return
            if st[0] in ('sopen', 'sopeno'):
                th.pc += 1
                if th.stream is not None:
                    self.expect_skip(t, th, evs, i, 'sopen')
                    continue
                th.park = 'sopen'
                return
            if st[0] == 'snext':
                th.pc += 1
                if th.stream is None:
                    self.expect_skip(t, th, evs, i, 'snext')
                    continue
                if self.snext_progress(t, th, evs, i):
                    continue
                th.park = 'snext'
                return
            if st[0] == 'sdropg':
                th.pc += 1
                if not th.sg:
                    self.expect_skip(t, th, evs, i, 'sdropg')
                    continue
                self.drop_stream_guard(t, th)
                return
            if st[0] == 'sclose':
                th.pc += 1
                if th.stream is None:
                    self.expect_skip(t, th, evs, i, 'sclose')
                    continue
                if self.sclose_progress(t, th, evs, i):
                    continue
                th.park = 'sclose'
                return
            raise ValueError(st)

    def begin_release(self, k):
        """`on_unlock` stamps a valued entry with the current time, before the global lock is taken"""
        if k in self.vals:
            self.stamp[k] = self.now

    def apply_op(self, k, op):
        cur = self.vals.get(k)
        if op[0] == 'insert' or (op[0] in ('tinsert', 'voi', 'voiw') and cur is None):
            self.stamp[k] = self.now   # a freshly stored value is stamped
        cs = f'some {cur}' if cur is not None else 'nil'
        o = op[0]
        if o == 'value':
            return cs
        if o == 'vmut':
            if cur is not None:
                self.vals[k] = int(op[1])
                return 'true'
            return 'false'
        if o == 'insert':
            self.vals[k] = int(op[1])
            return cs
        if o == 'tinsert':
            if cur is None:
                self.vals[k] = int(op[1])
                return 'true'
            return 'false'
        if o in ('voi', 'voiw'):
            if cur is None:
                self.vals[k] = int(op[1])
            return str(self.vals[k])
        if o == 'remove':
            self.vals.pop(k, None)
            self.value_removed(k)
            return cs
        if o == 'key':
            return str(k)
        raise ValueError(op)

    def got_guard(self, t, th, evs, i):
        c = th.cur
        ev = evs.pop(0) if evs else None
        if ev != f"lock{c['slot']}=guard":
            self.fail(['C05'], i, f'thread {t}: expected lock{c["slot"]}=guard, got {ev}')
        th.prelocked = False
        if self.held(c['key']):
            self.fail(['C01', 'C14'], i, f'thread {t} got a guard for key {c["key"]} while another guard for it is alive: '
                                        f'{[g for g, k in self.guards.items() if k == c["key"]]}')
        self.guards[(t, 'slot', c['slot'])] = c['key']
        th.slots[c['slot']] = c['key']
        th.handle_key = None
        th.cur = None
        self.advance(t, th, evs, i)

    def next_cand(self, t, th):
        if th.cands:
            (h, k) = th.cands.pop(0)
            self.vals.pop(k, None)          # cooperative callback: remove()
            self.value_removed(k)
            th.park = 'release'
            th.releasing = (k, ('cand', h))
            self.begin_release(k)
        else:
            th.park = 'lookup'              # the loop runs again

    def next_exp(self, t, th, evs, i):
        """the guards an expiry call returned are dropped one after the other (their values stay)"""
        if th.exps:
            (h, k) = th.exps.pop(0)
            th.park = 'release'
            th.releasing = (k, ('exp', h))
            self.begin_release(k)
        else:
            self.advance(t, th, evs, i)

    def step(self, t, res, statuses, i):
        th = self.threads[t]
        evs = [] if res == '-' else re.split(r',(?=lock\d+=|poll\d+=|op\d+=|count=|keys=|ev=|exp=|skip|sopen|item=|snext=|sclosed|panic:|upanic|poisoned)', res)
        if any(e.startswith('panic:') or e == 'poisoned' for e in evs):
            self.fail(['C13'], i, f'thread {t}: library panic {evs}')
            th.park = 'D'
            return
        if th.park == 'S':
            self.advance(t, th, evs, i)
        elif th.park == 'lookup':
            c = th.cur
            if evs and evs[0].startswith('ev='):
                ev = evs.pop(0)
                cands = [tuple(int(x) for x in p.split(':')) for p in ev[3:].split(',')]
                n_present = len(self.present_upper())
                if c['limit'] is None:
                    self.fail(['C07'], i, 'callback without limit')
                else:
                    if n_present < c['limit']:
                        self.fail(['C07'], i, f'callback invoked with {n_present} entries < limit {c["limit"]}')
                    if len(cands) > n_present - (c['limit'] - 1):
                        self.fail(['C07'], i, f'{len(cands)} candidates, only {n_present - (c["limit"] - 1)} needed')
                ks = [k for _, k in cands]
                if len(set(ks)) != len(ks):
                    self.fail(['C07', 'C01'], i, f'duplicate candidates {ks}')
                for (h, k) in cands:
                    if k not in self.vals:
                        self.fail(['C07'], i, f'candidate {k} has no value')
                    if self.held(k):
                        self.fail(['C01', 'C07'], i, f'candidate {k} is held by another guard')
                    self.guards[(t, 'cand', h)] = k
                th.cands = cands
                self.next_cand(t, th)
            else:
                th.prelocked = (False if c['key'] in self.present() else None if c['key'] in self.present_upper() else True)
                th.handle_key = c['key']
                th.park = 'key'
        elif th.park == 'expire':
            ev = evs.pop(0) if evs else ''
            if not ev.startswith('exp='):
                self.fail(['C10'], i, f'thread {t}: expected the result of the expiry call, got {ev}')
                th.park = 'D'
                return
            got = [] if ev[4:] == '-' else [tuple(int(x) for x in p.split(':')) for p in ev[4:].split(',')]
            # d = 0: exactly the entries that have a value, whose mutex is free (no guard, not handed to a waiter) and that were
            # last unlocked at or before the moment the expiring thread read the clock
            want = set(k for k in self.vals if not self.held(k, maybe=True) and not self.awaited(k)
                       and self.stamp.get(k, 0) <= th.exp_cutoff)
            # with streams around the oracle only has bounds: an unresolved item may or may not own the mutex
            want_upper = set(k for k in self.vals if not self.held(k) and not self.awaited(k, maybe=False)
                             and self.stamp.get(k, 0) <= th.exp_cutoff)
            gk = [k for _, k in got]
            if len(set(gk)) != len(gk) or not (want <= set(gk) <= want_upper):
                self.fail(['C10'], i, f'thread {t}: expiry(0) with the clock read at {th.exp_cutoff} returned guards for {gk}, exactly '
                                      f'{sorted(want)} are unlocked, have a value and were last unlocked by then (stamps {self.stamp})')
            for (h, k) in got:
                if self.held(k):
                    self.fail(['C01', 'C10'], i, f'thread {t}: expiry returned a guard for key {k} while another guard for it is alive')
                self.guards[(t, 'exp', h)] = k
            th.exps = got
            self.next_exp(t, th, evs, i)
        elif th.park == 'key':
            c = th.cur
            st = statuses.get(t)
            if c.get('poll') and evs and evs[0] == f"lock{c['slot']}=pending":
                evs.pop(0)
                if not self.held(c['key'], maybe=True) and not self.awaited(c['key'], but=t):
                    self.fail(['C03', 'C14'], i, f'thread {t}: async lock of key {c["key"]} is pending although nobody holds or awaits it')
                th.pending[c['slot']] = c['key']
                th.handle_key = None
                th.prelocked = False
                th.cur = None
                self.advance(t, th, evs, i)
            elif evs and evs[0].startswith('lock'):
                self.got_guard(t, th, evs, i)
            elif st in ('B', 'W'):
                if c['trying']:
                    self.fail(['C03', 'C05'], i, f'thread {t}: a try variant waits')
                if not self.held(c['key'], maybe=True) and st == 'B':
                    # nobody holds the key, yet the thread sleeps: only legal if a waiter in front of it was handed the lock
                    if not self.awaited(c['key'], but=t):
                        self.fail(['C03', 'C14'], i, f'thread {t} blocks on key {c["key"]} which nobody holds or awaits')
                th.park = 'blocked'
            elif st == 'G':
                if not c['trying']:
                    self.fail(['C05'], i, f'thread {t}: waiting variant went to a clean-up section')
                if not self.held(c['key'], maybe=True) and not self.awaited(c['key'], but=t):
                    self.fail(['C05', 'C14', 'C03'], i, f'thread {t}: try on key {c["key"]} failed although nobody holds or awaits it')
                th.park = 'cleanup'
            else:
                self.fail(['C05'], i, f'thread {t}: unexpected status {st} after the key operation')
                th.park = 'D'
        elif th.park == 'blocked':
            if evs and evs[0].startswith('lock'):
                self.got_guard(t, th, evs, i)
            # else: still blocked
        elif th.park == 'cleanup':
            c = th.cur
            ev = evs.pop(0) if evs else None
            if ev != f"lock{c['slot']}=none":
                self.fail(['C05'], i, f'thread {t}: expected lock{c["slot"]}=none, got {ev}')
            th.handle_key = None
            th.cur = None
            self.advance(t, th, evs, i)
        elif th.park == 'sopen':
            ev = evs.pop(0) if evs else None
            if ev != 'sopen':
                self.fail(['C05'], i, f'thread {t}: expected sopen, got {ev}')
            th.stream = dict(snap=set(self.present_upper()), yielded=set(), always=set(self.vals),
                             blocked=set(k for k in self.guards.values()))
            self.advance(t, th, evs, i)
        elif th.park == 'snext':
            if self.snext_progress(t, th, evs, i):
                self.advance(t, th, evs, i)
        elif th.park in ('sclose', 'sclose_end'):
            if self.sclose_progress(t, th, evs, i):
                if th.park == 'sclose_end':
                    th.park = 'D'
                else:
                    self.advance(t, th, evs, i)
        elif th.park == 'release':
            k, ident = th.releasing
            self.guards.pop((t,) + ident, None)
            self.guard_released(k)
            th.releasing = None
            if ident[0] == 'cand':
                self.next_cand(t, th)
            elif ident[0] == 'exp':
                self.next_exp(t, th, evs, i)
            else:
                self.advance(t, th, evs, i)
        elif th.park == 'cancel':
            th.pending.pop(th.cancelling, None)
            th.cancelling = None
            self.advance(t, th, evs, i)
        elif th.park in ('count', 'keys'):
            ev = evs.pop(0) if evs else ''
            pres = self.present()
            upper = self.present_upper()
            if th.park == 'count':
                m = re.match(r'count=(\d+)$', ev)
                if not m or not (len(pres) <= int(m.group(1)) <= len(upper)):
                    self.fail(['C04', 'C14'], i, f'thread {t}: {ev} but {sorted(pres)} are valued or in use'
                              + (f' (and at most {sorted(upper - pres)} are referenced by stream items)' if upper != pres else ''))
            else:
                got = ev[5:] if ev.startswith('keys=') else '?'
                gs = set() if got == '-' else set(int(x) for x in got.split(',') if x != '?')
                if not (pres <= gs <= upper):
                    self.fail(['C04', 'C14'], i, f'thread {t}: {ev} but {sorted(pres)} are valued or in use'
                              + (f' (and at most {sorted(upper - pres)} are referenced by stream items)' if upper != pres else ''))
            self.advance(t, th, evs, i)
        if evs:
            self.fail(['C05'], i, f'thread {t}: unexplained events {evs}')


def snap_entries(snap):
    if not snap or not snap.startswith('['):
        return None
    m = re.match(r'\[(.*)\] now=', snap)
    if not m:
        return None
    body_s = m.group(1).strip()
    return [x.split(':') for x in body_s.split(' ')] if body_s else []


def ghost_check(orc, snap, i, q):
    """independent of the emulator: an entry without value that is unlocked and referenced by nobody (invariant 2 of the source)
    is a key that is neither valued nor in use"""
    ents = snap_entries(snap)
    for e in ents or []:
        if len(e) >= 4 and e[2] == 'U' and e[1] == '-' and e[3] == '0':
            orc.fail(['C04', 'C13', 'C14'], i, f'after `{q}`: key {e[0]} is listed although it has no value and nobody references or locks it')


def quiescent_check(orc, snap, i, q):
    """all threads are done: every guard and pending acquisition is gone, exactly the valued keys remain, unlocked"""
    ents = snap_entries(snap)
    for e in ents or []:
        if len(e) >= 4 and (e[1] == '-' or e[2] != 'U' or e[3] != '0'):
            orc.fail(['C04', 'C14', 'C06'], i, f'all threads are done but key {e[0]} is {":".join(e[1:])} (value:lock:handles)')


def check_sched_case(lines):
    """lines: list of (request, reply) of one scheduled case. -> (fails, nontrivial flags)"""
    q0 = lines[0][0].split()
    kind, n = q0[1], int(q0[2])
    orc = SchedOracle(kind, n)
    flags = dict(blocked=False, switches=0, failed_try=False, evict=False)
    last_t = None
    dead = False
    unprot = False
    for i, (q, p) in enumerate(lines[1:], 1):
        toks = q.split()
        res, snap = (p.split(' | ', 1) + [None])[:2] if ' | ' in p else (p, None)
        if toks[0] == 'prog':
            orc.threads[int(toks[1])] = Thread(q.split(' ', 2)[2])
            continue
        if toks[0] == 'adv':
            orc.now += int(toks[1])
            continue
        if toks[0] == 'reorder':
            continue
        if toks[0] != 'step' or dead:
            continue
        t = int(toks[1])
        if last_t is not None and last_t != t:
            flags['switches'] += 1
        last_t = t
        body, _, sts = res.partition(' ; ')
        statuses = {}
        for s in sts.split():
            a, b = s.split(':')
            statuses[int(a)] = b
        if body.startswith('hang'):
            orc.fail(['C03', 'C13', 'C08'], i, f'thread {t} did not reach its next hook point (hang while running `{q}`)')
            dead = True
            continue
        if body.startswith('notrunnable') or body.startswith('bad'):
            continue
        if 'U' in statuses.values() and not unprot:
            # a per-key mutex is released / a waiter woken outside the global lock: the unchanged library never does
            # that. The emulator below assumes atomic sections, so from here on only the state-based checks
            # (which do not depend on it) are evaluated; the deviation itself is reported by the model comparison.
            unprot = True
            flags['unprotected'] = True
        if unprot:
            ghost_check(orc, snap, i, q)
            if snap and snap.startswith('[poisoned]'):
                orc.fail(['C13'], i, 'global lock poisoned')
            if 'panic' in body:
                orc.fail(['C13'], i, f'thread {t} panicked: {body[:200]}')
            if statuses and all(c == 'D' for c in statuses.values()):
                quiescent_check(orc, snap, i, q)
            continue
        if 'B' in statuses.values() or 'W' in statuses.values():
            flags['blocked'] = True
        if '=none' in body:
            flags['failed_try'] = True
        if 'ev=' in body:
            flags['evict'] = True
        if 'item=' in body or 'snext=pending' in body:
            flags['stream'] = True
        try:
            orc.step(t, body, statuses, i)
        except Exception as e:  # oracle cannot follow
            orc.fail(['C05'], i, f'oracle cannot follow the trace: {e!r}')
            dead = True
            continue
        ghost_check(orc, snap, i, q)
        # accounting at every scheduling point
        if snap and snap.startswith('['):
            m = re.match(r'\[(.*)\] now=', snap)
            if m:
                keys = set()
                body_s = m.group(1).strip()
                ents = [x.split(':') for x in body_s.split(' ')] if body_s else []
                keys = set(int(e[0]) for e in ents)
                pres = orc.present()
                upper = orc.present_upper()
                if not (pres <= keys <= upper):
                    orc.fail(['C04', 'C14', 'C06', 'C11'] if upper != pres else ['C04', 'C14', 'C06'], i,
                             f'after `{q}`: keys {sorted(keys)} but valued ∪ in-use = {sorted(pres)}'
                             + (f' (and at most {sorted(upper - pres)} are referenced by stream items)' if upper != pres else ''))
                for e in ents:
                    k = int(e[0])
                    if e[2] == 'U' and e[1] != '?':
                        exp = orc.vals.get(k)
                        got = None if e[1] == '-' else int(e[1].split('@')[0])
                        if got != exp:
                            orc.fail(['C02'], i, f'after `{q}`: key {k} stores {got}, the last guard left {exp}')
                    if e[2] == 'U' and orc.held(k):
                        orc.fail(['C01'], i, f'after `{q}`: key {k} unlocked while a guard for it is alive')
        elif snap and snap.startswith('[poisoned]'):
            orc.fail(['C13'], i, 'global lock poisoned')
    # end of case: deadlock-free programs must all finish
    if not dead and lines:
        unfinished = [t for t, th in enumerate(orc.threads) if th and th.park != 'D']
        # a case is cut only by the generator when no thread is runnable
        if unfinished and lines[-1][0].startswith('step') and all(
                (orc.threads[t].park == 'blocked') for t in unfinished):
            orc.fail(['C03', 'C08'], len(lines) - 1, f'threads {unfinished} are blocked forever under a deadlock-free program')
    return orc.fails, flags


def split_sched_cases(reqs, reps):
    cases, cur = [], None
    for q, p in zip(reqs, reps):
        if q.startswith('sinit '):
            cur = []
            cases.append(cur)
        if cur is not None:
            cur.append((q, p))
    return cases


def run_one(cmd, tag, work, timeout):
    ops, imp, mod, st = (os.path.join(work, f'{tag}.{e}') for e in ('ops', 'impl', 'model', 'stats.json'))
    full = [HBIN] + cmd + ['--ops', ops, '--out', imp, '--stats', st]
    hung = False
    try:
        p = subprocess.run(full, stdout=subprocess.PIPE, stderr=subprocess.STDOUT, text=True, timeout=timeout)
        ok, log = p.returncode == 0, p.stdout[-400:]
    except subprocess.TimeoutExpired:
        ok, hung, log = False, True, 'sched harness timed out'
    res = dict(tag=tag, ok=ok, hung=hung, log=log, cases=0, steps=0, disagreements=[], fails=[], nontrivial=set(), stats=None, sample=None)
    if not os.path.exists(ops) or not os.path.exists(imp):
        res['ok'] = False
        return res
    with open(ops) as fi, open(mod, 'w') as fo:
        subprocess.run([DRIVER], stdin=fi, stdout=fo, timeout=1200)
    reqs = read_lines(ops)
    reps = [l.rstrip('\n') for l in open(imp)]
    mods = [l.rstrip('\n') for l in open(mod)]
    n = min(len(reqs), len(reps))
    idx = 0
    cases = split_sched_cases(reqs[:n], reps[:n])
    res['cases'] = len(cases)
    pos = 0
    for case in cases:
        # model vs implementation
        base = pos
        pos += len(case)
        for j, (q, p) in enumerate(case):
            m = mods[base + j] if base + j < len(mods) else '<no model reply>'
            if p != m:
                res['disagreements'].append(dict(kind=case[0][0].split()[1], line=j, request=q, impl=p, model=m,
                                                 history=[x[0] for x in case[:j + 1]]))
                break
        fails, flags = check_sched_case(case)
        res['steps'] += sum(1 for q, _ in case if q.startswith('step'))
        for props, j, msg in fails:
            res['fails'].append(dict(kind='sched', props=props, line=j, msg=msg, history=[x[0] for x in case[:j + 1]], no_min=True))
        if flags['switches'] >= 2 and (flags['blocked'] or flags['failed_try'] or flags['evict'] or flags.get('stream')):
            res['nontrivial'].add(hashlib.sha1('\n'.join(q for q, _ in case).encode()).hexdigest()[:16])
    if hung and len(reps) < len(reqs):
        res['fails'].append(dict(kind='sched', props=['C03', 'C13'], line=0, msg='scheduled harness hung', history=reqs[max(0, len(reps) - 30):len(reps) + 1], no_min=True))
    if os.path.exists(st):
        try:
            res['stats'] = json.load(open(st))
        except Exception:
            pass
    if cases:
        c = cases[len(cases) // 2]
        res['sample'] = [f'{q}  =>  {p}' for q, p in c[:16]]
    return res


def run(pid, tier, seed, work):
    if pid not in SCHED_PROPS or not os.path.exists(HBIN):
        return dict(ok=True, fails=[], info={})
    (gq, gt), (dq, dt) = SCHED_PROPS[pid]
    ncases = gq if tier == 'quick' else gt
    nsets = dq if tier == 'quick' else dt
    jobs = []
    kinds = ['pool'] if pid == 'C14' else (['lru'] if pid == 'C10' else ['lru', 'hashmap'] if pid == 'C11' else ['lru', 'hashmap', 'pool'])
    profile = 'limit' if pid in ('C07', 'C08') else ('cancel' if pid in ('C06', 'C13', 'C04', 'C12') else 'stream' if pid == 'C11' else 'mixed')
    sd = int(hashlib.sha256(f'{seed}/{pid}/sched'.encode()).hexdigest()[:8], 16)
    if ncases:
        per = max(1, ncases // len(kinds))
        for k in kinds:
            prof = profile if (k != 'pool' or profile == 'cancel') else 'pool'
            jobs.append((['sgen', '--seed', str(sd), '--cases', str(per), '--kind', k, '--threads', '0', '--stmts', '8' if prof == 'stream' else '5',
                          '--profile', prof], f'sg_{k}'))
            if pid in ('C01', 'C03', 'C04', 'C06') and k != 'pool':
                # threads that own a lock_all_entries stream next to ordinary lockers: items queued behind guards, woken by
                # other threads' releases, cancelled when the stream is dropped
                jobs.append((['sgen', '--seed', str(sd + 3), '--cases', str(max(1, per // 3)), '--kind', k, '--threads', '0', '--stmts', '8',
                              '--profile', 'stream'], f'sgs_{k}'))
            if profile != 'cancel' and pid in ('C01', 'C02', 'C03', 'C14'):
                # abandoned acquisitions next to live ones: the deep mutual-exclusion failures need them (seeded C01_A/B)
                for j in range(3 if pid == 'C01' else 1):
                    jobs.append((['sgen', '--seed', str(sd + 7 + 13 * j), '--cases', str(max(1, per if pid == 'C01' else per // 2)),
                                  '--kind', k, '--threads', '0', '--stmts', '5', '--profile', 'cancel'], f'sgc{j}_{k}'))
    if ncases and pid == 'C01':
        # a soft-limited locker scanning while other threads are between lookup and per-key lock (seeded C01_B)
        for k in ('lru', 'hashmap'):
            for j in range(2):
                jobs.append((['sgen', '--seed', str(sd + 101 + 17 * j), '--cases', str(max(1, ncases // 3)), '--kind', k, '--threads', '0',
                              '--stmts', '5', '--profile', 'limit'], f'sgl{j}_{k}'))
    if nsets:
        for k in kinds:
            jobs.append((['sdfs-gen', '--seed', str(sd + 1), '--count', str(max(1, nsets // len(kinds))), '--kind', k,
                          '--max-schedules', '400' if tier == 'quick' else '3000'] + (['--streams', '60'] if pid == 'C11' else []), f'sd_{k}'))
    import concurrent.futures as cf
    results = []
    with cf.ThreadPoolExecutor(max_workers=14) as ex:
        futs = [ex.submit(run_one, cmd, tag, work, 240 if tier == 'quick' else 1800) for cmd, tag in jobs]
        for f in futs:
            results.append(f.result())
    fails = [f for r in results for f in r['fails']]
    dis = [d for r in results for d in r['disagreements']]
    info = dict(schedules=sum(r['cases'] for r in results), steps=sum(r['steps'] for r in results),
                disagreements=len(dis), oracle_failures=len(fails),
                distinct_nontrivial=len(set().union(*[r['nontrivial'] for r in results])) if results else 0,
                nontrivial_rule='scheduled case with >= 2 context switches and a blocked thread, a failed try, an eviction or a stream that yielded / was pending',
                runs=[dict(tag=r['tag'], cases=r['cases'], steps=r['steps'], ok=r['ok'],
                           stats={k: v for k, v in (r['stats'] or {}).items() if isinstance(v, (int, float, bool))}) for r in results])
    out = dict(ok=not dis and all(r['ok'] for r in results), fails=fails, info=info,
               samples=[r['sample'] for r in results if r['sample']][:2])
    if dis:
        d = min(dis, key=lambda x: len(x['history']))
        out['divergence'] = d['history']
        info['first_divergence'] = dict(request=d['request'], impl=d['impl'], model=d['model'])
    return out
