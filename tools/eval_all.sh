#!/bin/bash
# re-evaluate every seeded change against the check of its property (applies/undoes the patch in /repo)
cd /verif
for d in seeded/*_*/; do
  n=$(basename $d)
  timeout 1500 python3 tools/seeded.py eval $n > work/eval_$n.json 2>&1
  python3 - <<PY
import json
try:
    d=json.load(open('work/eval_$n.json'))
    for p,v in d.items():
        r=v.get('replay') or {}
        print('$n',p,'exit',v['exit'],v['wall_s'],'s |',(v['violation_line'] or 'NO VIOLATION LINE')[:100])
except Exception as e:
    print('$n','ERR',open('work/eval_$n.json').read()[-200:])
PY
done
git -C /repo status --short
