"""
Per-property configuration of ./check: which generator profiles to run at which budget,
what makes a history non-trivial for the property, assumptions recorded in the evidence.
gen entries: (kind, profile, cases, maxlen, repetitions with different seeds)
"""
import re
import json
import hashlib
import importlib
import os
import sys


def G(quick, thorough):
    return dict(quick=quick, thorough=thorough)


MIX_Q = [('hashmap', 'mixed', 360, 50, 1), ('lru', 'mixed', 360, 50, 1), ('pool', 'pool', 240, 40, 1)]
MIX_T = [('hashmap', 'mixed', 600, 70, 8), ('lru', 'mixed', 600, 70, 8), ('pool', 'pool', 400, 60, 4)]

PROPS = {
    'C01': dict(gen=G(MIX_Q + [('hashmap', 'cancel', 300, 50, 1), ('lru', 'stream', 300, 50, 1)],
                      MIX_T + [('hashmap', 'cancel', 500, 70, 3), ('lru', 'stream', 500, 70, 3), ('lru', 'limit', 500, 70, 3)]),
                rule='generated sequential histories (harness gen, profiles mixed/cancel/stream[/limit]) + scheduled thread interleavings; '
                     'non-trivial = the history contains contention on a key (a lock answered none/pending, or a poll)'),
    'C02': dict(gen=G(MIX_Q + [('lru', 'limit', 300, 50, 1)], MIX_T + [('lru', 'limit', 500, 70, 3), ('hashmap', 'cancel', 500, 70, 2)]),
                rule='non-trivial = a value is written or removed through a guard and the key is locked again later in the history'),
    'C03': dict(gen=G(MIX_Q + [('hashmap', 'cancel', 300, 50, 1)], MIX_T + [('hashmap', 'cancel', 600, 70, 3), ('lru', 'stream', 500, 70, 3)]),
                rule='non-trivial = a pending acquisition is later completed by poll (hand-off), or a queued waiter is cancelled'),
    'C04': dict(gen=G(MIX_Q + [('hashmap', 'cancel', 300, 50, 1)], MIX_T + [('hashmap', 'cancel', 600, 70, 3), ('lru', 'stream', 500, 70, 2)]),
                rule='non-trivial = count/keys/snapshot observed while a valueless key is present, or after a failed try / cancel'),
    'C05': dict(gen=G(MIX_Q + [('lru', 'limit', 300, 50, 1)], MIX_T + [('lru', 'limit', 500, 70, 3), ('hashmap', 'limit', 500, 70, 3)]),
                rule='non-trivial = history uses at least 3 acquisition variants and 3 kinds of guard operations'),
    'C06': dict(gen=G([('hashmap', 'cancel', 450, 50, 1), ('lru', 'cancel', 450, 50, 1), ('pool', 'pool', 240, 40, 1), ('lru', 'stream', 300, 50, 1)],
                      [('hashmap', 'cancel', 800, 70, 4), ('lru', 'cancel', 800, 70, 4), ('pool', 'pool', 400, 60, 2), ('lru', 'stream', 600, 70, 3), ('lru', 'mixed', 400, 70, 2)]),
                rule='non-trivial = a pending acquisition is cancelled or a stream with unresolved items is dropped'),
    'C07': dict(gen=G([('hashmap', 'limit', 450, 50, 1), ('lru', 'limit', 450, 50, 1), ('lru', 'mixed', 240, 50, 1)],
                      [('hashmap', 'limit', 800, 70, 4), ('lru', 'limit', 800, 70, 4), ('lru', 'mixed', 400, 70, 2)]),
                rule='non-trivial = the eviction callback is invoked at least once'),
    'C08': dict(gen=G([('hashmap', 'limit', 450, 50, 1), ('lru', 'limit', 450, 50, 1), ('hashmap', 'mixed', 240, 50, 1)],
                      [('hashmap', 'limit', 800, 70, 4), ('lru', 'limit', 800, 70, 4), ('hashmap', 'mixed', 400, 70, 2)]),
                rule='non-trivial = a callback returns an error or re-enters the container, or a limited lock proceeds over the limit'),
    'C09': dict(gen=G([('lru', 'limit', 600, 50, 2), ('lru', 'mixed', 240, 50, 1)], [('lru', 'limit', 800, 70, 6), ('lru', 'mixed', 400, 70, 2)]),
                rule='non-trivial = an lru eviction round with at least 2 eligible entries'),
    'C10': dict(gen=G([('lru', 'expire', 600, 50, 2), ('lru', 'mixed', 240, 50, 1)], [('lru', 'expire', 800, 70, 6), ('lru', 'mixed', 400, 70, 2)]),
                rule='non-trivial = an expiry call returns at least one guard while another valued entry is not returned'),
    'C11': dict(gen=G([('lru', 'stream', 450, 50, 1), ('hashmap', 'stream', 450, 50, 1), ('hashmap', 'mixed', 240, 50, 1)],
                      [('lru', 'stream', 800, 70, 4), ('hashmap', 'stream', 800, 70, 4), ('hashmap', 'mixed', 400, 70, 2)]),
                rule='non-trivial = a stream yields an item or is pending behind a holder'),
    'C12': dict(gen=G(MIX_Q[:2] + [('hashmap', 'cancel', 300, 50, 1), ('lru', 'limit', 300, 50, 1)],
                      MIX_T[:2] + [('hashmap', 'cancel', 500, 70, 3), ('lru', 'limit', 500, 70, 3), ('lru', 'stream', 500, 70, 2)]),
                rule='non-trivial = into_entries_unordered returns at least one pair after a history with a failed try, cancel, eviction or stream'),
    'C13': dict(gen=G(MIX_Q + [('hashmap', 'cancel', 240, 50, 1), ('lru', 'limit', 240, 50, 1), ('lru', 'expire', 240, 50, 1), ('lru', 'stream', 240, 50, 1)],
                      MIX_T + [('hashmap', 'cancel', 500, 70, 3), ('lru', 'limit', 500, 70, 3), ('lru', 'expire', 500, 70, 3), ('lru', 'stream', 500, 70, 3)]),
                rule='non-trivial = history of at least 10 requests executed with slow_assertions enabled'),
    'C14': dict(gen=G([('pool', 'pool', 900, 50, 2)], [('pool', 'pool', 1500, 70, 6)]),
                rule='non-trivial = a pool history with contention (none/pending/poll/cancel)'),
    'C15': dict(gen=G([('hashmap', 'limit', 450, 50, 1), ('lru', 'limit', 450, 50, 1), ('hashmap', 'mixed', 240, 50, 1)],
                      [('hashmap', 'limit', 800, 70, 4), ('lru', 'limit', 800, 70, 4), ('hashmap', 'mixed', 400, 70, 2)]),
                rule='non-trivial = a user callback panics (eviction round or value_or_insert_with closure)'),
}


def nontrivial_hashes(kind, pairs):
    """-> {pid: set(hash)} for one case; every rule is evaluated on the implementation's trace"""
    reqs = [q for q, _ in pairs]
    res = [p.split(' | ')[0] for _, p in pairs]
    h = hashlib.sha1('\n'.join(reqs).encode()).hexdigest()[:16]
    out = {}

    def mark(pid):
        out.setdefault(pid, set()).add(h)

    locks = [(q.split(), r) for q, r in zip(reqs, res) if q.startswith('lock ')]
    contention = any(r.split(' ')[-1] in ('none', 'pending') for _, r in locks) or any(q.startswith('poll') for q in reqs)
    evs = [r for _, r in locks if 'ev(' in r]
    cancels = any(q.startswith('cancel') for q in reqs)
    if contention:
        mark('C01')
        if kind == 'pool':
            mark('C14')
    writes = [q.split()[1] for q in reqs if q.startswith('op ') and q.split()[2] in ('insert', 'remove', 'vmut', 'tinsert', 'voi', 'voiw')]
    if writes and len(locks) >= 2:
        mark('C02')
    if any(q.startswith('poll') and r == 'guard' for q, r in zip(reqs, res)) or cancels:
        mark('C03')
    if any(':-:' in p or ':?:' in p for _, p in pairs) and (any(r.endswith('none') for _, r in locks) or cancels or
                                                               any(q in ('count', 'keys') for q in reqs)):
        mark('C04')
    variants = set(t[1] for t, _ in locks)
    opk = set(q.split()[2] for q in reqs if q.startswith('op '))
    if len(variants) >= 3 and len(opk) >= 3:
        mark('C05')
    if cancels or any(q.startswith('sdrop') for q in reqs):
        mark('C06')
    if evs:
        mark('C07')
        if kind == 'lru' and any(',' in e for e in evs):
            mark('C09')
    if any(r.endswith(' err') or ';c=' in r for _, r in locks) or any(t[5] == 'soft' and 'ev(' not in r for t, r in locks if len(t) > 5):
        mark('C08')
    if any(q.startswith('expire') and r != 'hs -' for q, r in zip(reqs, res)):
        mark('C10')
    if any(q.startswith('spoll') and r != 'end' for q, r in zip(reqs, res)):
        mark('C11')
    if any(q == 'into' and r not in ('-', 'bad') for q, r in zip(reqs, res)):
        mark('C12')
    if len(reqs) >= 10:
        mark('C13')
    if any(r.endswith('upanic') for r in res):
        mark('C15')
    return out


def enum_jobs(pid, tier):
    """(kind, depth, max_cases per shard, shards) of the bounded exhaustive stage"""
    kinds = ['pool'] if pid == 'C14' else (['lru'] if pid in ('C09', 'C10') else ['hashmap', 'lru', 'pool'])
    out = []
    for k in kinds:
        if tier == 'quick':
            out.append((k, 4, 10 ** 9, 1 if k == 'pool' else 5))
        else:
            # depth 4 and depth 5 exhaustively
            out.append((k, 4, 10 ** 9, 1 if k == 'pool' else 5))
            out.append((k, 5, 10 ** 9, 1 if k == 'pool' else 14))
    return out


STRESS_PROPS = ('C01', 'C02', 'C03', 'C04', 'C05', 'C06', 'C07', 'C08', 'C10', 'C11', 'C12', 'C13', 'C14')


def run_stress_cmd(args, timeout):
    """-> (report dict or None, raw output)"""
    import subprocess
    hbin = os.path.join(os.path.dirname(os.path.dirname(os.path.abspath(__file__))), 'harness', 'target', 'release', 'harness')
    try:
        p = subprocess.run([hbin, 'stress'] + args, stdout=subprocess.PIPE, stderr=subprocess.STDOUT, text=True, timeout=timeout)
        out = p.stdout
    except subprocess.TimeoutExpired as e:
        return None, 'stress run timed out: ' + str(e)[-200:]
    for l in reversed(out.strip().split('\n')):
        if l.startswith('{'):
            try:
                return json.loads(l), out
            except Exception:
                pass
    return None, out


def stress_stage(pid, tier, seed):
    """free-running threads on the real containers (harness/src/stress.rs): exact checks only; supports the search for a
    failing input of changes that need true parallelism. History of a finding = the command line (rerun reproduces it
    with high probability, not deterministically)."""
    import concurrent.futures as cf
    import hashlib
    kinds = ['pool'] if pid == 'C14' else ['hashmap', 'lru', 'pool']
    millis = 1500 if tier == 'quick' else 8000
    reps = 2 if tier == 'quick' else 4
    jobs = []
    for k in kinds:
        for r in range(reps):
            sd = int(hashlib.sha256(f'{seed}/{pid}/stress/{k}/{r}'.encode()).hexdigest()[:8], 16)
            jobs.append(['--kind', k, '--threads', '6', '--millis', str(millis), '--seed', str(sd), '--keys', str(2 + r), '--stop-on', pid])
    # scale: a large population (more keys than any small-capacity shortcut could hold; seeded change W8_C) with plain calls and
    # read-only sweeps; many waiters on one key; eviction rounds with many guards and limits up to usize::MAX
    for k in kinds:
        def sd(tag):
            return str(int(hashlib.sha256(f'{seed}/{pid}/stress/{k}/{tag}'.encode()).hexdigest()[:8], 16))
        if k != 'pool':
            jobs.append(['--kind', k, '--threads', '4', '--millis', str(millis), '--seed', sd('many'), '--keys', '400', '--limits', 'off',
                         '--stop-on', pid])
            jobs.append(['--kind', k, '--threads', '6', '--millis', str(millis), '--seed', sd('evict'), '--keys', '40', '--stop-on', pid])
        jobs.append(['--kind', k, '--threads', '12', '--millis', str(millis), '--seed', sd('waiters'), '--keys', '1', '--stop-on', pid])
        if k != 'pool':
            # many held keys: streams must deliver the unlocked entries without waiting for 100 held ones (seeded change W9_A)
            jobs.append(['--kind', k, '--threads', '3', '--millis', str(millis), '--seed', sd('held'), '--keys', '1', '--hold', '100',
                         '--free', '8'])
    fails, runs = [], []
    with cf.ThreadPoolExecutor(max_workers=8) as ex:
        for args, (rep, out) in zip(jobs, ex.map(lambda a: run_stress_cmd(a, 40 + millis // 1000 * 3), jobs)):
            line = 'stress ' + ' '.join(args)
            if rep is None:
                msg = 'the stress run ended without a report (abort, crash or hang of the process): ' + out.strip()[-300:]
                fails.append(dict(props=['C13', 'C03', pid], msg=msg, history=[line], no_min=True, stress=True))
                runs.append(dict(cmd=line, ops=None, violations=1))
                continue
            runs.append(dict(cmd=line, ops=rep['ops'], violations=len(rep['violations'])))
            for v in rep['violations']:
                tags = v.split(':', 1)[0].split('/')
                props = [x for x in tags if re.fullmatch(r'C\d\d', x)] or ['C13']
                fails.append(dict(props=props, msg=v, history=[line], no_min=True, stress=True))
    return fails, runs


def extra_stage(pid, tier, seed, work):
    """scheduled (multi-threaded) correspondence, if built; plus the free-running stress runs"""
    try:
        sched = importlib.import_module('schedmode')
    except Exception:
        return dict(ok=True, fails=[], info={})
    out = sched.run(pid, tier, seed, work)
    if pid in STRESS_PROPS and os.path.exists(sched.HBIN):
        fails, runs = stress_stage(pid, tier, seed)
        out['fails'] = out.get('fails', []) + fails
        out.setdefault('info', {})['stress'] = runs
    return out
