#!/bin/bash
# apply each behaviour-preserving refactoring to /repo and run all quick checks: nothing may be reported
# usage: eval_harmless.sh [harmless|harmless2|harmless3]
cd /verif
B=${1:-harmless}
for r in A B C D E F; do
  git -C /repo apply /verif/seeded/$B/ref$r.diff || { echo "ref$r: does not apply"; continue; }
  for p in C01 C02 C03 C04 C05 C06 C07 C08 C09 C10 C11 C12 C13 C14 C15; do
    out=$(VERIF_FAST=1 ./check $p --seed 1 2>&1 | tail -2)
    if echo "$out" | grep -q VIOLATION; then echo "ref$r $p: $out" | cut -c1-400; cp replays/${p}_unproven_1.json work/ref${r}_${p}.json 2>/dev/null; cp replays/${p}_oracle_1.json work/ref${r}_${p}_o.json 2>/dev/null; fi
  done
  git -C /repo checkout -- . && git -C /repo clean -fdq src
  echo "ref$r done"
done
git -C /repo status --short
