#!/usr/bin/env python3
"""regenerate seeded/README.md from the meta.json files"""
import json, os, glob
ROOT = os.path.dirname(os.path.dirname(os.path.abspath(__file__)))
rows = []
for d in sorted(glob.glob(os.path.join(ROOT, 'seeded', '*_*'))):
    mp = os.path.join(d, 'meta.json')
    if not os.path.exists(mp):
        continue
    m = json.load(open(mp))
    for p, v in sorted((m.get('check_results') or {}).items()):
        if p != m['property'] and not m.get('show_all'):
            continue
        r = v.get('replay') or {}
        line = v.get('violation_line') or ''
        if not line:
            verdict = 'NOT DETECTED'
        elif 'no-failing-input-found' in line:
            verdict = 'proof/correspondence broken, no failing input found'
        else:
            verdict = 'concrete failing input (%s)' % (r.get('kind') or 'oracle').replace('oracle-failure on the implementation', 'oracle on the implementation')
        msg = r.get('message') or ''
        if isinstance(msg, list):
            msg = '; '.join(msg)
        rows.append((m['id'], p, m.get('what_it_changes', ''), m.get('needs_to_manifest', ''), verdict, msg.replace('|', '/')[:260], v.get('wall_s')))
hdr = """# Seeded breaking changes

Each directory: `patch.diff` (apply with `git -C /repo apply`), `demo.rs` (the author's demonstration: passes without, fails with the patch), `notes_from_author.md`, `meta.json` (property, what it needs to manifest, how it was confirmed, what the check reported).

Authors: independent sub-agents. First round (`Cxx_A`, `Cxx_B`): given only the property text and a scratch worktree of /repo. Second round (`Wn_*`): given the property list, one focus area of the source (wrappers, lru cache, lock pool / arcs, guard / limit, engine) and a scratch worktree. Nothing from /verif in either round. Each change compiles and passes the 765 baseline tests; each was confirmed in a scratch worktree (`tools/seeded.py confirm`: demonstration passes without / fails with the patch, baseline suite passes with it). Evaluation (`tools/seeded.py eval`, `tools/eval_all.sh`) = apply to /repo, `./check <property> --tier quick`, undo.

| id | check | what the change is | what it needs to manifest | verdict of the check | reported | s |
|---|---|---|---|---|---|---|
"""
with open(os.path.join(ROOT, 'seeded', 'README.md'), 'w') as f:
    f.write(hdr)
    for r in rows:
        f.write('| ' + ' | '.join(str(x) for x in r) + ' |\n')
    nd = [r for r in rows if r[4] == 'NOT DETECTED']
    f.write(f'\n{len(rows)} evaluations, {len(rows) - len(nd)} detected' + (f', not detected: {[r[0] for r in nd]}' if nd else '') + '.\n')
    if os.path.exists(os.path.join(ROOT, 'seeded', 'MATRIX.md')):
        f.write('\nCross-evaluation of the first round against all fifteen checks: `MATRIX.md`.\n')
print(len(rows), 'rows')
