#!/usr/bin/env python3
"""writes /verif/MANIFEST.json from the claims table below"""
import json, subprocess
ids = [json.loads(l)['id'] for l in open('/verif/properties.jsonl')]
LVL = "Machine-checked Lean 4 theorems about a hand-written executable model of LockableMapImpl, proved for all keys, values, handles, schedules and histories (induction over atomic actions, no bound); the model is tied to /repo's current source on every run by a checked correspondence: the real containers and the compiled model execute the same generated and corpus histories and their replies and full state snapshots are diffed after every request; an independent oracle evaluates the property on the implementation's trace to produce concrete failing inputs. Random histories, all histories up to depth 4 over a small alphabet, scheduled thread interleavings (hooked real threads, random and exhaustive schedules) and free-running stress runs support the tie and the search for failing inputs; none of them stands in for a theorem."
NOTE = "Trusted: Lean kernel (axioms per theorem in the evidence: subset of propext, Classical.choice, Quot.sound), the hand-written model and statements in lean/Lockable/Props, the harness/driver/oracle, tokio's mutex as FIFO with direct hand-off, Arc::strong_count as number of live handles, atomicity of critical sections (DESIGN.md sections 3.3 and 7). The correspondence samples; it is not a proof about the Rust code."
CLAIMS = {
 'C01': ('§9 C01', 'Lean 4 proof: inductive invariant over all atomic actions (Theorem A) ⇒ at most one guard per key in every reachable state; history form via the linearisation theorem (guard lifetimes on a key are disjoint in every run); checked model/implementation correspondence (sequential + scheduled threads)'),
 'C02': ('§9 C02', 'Lean 4 proof: frame theorem over all atomic actions (only a guard method on k changes the value of k) + plain-map semantics of guard methods; checked correspondence'),
 'C04': ('§9 C04', 'Lean 4 proof: keys = valued ∪ referenced in every reachable state (invariant I0–I2); checked correspondence incl. handle counts after every request'),
 'C06': ('§9 C06', 'Lean 4 proof: cancel at any reachable state preserves the full invariant, removes the handle, changes no value; checked correspondence with cancellation at every point'),
 'C12': ('§9 C12', 'Lean 4 proof: intoEntries of any quiescent reachable state = exactly the valued pairs, once each, no panic; checked correspondence'),
 'C13': ('§9 C13', 'Lean 4 proof: every modelled expect/assert site and the slow_assertions checker are unreachable from the initial state (Theorem A + no-failure lemma per action); site inventory + checked correspondence with slow_assertions on'),
 'C14': ('§9 C14', 'Lean 4 proof: pool instance of exclusivity, exact locked-key set, empty at quiescence, try semantics; checked correspondence on the real LockPool'),
}
import sys
sys.path.insert(0,'/verif/tools')
try:
    import claims_extra
    CLAIMS.update(claims_extra.CLAIMS)
except ImportError:
    pass
commits = subprocess.run(['git','-C','/repo','log','--format=%h %s'],capture_output=True,text=True).stdout.strip().split('\n')
hook_commits = [c.split()[0] for c in commits if c.split(' ',1)[1].startswith('verif_hooks')]
m = {
 "version": 1,
 "setup_cmd": "cd /verif/lean && lake build && cd /verif/harness && CARGO_NET_OFFLINE=true cargo build --release --offline",
 "hooks": {"guard": "verif_hooks", "enable": "cargo feature: the harness depends on lockable = { path = \"/repo\", features = [\"verif_hooks\", \"slow_assertions\"] }",
           "baseline_off_cmd": "cd /repo && cargo nextest run --workspace --no-fail-fast --test-threads 8 --offline",
           "source_commits": hook_commits, "add_only": True},
 "engines": [
   {"name": "lean-model", "path": "lean/", "serves_properties": sorted(CLAIMS), "kind_free_text": "Lean 4 model (Lockable/Model), proofs (Lockable/Proofs), property theorems (Lockable/Props), compiled protocol driver (Main.lean)"},
   {"name": "harness", "path": "harness/", "serves_properties": sorted(CLAIMS), "kind_free_text": "Rust harness driving the real containers through the line protocol PROTOCOL.md (sequential histories with manual polling/cancellation; scheduled threads via verif_hooks)"},
   {"name": "oracle", "path": "tools/oracle.py", "serves_properties": sorted(CLAIMS), "kind_free_text": "Python oracles on the implementation trace, independent of the model"}],
 "checks": [], "notes": "see DESIGN.md; known_findings.json lists the five defects found and repaired (fix: commits in /repo)",
 "not_applicable": []}
for i in ids:
    if i in CLAIMS:
        ref, tech = CLAIMS[i]
        m["checks"].append({"property_id": i, "quick_cmd": f"./check {i} --tier quick", "thorough_cmd": f"./check {i} --tier thorough",
          "evidence_file": f"/verif/evidence/{i}.json", "replay_cmd_template": f"./check {i} --replay {{path}}", "engine": "lean-model",
          "level_claimed": {"category": "proof", "text": LVL, "design_ref": ref}, "level_note": NOTE, "technique": tech})
    else:
        m["not_applicable"].append({"property_id": i, "reason": "not claimed yet: theorem file and correspondence profile under construction (DESIGN.md §9); the technique applies"})
json.dump(m, open('/verif/MANIFEST.json','w'), indent=1, ensure_ascii=False)
print(len(m['checks']), 'claimed', len(m['not_applicable']), 'unclaimed')
