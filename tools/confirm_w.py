#!/usr/bin/env python3
"""confirm second-round mutations: confirm_w.py <name> <property> <patch> <demo.rs> [<notes.md> <section>]; keeps confirmed ones under seeded/<name>"""
import json, os, shutil, sys
sys.path.insert(0, '/verif/tools')
import seeded
name, pid, patch, demo = sys.argv[1:5]
notes = sys.argv[5] if len(sys.argv) > 5 else None
section = sys.argv[6] if len(sys.argv) > 6 else ''
dst = os.path.join('/verif/seeded', name)
try:
    r = seeded.confirm(name, pid, patch, demo)
except Exception as e:
    r = dict(name=name, property=pid, confirmed=False, error=repr(e))
print(name, 'confirmed' if r.get('confirmed') else 'NOT CONFIRMED', {k: r.get(k) for k in ('demo_without_change', 'demo_with_change', 'baseline_with_change', 'error')}, flush=True)
if r.get('confirmed'):
    os.makedirs(dst, exist_ok=True)
    shutil.copy(patch, os.path.join(dst, 'patch.diff'))
    shutil.copy(demo, os.path.join(dst, 'demo.rs'))
    if notes and os.path.exists(notes):
        shutil.copy(notes, os.path.join(dst, 'notes_from_author.md'))
    meta = dict(id=name, property=pid, origin='second round: independent sub-agent given the property list, a focus area of the source and a scratch worktree; nothing from /verif',
                needs_to_manifest='see notes_from_author.md (mutation %s)' % section,
                confirmation=dict(what_i_ran=f'tools/seeded.py confirm: scratch worktree /tmp/confirm/wt of /repo HEAD; cargo test --offline {r["feats"]} --test seeded_demo without and with the patch; cargo nextest run --workspace (765 tests) with the patch',
                                  demo_without_change=r['demo_without_change'], demo_with_change=r['demo_with_change'],
                                  baseline_with_change=r['baseline_with_change'], demo_output_with_change=r.get('demo_output_with_change', '')[-600:]))
    json.dump(meta, open(os.path.join(dst, 'meta.json'), 'w'), indent=1)
else:
    os.makedirs('/verif/work', exist_ok=True)
    json.dump(r, open(f'/verif/work/notconfirmed_{name}.json', 'w'), indent=1)
