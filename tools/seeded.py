#!/usr/bin/env python3
"""
Confirmation and evaluation of seeded breaking changes.

  seeded.py confirm <name> <property> <patch> <demo.rs>    in a scratch worktree of /repo (outside /repo and /verif):
        demo passes without the patch, fails with it, and the 765 baseline tests pass with it
  seeded.py eval <name> [<property>...]                    apply seeded/<name>/patch.diff to /repo, run ./check for the
        property (default: the one in meta.json), record the verdict in meta.json, undo the patch
"""
import json
import os
import re
import shutil
import subprocess
import sys
import time

ROOT = os.path.dirname(os.path.dirname(os.path.abspath(__file__)))
SCRATCH = '/tmp/confirm/wt'


def sh(cmd, cwd=None, timeout=3000, env=None):
    p = subprocess.run(cmd, cwd=cwd, shell=True, stdout=subprocess.PIPE, stderr=subprocess.STDOUT, text=True, timeout=timeout, env=env)
    return p.returncode, p.stdout


def ensure_scratch():
    if not os.path.isdir(SCRATCH):
        os.makedirs(os.path.dirname(SCRATCH), exist_ok=True)
        rc, out = sh(f'git -C /repo worktree add -f {SCRATCH} HEAD')
        assert rc == 0, out
    sh('git checkout -q -- . && git clean -fdq tests', cwd=SCRATCH)
    sh('git checkout -q --detach $(git -C /repo rev-parse HEAD)', cwd=SCRATCH)


def run_demo(demo_name, feats):
    cmd = f'timeout 600 cargo test --offline {feats} --test {demo_name} -- --test-threads 1 2>&1 | tail -40'
    rc, out = sh(cmd, cwd=SCRATCH, timeout=900)
    # a demo may provoke panics on purpose: only the harness' own verdict lines count
    failed = 'test result: FAILED' in out or 'error: test failed' in out or 'timed out' in out or 'could not compile' in out
    passed = re.search(r'test result: ok\.', out) is not None and not failed
    return passed, failed, out[-1500:]


def confirm(name, prop, patch, demo):
    ensure_scratch()
    os.makedirs(os.path.join(SCRATCH, 'tests'), exist_ok=True)
    demo_name = 'seeded_demo'
    shutil.copy(demo, os.path.join(SCRATCH, 'tests', demo_name + '.rs'))
    src = open(demo).read()
    feats = '--features verif_hooks' if 'verif_hooks' in src or 'TimeProvider' in src else ''
    res = dict(name=name, property=prop, feats=feats)
    p0, f0, o0 = run_demo(demo_name, feats)
    res['demo_without_change'] = 'pass' if p0 and not f0 else 'FAIL'
    rc, out = sh(f'git apply {patch}', cwd=SCRATCH)
    res['patch_applies'] = rc == 0
    if rc != 0:
        res['error'] = out[-400:]
        return res
    rc, out = sh(f'cargo build --offline {feats} 2>&1 | tail -5', cwd=SCRATCH)
    p1, f1, o1 = run_demo(demo_name, feats)
    res['demo_with_change'] = 'fail' if f1 and not p1 else ('PASS' if p1 else 'unclear')
    res['demo_output_with_change'] = o1[-800:]
    # baseline suite with the change, demo moved aside
    os.remove(os.path.join(SCRATCH, 'tests', demo_name + '.rs'))
    rc, out = sh('cargo nextest run --workspace --no-fail-fast --test-threads 8 --offline 2>&1 | tail -4', cwd=SCRATCH, timeout=1800)
    m = re.search(r'(\d+) tests run: (\d+) passed', out)
    res['baseline_with_change'] = m.group(0) if m else out[-300:]
    res['baseline_ok'] = bool(m and m.group(1) == '765' and m.group(2) == '765')
    sh('git checkout -q -- . && git clean -fdq tests', cwd=SCRATCH)
    res['confirmed'] = (res['demo_without_change'] == 'pass' and res['demo_with_change'] == 'fail' and res['baseline_ok'])
    return res


def evaluate(name, props=None):
    d = os.path.join(ROOT, 'seeded', name)
    meta = json.load(open(os.path.join(d, 'meta.json')))
    props = props or [meta['property']]
    rc, out = sh('git status --porcelain', cwd='/repo')
    assert out.strip() == '', '/repo not clean: ' + out
    rc, out = sh(f'git apply {os.path.join(d, "patch.diff")}', cwd='/repo')
    assert rc == 0, out
    verdicts = {}
    try:
        for p in props:
            t0 = time.time()
            rc, out = sh(f'./check {p} --tier quick', cwd=ROOT, timeout=3000)
            vio = [l for l in out.split('\n') if l.startswith('VIOLATION')]
            v = dict(exit=rc, violation_line=vio[0] if vio else None, summary=out.strip().split('\n')[-1][:300], wall_s=round(time.time() - t0, 1))
            if vio:
                m = re.search(r'replay=(\S+)', vio[0])
                if m and os.path.exists(m.group(1)):
                    r = json.load(open(m.group(1)))
                    v['replay'] = dict(kind=r.get('kind'), message=r.get('message') or r.get('what'), history=r.get('history'))
            verdicts[p] = v
    finally:
        sh('git checkout -- . && git clean -fdq src', cwd='/repo')
    meta.setdefault('check_results', {}).update(verdicts)
    json.dump(meta, open(os.path.join(d, 'meta.json'), 'w'), indent=1)
    return verdicts


if __name__ == '__main__':
    if sys.argv[1] == 'confirm':
        r = confirm(*sys.argv[2:6])
        print(json.dumps(r, indent=1))
    elif sys.argv[1] == 'eval':
        print(json.dumps(evaluate(sys.argv[2], sys.argv[3:] or None), indent=1))
