#!/usr/bin/env python3
"""
addseed.py <name> <property> <patch> <demo.rs> <origin-text> <needs-text> [<extra property>...]
Confirm a seeded change (tools/seeded.py confirm), create seeded/<name>/{patch.diff,demo.rs,meta.json} when it is confirmed,
and evaluate it (tools/seeded.py eval: applies the patch to /repo, runs ./check, undoes the patch).
The evaluation overwrites evidence/<property>.json: re-run those checks on the unchanged tree afterwards.
"""
import json, os, shutil, subprocess, sys
ROOT = os.path.dirname(os.path.dirname(os.path.abspath(__file__)))
name, prop, patch, demo, origin, needs = sys.argv[1:7]
extra = sys.argv[7:]
out = subprocess.run([sys.executable, os.path.join(ROOT, 'tools/seeded.py'), 'confirm', name, prop, patch, demo],
                     stdout=subprocess.PIPE, stderr=subprocess.STDOUT, text=True).stdout
c = json.loads(out[out.index('{'):out.rindex('}') + 1])
print(json.dumps({k: c[k] for k in c if k != 'demo_output_with_change'}, indent=1))
if not c.get('confirmed'):
    sys.exit('not confirmed: nothing kept')
d = os.path.join(ROOT, 'seeded', name)
os.makedirs(d, exist_ok=True)
shutil.copy(patch, os.path.join(d, 'patch.diff'))
shutil.copy(demo, os.path.join(d, 'demo.rs'))
meta = {'id': name, 'property': prop, 'origin': origin, 'needs_to_manifest': needs,
        'confirmation': {'what_i_ran': 'tools/seeded.py confirm: scratch worktree /tmp/confirm/wt of /repo HEAD; the demo as an integration test without and with the patch; cargo nextest run --workspace (765 tests) with the patch',
                         'demo_without_change': c['demo_without_change'], 'demo_with_change': c['demo_with_change'],
                         'baseline_with_change': c['baseline_with_change'],
                         'demo_output_with_change': c['demo_output_with_change'][-600:]}}
json.dump(meta, open(os.path.join(d, 'meta.json'), 'w'), indent=1)
r = subprocess.run([sys.executable, os.path.join(ROOT, 'tools/seeded.py'), 'eval', name, prop] + extra,
                   stdout=subprocess.PIPE, stderr=subprocess.STDOUT, text=True).stdout
for line in r.splitlines():
    if any(t in line for t in ('violation_line', '"summary"', '"message"', '"exit"')):
        print(line[:300])
print(subprocess.run('git -C /repo status --short', shell=True, stdout=subprocess.PIPE, text=True).stdout or '/repo clean')
