#!/usr/bin/env python3
"""confirm every delivered mutation under /tmp/mut/*_out that is not yet in /verif/seeded; keep the confirmed ones"""
import json, os, shutil, sys, glob
sys.path.insert(0, '/verif/tools')
import seeded
for out in sorted(glob.glob('/tmp/mut/C*_out')):
    pid = os.path.basename(out)[:3]
    for letter in 'AB':
        patch = os.path.join(out, f'mut{letter}.diff'); demo = os.path.join(out, f'demo_{letter}.rs')
        name = f'{pid}_{letter}'
        dst = os.path.join('/verif/seeded', name)
        if not (os.path.exists(patch) and os.path.exists(demo)) or os.path.exists(os.path.join(dst, 'meta.json')):
            continue
        try:
            r = seeded.confirm(name, pid, patch, demo)
        except Exception as e:
            r = dict(name=name, property=pid, confirmed=False, error=repr(e))
        print(name, 'confirmed' if r.get('confirmed') else 'NOT CONFIRMED', {k: r.get(k) for k in ('demo_without_change', 'demo_with_change', 'baseline_with_change')}, flush=True)
        if r.get('confirmed'):
            os.makedirs(dst, exist_ok=True)
            shutil.copy(patch, os.path.join(dst, 'patch.diff'))
            shutil.copy(demo, os.path.join(dst, 'demo.rs'))
            notes = os.path.join(out, 'notes.md')
            if os.path.exists(notes):
                shutil.copy(notes, os.path.join(dst, 'notes_from_author.md'))
            meta = dict(id=name, property=pid, origin='independent sub-agent given only the property text and a scratch worktree',
                        needs_to_manifest='see notes_from_author.md (section for mutation %s)' % letter,
                        confirmation=dict(what_i_ran=f'tools/seeded.py confirm: scratch worktree /tmp/confirm/wt of /repo HEAD; cargo test --offline {r["feats"]} --test seeded_demo without and with the patch; cargo nextest run --workspace (765 tests) with the patch',
                                          demo_without_change=r['demo_without_change'], demo_with_change=r['demo_with_change'],
                                          baseline_with_change=r['baseline_with_change'], demo_output_with_change=r.get('demo_output_with_change', '')[-600:]))
            json.dump(meta, open(os.path.join(dst, 'meta.json'), 'w'), indent=1)
        else:
            os.makedirs('/verif/work', exist_ok=True)
            json.dump(r, open(f'/verif/work/notconfirmed_{name}.json', 'w'), indent=1)
