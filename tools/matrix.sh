#!/bin/bash
# cross-evaluation: every seeded change (except those that hang the implementation) against every check
cd /verif
mkdir -p work/matrix
for d in seeded/C*_*; do
  n=$(basename $d)
  case $n in C03_A|C03_B|C08_A|C08_B|C13_B|C15_A) continue;; esac
  git -C /repo apply /verif/$d/patch.diff || continue
  for p in C01 C02 C03 C04 C05 C06 C07 C08 C09 C10 C11 C12 C13 C14 C15; do
    out=$(VERIF_FAST=1 timeout 600 ./check $p --tier quick 2>&1)
    v=$(echo "$out" | grep "^VIOLATION" | head -1)
    if [ -z "$v" ]; then r="-"; elif echo "$v" | grep -q no-failing-input-found; then r="tie"; else r="INPUT"; fi
    echo "$n $p $r" >> work/matrix/results.txt
  done
  git -C /repo checkout -- .
done
echo done >> work/matrix/results.txt
