// reproductions of the defects D1-D5 found in smessmer/lockable (see /verif/DESIGN.md §8)
