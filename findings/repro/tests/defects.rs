//! Each test states the behaviour the given properties require. They fail on the
//! original tree (43fa2b2) and pass after the corresponding `fix:` commit.
use futures::Stream;
use futures::task::noop_waker;
use lockable::{AsyncLimit, LockableHashMap, LockableLruCache, LockPool, SyncLimit, TimeProvider};
use std::future::Future;
use std::pin::pin;
use std::sync::Mutex;
use std::task::{Context, Poll};
use tokio::time::{Duration, Instant};

static CLOCK: Mutex<Option<Instant>> = Mutex::new(None);
static SERIAL: Mutex<()> = Mutex::new(());
#[derive(Clone, Default)]
struct Clock;
impl TimeProvider for Clock {
    fn now(&self) -> Instant {
        *CLOCK.lock().unwrap().get_or_insert_with(Instant::now)
    }
}
fn advance(ms: u64) {
    let mut c = CLOCK.lock().unwrap();
    let now = c.get_or_insert_with(Instant::now);
    *now += Duration::from_millis(ms);
}
type Lru = LockableLruCache<u32, u32, Clock>;

fn poll_once<F: Future>(f: std::pin::Pin<&mut F>) -> Poll<F::Output> {
    let w = noop_waker();
    let mut cx = Context::from_waker(&w);
    f.poll(&mut cx)
}

/// D1 (C04, C06, C12, C13, C14): cancelling a pending async_lock must leave no trace
#[test]
fn d1_cancelled_pending_async_lock_leaves_no_placeholder() {
    let map = LockableHashMap::<u32, u32>::new();
    let g = map.blocking_lock(7, SyncLimit::no_limit()).unwrap();
    {
        let mut f = pin!(map.async_lock(7, AsyncLimit::no_limit()));
        assert!(poll_once(f.as_mut()).is_pending());
        drop(g);
        // f has been assigned the lock but is dropped without being polled again
    }
    assert_eq!(0, map.num_entries_or_locked());
    assert!(map.keys_with_entries_or_locked().is_empty());
    assert_eq!(0, map.into_entries_unordered().count());
}

/// D1, still queued behind the holder when it is cancelled
#[test]
fn d1_cancelled_queued_async_lock_leaves_no_placeholder() {
    let map = LockableHashMap::<u32, u32>::new();
    let g = map.blocking_lock(7, SyncLimit::no_limit()).unwrap();
    {
        let mut f = pin!(map.async_lock(7, AsyncLimit::no_limit()));
        assert!(poll_once(f.as_mut()).is_pending());
    }
    drop(g);
    assert_eq!(0, map.num_entries_or_locked());
}

/// D1 on a LockPool
#[test]
fn d1_lockpool_cancel() {
    let pool = LockPool::<u32>::new();
    let g = pool.blocking_lock(1);
    {
        let mut f = pin!(pool.async_lock(1));
        assert!(poll_once(f.as_mut()).is_pending());
        drop(g);
    }
    assert_eq!(0, pool.num_locked());
    assert!(pool.locked_keys().is_empty());
}

/// D1 via a dropped lock_all_entries stream that was never polled
#[test]
fn d1_dropped_unpolled_stream_leaves_no_placeholder() {
    let map = LockableHashMap::<u32, u32>::new();
    let g = map.blocking_lock(7, SyncLimit::no_limit()).unwrap();
    {
        let mut sf = pin!(map.lock_all_entries());
        let Poll::Ready(stream) = poll_once(sf.as_mut()) else {
            panic!()
        };
        drop(g);
        drop(stream);
    }
    assert_eq!(0, map.num_entries_or_locked());
}

/// D1 via a dropped stream whose item was queued behind a holder
#[test]
fn d1_dropped_polled_stream_leaves_no_placeholder() {
    let map = LockableHashMap::<u32, u32>::new();
    let g = map.blocking_lock(7, SyncLimit::no_limit()).unwrap();
    {
        let mut sf = pin!(map.lock_all_entries());
        let Poll::Ready(stream) = poll_once(sf.as_mut()) else {
            panic!()
        };
        let mut stream = pin!(stream);
        let w = noop_waker();
        let mut cx = Context::from_waker(&w);
        assert!(stream.as_mut().poll_next(&mut cx).is_pending());
        drop(g);
    }
    assert_eq!(0, map.num_entries_or_locked());
}

/// D2 (C10): unlock order different from lock order
#[test]
fn d2_expiry_finds_idle_entry_when_unlock_order_differs_from_lock_order() {
    let _s = SERIAL.lock().unwrap_or_else(|e| e.into_inner());
    let c = Lru::new();
    let mut a = c.blocking_lock(1, SyncLimit::no_limit()).unwrap();
    a.insert(10);
    let mut b = c.blocking_lock(2, SyncLimit::no_limit()).unwrap();
    b.insert(20);
    drop(b);
    advance(1000);
    drop(a);
    advance(10);
    // 2 has been idle for 1010ms, 1 for 10ms
    let keys: Vec<u32> = c
        .lock_entries_unlocked_for_at_least(Duration::from_millis(500))
        .map(|g| *g.key())
        .collect();
    assert_eq!(vec![2], keys);
}

/// D3 (C10, C13): any duration is a valid argument
#[test]
fn d3_duration_max_does_not_panic() {
    let _s = SERIAL.lock().unwrap_or_else(|e| e.into_inner());
    let c = Lru::new();
    c.blocking_lock(1, SyncLimit::no_limit()).unwrap().insert(10);
    assert_eq!(0, c.lock_entries_unlocked_for_at_least(Duration::MAX).count());
}

/// D4 (C10): polling must not reset the idle age of entries it does not return
#[test]
fn d4_polling_does_not_reset_idle_age() {
    let _s = SERIAL.lock().unwrap_or_else(|e| e.into_inner());
    let c = Lru::new();
    c.blocking_lock(1, SyncLimit::no_limit()).unwrap().insert(10);
    for _ in 0..5 {
        advance(100);
        // polled every 100ms, asking for entries idle for 250ms
        let n = c.lock_entries_unlocked_for_at_least(Duration::from_millis(250)).count();
        if n == 1 {
            return;
        }
    }
    panic!("entry idle for 500ms was never returned for d = 250ms");
}

/// D5 (C13, C03, C10): a valueless unlocked placeholder in the expiry scan. On the original tree this
/// panics while the global lock is held and then hangs in the unwinding; run under a watchdog.
#[test]
fn d5_expiry_scan_skips_valueless_placeholder() {
    let _s = SERIAL.lock().unwrap_or_else(|e| e.into_inner());
    let (tx, rx) = std::sync::mpsc::channel();
    std::thread::spawn(move || {
        let c = Lru::new();
        let g = c.blocking_lock(1, SyncLimit::no_limit()).unwrap();
        let mut sf = pin!(c.lock_all_entries());
        let Poll::Ready(stream) = poll_once(sf.as_mut()) else {
            panic!()
        };
        drop(g); // placeholder kept alive by the stream's unpolled item, now unlocked
        let n = c.lock_entries_unlocked_for_at_least(Duration::from_millis(0)).count();
        drop(stream);
        let cnt = c.num_entries_or_locked();
        tx.send((n, cnt)).unwrap();
    });
    match rx.recv_timeout(std::time::Duration::from_secs(5)) {
        Ok((n, cnt)) => {
            assert_eq!(0, n);
            assert_eq!(0, cnt);
        }
        Err(_) => panic!("expiry scan panicked or hung"),
    }
}
