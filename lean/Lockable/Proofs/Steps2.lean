/-
Theorem A, continued: cancellation and the bulk sections.
-/
import Lockable.Proofs.Steps
namespace Lockable

/-- the per-key mutex after the pending acquisition `h` is dropped -/
def CancelShape (m m' : Entry) (h : Nat) : Prop :=
  m'.refs = m.refs.erase h ∧ m'.eid = m.eid ∧ m'.value = m.value ∧
  ((m.holder = some h ∧ m'.holder = m.queue.head? ∧ m'.queue = m.queue.tail) ∨
   (m.holder ≠ some h ∧ m'.holder = m.holder ∧ m'.queue = m.queue.erase h))

theorem inv_cancel_keep1 (s : State) (h : Nat) (hd : Handle) (m m' : Entry) (hi : Inv s)
    (hhd : s.hs h = some hd) (hst : hd.st = .replica ∨ hd.st = .queued) (hm1 : s.ent hd.key = some m)
    (e1 : m'.refs = m.refs.erase h) (e2 : m'.eid = m.eid) (e3 : m'.value = m.value)
    (hh : m.holder = some h) (c1 : m'.holder = m.queue.head?) (c2 : m'.queue = m.queue.tail)
    (hok : m.value ≠ none ∨ m.refs.erase h ≠ []) :
    Inv ((s.setEnt hd.key m').dropHandle h) := by
  have hr : h ∈ m.refs := (hi.refs _ m hm1 h).2 (by simp [hhd])
  have hnd := hi.refsNodup _ m hm1
  have hqnd := hi.queueNodup _ m hm1
  have ⟨hq1, hq2, hq3, hq4, hq5⟩ := queue_facts m.queue hqnd
  have hre : ∀ x, x ∈ m.refs.erase h ↔ x ≠ h ∧ x ∈ m.refs := fun x => List.Nodup.mem_erase_iff hnd
  have hrend : (m.refs.erase h).Nodup := hnd.erase h
  have hng : hd.st.isGuard = false := by rcases hst with e | e <;> simp [e, HSt.isGuard]
  have hnq : h ∉ m.queue := fun hx => ((hi.queue _ m hm1 h).1 hx).2.2 hh
  constructor <;>
    (simp only [State.setEnt, State.dropHandle, upd]; intros) <;>
    grind [Inv, HSt.isGuard, HSt.mayHold]

theorem inv_cancel_keep2 (s : State) (h : Nat) (hd : Handle) (m m' : Entry) (hi : Inv s)
    (hhd : s.hs h = some hd) (hst : hd.st = .replica ∨ hd.st = .queued) (hm1 : s.ent hd.key = some m)
    (e1 : m'.refs = m.refs.erase h) (e2 : m'.eid = m.eid) (e3 : m'.value = m.value)
    (hh : m.holder ≠ some h) (c1 : m'.holder = m.holder) (c2 : m'.queue = m.queue.erase h)
    (hok : m.value ≠ none ∨ m.refs.erase h ≠ []) :
    Inv ((s.setEnt hd.key m').dropHandle h) := by
  have hr : h ∈ m.refs := (hi.refs _ m hm1 h).2 (by simp [hhd])
  have hnd := hi.refsNodup _ m hm1
  have hqnd := hi.queueNodup _ m hm1
  have hre : ∀ x, x ∈ m.refs.erase h ↔ x ≠ h ∧ x ∈ m.refs := fun x => List.Nodup.mem_erase_iff hnd
  have hrend : (m.refs.erase h).Nodup := hnd.erase h
  have hqe : ∀ x, x ∈ m.queue.erase h ↔ x ≠ h ∧ x ∈ m.queue := fun x => List.Nodup.mem_erase_iff hqnd
  have hqend : (m.queue.erase h).Nodup := hqnd.erase h
  have hng : hd.st.isGuard = false := by rcases hst with e | e <;> simp [e, HSt.isGuard]
  have hfq : m.holder = none → m.queue.erase h = [] := fun e => by simp [hi.freeNoQueue _ m hm1 e]
  constructor <;>
    (simp only [State.setEnt, State.dropHandle, upd]; intros) <;>
    grind [Inv, HSt.isGuard, HSt.mayHold]

theorem inv_cancel_remove (s : State) (h : Nat) (hd : Handle) (m m' : Entry) (hi : Inv s)
    (hhd : s.hs h = some hd) (hm1 : s.ent hd.key = some m)
    (honly : ∀ x hdx, s.hs x = some hdx → hdx.key = hd.key → x = h) :
    Inv (((s.setEnt hd.key m').dropHandle h).removeKey hd.key) := by
  constructor <;>
    (simp only [State.setEnt, State.dropHandle, State.removeKey, upd]; intros) <;>
    grind [Inv, HSt.isGuard, HSt.mayHold]


theorem inv_cancel_core (s : State) (h : Nat) (hd : Handle) (m m' : Entry) (hi : Inv s)
    (hhd : s.hs h = some hd) (hst : hd.st = .replica ∨ hd.st = .queued) (hm1 : s.ent hd.key = some m)
    (hc : CancelShape m m' h) :
    Inv (if m'.refs.length = 0 then
          if m'.holder.isSome = true then (s.wedge, Out.panic Site.cancelTry)
          else if m'.value.isNone = true then
            (((s.setEnt hd.key m').dropHandle h).removeKey hd.key, Out.unit)
          else ((s.setEnt hd.key m').dropHandle h, Out.unit)
        else ((s.setEnt hd.key m').dropHandle h, Out.unit)).1 := by
  obtain ⟨e1, e2, e3, hcase⟩ := hc
  have hr : h ∈ m.refs := (hi.refs _ m hm1 h).2 (by simp [hhd])
  have hnd := hi.refsNodup _ m hm1
  have hqnd := hi.queueNodup _ m hm1
  have ⟨hq1, hq2, hq3, hq4, hq5⟩ := queue_facts m.queue hqnd
  have hre : ∀ x, x ∈ m.refs.erase h ↔ x ≠ h ∧ x ∈ m.refs := fun x => List.Nodup.mem_erase_iff hnd
  have hnqh : m.holder = some h → h ∉ m.queue := fun hh hx => ((hi.queue _ m hm1 h).1 hx).2.2 hh
  have keep : (m.value ≠ none ∨ m.refs.erase h ≠ []) → Inv ((s.setEnt hd.key m').dropHandle h) := by
    intro hok
    rcases hcase with ⟨hh, c1, c2⟩ | ⟨hh, c1, c2⟩
    · exact inv_cancel_keep1 s h hd m m' hi hhd hst hm1 e1 e2 e3 hh c1 c2 hok
    · exact inv_cancel_keep2 s h hd m m' hi hhd hst hm1 e1 e2 e3 hh c1 c2 hok
  split
  · rename_i hlen
    have hr0' : m.refs.erase h = [] := by rw [← e1]; exact List.eq_nil_of_length_eq_zero hlen
    have hre0 : ∀ x, x ∈ m.refs → x = h := by
      intro x hx; by_cases hxh : x = h
      · exact hxh
      · have := (hre x).2 ⟨hxh, hx⟩; simp [hr0'] at this
    have honly : ∀ x hdx, s.hs x = some hdx → hdx.key = hd.key → x = h := by
      intro x hdx hx hk; exact hre0 x ((hi.refs _ m hm1 x).2 (by simp [hx, hk]))
    have hq0 : ∀ x, x ∈ m.queue → x = h := by
      intro x hx
      have := ((hi.queue _ m hm1 x).1 hx).1
      exact hre0 x ((hi.refs _ m hm1 x).2 this)
    have hfree : m'.holder = none := by
      rcases hcase with ⟨hh, c1, c2⟩ | ⟨hh, c1, c2⟩
      · rw [c1]
        cases hhd' : m.queue.head? with
        | none => rfl
        | some x =>
          have := (hq1 x hhd').1
          exact absurd (hq0 x this ▸ this) (hnqh hh)
      · rw [c1]
        cases hhd' : m.holder with
        | none => rfl
        | some x =>
          have hl := hi.holderLive _ m x hm1 hhd'
          have := hre0 x ((hi.refs _ m hm1 x).2 hl.1)
          subst this; exact absurd hhd' hh
    split
    · rename_i hsome; simp [hfree] at hsome
    · split
      · exact inv_cancel_remove s h hd m m' hi hhd hm1 honly
      · rename_i hval
        have hval' : m.value ≠ none := by rw [← e3]; simpa using hval
        exact keep (Or.inl hval')
  · rename_i hlen
    have hr0' : m.refs.erase h ≠ [] := by
      intro e; rw [← e1] at e; simp [e] at hlen
    exact keep (Or.inr hr0')

theorem inv_cancel (s : State) (h : Nat) (hi : Inv s) : Inv (cancel s h).1 := by
  unfold cancel
  split <;> try exact hi
  split <;> try exact hi
  split <;> try exact hi
  split <;> try exact hi
  rename_i hd hhd hst _ m hm
  have ⟨hm1, hm2⟩ := entryOf_some hm
  simp only []
  by_cases hh : m.holder = some h
  · simp only [hh, if_true]
    exact inv_cancel_core s h hd m (handoff m h) hi hhd hst hm1 ⟨rfl, rfl, rfl, Or.inl ⟨hh, rfl, rfl⟩⟩
  · simp only [hh, if_false]
    exact inv_cancel_core s h hd m { m with queue := m.queue.erase h, refs := m.refs.erase h } hi hhd hst hm1 ⟨rfl, rfl, rfl, Or.inr ⟨hh, rfl, rfl⟩⟩

end Lockable
