/-
Theorem C: linearisation. Every step of the core model — an atomic section executed by any thread, in
any interleaving — is a (possibly empty) sequence of *guarded* transitions of the atomic specification
`Spec` (plain key → value map, at most one guard per key, FIFO waiters per key). The abstraction is a
function of the concrete state (`absSpec`), no sequential-client assumption (`Rel.seq` of Theorem B) is made.
-/
import Lockable.Proofs.Refine
set_option linter.unusedSimpArgs false
namespace Lockable

/-- the guard of a key: the owner of the tokio mutex unless it is a waiter that was handed the lock and not polled since -/
def heldOf (s : State) (k : Nat) : Option Nat :=
  match s.ent k with
  | some m =>
    match m.holder with
    | some h => if hst (s.hs h) = some .queued then none else some h
    | none => none
  | none => none

/-- the abstraction function -/
def absSpec (s : State) : Spec := { vals := absVal s, held := heldOf s, waiting := waitingOf s }

/-- labelled transitions of the atomic specification -/
inductive SEv where
  /-- a guard for a free key (no guard, nobody waiting) -/
  | acquire (h k : Nat)
  /-- start waiting for a key that is not free -/
  | wait (h k : Nat)
  /-- start waiting for a free key (transient window of a scan, `enqueueLate`) -/
  | lateWait (h k : Nat)
  /-- the oldest waiter of a key without guard becomes its guard -/
  | grant (h k : Nat)
  | release (h k : Nat)
  /-- a waiter gives up -/
  | leave (h k : Nat)
  /-- the guard of `k` sets the stored value -/
  | write (h k : Nat) (v : Option Nat)
deriving Repr, DecidableEq

def applyEv (sp : Spec) : SEv → Option Spec
  | .acquire h k => if sp.free k then some { sp with held := upd sp.held k (some h) } else none
  | .wait h k =>
    if sp.free k = true ∨ h ∈ sp.waiting k then none else some { sp with waiting := updL sp.waiting k (sp.waiting k ++ [h]) }
  | .lateWait h k => if sp.free k then some { sp with waiting := updL sp.waiting k [h] } else none
  | .grant h k =>
    if (sp.held k).isNone && (sp.waiting k).head? == some h then
      some { sp with held := upd sp.held k (some h), waiting := updL sp.waiting k (sp.waiting k).tail }
    else none
  | .release h k => if sp.held k = some h then some { sp with held := upd sp.held k none } else none
  | .leave h k => if h ∈ sp.waiting k then some { sp with waiting := updL sp.waiting k ((sp.waiting k).erase h) } else none
  | .write h k v => if sp.held k = some h then some { sp with vals := upd sp.vals k v } else none

def applyEvs (sp : Spec) : List SEv → Option Spec
  | [] => some sp
  | e :: es => match applyEv sp e with
    | some sp' => applyEvs sp' es
    | none => none

theorem applyEvs_append (es fs : List SEv) : ∀ sp sp', applyEvs sp es = some sp' → applyEvs sp (es ++ fs) = applyEvs sp' fs := by
  induction es with
  | nil => intro sp sp' h; simp [applyEvs] at h; subst h; rfl
  | cons e es ih =>
    intro sp sp' h
    simp only [applyEvs, List.cons_append] at h ⊢
    cases he : applyEv sp e with
    | none => rw [he] at h; cases h
    | some sp1 => rw [he] at h; simp only []; exact ih sp1 sp' h

theorem spec_ext (sp sp' : Spec) (hv : ∀ k, sp.vals k = sp'.vals k) (hh : ∀ k, sp.held k = sp'.held k)
    (hw : ∀ k, sp.waiting k = sp'.waiting k) : sp = sp' := by
  cases sp; cases sp'
  simp only [Spec.mk.injEq]
  exact ⟨funext hv, funext hh, funext hw⟩

/-- a change confined to key `k` and to a handle `h` of that key leaves the abstraction of the other keys alone -/
theorem abs_local (s s' : State) (h k : Nat) (hi : Inv s)
    (hkh : hkey (s.hs h) = some k ∨ s.hs h = none)
    (he : ∀ x, x ≠ k → s'.ent x = s.ent x) (hh : ∀ g, g ≠ h → s'.hs g = s.hs g) :
    ∀ x, x ≠ k → absVal s' x = absVal s x ∧ heldOf s' x = heldOf s x ∧ waitingOf s' x = waitingOf s x := by
  intro x hx
  have hnot : hkey (s.hs h) ≠ some x := by
    intro e
    rcases hkh with e2 | e2
    · rw [e2] at e; exact hx (Option.some.inj e).symm
    · rw [e2] at e; simp at e
  unfold absVal heldOf waitingOf
  rw [he x hx]
  refine ⟨rfl, ?_, ?_⟩
  · cases hm : s.ent x with
    | none => rfl
    | some m =>
      cases hho : m.holder with
      | none => simp only [hho]
      | some w =>
        have hwh : w ≠ h := by
          intro e2; subst e2
          exact hnot (hi.holderLive x m w hm hho).1
        simp only [hho, hh w hwh]
  · cases hm : s.ent x with
    | none => rfl
    | some m =>
      simp only [waitersOf]
      cases hho : m.holder with
      | none => simp only [hho]
      | some w =>
        have hwh : w ≠ h := by
          intro e2; subst e2
          exact hnot (hi.holderLive x m w hm hho).1
        simp only [hho, hh w hwh]

/-- the state of a handle that owns no mutex (a `ReplicaArc` before / after a failed try) is invisible to the abstraction -/
theorem abs_hs_irrelevant (s s' : State) (h : Nat) (hi : Inv s)
    (hno : ∀ st, hst (s.hs h) = some st → st.mayHold = false)
    (he : ∀ x, s'.ent x = s.ent x) (hh : ∀ g, g ≠ h → s'.hs g = s.hs g) : absSpec s' = absSpec s := by
  have hw : ∀ x m w, s.ent x = some m → m.holder = some w → w ≠ h := by
    intro x m w hm hho e; subst e
    obtain ⟨_, st, h1, h2⟩ := hi.holderLive x m w hm hho
    rw [hno st h1] at h2; cases h2
  apply spec_ext <;> intro x <;> simp only [absSpec, absVal, heldOf, waitingOf, he x]
  · cases hm : s.ent x with
    | none => rfl
    | some m =>
      cases hho : m.holder with
      | none => simp only [hho]
      | some w => simp only [hho, hh w (hw x m w hm hho)]
  · cases hm : s.ent x with
    | none => rfl
    | some m =>
      simp only [waitersOf]
      cases hho : m.holder with
      | none => simp only [hho]
      | some w => simp only [hho, hh w (hw x m w hm hho)]

/-- the guards a scan created -/
def scanEvs (r : State × Out) : List SEv :=
  match r.2 with
  | .list cands => cands.map fun c => SEv.acquire c (keyOfH r.1 c)
  | _ => []

/-- a lookup with soft limit: either the candidates that were locked, or the lookup proper -/
def limitEvs (s : State) (h k : Nat) (r : State × Out) : List SEv :=
  match r.2 with
  | .list cands => cands.map fun c => SEv.acquire c (keyOfH r.1 c)
  | .unit => if s.ent k = none then [.acquire h k] else []
  | _ => []

/-- the abstract events of a concrete step (computed from the concrete step; that they are *enabled* in the
specification and lead to the abstraction of the new state is the theorem) -/
def evOf (s : State) (a : Act) : List SEv :=
  match a with
  | .lookup h k => if (lookup s h k).2 = .unit ∧ s.ent k = none then [.acquire h k] else []
  | .limitLookup h k _ _ => limitEvs s h k (step s a)
  | .tryKey h => if (tryKey s h).2 = .bool true then [.acquire h (keyOfH s h)] else []
  | .enqueue h =>
    if (enqueue s h).2 = .bool true then [.acquire h (keyOfH s h)]
    else if (enqueue s h).2 = .bool false then [.wait h (keyOfH s h)] else []
  | .enqueueLate h =>
    if (enqueueLate s h).2 = .bool false then
      (if heldOf s (keyOfH s h) = none ∧ waitingOf s (keyOfH s h) = [] then [.lateWait h (keyOfH s h)] else [.wait h (keyOfH s h)])
    else []
  | .acquire h => if (acquire s h).2 = .bool true then [.grant h (keyOfH s h)] else []
  | .cancel h => if (cancel s h).2 = .unit ∧ hst (s.hs h) = some .queued then [.leave h (keyOfH s h)] else []
  | .gop h op => if (gop s h op).2 = .bad then [] else [.write h (keyOfH s h) (absVal (gop s h op).1 (keyOfH s h))]
  | .release h => if (release s h).2 = .unit then [.release h (keyOfH s h)] else []
  | .expire _ _ => scanEvs (step s a)
  | _ => []

theorem lin_local (s s' : State) (sp' : Spec) (h k : Nat) (hi : Inv s)
    (hkh : hkey (s.hs h) = some k ∨ s.hs h = none)
    (he : ∀ x, x ≠ k → s'.ent x = s.ent x) (hh : ∀ g, g ≠ h → s'.hs g = s.hs g)
    (ho : ∀ x, x ≠ k → sp'.vals x = absVal s x ∧ sp'.held x = heldOf s x ∧ sp'.waiting x = waitingOf s x)
    (lk : sp'.vals k = absVal s' k ∧ sp'.held k = heldOf s' k ∧ sp'.waiting k = waitingOf s' k) : sp' = absSpec s' := by
  apply spec_ext <;> intro x <;> by_cases hx : x = k
  all_goals first
    | (subst hx; first | exact lk.1 | exact lk.2.1 | exact lk.2.2)
    | (have a := abs_local s s' h k hi hkh he hh x hx
       have b := ho x hx
       simp only [absSpec]
       first | (rw [b.1, a.1]) | (rw [b.2.1, a.2.1]) | (rw [b.2.2, a.2.2]))

theorem lin_tryKey (s : State) (h : Nat) (hi : Inv s) :
    applyEvs (absSpec s) (evOf s (.tryKey h)) = some (absSpec (tryKey s h).1) := by
  simp only [evOf]
  unfold tryKey
  cases hh : s.hs h with
  | none => simp [applyEvs]
  | some hd =>
    simp only []
    by_cases hst1 : hd.st = .replica
    · simp only [hst1, ↓reduceIte]
      cases heo : s.entryOf hd with
      | none => simp [applyEvs]
      | some m =>
        obtain ⟨hm, _⟩ := entryOf_some heo
        simp only []
        by_cases hho : m.holder = none
        · simp only [hho, Option.isNone_none, ↓reduceIte, applyEvs, applyEv, keyOfH, hh, hkey_some, Option.getD_some]
          have hq := hi.freeNoQueue _ m hm hho
          have hfree : (absSpec s).free hd.key = true := by
            simp [Spec.free, absSpec, heldOf, waitingOf, waitersOf, hm, hho, hq]
          simp only [hfree, ↓reduceIte]
          congr 1
          apply lin_local s _ _ h hd.key hi (Or.inl (by simp [hh]))
          · intro x hx; simp [State.setEnt, State.setSt, upd, hx]
          · intro g hg; simp [State.setEnt, State.setSt, upd, hg]
          · intro x hx; simp [absSpec, upd, hx]
          · simp [absSpec, absVal, heldOf, waitingOf, waitersOf, State.setEnt, State.setSt, upd, hm, hho, valOf]
        · have : m.holder.isNone = false := by cases hx : m.holder <;> simp_all
          simp only [this, Bool.false_eq_true, ↓reduceIte, reduceCtorEq, Out.bool.injEq, applyEvs]
          congr 1
          symm
          apply abs_hs_irrelevant s _ h hi
          · intro st hs; simp [hh, hst1] at hs; subst hs; rfl
          · intro x; simp [State.setSt]
          · intro g hg; simp [State.setSt, upd, hg]
    · simp [hst1, applyEvs]

/-- a `ReplicaArc` that has not operated on the mutex owns nothing -/
theorem replica_not_holder (s : State) (hi : Inv s) (h : Nat) (hd : Handle) (hh : s.hs h = some hd) (hst1 : hd.st = .replica)
    (k : Nat) (m : Entry) (w : Nat) (hm : s.ent k = some m) (hho : m.holder = some w) : w ≠ h := by
  intro e; subst e
  obtain ⟨_, st, h1, h2⟩ := hi.holderLive k m w hm hho
  simp [hh, hst1] at h1; subst h1; cases h2

theorem lin_enqueue (s : State) (h : Nat) (hi : Inv s) :
    applyEvs (absSpec s) (evOf s (.enqueue h)) = some (absSpec (enqueue s h).1) := by
  simp only [evOf]
  unfold enqueue
  cases hh : s.hs h with
  | none => simp [applyEvs]
  | some hd =>
    simp only []
    by_cases hst1 : hd.st = .replica
    · simp only [hst1, ↓reduceIte]
      cases heo : s.entryOf hd with
      | none => simp [applyEvs]
      | some m =>
        obtain ⟨hm, _⟩ := entryOf_some heo
        simp only []
        by_cases hho : m.holder = none
        · simp only [hho, Option.isNone_none, ↓reduceIte, applyEvs, applyEv, keyOfH, hh, hkey_some, Option.getD_some]
          have hq := hi.freeNoQueue _ m hm hho
          have hfree : (absSpec s).free hd.key = true := by
            simp [Spec.free, absSpec, heldOf, waitingOf, waitersOf, hm, hho, hq]
          simp only [hfree, ↓reduceIte]
          congr 1
          apply lin_local s _ _ h hd.key hi (Or.inl (by simp [hh]))
          · intro x hx; simp [State.setEnt, State.setSt, upd, hx]
          · intro g hg; simp [State.setEnt, State.setSt, upd, hg]
          · intro x hx; simp [absSpec, upd, hx]
          · simp [absSpec, absVal, heldOf, waitingOf, waitersOf, State.setEnt, State.setSt, upd, hm, hho, valOf]
        · obtain ⟨w, hw⟩ : ∃ w, m.holder = some w := by cases hx : m.holder <;> simp_all
          have hwh := replica_not_holder s hi h hd hh hst1 hd.key m w hm hw
          have hnf0 : (absSpec s).free hd.key = false := by
            simp only [Spec.free, absSpec, heldOf, waitingOf, waitersOf, hm, hw]
            by_cases hq : hst (s.hs w) = some .queued <;> simp [hq]
          have hnq : h ∉ m.queue := by
            intro e
            have := ((hi.queue hd.key m hm h).1 e).2.1
            simp [hh, hst1] at this
          have hnf : ¬ ((absSpec s).free hd.key = true ∨ h ∈ (absSpec s).waiting hd.key) := by
            rw [hnf0]
            simp only [Bool.false_eq_true, false_or, absSpec, waitingOf, waitersOf, hm, hw]
            by_cases hq : hst (s.hs w) = some .queued <;> simp [hq, hnq, hwh.symm]
          simp only [hw, Option.isNone_some, Bool.false_eq_true, ↓reduceIte, reduceCtorEq, Out.bool.injEq, applyEvs, applyEv,
            keyOfH, hh, hkey_some, Option.getD_some, hnf]
          congr 1
          apply lin_local s _ _ h hd.key hi (Or.inl (by simp [hh]))
          · intro x hx; simp [State.setEnt, State.setSt, upd, hx]
          · intro g hg; simp [State.setEnt, State.setSt, upd, hg]
          · intro x hx; simp [absSpec, upd, updL, hx]
          · simp [absSpec, absVal, heldOf, waitingOf, waitersOf, State.setEnt, State.setSt, upd, updL, hm, hw, valOf, hwh]
    · simp [hst1, applyEvs]

theorem lin_enqueueLate (s : State) (h : Nat) (hi : Inv s) :
    applyEvs (absSpec s) (evOf s (.enqueueLate h)) = some (absSpec (enqueueLate s h).1) := by
  simp only [evOf]
  unfold enqueueLate
  cases hh : s.hs h with
  | none => simp [applyEvs]
  | some hd =>
    simp only []
    by_cases hst1 : hd.st = .replica
    · simp only [hst1, ↓reduceIte]
      cases heo : s.entryOf hd with
      | none => simp [applyEvs]
      | some m =>
        obtain ⟨hm, _⟩ := entryOf_some heo
        simp only []
        by_cases hho : m.holder = none
        · have hq := hi.freeNoQueue _ m hm hho
          have hfree : (absSpec s).free hd.key = true := by
            simp [Spec.free, absSpec, heldOf, waitingOf, waitersOf, hm, hho, hq]
          have hc : heldOf s hd.key = none ∧ waitingOf s hd.key = [] := by
            simp [heldOf, waitingOf, waitersOf, hm, hho, hq]
          simp only [hho, Option.isNone_none, ↓reduceIte, applyEvs, applyEv, keyOfH, hh, hkey_some, Option.getD_some, hc, and_self, hfree]
          congr 1
          apply lin_local s _ _ h hd.key hi (Or.inl (by simp [hh]))
          · intro x hx; simp [State.setEnt, State.setSt, upd, hx]
          · intro g hg; simp [State.setEnt, State.setSt, upd, hg]
          · intro x hx; simp [absSpec, upd, updL, hx]
          · simp [absSpec, absVal, heldOf, waitingOf, waitersOf, State.setEnt, State.setSt, upd, updL, hm, hho, valOf, hq]
        · obtain ⟨w, hw⟩ : ∃ w, m.holder = some w := by cases hx : m.holder <;> simp_all
          have hwh := replica_not_holder s hi h hd hh hst1 hd.key m w hm hw
          have hnf0 : (absSpec s).free hd.key = false := by
            simp only [Spec.free, absSpec, heldOf, waitingOf, waitersOf, hm, hw]
            by_cases hq : hst (s.hs w) = some .queued <;> simp [hq]
          have hnq : h ∉ m.queue := by
            intro e
            have := ((hi.queue hd.key m hm h).1 e).2.1
            simp [hh, hst1] at this
          have hnf : ¬ ((absSpec s).free hd.key = true ∨ h ∈ (absSpec s).waiting hd.key) := by
            rw [hnf0]
            simp only [Bool.false_eq_true, false_or, absSpec, waitingOf, waitersOf, hm, hw]
            by_cases hq : hst (s.hs w) = some .queued <;> simp [hq, hnq, hwh.symm]
          have hc : ¬ (heldOf s hd.key = none ∧ waitingOf s hd.key = []) := by
            simp only [heldOf, waitingOf, waitersOf, hm, hw]
            by_cases hq : hst (s.hs w) = some .queued <;> simp [hq]
          simp only [hw, Option.isNone_some, Bool.false_eq_true, ↓reduceIte, reduceCtorEq, Out.bool.injEq, applyEvs, applyEv,
            keyOfH, hh, hkey_some, Option.getD_some, hnf, hc]
          congr 1
          apply lin_local s _ _ h hd.key hi (Or.inl (by simp [hh]))
          · intro x hx; simp [State.setEnt, State.setSt, upd, hx]
          · intro g hg; simp [State.setEnt, State.setSt, upd, hg]
          · intro x hx; simp [absSpec, upd, updL, hx]
          · simp [absSpec, absVal, heldOf, waitingOf, waitersOf, State.setEnt, State.setSt, upd, updL, hm, hw, valOf, hwh]
    · simp [hst1, applyEvs]

theorem lin_acquire (s : State) (h : Nat) (hi : Inv s) :
    applyEvs (absSpec s) (evOf s (.acquire h)) = some (absSpec (acquire s h).1) := by
  simp only [evOf]
  unfold acquire
  cases hh : s.hs h with
  | none => simp [applyEvs]
  | some hd =>
    simp only []
    by_cases hst1 : hd.st = .queued
    · simp only [hst1, ↓reduceIte]
      cases heo : s.entryOf hd with
      | none => simp [applyEvs]
      | some m =>
        obtain ⟨hm, _⟩ := entryOf_some heo
        simp only []
        by_cases hho : m.holder = some h
        · simp only [hho, ↓reduceIte, applyEvs, applyEv, keyOfH, hh, hkey_some, Option.getD_some]
          have hg : (((absSpec s).held hd.key).isNone && ((absSpec s).waiting hd.key).head? == some h) = true := by
            simp [absSpec, heldOf, waitingOf, waitersOf, hm, hho, hh, hst1]
          simp only [hg, ↓reduceIte]
          congr 1
          apply lin_local s _ _ h hd.key hi (Or.inl (by simp [hh]))
          · intro x hx; simp [State.setSt]
          · intro g hg; simp [State.setSt, upd, hg]
          · intro x hx; simp [absSpec, upd, updL, hx]
          · simp [absSpec, absVal, heldOf, waitingOf, waitersOf, State.setSt, upd, updL, hm, hho, valOf, hh, hst1]
        · simp [hho, applyEvs]
    · simp [hst1, applyEvs]

theorem absSpec_congr (s s' : State) (he : s'.ent = s.ent) (hh : s'.hs = s.hs) : absSpec s' = absSpec s := by
  simp only [absSpec, Spec.mk.injEq]
  refine ⟨?_, ?_, ?_⟩ <;> funext x
  · simp only [absVal, he]
  · simp only [heldOf, he, hh]
  · simp only [waitingOf, waitersOf, he, hh]

theorem absSpec_touch (s : State) (k : Nat) : absSpec (s.touch k) = absSpec s :=
  absSpec_congr s _ (touch_ent s k) (touch_hs s k)

theorem lin_lookup (s : State) (h k : Nat) (hi : Inv s) :
    applyEvs (absSpec s) (evOf s (.lookup h k)) = some (absSpec (lookup s h k).1) := by
  simp only [evOf]
  unfold lookup
  simp only [hi.notWedged, Bool.false_eq_true, ↓reduceIte]
  cases hh : s.hs h with
  | some hd => simp [applyEvs]
  | none =>
    simp only [Option.isSome_none, Bool.false_eq_true, ↓reduceIte]
    cases hm : s.ent k with
    | some m =>
      simp only [reduceCtorEq, and_false, ↓reduceIte, applyEvs]
      congr 1
      rw [absSpec_touch]
      apply lin_local s _ _ h k hi (Or.inr hh)
      · intro x hx; simp [State.clone, upd, hx]
      · intro g hg; simp [State.clone, upd, hg]
      · intro x hx; exact ⟨rfl, rfl, rfl⟩
      · have hwh : ∀ w, m.holder = some w → w ≠ h := by
          intro w hw e; subst e
          have := (hi.holderLive k m w hm hw).1
          rw [hh] at this; cases this
        refine ⟨?_, ?_, ?_⟩
        · simp [absSpec, absVal, State.clone, upd, hm, valOf]
        · simp only [absSpec, heldOf, State.clone, upd, hm, ↓reduceIte]
          cases hho : m.holder with
          | none => rfl
          | some w => simp [hwh w hho]
        · simp only [absSpec, waitingOf, waitersOf, State.clone, upd, hm, ↓reduceIte]
          cases hho : m.holder with
          | none => rfl
          | some w => simp [hwh w hho]
    | none =>
      simp only [and_self, ↓reduceIte, applyEvs, applyEv]
      have hfree : (absSpec s).free k = true := by
        simp [Spec.free, absSpec, heldOf, waitingOf, hm]
      simp only [hfree, ↓reduceIte]
      congr 1
      apply lin_local s _ _ h k hi (Or.inr hh)
      · intro x hx; simp [upd, hx]
      · intro g hg; simp [upd, hg]
      · intro x hx; simp [absSpec, upd, hx]
      · simp [absSpec, absVal, heldOf, waitingOf, waitersOf, upd, hm, valOf]

theorem lin_trySpurious (s : State) (h : Nat) (hi : Inv s) :
    applyEvs (absSpec s) (evOf s (.trySpurious h)) = some (absSpec (trySpurious s h).1) := by
  simp only [evOf, applyEvs]
  unfold trySpurious
  cases hh : s.hs h with
  | none => rfl
  | some hd =>
    simp only []
    by_cases hst1 : hd.st = .replica
    · simp only [hst1, ↓reduceIte]
      congr 1
      symm
      apply abs_hs_irrelevant s _ h hi
      · intro st hs; simp [hh, hst1] at hs; subst hs; rfl
      · intro x; simp [State.setSt]
      · intro g hg; simp [State.setSt, upd, hg]
    · simp [hst1]

theorem lin_stamp (s : State) (h : Nat) (hi : Inv s) :
    applyEvs (absSpec s) (evOf s (.stamp h)) = some (absSpec (stamp s h).1) := by
  simp only [evOf, applyEvs]
  congr 1
  cases hh : s.hs h with
  | none => simp [stamp, hh]
  | some hd =>
    by_cases hst1 : hd.st = .holding
    · cases heo : s.entryOf hd with
      | none => simp [stamp, hh, hst1, heo]
      | some m =>
        obtain ⟨hm, _⟩ := entryOf_some heo
        have hho := hi.guardHolds h hd hh (by simp [hst1, HSt.isGuard]) m hm
        apply lin_local s _ _ h hd.key hi (Or.inl (by simp [hh]))
        · intro x hx; exact stamp_ent_other s h hd x hh hx
        · intro g hg; exact stamp_hs_other s h g hg
        · intro x hx; exact ⟨rfl, rfl, rfl⟩
        · refine ⟨(absVal_stamp s h hd.key).symm, ?_, ?_⟩
          · simp only [absSpec, heldOf, hm, hho, hh, hst_some, hst1]
            simp only [stamp, hh, hst1, heo, ↓reduceIte]
            cases s.kind <;> cases m.value <;> simp [State.setEnt, State.setSt, upd, hho]
          · simp only [absSpec, waitingOf, waitersOf, hm, hho, hh, hst_some, hst1]
            simp only [stamp, hh, hst1, heo, ↓reduceIte]
            cases s.kind <;> cases m.value <;> simp [State.setEnt, State.setSt, upd, hho]
    · simp [stamp, hh, hst1]

theorem gop_hs (s : State) (h : Nat) (op : GOp) : (gop s h op).1.hs = s.hs := by
  unfold gop
  repeat' split
  all_goals simp [State.setEnt]

theorem gop_ent_k (s : State) (h : Nat) (op : GOp) (hd : Handle) (m : Entry) (hh : s.hs h = some hd)
    (hm : s.ent hd.key = some m) :
    ∃ m', (gop s h op).1.ent hd.key = some m' ∧ m'.holder = m.holder ∧ m'.queue = m.queue := by
  unfold gop
  simp only [hh]
  split
  · cases heo : s.entryOf hd with
    | none => exact ⟨m, hm, rfl, rfl⟩
    | some m1 =>
      have := (entryOf_some heo).1
      rw [hm] at this; cases this
      simp only []
      cases op <;> simp only [] <;> repeat' split
      all_goals first
        | exact ⟨m, hm, rfl, rfl⟩
        | exact ⟨_, upd_same _ _ _, rfl, rfl⟩
  · exact ⟨m, hm, rfl, rfl⟩

theorem lin_gop (s : State) (h : Nat) (op : GOp) (hi : Inv s) :
    applyEvs (absSpec s) (evOf s (.gop h op)) = some (absSpec (gop s h op).1) := by
  simp only [evOf]
  cases hh : s.hs h with
  | none => simp [gop, hh, applyEvs]
  | some hd =>
    by_cases hst1 : hd.st = .holding
    · cases heo : s.entryOf hd with
      | none => simp [gop, hh, hst1, heo, applyEvs]
      | some m =>
        obtain ⟨hm, _⟩ := entryOf_some heo
        have hho := hi.guardHolds h hd hh (by simp [hst1, HSt.isGuard]) m hm
        obtain ⟨m', hm', hho', hq'⟩ := gop_ent_k s h op hd m hh hm
        have hheld : (absSpec s).held hd.key = some h := by
          simp [absSpec, heldOf, hm, hho, hh, hst1]
        have hk : keyOfH s h = hd.key := by simp [keyOfH, hh]
        have key : applyEvs (absSpec s) [SEv.write h (keyOfH s h) (absVal (gop s h op).1 (keyOfH s h))] = some (absSpec (gop s h op).1) := by
          simp only [applyEvs, applyEv, hk, hheld, ↓reduceIte]
          congr 1
          apply lin_local s _ _ h hd.key hi (Or.inl (by simp [hh]))
          · intro x hx; exact C03_aux_gop_ent s h hd x hh hx op
          · intro g _; rw [gop_hs]
          · intro x hx; simp [absSpec, upd, hx]
          · refine ⟨by simp [upd], ?_, ?_⟩
            · simp only [absSpec, heldOf, hm, hm', hho, hho', gop_hs]
            · simp only [absSpec, waitingOf, waitersOf, hm, hm', hho, hho', hq', gop_hs]
        split
        · rename_i hbad
          simp only [applyEvs]
          -- a bad outcome leaves the state alone
          have : (gop s h op).1 = s := by
            revert hbad
            unfold gop
            simp only [hh, hst1, ↓reduceIte, heo]
            cases op <;> simp only [] <;> repeat' split
            all_goals simp
          rw [this]
        · exact key
    · simp [gop, hh, hst1, applyEvs]

/-- if `h` is the last reference of an entry, nobody else is queued on it -/
theorem last_ref_no_queue (s : State) (hi : Inv s) (k h : Nat) (m : Entry) (hm : s.ent k = some m)
    (hl : (m.refs.erase h).length = 0) : ∀ w, w ∈ m.queue → w = h := by
  intro w hwq
  have hw := (hi.queue k m hm w).1 hwq
  have hwr : w ∈ m.refs := (hi.refs k m hm w).2 hw.1
  false_or_by_contra
  rename_i hne
  have := (List.Nodup.mem_erase_iff (hi.refsNodup k m hm)).2 ⟨hne, hwr⟩
  rw [List.eq_nil_of_length_eq_zero hl] at this; cases this

def heldBy (s : State) : Option Nat → Option Nat
  | some w => if hst (s.hs w) = some .queued then none else some w
  | none => none
def assignedOf (s : State) : Option Nat → List Nat
  | some w => if hst (s.hs w) = some .queued then [w] else []
  | none => []

/-- the abstraction at the key of a handle that is dropped in a section of the global lock -/
theorem abs_drop_shape (s s' : State) (h : Nat) (hd : Handle) (H' : Option Nat) (Q' : List Nat)
    (hhs : ∀ g, g ≠ h → s'.hs g = s.hs g)
    (hnew : (s'.ent hd.key = none ∧ H' = none ∧ Q' = []) ∨ ∃ m', s'.ent hd.key = some m' ∧ m'.holder = H' ∧ m'.queue = Q')
    (hH : H' ≠ some h) :
    heldOf s' hd.key = heldBy s H' ∧ waitingOf s' hd.key = assignedOf s H' ++ Q' := by
  rcases hnew with ⟨e1, e2, e3⟩ | ⟨m', e1, e2, e3⟩
  · subst e2; subst e3
    simp [heldOf, waitingOf, e1, heldBy, assignedOf]
  · subst e2; subst e3
    simp only [heldOf, waitingOf, waitersOf, e1]
    cases hho : m'.holder with
    | none => simp [heldBy, assignedOf]
    | some w =>
      have : w ≠ h := fun e => hH (by rw [hho, e])
      simp only [hhs w this, heldBy, assignedOf]
      exact ⟨trivial, trivial⟩

theorem release_ent_k (s : State) (hi : Inv s) (h : Nat) (hd : Handle) (b : Bool) (m : Entry)
    (hh : s.hs h = some hd) (hst1 : hd.st = .stamped b) (heo : s.entryOf hd = some m) :
    (release s h).2 = .unit ∧ (release s h).1.hs h = none ∧
    (((release s h).1.ent hd.key = none ∧ m.queue.head? = none ∧ m.queue.tail = []) ∨
     (∃ m', (release s h).1.ent hd.key = some m' ∧ m'.holder = m.queue.head? ∧ m'.queue = m.queue.tail)) := by
  obtain ⟨hm, _⟩ := entryOf_some heo
  unfold release
  simp only [hi.notWedged, Bool.false_eq_true, ↓reduceIte, hh, hst1, heo]
  cases b with
  | true =>
    exact ⟨rfl, by simp [State.setEnt, State.dropHandle, upd],
      Or.inr ⟨handoff m h, by simp [State.setEnt, State.dropHandle, upd], rfl, rfl⟩⟩
  | false =>
    simp only [Bool.false_eq_true, ↓reduceIte]
    split
    · rename_i hl
      have hq : m.queue = [] := by
        cases hq : m.queue with
        | nil => rfl
        | cons w t =>
          exfalso
          have hwq : w ∈ m.queue := by rw [hq]; simp
          have e := last_ref_no_queue s hi hd.key h m hm (by simpa [handoff] using hl) w hwq
          subst e
          have := ((hi.queue hd.key m hm w).1 hwq).2.1
          simp [hh, hst1] at this
      exact ⟨rfl, by simp [State.removeKey, touch_hs, State.setEnt, State.dropHandle, upd],
        Or.inl ⟨by simp [State.removeKey, upd], by simp [hq], by simp [hq]⟩⟩
    · exact ⟨rfl, by simp [touch_hs, State.setEnt, State.dropHandle, upd],
        Or.inr ⟨handoff m h, by rw [touch_ent]; simp [State.setEnt, State.dropHandle, upd], rfl, rfl⟩⟩

theorem lin_release (s : State) (h : Nat) (hi : Inv s) :
    applyEvs (absSpec s) (evOf s (.release h)) = some (absSpec (release s h).1) := by
  simp only [evOf]
  cases hh : s.hs h with
  | none => simp [release, hh, hi.notWedged, applyEvs]
  | some hd =>
    cases hst1 : hd.st with
    | stamped b =>
      cases heo : s.entryOf hd with
      | none => simp [release, hh, hi.notWedged, hst1, heo, applyEvs]
      | some m =>
        obtain ⟨hm, _⟩ := entryOf_some heo
        have hho := hi.guardHolds h hd hh (by simp [hst1, HSt.isGuard]) m hm
        obtain ⟨hout, hgone, hnew⟩ := release_ent_k s hi h hd b m hh hst1 heo
        have hk : keyOfH s h = hd.key := by simp [keyOfH, hh]
        have hheld : (absSpec s).held hd.key = some h := by
          simp [absSpec, heldOf, hm, hho, hh, hst1]
        simp only [hout, ↓reduceIte, applyEvs, applyEv, hk, hheld]
        congr 1
        have hnh : m.queue.head? ≠ some h := by
          intro e
          have := ((hi.queue hd.key m hm h).1 (head_mem _ _ e)).2.2
          exact this hho
        obtain ⟨a1, a2⟩ := abs_drop_shape s (release s h).1 h hd m.queue.head? m.queue.tail
          (fun g hg => release_hs_other s h g hg) hnew hnh
        apply lin_local s _ _ h hd.key hi (Or.inl (by simp [hh]))
        · intro x hx; exact release_ent_other s h hd x hh hx
        · intro g hg; exact release_hs_other s h g hg
        · intro x hx; simp [absSpec, upd, hx]
        · refine ⟨(absVal_release s h hd.key hi).symm, ?_, ?_⟩
          · rw [a1]
            simp only [absSpec, upd_same]
            cases hq : m.queue.head? with
            | none => rfl
            | some w =>
              have := ((hi.queue hd.key m hm w).1 (head_mem _ _ hq)).2.1
              simp [heldBy, this]
          · rw [a2]
            simp only [absSpec, waitingOf, waitersOf, hm, hho, hh, hst_some, hst1]
            cases hq : m.queue with
            | nil => simp [assignedOf]
            | cons w t =>
              have := ((hi.queue hd.key m hm w).1 (by rw [hq]; simp)).2.1
              simp [assignedOf, this]
    | _ => simp [release, hh, hi.notWedged, hst1, applyEvs]

theorem cleanupFailed_hs_other (s : State) (h x : Nat) (hx : x ≠ h) : (cleanupFailed s h).1.hs x = s.hs x := by
  unfold cleanupFailed
  repeat' split
  all_goals (try simp only [])
  all_goals simp [State.removeKey, State.dropHandle, State.setEnt, State.wedge, upd, hx]

theorem cleanupFailed_ent_other (s : State) (h : Nat) (hd : Handle) (x : Nat) (hh : s.hs h = some hd) (hx : x ≠ hd.key) :
    (cleanupFailed s h).1.ent x = s.ent x := by
  unfold cleanupFailed; simp only [hh]
  repeat' split
  all_goals (try simp only [])
  all_goals simp [State.removeKey, State.dropHandle, State.setEnt, State.wedge, upd, hx]

theorem cleanupFailed_ent_k (s : State) (hi : Inv s) (h : Nat) (hd : Handle) (m : Entry)
    (hh : s.hs h = some hd) (hst1 : hd.st = .failedTry) (heo : s.entryOf hd = some m) :
    ((cleanupFailed s h).1.ent hd.key = none ∧ m.holder = none ∧ m.queue = []) ∨
     (∃ m', (cleanupFailed s h).1.ent hd.key = some m' ∧ m'.holder = m.holder ∧ m'.queue = m.queue) := by
  obtain ⟨hm, _⟩ := entryOf_some heo
  have hnf := cleanupFailed_noFail s h hi
  unfold cleanupFailed at hnf ⊢
  simp only [hi.notWedged, Bool.false_eq_true, ↓reduceIte, hh, hst1, heo] at hnf ⊢
  by_cases hl : m.refs.length = 1
  · simp only [hl, ↓reduceIte] at hnf ⊢
    by_cases hs : m.holder.isSome = true
    · simp [hs, Out.isFailure] at hnf
    · have hnone : m.holder = none := by cases hx : m.holder <;> simp_all
      simp only [hs, Bool.false_eq_true, ↓reduceIte]
      split
      · exact Or.inl ⟨by simp [State.removeKey, upd], hnone, hi.freeNoQueue _ m hm hnone⟩
      · exact Or.inr ⟨_, upd_same _ _ _, rfl, rfl⟩
  · simp only [hl, ↓reduceIte]
    exact Or.inr ⟨_, upd_same _ _ _, rfl, rfl⟩

theorem lin_cleanupFailed (s : State) (h : Nat) (hi : Inv s) :
    applyEvs (absSpec s) (evOf s (.cleanupFailed h)) = some (absSpec (cleanupFailed s h).1) := by
  simp only [evOf, applyEvs]
  congr 1
  cases hh : s.hs h with
  | none => simp [cleanupFailed, hh, hi.notWedged]
  | some hd =>
    by_cases hst1 : hd.st = .failedTry
    · cases heo : s.entryOf hd with
      | none => simp [cleanupFailed, hh, hi.notWedged, hst1, heo]
      | some m =>
        obtain ⟨hm, _⟩ := entryOf_some heo
        have hnew := cleanupFailed_ent_k s hi h hd m hh hst1 heo
        have hnh : m.holder ≠ some h := by
          intro e
          obtain ⟨_, st, h1, h2⟩ := hi.holderLive hd.key m h hm e
          simp [hh, hst1] at h1; subst h1; cases h2
        obtain ⟨a1, a2⟩ := abs_drop_shape s (cleanupFailed s h).1 h hd m.holder m.queue
          (fun g hg => cleanupFailed_hs_other s h g hg) hnew hnh
        apply lin_local s _ _ h hd.key hi (Or.inl (by simp [hh]))
        · intro x hx; exact cleanupFailed_ent_other s h hd x hh hx
        · intro g hg; exact cleanupFailed_hs_other s h g hg
        · intro x hx; exact ⟨rfl, rfl, rfl⟩
        · refine ⟨(absVal_cleanupFailed s h hd.key).symm, ?_, ?_⟩
          · rw [a1]; simp only [absSpec, heldOf, hm]; cases m.holder <;> rfl
          · rw [a2]; simp only [absSpec, waitingOf, waitersOf, hm]; cases m.holder <;> rfl
    · simp [cleanupFailed, hh, hi.notWedged, hst1]

/-- what cancelling the pending acquisition `h` does to the entry of its key -/
theorem cancel_ent_k' (s : State) (hi : Inv s) (h : Nat) (hd : Handle) (m : Entry)
    (e1 : s.hs h = some hd) (e3 : hd.st = .replica ∨ hd.st = .queued) (hm : s.ent hd.key = some m) (heo : s.entryOf hd = some m) :
    let q' := if m.holder = some h then m.queue.tail else m.queue.erase h
    let h' := if m.holder = some h then m.queue.head? else m.holder
    (cancel s h).2 = .unit ∧ (cancel s h).1.hs h = none ∧
    (((cancel s h).1.ent hd.key = none ∧ q' = [] ∧ h' = none) ∨
     (∃ m', (cancel s h).1.ent hd.key = some m' ∧ m'.holder = h' ∧ m'.queue = q')) := by
  intro q' h'
  let m' : Entry := if m.holder = some h then handoff m h
                    else { m with queue := m.queue.erase h, refs := m.refs.erase h }
  have hmh : m'.holder = h' := by simp only [m', h']; split <;> simp [handoff]
  have hmq : m'.queue = q' := by simp only [m', q']; split <;> simp [handoff]
  have key : cancel s h =
      (if m'.refs.length = 0 then
        if m'.holder.isSome = true then (s.wedge, Out.panic Site.cancelTry)
        else if m'.value.isNone = true then (((s.setEnt hd.key m').dropHandle h).removeKey hd.key, Out.unit)
        else ((s.setEnt hd.key m').dropHandle h, Out.unit)
      else ((s.setEnt hd.key m').dropHandle h, Out.unit)) := by
    simp only [cancel, hi.notWedged, Bool.false_eq_true, ↓reduceIte, e1, e3, heo, or_true, m']
  have hnf := cancel_noFail s h hi
  rw [key] at hnf ⊢
  by_cases hl : m'.refs.length = 0
  · simp only [hl, ↓reduceIte] at hnf ⊢
    by_cases hs : m'.holder.isSome = true
    · simp [hs, Out.isFailure] at hnf
    · simp only [hs] at hnf ⊢
      have hnone : h' = none := by rw [← hmh]; cases hx : m'.holder <;> simp_all
      -- no other handle references the key, so nobody is queued
      have hqnil : q' = [] := by
        rw [← hmq]
        cases hq : m'.queue with
        | nil => rfl
        | cons w t =>
          exfalso
          have hwq' : w ∈ m'.queue := by rw [hq]; simp
          have hwq : w ∈ m.queue ∧ w ≠ h := by
            simp only [m'] at hwq'
            split at hwq'
            · rename_i hho
              simp only [handoff] at hwq'
              have hin := List.mem_of_mem_tail hwq'
              exact ⟨hin, fun e => ((hi.queue hd.key m hm w).1 hin).2.2 (e ▸ hho)⟩
            · simp only [] at hwq'
              have := (List.Nodup.mem_erase_iff (hi.queueNodup hd.key m hm)).1 hwq'
              exact ⟨this.2, this.1⟩
          have hwr : w ∈ m.refs := (hi.refs hd.key m hm w).2 ((hi.queue hd.key m hm w).1 hwq.1).1
          have hwr' : w ∈ m'.refs := by
            simp only [m']; split <;>
              (simp only [handoff]; exact (List.Nodup.mem_erase_iff (hi.refsNodup hd.key m hm)).2 ⟨hwq.2, hwr⟩)
          rw [List.eq_nil_of_length_eq_zero hl] at hwr'; cases hwr'
      by_cases hv : m'.value.isNone = true
      · simp only [hv, ↓reduceIte]
        exact ⟨rfl, by simp [State.removeKey, State.dropHandle, State.setEnt, upd],
               Or.inl ⟨by simp [State.removeKey, upd], hqnil, hnone⟩⟩
      · simp only [hv]
        exact ⟨rfl, by simp [State.dropHandle, State.setEnt, upd],
               Or.inr ⟨m', by simp [State.dropHandle, State.setEnt, upd], hmh, hmq⟩⟩
  · simp only [hl, ↓reduceIte]
    exact ⟨trivial, by simp [State.dropHandle, State.setEnt, upd],
           Or.inr ⟨m', by simp [State.dropHandle, State.setEnt, upd], hmh, hmq⟩⟩


theorem lin_cancel (s : State) (h : Nat) (hi : Inv s) :
    applyEvs (absSpec s) (evOf s (.cancel h)) = some (absSpec (cancel s h).1) := by
  simp only [evOf]
  cases hh : s.hs h with
  | none => simp [cancel, hh, hi.notWedged, applyEvs]
  | some hd =>
    by_cases hst1 : hd.st = .replica ∨ hd.st = .queued
    · cases heo : s.entryOf hd with
      | none => simp [cancel, hh, hi.notWedged, hst1, heo, applyEvs]
      | some m =>
        obtain ⟨hm, _⟩ := entryOf_some heo
        obtain ⟨hout, hgone, hnew⟩ := cancel_ent_k' s hi h hd m hh hst1 hm heo
        have hk : keyOfH s h = hd.key := by simp [keyOfH, hh]
        have hH : (if m.holder = some h then m.queue.head? else m.holder) ≠ some h := by
          split
          · rename_i hho
            intro e
            exact ((hi.queue hd.key m hm h).1 (head_mem _ _ e)).2.2 hho
          · assumption
        obtain ⟨a1, a2⟩ := abs_drop_shape s (cancel s h).1 h hd _ _
          (fun g hg => cancel_hs_other s h g hg)
          (hnew.imp (fun ⟨x1, x2, x3⟩ => ⟨x1, x3, x2⟩) id) hH
        have hloc : ∀ sp' : Spec,
            (∀ x, x ≠ hd.key → sp'.vals x = absVal s x ∧ sp'.held x = heldOf s x ∧ sp'.waiting x = waitingOf s x) →
            (sp'.vals hd.key = absVal s hd.key ∧ sp'.held hd.key = heldOf (cancel s h).1 hd.key ∧
              sp'.waiting hd.key = waitingOf (cancel s h).1 hd.key) → sp' = absSpec (cancel s h).1 := by
          intro sp' ho lk
          apply lin_local s _ _ h hd.key hi (Or.inl (by simp [hh]))
          · intro x hx; exact cancel_ent_other s h hd x hh hx
          · intro g hg; exact cancel_hs_other s h g hg
          · exact ho
          · exact ⟨by rw [lk.1, absVal_cancel], lk.2.1, lk.2.2⟩
        rcases hst1 with hst1 | hst1
        · -- a `ReplicaArc` that never touched the mutex: no abstract event
          have hne : ¬ hst (some hd) = some .queued := by simp [hst1]
          simp only [hne, and_false, ↓reduceIte, applyEvs]
          congr 1
          have hnh : m.holder ≠ some h := by
            intro e
            exact replica_not_holder s hi h hd hh hst1 hd.key m h hm e rfl
          have hnq : h ∉ m.queue := by
            intro e
            have := ((hi.queue hd.key m hm h).1 e).2.1
            simp [hh, hst1] at this
          apply hloc
          · intro x hx; exact ⟨rfl, rfl, rfl⟩
          · refine ⟨rfl, ?_, ?_⟩
            · rw [a1]; simp only [absSpec, heldOf, hm, hnh, ↓reduceIte]; cases m.holder <;> rfl
            · rw [a2]; simp only [absSpec, waitingOf, waitersOf, hm, hnh, ↓reduceIte, List.erase_of_not_mem hnq]
              cases m.holder <;> rfl
        · have hq : hst (s.hs h) = some .queued := by simp [hh, hst1]
          have hq' : hst (some hd) = some .queued := by simp [hst1]
          simp only [hout, hq', and_self, ↓reduceIte, applyEvs, applyEv, hk]
          by_cases hho : m.holder = some h
          · have hw : waitingOf s hd.key = h :: m.queue := by
              simp [waitingOf, waitersOf, hm, hho, hq]
            have hmem : h ∈ (absSpec s).waiting hd.key := by simp [absSpec, hw]
            simp only [hmem, ↓reduceIte]
            congr 1
            apply hloc
            · intro x hx; simp [absSpec, updL, hx]
            · refine ⟨rfl, ?_, ?_⟩
              · rw [a1]; simp only [hho, ↓reduceIte, absSpec, heldOf, hm, hq]
                cases hq2 : m.queue.head? with
                | none => rfl
                | some w =>
                  have := ((hi.queue hd.key m hm w).1 (head_mem _ _ hq2)).2.1
                  simp [heldBy, this]
              · rw [a2]; simp only [hho, ↓reduceIte, absSpec, updL, hw, List.erase_cons_head]
                cases hq2 : m.queue with
                | nil => simp [assignedOf]
                | cons w t =>
                  have := ((hi.queue hd.key m hm w).1 (by rw [hq2]; simp)).2.1
                  simp [assignedOf, this]
          · have hin : h ∈ m.queue := (hi.queue hd.key m hm h).2 ⟨by simp [hh], hq, hho⟩
            have hw : waitingOf s hd.key = assignedOf s m.holder ++ m.queue := by
              simp only [waitingOf, waitersOf, hm, assignedOf]; cases m.holder <;> rfl
            have hmem : h ∈ (absSpec s).waiting hd.key := by simp [absSpec, hw, hin]
            simp only [hmem, ↓reduceIte]
            congr 1
            apply hloc
            · intro x hx; simp [absSpec, updL, hx]
            · refine ⟨rfl, ?_, ?_⟩
              · rw [a1]; simp only [hho, ↓reduceIte, absSpec, heldOf, hm, heldBy]
              · rw [a2]; simp only [hho, ↓reduceIte, absSpec, updL, hw]
                have hna : h ∉ assignedOf s m.holder := by
                  cases hx : m.holder with
                  | none => simp [assignedOf]
                  | some w =>
                    have : w ≠ h := fun e => hho (by rw [hx, e])
                    simp only [assignedOf]; split <;> simp [this.symm]
                rw [List.erase_append_right _ hna]
    · simp [cancel, hh, hi.notWedged, hst1, applyEvs]

/-! ### scans -/

theorem absSpec_clone (s : State) (h k : Nat) (m : Entry) (hi : Inv s) (hf : s.hs h = none) (hm : s.ent k = some m) :
    absSpec (s.clone h k m) = absSpec s := by
  symm
  apply lin_local s _ _ h k hi (Or.inr hf)
  · intro x hx; simp [State.clone, upd, hx]
  · intro g hg; simp [State.clone, upd, hg]
  · intro x hx; exact ⟨rfl, rfl, rfl⟩
  · have hwh : ∀ w, m.holder = some w → w ≠ h := by
      intro w hw e; subst e
      have := (hi.holderLive k m w hm hw).1
      rw [hf] at this; cases this
    refine ⟨?_, ?_, ?_⟩
    · simp [absSpec, absVal, State.clone, upd, hm, valOf]
    · simp only [absSpec, heldOf, State.clone, upd, hm, ↓reduceIte]
      cases hho : m.holder with
      | none => rfl
      | some w => simp [hwh w hho]
    · simp only [absSpec, waitingOf, waitersOf, State.clone, upd, hm, ↓reduceIte]
      cases hho : m.holder with
      | none => rfl
      | some w => simp [hwh w hho]

theorem lin_scanLock (s : State) (h k : Nat) (m : Entry) (hi : Inv s) (hf : s.hs h = none) (hm : s.ent k = some m)
    (hfree : m.holder = none) : applyEv (absSpec s) (.acquire h k) = some (absSpec (s.scanLock h k m)) := by
  have hq := hi.freeNoQueue _ m hm hfree
  have hfr : (absSpec s).free k = true := by
    simp [Spec.free, absSpec, heldOf, waitingOf, waitersOf, hm, hfree, hq]
  simp only [applyEv, hfr, ↓reduceIte]
  congr 1
  apply lin_local s _ _ h k hi (Or.inr hf)
  · intro x hx; simp [State.scanLock, upd, hx]
  · intro g hg; simp [State.scanLock, upd, hg]
  · intro x hx; simp [absSpec, upd, hx]
  · simp [absSpec, absVal, heldOf, waitingOf, waitersOf, State.scanLock, upd, hm, hfree, valOf, hq]

theorem absSpec_snapLoop (keys : List Nat) : ∀ (s : State) (hids : List Nat) (acc : List Nat),
    Inv s → FreshL s hids → absSpec (snapLoop s keys hids acc).1 = absSpec s := by
  induction keys with
  | nil => intro s hids acc hi hf; cases hids <;> simp [snapLoop]
  | cons k ks ih =>
    intro s hids acc hi hf
    cases hids with
    | nil => simp [snapLoop]
    | cons h hs' =>
      simp only [snapLoop]
      split
      · rename_i m hm
        rw [ih _ hs' _ (inv_clone s h k m hi (hf.1 h (by simp)) hm) (freshL_tail_clone s h k m hs' hf)]
        exact absSpec_clone s h k m hi (hf.1 h (by simp)) hm
      · exact ih s (h :: hs') acc hi hf

theorem lin_expireLoop (keys : List Nat) : ∀ (s : State) (hids : List Nat) (c : Nat) (acc : List Nat),
    Inv s → FreshL s hids →
    ∃ new, (expireLoop s keys hids c acc).2 = acc.reverse ++ new ∧
      applyEvs (absSpec s) (new.map fun x => SEv.acquire x (keyOfH (expireLoop s keys hids c acc).1 x)) =
        some (absSpec (expireLoop s keys hids c acc).1) := by
  induction keys with
  | nil => intro s hids c acc hi hf; exact ⟨[], by simp [expireLoop], by simp [expireLoop, applyEvs]⟩
  | cons k ks ih =>
    intro s hids c acc hi hf
    unfold expireLoop
    split
    · exact ih s hids c acc hi hf
    · rename_i m hm
      split
      · rename_i st h hs' hh hv
        split
        · have hfh : s.hs h = none := hf.1 h (by simp)
          have hnin : h ∉ hs' := (List.nodup_cons.1 hf.2).1
          obtain ⟨new, e1, e2⟩ := ih _ hs' c (h :: acc) (inv_scanLock s h k m hi hfh hm hh) (freshL_tail_scanLock s h k m hs' hf)
          refine ⟨h :: new, by rw [e1]; simp, ?_⟩
          have hkey : keyOfH (expireLoop (s.scanLock h k m) ks hs' c (h :: acc)).1 h = k := by
            simp [keyOfH, expireLoop_hs_other ks h _ hs' c (h :: acc) hnin, State.scanLock, upd]
          simp only [List.map_cons, applyEvs, hkey, lin_scanLock s h k m hi hfh hm hh]
          exact e2
        · exact ih s _ c acc hi hf
      · exact ih s _ c acc hi hf

theorem lin_evictLoop (keys : List Nat) : ∀ (s : State) (hids : List Nat) (n : Nat) (acc : List Nat),
    Inv s → FreshL s hids →
    ∃ new, (evictLoop s keys hids n acc).2.1 = acc.reverse ++ new ∧
      ((evictLoop s keys hids n acc).2.2 = none →
       applyEvs (absSpec s) (new.map fun x => SEv.acquire x (keyOfH (evictLoop s keys hids n acc).1 x)) =
        some (absSpec (evictLoop s keys hids n acc).1)) := by
  induction keys with
  | nil => intro s hids n acc hi hf; exact ⟨[], by simp [evictLoop], by simp [evictLoop, applyEvs]⟩
  | cons k ks ih =>
    intro s hids n acc hi hf
    unfold evictLoop
    split
    · exact ⟨[], by simp, by simp [applyEvs]⟩
    · split
      · exact ih s hids n acc hi hf
      · rename_i m hm
        split
        · rename_i hfree
          have hh : m.holder = none := by cases hx : m.holder <;> simp_all
          split
          · cases hids with
            | nil => exact ⟨[], by simp, by simp [applyEvs]⟩
            | cons h hs' =>
              simp only []
              have hfh : s.hs h = none := hf.1 h (by simp)
              have hnin : h ∉ hs' := (List.nodup_cons.1 hf.2).1
              obtain ⟨new, e1, e2⟩ := ih _ hs' n (h :: acc) (inv_scanLock s h k m hi hfh hm hh) (freshL_tail_scanLock s h k m hs' hf)
              refine ⟨h :: new, by rw [e1]; simp, ?_⟩
              intro hnone
              have hkey : keyOfH (evictLoop (s.scanLock h k m) ks hs' n (h :: acc)).1 h = k := by
                simp [keyOfH, evictLoop_hs_other ks h _ hs' n (h :: acc) hnin, State.scanLock, upd]
              simp only [List.map_cons, applyEvs, hkey, lin_scanLock s h k m hi hfh hm hh]
              exact e2 hnone
          · split
            · exact ih s hids n acc hi hf
            · exact ⟨[], by simp, by simp⟩
        · split
          · exact ih s hids n acc hi hf
          · exact ⟨[], by simp, by simp⟩

theorem lookup_unit (s : State) (h k : Nat) (hi : Inv s) (hh : s.hs h = none) : (lookup s h k).2 = .unit := by
  unfold lookup
  simp only [hi.notWedged, Bool.false_eq_true, ↓reduceIte, hh, Option.isSome_none]
  split <;> rfl

theorem lin_limitLookup (s : State) (h k n : Nat) (hids : List Nat) (hi : Inv s) (hf : FreshL s hids) (hh : s.hs h = none) :
    applyEvs (absSpec s) (limitEvs s h k (limitLookup s h k n hids)) = some (absSpec (limitLookup s h k n hids).1) := by
  have hlk : applyEvs (absSpec s) (limitEvs s h k (lookup s h k)) = some (absSpec (lookup s h k).1) := by
    have := lin_lookup s h k hi
    simp only [evOf, lookup_unit s h k hi hh, true_and] at this
    simp only [limitEvs, lookup_unit s h k hi hh]
    exact this
  unfold limitLookup
  simp only [hi.notWedged, Bool.false_eq_true, ↓reduceIte, hh, Option.isSome_none]
  split
  · exact hlk
  · have hinv := inv_evictLoop s.order s hids (s.order.length - (n - 1)) [] hi hf
    obtain ⟨new, e1, e2⟩ := lin_evictLoop s.order s hids (s.order.length - (n - 1)) [] hi hf
    split
    · rename_i e; rw [e] at hinv; simp at hinv
    · exact hlk
    · rename_i s' c cs e
      rw [e] at e1 e2
      simp only [List.reverse_nil, List.nil_append] at e1
      simp only [limitEvs]
      rw [e1]
      exact e2 rfl

theorem lin_step (s : State) (a : Act) (hi : Inv s) :
    applyEvs (absSpec s) (evOf s a) = some (absSpec (step s a).1) := by
  cases a with
  | lookup h k => exact lin_lookup s h k hi
  | limitLookup h k n hids =>
    simp only [evOf, step]
    by_cases hc : (s.freshList (h :: hids) && decide (s.order.length ≤ hids.length) && decide (1 ≤ n)) = true
    · rw [if_pos hc]
      simp only [Bool.and_eq_true] at hc
      have hf := freshL_of s (h :: hids) hc.1.1
      exact lin_limitLookup s h k n hids hi ⟨fun x hx => hf.1 x (List.mem_cons_of_mem _ hx), (List.nodup_cons.1 hf.2).2⟩
        (hf.1 h (by simp))
    · rw [if_neg hc]; rfl
  | tryKey h => exact lin_tryKey s h hi
  | trySpurious h => exact lin_trySpurious s h hi
  | enqueue h => exact lin_enqueue s h hi
  | enqueueLate h => exact lin_enqueueLate s h hi
  | acquire h => exact lin_acquire s h hi
  | cancel h => exact lin_cancel s h hi
  | cleanupFailed h => exact lin_cleanupFailed s h hi
  | gop h op => exact lin_gop s h op hi
  | stamp h => exact lin_stamp s h hi
  | release h => exact lin_release s h hi
  | snapshot hids =>
    simp only [evOf, step, applyEvs]
    by_cases hc : (s.freshList hids && decide (s.order.length ≤ hids.length)) = true
    · rw [if_pos hc]
      simp only [Bool.and_eq_true] at hc
      simp only [snapshot, hi.notWedged, Bool.false_eq_true, ↓reduceIte]
      rw [absSpec_snapLoop s.order s hids [] hi (freshL_of s hids hc.1)]
    · rw [if_neg hc]
  | expire d hids =>
    simp only [evOf, step]
    by_cases hc : (s.freshList hids && decide (s.order.length ≤ hids.length)) = true
    · rw [if_pos hc]
      simp only [Bool.and_eq_true] at hc
      simp only [expireAt, hi.notWedged, Bool.false_eq_true, ↓reduceIte]
      split
      · simp [scanEvs, applyEvs]
      · rename_i c
        obtain ⟨new, e1, e2⟩ := lin_expireLoop s.order s hids c [] hi (freshL_of s hids hc.1)
        simp only [List.reverse_nil, List.nil_append] at e1
        simp only [scanEvs]
        rw [e1]; exact e2
    · rw [if_neg hc]; rfl
  | count => simp [evOf, step, count, applyEvs]; split <;> rfl
  | keys => simp [evOf, step, keys, applyEvs]; split <;> rfl
  | intoEntries => simp [evOf, step, intoEntries, applyEvs]; split <;> rfl
  | tick d => exact congrArg some (absSpec_congr s _ rfl rfl).symm
  | reorder perm =>
    simp only [evOf, step, reorder, applyEvs]
    split
    · exact congrArg some (absSpec_congr s _ rfl rfl).symm
    · rfl

/-- the abstract history of a run -/
def evsRun (s : State) : List Act → List SEv
  | [] => []
  | a :: as => evOf s a ++ evsRun (step s a).1 as

/-- **Theorem C**: the abstract history of every run of the core model, from any state satisfying the invariant,
is an execution of the atomic specification ending in the abstraction of the final state -/
theorem lin_run (as : List Act) : ∀ s, Inv s → applyEvs (absSpec s) (evsRun s as) = some (absSpec (run s as)) := by
  induction as with
  | nil => intro s _; rfl
  | cons a as ih =>
    intro s hi
    simp only [evsRun]
    rw [applyEvs_append _ _ _ _ (lin_step s a hi)]
    exact ih _ (inv_step s a hi)

theorem absSpec_init (kind : Kind) : absSpec (State.init kind) = Spec.init := by
  simp [absSpec, Spec.init, State.init, absVal, valOf, heldOf, waitingOf]
  refine ⟨?_, ?_, ?_⟩ <;> funext x <;> simp [absVal, valOf, heldOf, waitingOf]

theorem lin_reachable (kind : Kind) (as : List Act) :
    applyEvs Spec.init (evsRun (State.init kind) as) = some (absSpec (run (State.init kind) as)) := by
  rw [← absSpec_init kind]; exact lin_run as _ (inv_init kind)

/-- the guard of the abstraction is the guard of the model -/
theorem held_iff_guard (s : State) (hi : Inv s) (h k : Nat) :
    heldOf s k = some h ↔ ∃ hd, s.hs h = some hd ∧ hd.key = k ∧ hd.st.isGuard = true := by
  constructor
  · intro hh
    unfold heldOf at hh
    split at hh
    · rename_i m hm
      split at hh
      · rename_i w hw
        split at hh
        · cases hh
        · rename_i hnq
          cases hh
          obtain ⟨hk, st, h1, h2⟩ := hi.holderLive k m h hm hw
          obtain ⟨hd, e1, e2⟩ := hkey_inv hk
          refine ⟨hd, e1, e2, ?_⟩
          rw [e1] at h1 hnq
          simp only [hst_some, Option.some.injEq] at h1 hnq
          subst h1
          cases hs : hd.st <;> simp_all [HSt.isGuard, HSt.mayHold]
      · cases hh
    · cases hh
  · rintro ⟨hd, e1, e2, e3⟩
    subst e2
    obtain ⟨m, hm, _⟩ := eeid_inv (hi.live h hd e1)
    have hho := hi.guardHolds h hd e1 e3 m hm
    have : ¬ hd.st = .queued := by intro e; rw [e] at e3; cases e3
    simp [heldOf, hm, hho, e1, this]

/-- a try succeeds exactly when the key is free in the abstraction: no guard and nobody waiting -/
theorem try_iff_free (s : State) (hi : Inv s) (h : Nat) (hd : Handle) (hh : s.hs h = some hd) (hst1 : hd.st = .replica) :
    (tryKey s h).2 = .bool true ↔ (absSpec s).free hd.key = true := by
  obtain ⟨m, hm, he⟩ := eeid_inv (hi.live h hd hh)
  have heo : s.entryOf hd = some m := by simp [State.entryOf, hm, he]
  simp only [tryKey, hh, hst1, ↓reduceIte, heo]
  by_cases hho : m.holder = none
  · have hq := hi.freeNoQueue _ m hm hho
    simp [hho, Spec.free, absSpec, heldOf, waitingOf, waitersOf, hm, hq]
  · obtain ⟨w, hw⟩ : ∃ w, m.holder = some w := by cases hx : m.holder <;> simp_all
    simp only [hw, Option.isNone_some, Bool.false_eq_true, ↓reduceIte, Out.bool.injEq, false_iff,
      Spec.free, absSpec, heldOf, waitingOf, waitersOf, hm]
    by_cases hq : hst (s.hs w) = some .queued <;> simp [hq]

end Lockable
