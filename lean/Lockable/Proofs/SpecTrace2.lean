/-
More histories of the atomic specification: while a key has no guard its value does not change, so a guard
finds exactly what the previous guard left (history form of C02).
-/
import Lockable.Proofs.SpecTrace
namespace Lockable

/-- while nobody is made the guard of `k`, `k` stays without guard and its value stays what it is -/
theorem unheld_stays (k : Nat) (es : List SEv) : ∀ sp sp', applyEvs sp es = some sp' → sp.held k = none →
    (∀ e ∈ es, e.makesGuard k = none) → sp'.held k = none ∧ sp'.vals k = sp.vals k := by
  induction es with
  | nil => intro sp sp' h hg _; simp only [applyEvs, Option.some.injEq] at h; subst h; exact ⟨hg, rfl⟩
  | cons e es ih =>
    intro sp sp' h hg hn
    simp only [applyEvs] at h
    cases he : applyEv sp e with
    | none => rw [he] at h; cases h
    | some sp1 =>
      rw [he] at h
      have hn1 : e.makesGuard k = none := hn e (by simp)
      have hn2 : ∀ e' ∈ es, e'.makesGuard k = none := fun e' h' => hn e' (List.mem_cons_of_mem _ h')
      have step : sp1.held k = none ∧ sp1.vals k = sp.vals k := by
        cases e with
        | acquire h' k' =>
          simp only [applyEv] at he
          split at he <;> cases he
          by_cases e : k' = k
          · simp [SEv.makesGuard, e] at hn1
          · have e' : k ≠ k' := fun x => e x.symm
            simp [upd, e', hg]
        | grant h' k' =>
          simp only [applyEv] at he
          split at he <;> cases he
          by_cases e : k' = k
          · simp [SEv.makesGuard, e] at hn1
          · have e' : k ≠ k' := fun x => e x.symm
            simp [upd, e', hg]
        | wait h' k' => simp only [applyEv] at he; split at he <;> cases he; exact ⟨hg, rfl⟩
        | lateWait h' k' => simp only [applyEv] at he; split at he <;> cases he; exact ⟨hg, rfl⟩
        | leave h' k' => simp only [applyEv] at he; split at he <;> cases he; exact ⟨hg, rfl⟩
        | release h' k' =>
          simp only [applyEv] at he
          split at he <;> cases he
          by_cases e : k = k'
          · subst e; simp [upd]
          · simp [upd, e, hg]
        | write h' k' v =>
          simp only [applyEv] at he
          split at he
          · rename_i hh
            cases he
            by_cases e : k = k'
            · subst e; rw [hg] at hh; cases hh
            · simp [upd, e, hg]
          · cases he
      obtain ⟨r1, r2⟩ := ih sp1 sp' h step.1 hn2
      exact ⟨r1, by rw [r2, step.2]⟩

/-- **A guard finds exactly what the previous guard left**: if `h₁` releases `k` and the next event that makes a guard of `k`
is `e₂`, the value of `k` when `e₂` happens is the value `h₁` left — whatever else happened in between (waiting, failing,
cancelling, other keys, scans). -/
theorem history_value_preserved (k h₁ : Nat) (pre mid post : List SEv) (e₂ : SEv) (sp sp' : Spec)
    (hrun : applyEvs sp (pre ++ SEv.release h₁ k :: (mid ++ e₂ :: post)) = some sp')
    (hmid : ∀ e ∈ mid, e.makesGuard k = none) :
    ∃ spR spG, applyEvs sp (pre ++ [SEv.release h₁ k]) = some spR ∧ applyEvs spR mid = some spG ∧
      (applyEv spG e₂).isSome ∧ spG.vals k = spR.vals k := by
  obtain ⟨sp1, hpre, hrest⟩ := applyEvs_split pre _ sp sp' hrun
  simp only [applyEvs] at hrest
  cases he1 : applyEv sp1 (SEv.release h₁ k) with
  | none => rw [he1] at hrest; cases hrest
  | some spR =>
    rw [he1] at hrest
    obtain ⟨spG, hmidr, hrest2⟩ := applyEvs_split mid _ spR sp' hrest
    simp only [applyEvs] at hrest2
    have hR : spR.held k = none := by
      simp only [applyEv] at he1
      split at he1 <;> cases he1
      simp [upd]
    refine ⟨spR, spG, ?_, hmidr, ?_, (unheld_stays k mid spR spG hmidr hR hmid).2⟩
    · rw [applyEvs_append pre [SEv.release h₁ k] sp sp1 hpre]
      simp [applyEvs, he1]
    · cases he2 : applyEv spG e₂ with
      | none => rw [he2] at hrest2; cases hrest2
      | some _ => rfl

/-- the stored value of a key changes only by a write of the guard of that key -/
theorem vals_change_only_by_guard_write (k : Nat) (e : SEv) (sp sp1 : Spec) (he : applyEv sp e = some sp1)
    (hne : sp1.vals k ≠ sp.vals k) : ∃ h v, e = .write h k v ∧ sp.held k = some h := by
  cases e with
  | acquire h' k' => simp only [applyEv] at he; split at he <;> cases he; exact absurd rfl hne
  | wait h' k' => simp only [applyEv] at he; split at he <;> cases he; exact absurd rfl hne
  | lateWait h' k' => simp only [applyEv] at he; split at he <;> cases he; exact absurd rfl hne
  | grant h' k' => simp only [applyEv] at he; split at he <;> cases he; exact absurd rfl hne
  | release h' k' => simp only [applyEv] at he; split at he <;> cases he; exact absurd rfl hne
  | leave h' k' => simp only [applyEv] at he; split at he <;> cases he; exact absurd rfl hne
  | write h' k' v =>
    simp only [applyEv] at he
    split at he
    · rename_i hh
      cases he
      by_cases e : k = k'
      · subst e; exact ⟨h', v, rfl, hh⟩
      · exact absurd (by simp [upd, e]) hne
    · cases he

end Lockable
