/-
LRU recency: the iteration order of an lru container is sorted by the (ghost) time of the last touch,
where a key is touched only by the lookup of a lock call and by the release of a valueless guard.
-/
import Lockable.Proofs.Evict
namespace Lockable

/-- the key an action moves to the most-recently-used end (`get_or_insert` / `get` of the lru map) -/
def touchedBy (s : State) (a : Act) : Option Nat :=
  match a with
  | .lookup h k => if s.wedged ∨ (s.hs h).isSome then none else some k
  | .limitLookup _ k _ _ => if (step s a).2 = .unit then some k else none
  | .release h =>
    if s.wedged then none else
    match s.hs h with
    | some hd => if hd.st = .stamped false ∧ (s.entryOf hd).isSome then some hd.key else none
    | none => none
  | _ => none

/-- where the touched key ends up -/
def target (s : State) (a : Act) : List Nat :=
  match touchedBy s a with
  | some k => s.order.erase k ++ [k]
  | none => s.order

theorem evictLoop_order (keys : List Nat) : ∀ (s : State) (hids : List Nat) (n : Nat) (acc : List Nat),
    (evictLoop s keys hids n acc).1.order = s.order := by
  induction keys with
  | nil => intro s hids n acc; simp [evictLoop]
  | cons k ks ih =>
    intro s hids n acc
    unfold evictLoop
    repeat' split
    all_goals first
      | rfl
      | (rw [ih]; done)
      | (rw [ih]; rfl)

theorem snapLoop_order' (keys : List Nat) : ∀ (s : State) (hids : List Nat) (acc : List Nat),
    (snapLoop s keys hids acc).1.order = s.order := by
  induction keys with
  | nil => intro s hids acc; cases hids <;> simp [snapLoop]
  | cons k ks ih =>
    intro s hids acc
    cases hids with
    | nil => simp [snapLoop]
    | cons h hs' =>
      simp only [snapLoop]
      split
      · rw [ih]; rfl
      · exact ih ..

theorem erase_sublist_append (l : List Nat) (k : Nat) : (l.erase k).Sublist (l.erase k ++ [k]) :=
  List.sublist_append_left _ _

theorem lookup_order_lru (s : State) (h k : Nat) (hl : s.kind = .lru) (hi : Inv s)
    (hw : s.wedged = false) (hf : s.hs h = none) :
    (lookup s h k).1.order = s.order.erase k ++ [k] := by
  unfold lookup
  simp only [hw, Bool.false_eq_true, ↓reduceIte, hf, Option.isSome_none]
  split
  · simp [State.touch, State.clone, hl, promote]
  · rename_i hm
    have hk : k ∉ s.order := fun e => (hi.keys k).1 e hm
    simp [List.erase_of_not_mem hk]

/-- every step of an lru container leaves an order that is a sublist of "old order with the touched key moved to the end" -/
theorem step_order_sublist (s : State) (a : Act) (hl : s.kind = .lru) (hi : Inv s) :
    (step s a).1.order.Sublist (target s a) := by
  unfold target
  cases a with
  | lookup h k =>
    simp only [touchedBy, step]
    by_cases hc : s.wedged = true ∨ (s.hs h).isSome = true
    · simp only [hc, ↓reduceIte]
      unfold lookup
      rcases hc with hc | hc
      · simp [hc]
      · simp [hi.notWedged, hc]
    · simp only [hc, ↓reduceIte]
      have hw : s.wedged = false := by simpa using fun e => hc (Or.inl e)
      have hf : s.hs h = none := by
        cases hh : s.hs h with
        | none => rfl
        | some x => exact absurd (Or.inr (by simp [hh])) hc
      rw [lookup_order_lru s h k hl hi hw hf]
      exact List.Sublist.refl _
  | limitLookup h k n hids =>
    simp only [touchedBy]
    simp only [step]
    split
    · rename_i hc
      simp only [Bool.and_eq_true] at hc
      have hf := freshL_of s (h :: hids) hc.1.1
      have hfresh : s.hs h = none := hf.1 h (by simp)
      unfold limitLookup
      simp only [hi.notWedged, Bool.false_eq_true, ↓reduceIte, hfresh, Option.isSome_none]
      have hlk : (lookup s h k).2 = .unit := by
        simp only [lookup, hi.notWedged, Bool.false_eq_true, ↓reduceIte, hfresh, Option.isSome_none]
        split <;> rfl
      split
      · simp only [hlk, ↓reduceIte]
        rw [lookup_order_lru s h k hl hi hi.notWedged hfresh]; exact List.Sublist.refl _
      · have ho := evictLoop_order s.order s hids (s.order.length - (n - 1)) []
        split
        · rename_i e; rw [e] at ho; simp only [] at ho ⊢
          simp [ho]
        · simp only [hlk, ↓reduceIte]
          rw [lookup_order_lru s h k hl hi hi.notWedged hfresh]; exact List.Sublist.refl _
        · rename_i e; rw [e] at ho; simp only [] at ho ⊢
          simp [ho]
    · simp
  | release h =>
    simp only [touchedBy, step]
    unfold release
    simp only [hi.notWedged, Bool.false_eq_true, ↓reduceIte]
    cases hh : s.hs h with
    | none => simp
    | some hd =>
      simp only []
      cases hst : hd.st with
      | stamped hv =>
        simp only []
        cases heo : s.entryOf hd with
        | none => simp
        | some m =>
          simp only []
          cases hv with
          | true => simp [State.setEnt, State.dropHandle]
          | false =>
            simp only [Bool.false_eq_true, ↓reduceIte, Option.isSome_some, and_self]
            split
            · simp only [State.removeKey, State.touch, State.setEnt, State.dropHandle, hl, promote]
              exact (List.erase_sublist).trans (List.Sublist.refl _)
            · simp only [State.touch, State.setEnt, State.dropHandle, hl, promote]
              exact List.Sublist.refl _
      | _ => simp
  | cancel h =>
    simp only [touchedBy, step]
    unfold cancel
    repeat' split
    all_goals (try simp only [])
    all_goals repeat' split
    all_goals first
      | exact List.Sublist.refl _
      | (simp only [State.removeKey, State.setEnt, State.dropHandle, State.wedge]; exact List.erase_sublist)
  | cleanupFailed h =>
    simp only [touchedBy, step]
    unfold cleanupFailed
    repeat' split
    all_goals (try simp only [])
    all_goals repeat' split
    all_goals first
      | exact List.Sublist.refl _
      | (simp only [State.removeKey, State.setEnt, State.dropHandle, State.wedge]; exact List.erase_sublist)
  | tryKey h => simp only [touchedBy, step, tryKey]; repeat' split
                all_goals exact List.Sublist.refl _
  | trySpurious h => simp only [touchedBy, step, trySpurious]; repeat' split
                     all_goals exact List.Sublist.refl _
  | enqueue h => simp only [touchedBy, step, enqueue]; repeat' split
                 all_goals exact List.Sublist.refl _
  | enqueueLate h => simp only [touchedBy, step, enqueueLate]; repeat' split
                     all_goals exact List.Sublist.refl _
  | acquire h => simp only [touchedBy, step, acquire]; repeat' split
                 all_goals exact List.Sublist.refl _
  | gop h op => simp only [touchedBy, step, gop]; repeat' split
                all_goals exact List.Sublist.refl _
  | stamp h => simp only [touchedBy, step, stamp]; repeat' split
               all_goals (try simp only [])
               all_goals exact List.Sublist.refl _
  | snapshot hids =>
    simp only [touchedBy, step, snapshot]
    repeat' split
    all_goals first
      | exact List.Sublist.refl _
      | (rw [snapLoop_order']; exact List.Sublist.refl _)
  | expire d hids =>
    simp only [touchedBy, step, expireAt]
    repeat' split
    all_goals first
      | exact List.Sublist.refl _
      | (rw [expireLoop_order]; exact List.Sublist.refl _)
  | count => simp only [touchedBy, step, count]; split <;> exact List.Sublist.refl _
  | keys => simp only [touchedBy, step, keys]; split <;> exact List.Sublist.refl _
  | intoEntries => simp only [touchedBy, step, intoEntries]; split <;> exact List.Sublist.refl _
  | tick d => exact List.Sublist.refl _
  | reorder perm => simp [touchedBy, step, reorder, hl]


theorem step_kind (s : State) (a : Act) : (step s a).1.kind = s.kind := by
  cases a with
  | lookup h k => simp only [step, lookup]; repeat' split
                  all_goals first | rfl | (simp [State.touch, State.clone]; split <;> rfl)
  | limitLookup h k n hids =>
    simp only [step]
    split
    · unfold limitLookup
      have hk : (lookup s h k).1.kind = s.kind := by
        simp only [lookup]; repeat' split
        all_goals first | rfl | (simp [State.touch, State.clone]; split <;> rfl)
      have he := evictLoop_kind s.order s hids (s.order.length - (n - 1)) []
      split; · rfl
      split; · rfl
      simp only []
      split; · exact hk
      split
      · rename_i e; rw [e] at he; exact he
      · exact hk
      · rename_i e; rw [e] at he; exact he
    · rfl
  | tryKey h => simp only [step, tryKey]; repeat' split
                all_goals rfl
  | trySpurious h => simp only [step, trySpurious]; repeat' split
                     all_goals rfl
  | enqueue h => simp only [step, enqueue]; repeat' split
                 all_goals rfl
  | enqueueLate h => simp only [step, enqueueLate]; repeat' split
                     all_goals rfl
  | acquire h => simp only [step, acquire]; repeat' split
                 all_goals rfl
  | gop h op => simp only [step, gop]; repeat' split
                all_goals rfl
  | stamp h => simp only [step, stamp]; repeat' split
               all_goals (try simp only [])
               all_goals rfl
  | cancel h =>
    simp only [step, cancel]; repeat' split
    all_goals (try simp only [])
    all_goals repeat' split
    all_goals rfl
  | cleanupFailed h =>
    simp only [step, cleanupFailed]; repeat' split
    all_goals (try simp only [])
    all_goals repeat' split
    all_goals rfl
  | release h =>
    simp only [step, release]; repeat' split
    all_goals (try simp only [])
    all_goals repeat' split
    all_goals first | rfl | (simp [State.touch, State.removeKey, State.setEnt, State.dropHandle]; split <;> rfl)
  | snapshot hids => simp only [step, snapshot]; repeat' split
                     all_goals first | rfl | exact snapLoop_kind _ _ _ _
  | expire d hids => simp only [step, expireAt]; repeat' split
                     all_goals first | rfl | exact expireLoop_kind _ _ _ _ _
  | count => simp only [step, count]; split <;> rfl
  | keys => simp only [step, keys]; split <;> rfl
  | intoEntries => simp only [step, intoEntries]; split <;> rfl
  | tick d => rfl
  | reorder perm => simp only [step, reorder]; split <;> rfl

/-- ghost-instrumented state: the index of the last action that touched each key -/
structure GState where
  s : State
  clock : Nat
  last : Nat → Nat

def GState.init (kind : Kind) : GState := { s := State.init kind, clock := 0, last := fun _ => 0 }

def stepG (g : GState) (a : Act) : GState :=
  { s := (step g.s a).1, clock := g.clock + 1,
    last := match touchedBy g.s a with
      | some k => fun x => if x = k then g.clock + 1 else g.last x
      | none => g.last }

def runG (g : GState) (as : List Act) : GState := as.foldl stepG g

theorem runG_s (as : List Act) : ∀ g, (runG g as).s = run g.s as := by
  induction as with
  | nil => intro g; rfl
  | cons a as ih => intro g; simp only [runG, run, List.foldl] at ih ⊢; rw [ih]; rfl

/-- sortedness invariant: the order is strictly increasing in the last-touch time, which never exceeds the clock -/
def Sorted (g : GState) : Prop :=
  g.s.order.Pairwise (fun a b => g.last a < g.last b) ∧ ∀ k, g.last k ≤ g.clock

theorem sorted_stepG (g : GState) (a : Act) (hl : g.s.kind = .lru) (hi : Inv g.s) (hs : Sorted g) : Sorted (stepG g a) := by
  have hsub := step_order_sublist g.s a hl hi
  unfold target at hsub
  unfold Sorted stepG
  simp only []
  cases ht : touchedBy g.s a with
  | none =>
    simp only [ht] at hsub ⊢
    exact ⟨hs.1.sublist hsub, fun k => Nat.le_succ_of_le (hs.2 k)⟩
  | some k =>
    simp only [ht] at hsub ⊢
    constructor
    · apply List.Pairwise.sublist hsub
      rw [List.pairwise_append]
      refine ⟨?_, by simp, ?_⟩
      · have := hs.1.sublist (List.erase_sublist (a := k) (l := g.s.order))
        apply this.imp_of_mem
        intro x y hx hy hxy
        have hxk : x ≠ k := fun e => by
          subst e; exact ((List.Nodup.mem_erase_iff hi.nodup).1 hx).1 rfl
        have hyk : y ≠ k := fun e => by
          subst e; exact ((List.Nodup.mem_erase_iff hi.nodup).1 hy).1 rfl
        simp [hxk, hyk, hxy]
      · intro x hx y hy
        simp at hy; subst hy
        have hxk : x ≠ y := fun e => by
          subst e; exact ((List.Nodup.mem_erase_iff hi.nodup).1 hx).1 rfl
        simp only [hxk, ↓reduceIte]
        have := hs.2 x; omega
    · intro x; split
      · omega
      · have := hs.2 x; omega

theorem sorted_runG (as : List Act) : ∀ g, g.s.kind = .lru → Inv g.s → Sorted g → Sorted (runG g as) := by
  induction as with
  | nil => intro g _ _ h; exact h
  | cons a as ih =>
    intro g hl hi hs
    simp only [runG, List.foldl]
    exact ih (stepG g a) (by show (step g.s a).1.kind = .lru; rw [step_kind]; exact hl) (inv_step g.s a hi) (sorted_stepG g a hl hi hs)

/-- in a list sorted by `f`, a prefix of the sub-list of elements satisfying `p` never skips an element with smaller `f` -/
theorem take_filter_closed (l : List Nat) (f : Nat → Nat) (p : Nat → Bool) (n : Nat)
    (hs : l.Pairwise (fun a b => f a < f b)) (A B : Nat) (hA : A ∈ l) (hpA : p A = true)
    (hlt : f A < f B) (hB : B ∈ (l.filter p).take n) : A ∈ (l.filter p).take n := by
  induction l generalizing n with
  | nil => cases hA
  | cons x t ih =>
    have ⟨hx, ht⟩ := List.pairwise_cons.1 hs
    by_cases hpx : p x = true
    · simp only [List.filter_cons, hpx, ↓reduceIte] at hB ⊢
      cases n with
      | zero => simp at hB
      | succ n =>
        simp only [List.take_succ_cons, List.mem_cons] at hB ⊢
        rcases List.mem_cons.1 hA with e | hA'
        · exact Or.inl e
        · rcases hB with e | hB'
          · subst e; have := hx A hA'; omega
          · exact Or.inr (ih n ht hA' hB')
    · simp only [List.filter_cons, hpx] at hB ⊢
      rcases List.mem_cons.1 hA with e | hA'
      · subst e; exact absurd hpA hpx
      · exact ih n ht hA' hB

end Lockable
