import Lockable.Proofs.Own
set_option linter.unusedSimpArgs false
set_option linter.unusedVariables false
namespace Lockable

/-! ### no library-made deadlock: under ordered acquisition the wait-for relation has a free end -/

/-- the pending acquisition `w` sleeps: it is queued on its key's mutex and the mutex has not been handed to it -/
def blockedOn (s : State) (w : Nat) : Prop := ∃ wd, s.hs w = some wd ∧ wd.st = .queued ∧ hold s w wd.key = false

/-- client `c` (any grouping of handles into threads / tasks) sleeps on some key -/
def ClientBlocked (s : State) (owner : Nat → Nat) (c : Nat) : Prop := ∃ w, owner w = c ∧ blockedOn s w

/-- the clients' own discipline, *ordered acquisition*: whoever sleeps on key `k` owns the mutexes of smaller keys only
("hold one key at a time" is the special case in which a sleeping client owns none) -/
def Ordered (s : State) (owner : Nat → Nat) : Prop :=
  ∀ w wd, s.hs w = some wd → wd.st = .queued → hold s w wd.key = false →
    ∀ h hd, owner h = owner w → s.hs h = some hd → hold s h hd.key = true → hd.key < wd.key

def hasWaiter (s : State) (k : Nat) : Bool :=
  match s.ent k with
  | some m => !m.queue.isEmpty
  | none => false

theorem exists_max (l : List Nat) (h : l ≠ []) : ∃ x ∈ l, ∀ y ∈ l, y ≤ x := by
  induction l with
  | nil => exact absurd rfl h
  | cons a as ih =>
    by_cases has : as = []
    · subst has; exact ⟨a, by simp, by simp⟩
    · obtain ⟨x, hx, hmax⟩ := ih has
      by_cases hle : x ≤ a
      · refine ⟨a, by simp, ?_⟩
        intro y hy
        rcases List.mem_cons.1 hy with e | e
        · rw [e]; exact Nat.le_refl _
        · exact Nat.le_trans (hmax y e) hle
      · refine ⟨x, List.mem_cons_of_mem _ hx, ?_⟩
        intro y hy
        rcases List.mem_cons.1 hy with e | e
        · rw [e]; omega
        · exact hmax y e

/-- a sleeping acquisition sits in the queue of its key, which is a key of the map -/
theorem blocked_in_queue (s : State) (hi : Inv s) (w : Nat) (wd : Handle) (h1 : s.hs w = some wd) (h2 : wd.st = .queued)
    (h3 : hold s w wd.key = false) : ∃ m, s.ent wd.key = some m ∧ w ∈ m.queue ∧ wd.key ∈ s.order ∧ hasWaiter s wd.key = true := by
  obtain ⟨m, hm, _⟩ := eeid_inv (hi.live w wd h1)
  have hnh : m.holder ≠ some w := by
    unfold hold at h3; rw [hm] at h3; simpa using h3
  have hin : w ∈ m.queue := (hi.queue wd.key m hm w).2 ⟨by rw [h1]; rfl, by rw [h1]; simp [h2], hnh⟩
  refine ⟨m, hm, hin, (hi.keys wd.key).2 (by rw [hm]; simp), ?_⟩
  unfold hasWaiter; rw [hm]
  cases hq : m.queue with
  | nil => rw [hq] at hin; cases hin
  | cons _ _ => simp [hq]

/-- **No library-made deadlock.** In every state satisfying the invariant (so: every reachable state, any interleaving), for every
grouping of handles into clients that follow ordered acquisition: if anybody sleeps, there is a key with sleepers whose mutex is
owned by a handle of a client that does **not** sleep anywhere — the wait-for relation always ends in somebody who can go on (and
whose release hands the mutex over: `C03_handoff`). The library's part of the argument is that a sleeper always waits for an
actual owner (no sleeper on a free mutex, no owner that is gone); the rest is the classical maximal-key argument. -/
theorem ordered_no_deadlock (s : State) (hi : Inv s) (owner : Nat → Nat) (hord : Ordered s owner) (w : Nat)
    (hb : blockedOn s w) :
    ∃ h hd, s.hs h = some hd ∧ hold s h hd.key = true ∧ hasWaiter s hd.key = true ∧ ¬ ClientBlocked s owner (owner h) := by
  obtain ⟨wd, h1, h2, h3⟩ := hb
  obtain ⟨m, hm, hin, hord0, hw0⟩ := blocked_in_queue s hi w wd h1 h2 h3
  have hne : s.order.filter (hasWaiter s) ≠ [] := by
    intro e
    have : wd.key ∈ s.order.filter (hasWaiter s) := List.mem_filter.2 ⟨hord0, hw0⟩
    rw [e] at this; cases this
  obtain ⟨kmax, hk, hmax⟩ := exists_max _ hne
  obtain ⟨hk1, hk2⟩ := List.mem_filter.1 hk
  unfold hasWaiter at hk2
  cases hm' : s.ent kmax with
  | none => rw [hm'] at hk2; cases hk2
  | some m' =>
    rw [hm'] at hk2
    have hqne : m'.queue ≠ [] := by
      intro e; simp [e] at hk2
    cases hho : m'.holder with
    | none => exact absurd (hi.freeNoQueue kmax m' hm' hho) hqne
    | some h' =>
      obtain ⟨hk', st', _, _⟩ := hi.holderLive kmax m' h' hm' hho
      obtain ⟨hd', e1, e2⟩ := hkey_inv hk'
      have hhold : hold s h' hd'.key = true := by
        unfold hold; rw [e2, hm']; simp [hho]
      refine ⟨h', hd', e1, hhold, ?_, ?_⟩
      · unfold hasWaiter; rw [e2, hm']
        cases hq : m'.queue with
        | nil => exact absurd hq hqne
        | cons _ _ => simp [hq]
      · rintro ⟨w', ho, wd', b1, b2, b3⟩
        obtain ⟨_, _, _, ho', hw'⟩ := blocked_in_queue s hi w' wd' b1 b2 b3
        have hlt := hord w' wd' b1 b2 b3 h' hd' ho.symm e1 hhold
        have hle := hmax wd'.key (List.mem_filter.2 ⟨ho', hw'⟩)
        rw [e2] at hlt
        omega

end Lockable
