/-
`lock_all_entries`: the snapshot section creates exactly one pending acquisition per entry.
-/
import Lockable.Proofs.ApiLemmas
namespace Lockable

theorem snapLoop_hs_other (keys : List Nat) (x : Nat) : ∀ (s : State) (hids : List Nat) (acc : List Nat),
    x ∉ hids → (snapLoop s keys hids acc).1.hs x = s.hs x := by
  induction keys with
  | nil => intro s hids acc _; cases hids <;> simp [snapLoop]
  | cons k ks ih =>
    intro s hids acc hx
    cases hids with
    | nil => simp [snapLoop]
    | cons h hs' =>
      simp only [snapLoop]
      split
      · rw [ih _ hs' _ (fun e => hx (List.mem_cons_of_mem _ e))]
        exact clone_hs _ _ _ _ _ (fun e => hx (by rw [e]; simp))
      · exact ih s _ acc hx

/-- one `replica` handle per key of the map, in iteration order -/
theorem snapLoop_exact (keys : List Nat) : ∀ (s : State) (hids : List Nat) (acc : List Nat),
    (∀ k ∈ keys, s.ent k ≠ none) → keys.Nodup → hids.Nodup → keys.length ≤ hids.length →
    let r := snapLoop s keys hids acc
    r.2.take acc.length = acc.reverse ∧
    (r.2.drop acc.length).map (keyOfH r.1) = keys ∧
    (∀ h ∈ r.2.drop acc.length, hst (r.1.hs h) = some .replica ∧ h ∈ hids) := by
  induction keys with
  | nil =>
    intro s hids acc _ _ _ _
    cases hids <;> simp [snapLoop, take_length_reverse, drop_length_reverse]
  | cons k ks ih =>
    intro s hids acc hall hkn hhn hlen
    have ⟨hk1, hk2⟩ := List.nodup_cons.1 hkn
    cases hids with
    | nil => simp at hlen
    | cons h hs' =>
      have ⟨hh1, hh2⟩ := List.nodup_cons.1 hhn
      simp only [snapLoop]
      cases hm : s.ent k with
      | none => exact absurd hm (hall k (by simp))
      | some m =>
        simp only []
        have hall' : ∀ k' ∈ ks, (s.clone h k m).ent k' ≠ none := by
          intro k' hk'
          have : k' ≠ k := fun e => hk1 (e ▸ hk')
          simp only [State.clone, upd, this, ↓reduceIte]
          exact hall k' (List.mem_cons_of_mem _ hk')
        have := ih (s.clone h k m) hs' (h :: acc) hall' hk2 hh2 (by simp at hlen; omega)
        obtain ⟨b1, b2, b3⟩ := this
        have hfin : (snapLoop (s.clone h k m) ks hs' (h :: acc)).1.hs h = some ⟨k, m.eid, .replica⟩ := by
          rw [snapLoop_hs_other ks h _ hs' _ hh1]; simp [State.clone, upd]
        generalize hr : snapLoop (s.clone h k m) ks hs' (h :: acc) = r at b1 b2 b3 hfin
        simp only [List.length_cons, List.reverse_cons] at b1 b2 b3
        have hsplit : r.2 = (acc.reverse ++ [h]) ++ r.2.drop (acc.length + 1) := by
          conv => lhs; rw [← List.take_append_drop (acc.length + 1) r.2]
          rw [b1]
        have hd : r.2.drop acc.length = h :: r.2.drop (acc.length + 1) := by
          conv => lhs; rw [hsplit]
          rw [List.append_assoc, List.drop_append_of_le_length (by simp), drop_length_reverse]; rfl
        refine ⟨?_, ?_, ?_⟩
        · rw [hsplit, List.append_assoc, List.take_append_of_le_length (by simp)]
          exact take_length_reverse acc
        · rw [hd]; simp [keyOfH, hfin, b2]
        · intro x hx
          rw [hd] at hx
          rcases List.mem_cons.1 hx with e | hx
          · subst e; exact ⟨by simp [hfin], by simp⟩
          · exact ⟨(b3 x hx).1, List.mem_cons_of_mem _ (b3 x hx).2⟩

theorem snapLoop_order (keys : List Nat) : ∀ (s : State) (hids : List Nat) (acc : List Nat),
    (snapLoop s keys hids acc).1.order = s.order := by
  induction keys with
  | nil => intro s hids acc; cases hids <;> simp [snapLoop]
  | cons k ks ih =>
    intro s hids acc
    cases hids with
    | nil => simp [snapLoop]
    | cons h hs' =>
      simp only [snapLoop]
      split
      · rw [ih]; rfl
      · exact ih ..

end Lockable
