import Lockable.Proofs.Own
set_option linter.unusedSimpArgs false
set_option linter.unusedVariables false
namespace Lockable

/-! ### the `FuturesUnordered` of a `lock_all_entries` stream: no wake-up is lost, nothing is polled twice -/

/-- what the stream's bookkeeping must say about an unresolved item `w`: it is a pending acquisition that has either never
been polled (then it is in the ready queue), or is queued on its key's mutex — and then it is in the ready queue exactly
when the mutex has been handed to it -/
def ItemOk (s : State) (st : StreamSt) (w : Nat) : Prop :=
  ∃ wd, s.hs w = some wd ∧
    ((wd.st = .replica ∧ w ∈ st.ready) ∨ (wd.st = .queued ∧ (w ∈ st.ready ↔ hold s w wd.key = true)))

structure StreamOk (s : State) (st : StreamSt) : Prop where
  readyNodup : st.ready.Nodup
  readySub : ∀ w ∈ st.ready, w ∈ st.items
  item : ∀ w ∈ st.items, ItemOk s st w

/-- the effect of a wake-up on one stream -/
def wake (st : StreamSt) (w : Option Nat) : StreamSt :=
  match w with
  | some w => if st.items.contains w then { st with ready := st.ready ++ [w] } else st
  | none => st

@[simp] theorem wake_items (st : StreamSt) (w : Option Nat) : (wake st w).items = st.items := by
  unfold wake; split
  · split <;> rfl
  · rfl

theorem woken_streams (a : Api) (w : Option Nat) : (a.woken w).streams = a.streams.map fun p => (p.1, wake p.2 w) := by
  unfold Api.woken
  cases w with
  | none => simp [wake]
  | some w =>
    simp only [wake]
    apply List.map_congr_left
    intro p _
    split <;> rfl

/-- a waiter that is being handed a mutex was queued and did not own it -/
theorem handed_facts (s : State) (act : Act) (w : Nat) (hi : Inv s) (h : handedTo s act = some w) :
    ∃ wd, s.hs w = some wd ∧ wd.st = .queued ∧ hold s w wd.key = false := by
  have key : ∀ h, nextWaiter s h = some w → ∃ wd, s.hs w = some wd ∧ wd.st = .queued ∧ hold s w wd.key = false := by
    intro h hn
    unfold nextWaiter at hn
    cases hh : s.hs h with
    | none => simp [hh] at hn
    | some hd =>
      simp only [hh] at hn
      cases hm : s.entryOf hd with
      | none => simp [hm] at hn
      | some m =>
        simp only [hm] at hn
        obtain ⟨hm1, _⟩ := entryOf_some hm
        split at hn
        · have hin : w ∈ m.queue := head_mem _ _ hn
          obtain ⟨h1, h2, h3⟩ := (hi.queue hd.key m hm1 w).1 hin
          obtain ⟨wd, e1, e2⟩ := hkey_inv h1
          refine ⟨wd, e1, ?_, ?_⟩
          · rw [e1] at h2; simpa using h2
          · unfold hold; rw [e2, hm1]; simp; exact h3
        · cases hn
  cases act <;> simp only [handedTo] at h <;> (try cases h)
  · split at h
    · exact key _ h
    · cases h
  · split at h
    · exact key _ h
    · cases h

theorem streamOk_step (s : State) (act : Act) (st : StreamSt) (hi : Inv s) (hok : StreamOk s st)
    (hact : ∀ w ∈ st.items, act.actor ≠ some w ∧ w ∉ act.fresh) :
    StreamOk (step s act).1 (wake st (handedTo s act)) := by
  have hframe : ∀ w ∈ st.items, ∀ wd, s.hs w = some wd →
      (step s act).1.hs w = some wd ∧ hold (step s act).1 w wd.key = (hold s w wd.key || (handedTo s act == some w)) := by
    intro w hw wd hwd
    obtain ⟨h1, h2⟩ := hact w hw
    exact ⟨by rw [hs_step_other s act w h1 h2, hwd], hold_step_other s act w wd hi hwd h1 h2⟩
  cases h0 : handedTo s act with
  | none =>
    simp only [wake]
    refine ⟨hok.readyNodup, hok.readySub, ?_⟩
    intro w hw
    obtain ⟨wd, hwd, hcase⟩ := hok.item w hw
    obtain ⟨f1, f2⟩ := hframe w hw wd hwd
    rw [h0] at f2
    refine ⟨wd, f1, ?_⟩
    rw [f2]
    simpa using hcase
  | some w0 =>
    obtain ⟨wd0, e1, e2, e3⟩ := handed_facts s act w0 hi h0
    by_cases hin : w0 ∈ st.items
    · have hnr : w0 ∉ st.ready := by
        obtain ⟨wd, hwd, hcase⟩ := hok.item w0 hin
        rw [e1] at hwd; cases hwd
        rcases hcase with ⟨c1, _⟩ | ⟨_, c2⟩
        · rw [e2] at c1; cases c1
        · intro hr; have := c2.1 hr; rw [e3] at this; cases this
      have hwk : wake st (some w0) = { st with ready := st.ready ++ [w0] } := by
        simp [wake, hin]
      rw [hwk]
      refine ⟨?_, ?_, ?_⟩
      · simp only []
        rw [List.nodup_append]
        refine ⟨hok.readyNodup, by simp, ?_⟩
        intro a ha b hb
        simp at hb; subst hb
        intro e; subst e; exact hnr ha
      · intro w hw
        simp only [List.mem_append, List.mem_singleton] at hw
        rcases hw with hw | hw
        · exact hok.readySub w hw
        · subst hw; exact hin
      · intro w hw
        obtain ⟨wd, hwd, hcase⟩ := hok.item w hw
        obtain ⟨f1, f2⟩ := hframe w hw wd hwd
        rw [h0] at f2
        refine ⟨wd, f1, ?_⟩
        rw [f2]
        simp only [List.mem_append, List.mem_singleton]
        rcases hcase with ⟨c1, c2⟩ | ⟨c1, c2⟩
        · exact Or.inl ⟨c1, Or.inl c2⟩
        · refine Or.inr ⟨c1, ?_⟩
          simp only [Bool.or_eq_true, beq_iff_eq, Option.some.injEq]
          constructor
          · rintro (h | h)
            · exact Or.inl (c2.1 h)
            · exact Or.inr h.symm
          · rintro (h | h)
            · exact Or.inl (c2.2 h)
            · exact Or.inr h.symm
    · have hwk : wake st (some w0) = st := by simp [wake, hin]
      rw [hwk]
      refine ⟨hok.readyNodup, hok.readySub, ?_⟩
      intro w hw
      obtain ⟨wd, hwd, hcase⟩ := hok.item w hw
      obtain ⟨f1, f2⟩ := hframe w hw wd hwd
      rw [h0] at f2
      have hne : (some w0 == some w) = false := by
        simp; intro e; subst e; exact hin hw
      refine ⟨wd, f1, ?_⟩
      rw [f2, hne, Bool.or_false]
      exact hcase

/-! ### all streams of the API state -/

def itemsOfSS (ss : List (Nat × StreamSt)) : List Nat := ss.flatMap fun p => p.2.items

structure SOk (s : State) (ss : List (Nat × StreamSt)) : Prop where
  ids : (ss.map Prod.fst).Nodup
  nodup : ∀ p ∈ ss, p.2.items.Nodup
  /-- an acquisition is an item of at most one stream -/
  disj : ∀ p ∈ ss, ∀ q ∈ ss, ∀ w, w ∈ p.2.items → w ∈ q.2.items → p.1 = q.1
  each : ∀ p ∈ ss, StreamOk s p.2

def wakeAll (ss : List (Nat × StreamSt)) (w : Option Nat) : List (Nat × StreamSt) := ss.map fun p => (p.1, wake p.2 w)

theorem wakeAll_none (ss : List (Nat × StreamSt)) : wakeAll ss none = ss := by
  unfold wakeAll wake; simp

theorem wakeAll_ids (ss : List (Nat × StreamSt)) (w : Option Nat) : (wakeAll ss w).map Prod.fst = ss.map Prod.fst := by
  unfold wakeAll; simp [Function.comp_def]

theorem wakeAll_items (ss : List (Nat × StreamSt)) (w : Option Nat) : itemsOfSS (wakeAll ss w) = itemsOfSS ss := by
  unfold wakeAll itemsOfSS
  induction ss with
  | nil => rfl
  | cons p ps ih => simp only [List.map_cons, List.flatMap_cons, wake_items, ih]

theorem woken_streams' (a : Api) (w : Option Nat) : (a.woken w).streams = wakeAll a.streams w := woken_streams a w

theorem mem_itemsOfSS (ss : List (Nat × StreamSt)) (w : Nat) : w ∈ itemsOfSS ss ↔ ∃ p ∈ ss, w ∈ p.2.items := by
  unfold itemsOfSS; simp [List.mem_flatMap]

theorem sok_step (s : State) (act : Act) (ss : List (Nat × StreamSt)) (hi : Inv s) (hok : SOk s ss)
    (hact : ∀ w ∈ itemsOfSS ss, act.actor ≠ some w ∧ w ∉ act.fresh) :
    SOk (step s act).1 (wakeAll ss (handedTo s act)) := by
  refine ⟨by rw [wakeAll_ids]; exact hok.ids, ?_, ?_, ?_⟩
  · intro p hp
    unfold wakeAll at hp
    obtain ⟨q, hq, rfl⟩ := List.mem_map.1 hp
    simp only [wake_items]; exact hok.nodup q hq
  · intro p hp p' hp' w hw hw'
    unfold wakeAll at hp hp'
    obtain ⟨q, hq, rfl⟩ := List.mem_map.1 hp
    obtain ⟨q', hq', rfl⟩ := List.mem_map.1 hp'
    simp only [wake_items] at hw hw'
    exact hok.disj q hq q' hq' w hw hw'
  intro p hp
  unfold wakeAll at hp
  obtain ⟨q, hq, rfl⟩ := List.mem_map.1 hp
  exact streamOk_step s act q.2 hi (hok.each q hq) (fun w hw => hact w ((mem_itemsOfSS ss w).2 ⟨q, hq, hw⟩))

/-- unresolved items are pending acquisitions -/
theorem item_st (s : State) (ss : List (Nat × StreamSt)) (hok : SOk s ss) (w : Nat) (hw : w ∈ itemsOfSS ss) :
    hst (s.hs w) = some .replica ∨ hst (s.hs w) = some .queued := by
  obtain ⟨p, hp, hwp⟩ := (mem_itemsOfSS ss w).1 hw
  obtain ⟨wd, hwd, hcase⟩ := (hok.each p hp).item w hwp
  rw [hwd]
  rcases hcase with ⟨c, _⟩ | ⟨c, _⟩
  · left; simp [c]
  · right; simp [c]

theorem stamp_fail (s : State) (c : Nat) (h : (stamp s c).2 ≠ .unit) : (stamp s c).1 = s := by
  have : (stamp s c).1 = s ∨ (stamp s c).2 = .unit := by
    unfold stamp
    repeat' split
    all_goals first
      | (left; rfl)
      | (right; rfl)
  rcases this with e | e
  · exact e
  · exact absurd e h

theorem stamp_ok_shape (s : State) (c : Nat) (hok : (stamp s c).2 = .unit) :
    ∃ hd m m', s.hs c = some hd ∧ hd.st = .holding ∧ s.entryOf hd = some m ∧ m'.eid = m.eid ∧ m'.holder = m.holder ∧
      m'.queue = m.queue ∧ (stamp s c).1 = (s.setEnt hd.key m').setSt c hd (.stamped m.value.isSome) := by
  unfold stamp at hok ⊢
  cases hh : s.hs c with
  | none => simp [hh] at hok
  | some hd =>
    simp only [hh] at hok ⊢
    by_cases hst : hd.st = .holding
    · simp only [hst, ↓reduceIte] at hok ⊢
      cases hm : s.entryOf hd with
      | none => simp [hm] at hok
      | some m =>
        simp only []
        refine ⟨hd, m, _, rfl, hst, hm, ?_, ?_, ?_, rfl⟩
        · split <;> rfl
        · split <;> rfl
        · split <;> rfl
    · simp [hst] at hok

theorem stamp_then (s : State) (c : Nat) (hi : Inv s) (hok : (stamp s c).2 = .unit) :
    (release (stamp s c).1 c).2 = .unit ∧ nextWaiter (stamp s c).1 c = nextWaiter s c ∧ hst (s.hs c) = some .holding := by
  obtain ⟨hd, m, m', hh, hst, hm, f1, f2, f3, hs1⟩ := stamp_ok_shape s c hok
  obtain ⟨hm1, hm2⟩ := entryOf_some hm
  rw [hs1]
  have e1 : ((s.setEnt hd.key m').setSt c hd (.stamped m.value.isSome)).hs c = some { hd with st := .stamped m.value.isSome } := by
    simp [State.setSt, State.setEnt, upd]
  have e2 : ((s.setEnt hd.key m').setSt c hd (.stamped m.value.isSome)).entryOf { hd with st := .stamped m.value.isSome } = some m' := by
    simp [State.setSt, State.setEnt, State.entryOf, upd, f1, hm2]
  refine ⟨?_, ?_, by simp [hh, hst]⟩
  · unfold release
    simp only [e1, e2]
    have : ((s.setEnt hd.key m').setSt c hd (.stamped m.value.isSome)).wedged = false := hi.notWedged
    simp only [this, Bool.false_eq_true, ↓reduceIte]
    split
    · rfl
    · split <;> rfl
  · rw [nextWaiter_eq s c hd m hh hm, nextWaiter_eq _ c _ m' e1 e2, f2, f3]

theorem sok_dropGuard (a : Api) (c : Nat) (hi : Inv a.s) (hok : SOk a.s a.streams) :
    SOk (a.dropGuard c).1.s (a.dropGuard c).1.streams := by
  unfold Api.dropGuard
  simp only []
  by_cases hs : (stamp a.s c).2 = .unit
  · obtain ⟨h1, h2, h3⟩ := stamp_then a.s c hi hs
    have hnot : ∀ w ∈ itemsOfSS a.streams, w ≠ c := by
      intro w hw e; subst e
      rcases item_st a.s a.streams hok w hw with e | e <;> rw [h3] at e <;> cases e
    have s1 := sok_step a.s (.stamp c) a.streams hi hok (fun w hw => ⟨by simp [Act.actor]; exact fun e => hnot w hw e.symm, by simp [Act.fresh]⟩)
    simp only [handedTo, wakeAll_none, step] at s1
    have s2 := sok_step (stamp a.s c).1 (.release c) a.streams (inv_stamp a.s c hi) s1
      (fun w hw => ⟨by simp [Act.actor]; exact fun e => hnot w hw e.symm, by simp [Act.fresh]⟩)
    simp only [handedTo, step, h1, ↓reduceIte, h2] at s2
    simp only [hs, woken_s, woken_streams']
    exact s2
  · have := stamp_fail a.s c hs
    split
    · rename_i e; exact absurd e hs
    · simp only []; rw [this]; exact hok

theorem sok_gop_ (a : Api) (c : Nat) (g : GOp) (hi : Inv a.s) (hok : SOk a.s a.streams) :
    SOk (a.gop_ c g).s (a.gop_ c g).streams := by
  unfold Api.gop_
  simp only []
  by_cases hin : c ∈ itemsOfSS a.streams
  · have : (gop a.s c g).1 = a.s := by
      have := item_st a.s a.streams hok c hin
      unfold gop
      cases hh : a.s.hs c with
      | none => rfl
      | some hd =>
        rw [hh] at this
        simp only []
        have : hd.st ≠ .holding := by
          intro e; simp [e] at this
        simp [this]
    rw [this]; exact hok
  · have s1 := sok_step a.s (.gop c g) a.streams hi hok
      (fun w hw => ⟨by simp [Act.actor]; intro e; subst e; exact hin hw, by simp [Act.fresh]⟩)
    simp only [handedTo, wakeAll_none, step] at s1
    exact s1

theorem sok_cancelHandle (a : Api) (h : Nat) (hi : Inv a.s) (hok : SOk a.s a.streams) (hin : h ∉ itemsOfSS a.streams) :
    SOk (a.cancelHandle h).1.s (a.cancelHandle h).1.streams := by
  have s1 := sok_step a.s (.cancel h) a.streams hi hok
    (fun w hw => ⟨by simp [Act.actor]; intro e; subst e; exact hin hw, by simp [Act.fresh]⟩)
  simp only [handedTo, step] at s1
  unfold Api.cancelHandle
  simp only []
  split
  · rename_i e
    simp only [e, ↓reduceIte] at s1
    simp only [woken_s, woken_streams']; exact s1
  · rename_i e
    have : ¬ (cancel a.s h).2 = .unit := fun e2 => e e2
    simp only [this, ↓reduceIte, wakeAll_none] at s1
    exact s1

/-! ### the API-level invariant and the composites that keep it -/

structure AInv (a : Api) : Prop where
  inv : Inv a.s
  sok : SOk a.s a.streams

/-- the streams, their ids and their unresolved items — without the ready queues -/
def shape (ss : List (Nat × StreamSt)) : List (Nat × List Nat) := ss.map fun p => (p.1, p.2.items)

theorem wakeAll_shape (ss : List (Nat × StreamSt)) (w : Option Nat) : shape (wakeAll ss w) = shape ss := by
  unfold wakeAll shape
  rw [List.map_map]
  apply List.map_congr_left
  intro p _
  simp only [Function.comp, wake_items]

theorem itemsOfSS_shape (ss : List (Nat × StreamSt)) : itemsOfSS ss = (shape ss).flatMap Prod.snd := by
  unfold itemsOfSS shape
  induction ss with
  | nil => rfl
  | cons p ps ih => simp only [List.flatMap_cons, List.map_cons, ih]

/-- `a'` satisfies the invariant, has the same streams with the same unresolved items as `a` (only ready queues may differ),
and the records of the items' handles are those of `a` -/
def Keeps (a a' : Api) : Prop :=
  AInv a' ∧ shape a'.streams = shape a.streams ∧ ∀ w ∈ itemsOfSS a.streams, a'.s.hs w = a.s.hs w

theorem Keeps.items {a a' : Api} (h : Keeps a a') : itemsOfSS a'.streams = itemsOfSS a.streams := by
  rw [itemsOfSS_shape, itemsOfSS_shape, h.2.1]

theorem Keeps.refl {a : Api} (h : AInv a) : Keeps a a := ⟨h, rfl, fun _ _ => rfl⟩
theorem Keeps.trans {a b c : Api} (h1 : Keeps a b) (h2 : Keeps b c) : Keeps a c :=
  ⟨h2.1, h2.2.1.trans h1.2.1, fun w hw => (h2.2.2 w (by rw [h1.items]; exact hw)).trans (h1.2.2 w hw)⟩

theorem fresh_not_item (s : State) (ss : List (Nat × StreamSt)) (hok : SOk s ss) (w : Nat) (hf : s.hs w = none) :
    w ∉ itemsOfSS ss := by
  intro hw
  rcases item_st s ss hok w hw with e | e <;> rw [hf] at e <;> cases e

theorem keeps_plain (a : Api) (act : Act) (h : AInv a)
    (hact : ∀ w ∈ itemsOfSS a.streams, act.actor ≠ some w ∧ w ∉ act.fresh) (hnh : handedTo a.s act = none) :
    Keeps a { a with s := (step a.s act).1 } := by
  have := sok_step a.s act a.streams h.inv h.sok hact
  rw [hnh, wakeAll_none] at this
  exact ⟨⟨inv_step _ _ h.inv, this⟩, rfl, fun w hw => hs_step_other a.s act w (hact w hw).1 (hact w hw).2⟩

theorem keeps_dropGuard (a : Api) (c : Nat) (h : AInv a) : Keeps a (a.dropGuard c).1 := by
  refine ⟨⟨inv_dropGuard a c h.inv, sok_dropGuard a c h.inv h.sok⟩, ?_, ?_⟩
  · unfold Api.dropGuard; simp only []; split
    · simp only [woken_streams', wakeAll_shape]
    · rfl
  · intro w hw
    by_cases hwc : w = c
    · subst hwc
      have hs : (stamp a.s w).2 ≠ .unit := by
        intro e
        have h3 := (stamp_then a.s w h.inv e).2.2
        rcases item_st a.s a.streams h.sok w hw with e' | e' <;> rw [h3] at e' <;> cases e'
      rw [dropGuard_s, if_neg hs, stamp_fail a.s w hs]
    · exact dropGuard_hs_other a c w hwc

theorem keeps_cancelHandle (a : Api) (c : Nat) (h : AInv a) (hin : c ∉ itemsOfSS a.streams) : Keeps a (a.cancelHandle c).1 := by
  refine ⟨⟨inv_cancelHandle a c h.inv, sok_cancelHandle a c h.inv h.sok hin⟩, ?_, ?_⟩
  · unfold Api.cancelHandle; simp only []; split
    · simp only [woken_streams', wakeAll_shape]
    · rfl
  · intro w hw
    have hwc : w ≠ c := fun e => hin (e ▸ hw)
    have : (a.cancelHandle c).1.s = (cancel a.s c).1 := by
      unfold Api.cancelHandle; simp only []; split
      · simp only [woken_s]
      · rfl
    rw [this]; exact cancel_hs_other a.s c w hwc

theorem keeps_gop_ (a : Api) (c : Nat) (g : GOp) (h : AInv a) : Keeps a (a.gop_ c g) :=
  ⟨⟨inv_gop_ a c g h.inv, sok_gop_ a c g h.inv h.sok⟩, rfl, fun w _ => by
    show (gop a.s c g).1.hs w = a.s.hs w
    rw [gop_hs]⟩

theorem keeps_runActs (cands : List Nat) : ∀ (a : Api) (acts : List CandAct), AInv a → Keeps a (a.runActs cands acts) := by
  induction cands with
  | nil => intro a acts h; exact Keeps.refl h
  | cons c cs ih =>
    intro a acts h
    simp only [Api.runActs]
    have h1 : Keeps a (match acts.head?.getD .rm with
      | .rm => ((a.gop_ c .remove).dropGuard c).1
      | .keep => (a.dropGuard c).1
      | .set v => ((a.gop_ c (.insert v)).dropGuard c).1
      | .stash => a) := by
      split
      · exact (keeps_gop_ a c _ h).trans (keeps_dropGuard _ c (keeps_gop_ a c _ h).1)
      · exact keeps_dropGuard a c h
      · exact (keeps_gop_ a c _ h).trans (keeps_dropGuard _ c (keeps_gop_ a c _ h).1)
      · exact Keeps.refl h
    exact h1.trans (ih _ _ h1.1)

theorem keeps_dropAll (hs : List Nat) : ∀ (a : Api), AInv a → Keeps a (a.dropAll hs) := by
  induction hs with
  | nil => intro a h; exact Keeps.refl h
  | cons c cs ih =>
    intro a h
    simp only [Api.dropAll, List.foldl_cons]
    exact (keeps_dropGuard a c h).trans (ih _ (keeps_dropGuard a c h).1)

theorem keeps_lookup (a : Api) (h k : Nat) (hi : AInv a) : Keeps a { a with s := (lookup a.s h k).1 } := by
  cases hh : a.s.hs h with
  | some hd =>
    have : (lookup a.s h k).1 = a.s := by unfold lookup; simp [hi.inv.notWedged, hh]
    rw [this]; exact Keeps.refl hi
  | none =>
    exact keeps_plain a (.lookup h k) hi
      (fun w hw => ⟨by simp [Act.actor]; intro e; subst e; exact fresh_not_item _ _ hi.sok _ hh hw, by simp [Act.fresh]⟩) rfl

theorem keeps_limitLookup (a : Api) (h k n : Nat) (hids : List Nat) (hi : AInv a) :
    Keeps a { a with s := (step a.s (.limitLookup h k n hids)).1 } := by
  by_cases hc : (a.s.freshList (h :: hids) && decide (a.s.order.length ≤ hids.length) && decide (1 ≤ n)) = true
  · simp only [Bool.and_eq_true] at hc
    have hf := freshL_of a.s (h :: hids) hc.1.1
    exact keeps_plain a (.limitLookup h k n hids) hi
      (fun w hw => ⟨by
          simp [Act.actor]; intro e; subst e
          exact fresh_not_item _ _ hi.sok _ (hf.1 _ (by simp)) hw,
        by
          simp only [Act.fresh]; intro e
          exact fresh_not_item _ _ hi.sok _ (hf.1 _ (List.mem_cons_of_mem _ e)) hw⟩) rfl
  · have : (step a.s (.limitLookup h k n hids)).1 = a.s := by simp only [step, hc]; rfl
    rw [this]; exact Keeps.refl hi

theorem keeps_snapshot (a : Api) (hids : List Nat) (hi : AInv a) :
    Keeps a { a with s := (step a.s (.snapshot hids)).1 } := by
  by_cases hc : (a.s.freshList hids && decide (a.s.order.length ≤ hids.length)) = true
  · simp only [Bool.and_eq_true] at hc
    have hf := freshL_of a.s hids hc.1
    exact keeps_plain a (.snapshot hids) hi
      (fun w hw => ⟨by simp [Act.actor], by
          simp only [Act.fresh]; intro e
          exact fresh_not_item _ _ hi.sok _ (hf.1 _ e) hw⟩) rfl
  · have : (step a.s (.snapshot hids)).1 = a.s := by simp only [step, hc]; rfl
    rw [this]; exact Keeps.refl hi

theorem keeps_expire (a : Api) (c : Option Nat) (hids : List Nat) (hi : AInv a) :
    Keeps a { a with s := (step a.s (.expire c hids)).1 } := by
  by_cases hc : (a.s.freshList hids && decide (a.s.order.length ≤ hids.length)) = true
  · simp only [Bool.and_eq_true] at hc
    have hf := freshL_of a.s hids hc.1
    exact keeps_plain a (.expire c hids) hi
      (fun w hw => ⟨by simp [Act.actor], by
          simp only [Act.fresh]; intro e
          exact fresh_not_item _ _ hi.sok _ (hf.1 _ e) hw⟩) rfl
  · have : (step a.s (.expire c hids)).1 = a.s := by simp only [step, hc]; rfl
    rw [this]; exact Keeps.refl hi

theorem keeps_lockPrelude (h k : Nat) : ∀ (fuel : Nat) (a : Api) (limit : Limit) (h0 : Nat) (tr : List RoundTrace),
    AInv a → Keeps a (a.lockPrelude h k limit h0 fuel tr).1 := by
  intro fuel
  induction fuel with
  | zero => intro a limit h0 tr hi; simpa [Api.lockPrelude] using Keeps.refl hi
  | succ fuel ih =>
    intro a limit h0 tr hi
    unfold Api.lockPrelude
    cases limit with
    | none => exact keeps_lookup a h k hi
    | soft n script =>
      simp only []
      have hstep := keeps_limitLookup a h k n (List.range' h0 supplyLen) hi
      split
      · exact hstep
      · split
        · exact hstep.trans (keeps_dropAll _ _ hstep.1)
        · exact hstep
        · exact hstep
        · have hi2 := fun cands => hstep.trans (keeps_runActs cands { a with s := (step a.s (.limitLookup h k n (List.range' h0 supplyLen))).1 }
            (script.head?.getD defaultRound).acts hstep.1)
          split
          · exact hi2 _
          · split
            · exact hi2 _
            · exact (hi2 _).trans (ih _ _ _ _ (hi2 _).1)
      · exact hstep

theorem lockPrelude_live (a : Api) (h k : Nat) (limit : Limit) (h0 : Nat) (tr : List RoundTrace) (hd : Handle)
    (hh : a.s.hs h = some hd) (hw : a.s.wedged = false) (fuel : Nat) :
    a.lockPrelude h k limit h0 (fuel + 1) tr = (a, tr.reverse, .out .bad) := by
  unfold Api.lockPrelude
  cases limit with
  | none => simp [lookup, hw, hh]
  | soft n script => simp [step, State.freshList, hh]

theorem lock_live (a : Api) (v : Variant) (h k : Nat) (limit : Limit) (h0 : Nat) (hd : Handle)
    (hh : a.s.hs h = some hd) (hw : a.s.wedged = false) : (a.lock v h k limit h0).1 = a := by
  unfold Api.lock
  simp only []
  rw [show ∀ x, x + a.s.order.length + 2 = (x + a.s.order.length + 1) + 1 from fun _ => rfl,
    lockPrelude_live a h k limit h0 [] hd hh hw]

theorem keeps_of_eq (a a' : Api) (h : AInv a) (e1 : a'.s = a.s) (e2 : a'.streams = a.streams) : Keeps a a' := by
  refine ⟨⟨by rw [e1]; exact h.inv, by rw [e1, e2]; exact h.sok⟩, by rw [e2], fun w _ => by rw [e1]⟩

/-- an action on the caller's own handle, which is not a stream item -/
theorem keeps_own (a : Api) (act : Act) (h : Nat) (hi : AInv a) (hnot : h ∉ itemsOfSS a.streams)
    (ha : act.actor = some h) (hf : act.fresh = []) (hnh : handedTo a.s act = none) :
    Keeps a { a with s := (step a.s act).1 } :=
  keeps_plain a act hi (fun w hw => ⟨by rw [ha]; simp; intro e; subst e; exact hnot hw, by rw [hf]; simp⟩) hnh

theorem keeps_lock (a : Api) (v : Variant) (h k : Nat) (limit : Limit) (h0 : Nat) (hi : AInv a) :
    Keeps a (a.lock v h k limit h0).1 := by
  cases hh : a.s.hs h with
  | some hd => rw [lock_live a v h k limit h0 hd hh hi.inv.notWedged]; exact Keeps.refl hi
  | none =>
    have hnot : h ∉ itemsOfSS a.streams := fresh_not_item _ _ hi.sok _ hh
    unfold Api.lock
    simp only []
    generalize hfuel : ((match limit with | .none => 0 | .soft _ sc => sc.length) + a.s.order.length + 2) = fuel
    have hp := keeps_lockPrelude h k fuel a limit h0 [] hi
    have hnot1 : h ∉ itemsOfSS (a.lockPrelude h k limit h0 fuel []).1.streams := by rw [hp.items]; exact hnot
    have henq := keeps_own _ (.enqueue h) h hp.1 hnot1 rfl rfl rfl
    have htry := keeps_own _ (.tryKey h) h hp.1 hnot1 rfl rfl rfl
    have hnot2 : h ∉ itemsOfSS ({ (a.lockPrelude h k limit h0 fuel []).1 with
        s := (step (a.lockPrelude h k limit h0 fuel []).1.s (.tryKey h)).1 } : Api).streams := hnot1
    have hcl := keeps_own _ (.cleanupFailed h) h htry.1 hnot2 rfl rfl rfl
    repeat' split
    all_goals first
      | exact hp
      | exact hp.trans henq
      | exact hp.trans htry
      | exact hp.trans (htry.trans hcl)
      | exact hp.trans (keeps_of_eq _ _ hp.1 rfl rfl)

theorem keeps_resume (a : Api) (h : Nat) (su : Susp) (hi : AInv a) : Keeps a (a.resume h su).1 := by
  unfold Api.resume
  simp only []
  have h0 : Keeps a { a with susp := a.susp.filter fun (i, _) => i ≠ h } := keeps_of_eq _ _ hi rfl rfl
  have h2 := h0.trans (keeps_runActs (su.cands.map Prod.fst) { a with susp := a.susp.filter fun (i, _) => i ≠ h }
    (su.script.head?.getD defaultRound).acts h0.1)
  split
  · exact h2
  · exact h2
  · exact h2
  · exact h2.trans (keeps_lock _ su.v h su.k _ su.h0 h2.1)

theorem keeps_abandon (a : Api) (h : Nat) (su : Susp) (hi : AInv a) : Keeps a (a.abandon h su) := by
  unfold Api.abandon
  have h0 : Keeps a { a with susp := a.susp.filter fun (i, _) => i ≠ h } := keeps_of_eq _ _ hi rfl rfl
  exact h0.trans (keeps_dropAll _ _ h0.1)

/-! ### one poll of a ready item -/

theorem itemPoll_cases (s : State) (w : Nat) (wd : Handle) (hi : Inv s) (hwd : s.hs w = some wd)
    (hcase : wd.st = .replica ∨ (wd.st = .queued ∧ hold s w wd.key = true)) :
    ∃ act : Act, act.actor = some w ∧ act.fresh = [] ∧ handedTo s act = none ∧ (itemPoll s w).1 = (step s act).1 ∧
      ((((itemPoll s w).2 = .yielded ∨ (itemPoll s w).2 = .valueless) ∧ hst ((itemPoll s w).1.hs w) = some .holding) ∨
       ((itemPoll s w).2 = .pending ∧
          ∃ wd', (itemPoll s w).1.hs w = some wd' ∧ wd'.st = .queued ∧ hold (itemPoll s w).1 w wd'.key = false)) := by
  obtain ⟨m, hm, he⟩ := eeid_inv (hi.live w wd hwd)
  have heo : s.entryOf wd = some m := by simp [State.entryOf, hm, he]
  rcases hcase with hst | ⟨hst, hh⟩
  · refine ⟨.enqueue w, rfl, rfl, rfl, ?_, ?_⟩
    · unfold itemPoll; simp only [hwd, hst, ↓reduceIte, step]
      repeat' split
      all_goals rfl
    · unfold itemPoll
      simp only [hwd, hst, ↓reduceIte, enqueue, heo]
      by_cases hfree : m.holder.isNone = true
      · left
        simp only [hfree, ↓reduceIte]
        refine ⟨?_, ?_⟩
        · split
          · left; rfl
          · right; rfl
        · split <;> simp [State.setSt, upd]
      · right
        simp only [hfree, ↓reduceIte]
        refine ⟨rfl, { wd with st := .queued }, by simp [State.setSt, upd], rfl, ?_⟩
        simp only [hold_setSt]
        cases hho : m.holder with
        | none => simp [hho] at hfree
        | some x =>
          have hxw : w ≠ x := by
            intro e; subst e
            obtain ⟨_, st, h1, h2⟩ := hi.holderLive wd.key m w hm hho
            rw [hwd] at h1; simp at h1; rw [← h1, hst] at h2; cases h2
          unfold hold State.setEnt
          simp [State.setSt, upd, hho, Ne.symm hxw]
  · refine ⟨.acquire w, rfl, rfl, rfl, ?_, ?_⟩
    · unfold itemPoll; simp only [hwd, hst, step]
      repeat' split
      all_goals first
        | rfl
        | (rename_i hc; cases hc)
    · have hholder : m.holder = some w := by
        unfold hold at hh; rw [hm] at hh; simpa using hh
      left
      unfold itemPoll
      have hne : ¬ (HSt.queued = HSt.replica) := by intro e; cases e
      simp only [hwd, hst, hne, ↓reduceIte, acquire, heo, hholder]
      refine ⟨?_, ?_⟩
      · split
        · left; rfl
        · right; rfl
      · split <;> simp [State.setSt, upd]

/-! ### the stream's own poll loop -/

def replaceS (ss : List (Nat × StreamSt)) (sid : Nat) (f : StreamSt → StreamSt) : List (Nat × StreamSt) :=
  ss.map fun p => if p.1 = sid then (p.1, f p.2) else p

theorem spollLoop_succ (a : Api) (sid fuel : Nat) (st : StreamSt) (w : Nat) (rest : List Nat)
    (hl : a.streams.lookup sid = some st) (hr : st.ready = w :: rest) :
    a.spollLoop sid (fuel + 1) =
      (let ss0 := replaceS a.streams sid fun st => { st with ready := rest }
       let r := itemPoll a.s w
       match r.2 with
       | .yielded => (⟨r.1, replaceS ss0 sid fun st => { st with items := st.items.erase w }, a.susp⟩, .item w (keyOf a.s w))
       | .valueless =>
         Api.spollLoop ((⟨r.1, replaceS ss0 sid fun st => { st with items := st.items.erase w }, a.susp⟩ : Api).dropGuard w).1 sid fuel
       | .pending => Api.spollLoop ⟨r.1, replaceS ss0 sid fun st => { st with items := w :: st.items.erase w }, a.susp⟩ sid fuel
       | .bad => (⟨r.1, ss0, a.susp⟩, .bad)) := by
  rw [Api.spollLoop]
  simp only [hl, hr]
  rfl

theorem lookup_mem (ss : List (Nat × StreamSt)) (sid : Nat) (st : StreamSt) (h : ss.lookup sid = some st) : (sid, st) ∈ ss := by
  induction ss with
  | nil => simp at h
  | cons p ps ih =>
    obtain ⟨i, x⟩ := p
    simp only [List.lookup_cons] at h
    split at h
    · rename_i e
      have : sid = i := by simpa using e
      subst this; cases h; simp
    · exact List.mem_cons_of_mem _ (ih h)

theorem lookup_unique (ss : List (Nat × StreamSt)) (sid : Nat) (st : StreamSt) (hn : (ss.map Prod.fst).Nodup)
    (h : ss.lookup sid = some st) : ∀ p ∈ ss, p.1 = sid → p.2 = st := by
  induction ss with
  | nil => simp at h
  | cons p ps ih =>
    obtain ⟨i, x⟩ := p
    simp only [List.map_cons, List.nodup_cons] at hn
    simp only [List.lookup_cons] at h
    intro q hq hq1
    split at h
    · rename_i e
      have : sid = i := by simpa using e
      subst this; cases h
      rcases List.mem_cons.1 hq with e2 | e2
      · rw [e2]
      · exact absurd (List.mem_map.2 ⟨q, e2, hq1⟩) hn.1
    · rename_i e
      have hne : ¬ sid = i := by simpa using e
      rcases List.mem_cons.1 hq with e2 | e2
      · rw [e2] at hq1; exact absurd hq1.symm hne
      · exact ih hn.2 h q e2 hq1

theorem replaceS_ids (ss : List (Nat × StreamSt)) (sid : Nat) (f : StreamSt → StreamSt) :
    (replaceS ss sid f).map Prod.fst = ss.map Prod.fst := by
  unfold replaceS
  rw [List.map_map]
  apply List.map_congr_left
  intro p _
  simp only [Function.comp]
  split <;> rfl

theorem replaceS_replaceS (ss : List (Nat × StreamSt)) (sid : Nat) (f g : StreamSt → StreamSt) :
    replaceS (replaceS ss sid f) sid g = replaceS ss sid (fun x => g (f x)) := by
  unfold replaceS
  rw [List.map_map]
  apply List.map_congr_left
  intro p _
  simp only [Function.comp]
  by_cases h : p.1 = sid <;> simp [h]

theorem sok_replace (s' : State) (ss : List (Nat × StreamSt)) (sid : Nat) (st : StreamSt) (f : StreamSt → StreamSt)
    (hids : (ss.map Prod.fst).Nodup) (hl : ss.lookup sid = some st)
    (hnodup : ∀ p ∈ ss, p.2.items.Nodup)
    (hdisj : ∀ p ∈ ss, ∀ q ∈ ss, ∀ w, w ∈ p.2.items → w ∈ q.2.items → p.1 = q.1)
    (hsub : ∀ x ∈ (f st).items, x ∈ st.items) (hnd : (f st).items.Nodup) (hst' : StreamOk s' (f st))
    (hothers : ∀ p ∈ ss, p.1 ≠ sid → StreamOk s' p.2) : SOk s' (replaceS ss sid f) := by
  have huniq := lookup_unique ss sid st hids hl
  have key : ∀ p' ∈ replaceS ss sid f, ∃ p ∈ ss, p'.1 = p.1 ∧ ((p.1 = sid ∧ p'.2 = f st) ∨ (p.1 ≠ sid ∧ p' = p)) := by
    intro p' hp'
    unfold replaceS at hp'
    obtain ⟨p, hp, rfl⟩ := List.mem_map.1 hp'
    refine ⟨p, hp, ?_⟩
    by_cases h : p.1 = sid
    · refine ⟨by simp only [h, ↓reduceIte], Or.inl ⟨h, ?_⟩⟩
      simp only [h, ↓reduceIte]; rw [huniq p hp h]
    · refine ⟨by simp only [h, ↓reduceIte], Or.inr ⟨h, ?_⟩⟩
      simp only [h, ↓reduceIte]
  have hitems : ∀ p' ∈ replaceS ss sid f, ∃ p ∈ ss, p'.1 = p.1 ∧ ∀ w ∈ p'.2.items, w ∈ p.2.items := by
    intro p' hp'
    obtain ⟨p, hp, e1, hc⟩ := key p' hp'
    refine ⟨p, hp, e1, ?_⟩
    rcases hc with ⟨c1, c2⟩ | ⟨_, c2⟩
    · rw [c2, huniq p hp c1]; exact hsub
    · rw [c2]; exact fun w hw => hw
  refine ⟨by rw [replaceS_ids]; exact hids, ?_, ?_, ?_⟩
  · intro p' hp'
    obtain ⟨p, hp, e1, hc⟩ := key p' hp'
    rcases hc with ⟨_, c2⟩ | ⟨_, c2⟩
    · rw [c2]; exact hnd
    · rw [c2]; exact hnodup p hp
  · intro p' hp' q' hq' w hw hw'
    obtain ⟨p, hp, e1, hpi⟩ := hitems p' hp'
    obtain ⟨q, hq, e2, hqi⟩ := hitems q' hq'
    rw [e1, e2]
    exact hdisj p hp q hq w (hpi w hw) (hqi w hw')
  · intro p' hp'
    obtain ⟨p, hp, e1, hc⟩ := key p' hp'
    rcases hc with ⟨_, c2⟩ | ⟨c1, c2⟩
    · rw [c2]; exact hst'
    · rw [c2]; exact hothers p hp c1

theorem itemOk_ready (s : State) (st st' : StreamSt) (w : Nat) (h : w ∈ st'.ready ↔ w ∈ st.ready) :
    ItemOk s st w → ItemOk s st' w := by
  rintro ⟨wd, hwd, hc⟩
  refine ⟨wd, hwd, ?_⟩
  rcases hc with ⟨c1, c2⟩ | ⟨c1, c2⟩
  · exact Or.inl ⟨c1, h.2 c2⟩
  · exact Or.inr ⟨c1, h.trans c2⟩

/-- an action of somebody else that hands nothing over leaves an item's bookkeeping valid -/
theorem itemOk_frame (s : State) (act : Act) (st : StreamSt) (w : Nat) (hi : Inv s) (ha : act.actor ≠ some w)
    (hf : w ∉ act.fresh) (hnh : handedTo s act = none) : ItemOk s st w → ItemOk (step s act).1 st w := by
  rintro ⟨wd, hwd, hc⟩
  refine ⟨wd, by rw [hs_step_other s act w ha hf, hwd], ?_⟩
  have := hold_step_other s act w wd hi hwd ha hf
  rw [hnh] at this
  have hnn : ((none : Option Nat) == some w) = false := rfl
  rw [this, hnn, Bool.or_false]
  exact hc

/-- one iteration of the stream's poll loop: whatever the polled item does, the bookkeeping stays exact; the poll of
a ready item is never `bad` -/
theorem spoll_iter (a : Api) (sid : Nat) (st : StreamSt) (w : Nat) (rest : List Nat) (hi : AInv a)
    (hl : a.streams.lookup sid = some st) (hr : st.ready = w :: rest) :
    (((itemPoll a.s w).2 = .yielded ∨ (itemPoll a.s w).2 = .valueless) →
      AInv ⟨(itemPoll a.s w).1, replaceS (replaceS a.streams sid fun st => { st with ready := rest }) sid
        (fun st => { st with items := st.items.erase w }), a.susp⟩) ∧
    ((itemPoll a.s w).2 = .pending →
      AInv ⟨(itemPoll a.s w).1, replaceS (replaceS a.streams sid fun st => { st with ready := rest }) sid
        (fun st => { st with items := w :: st.items.erase w }), a.susp⟩) ∧
    (itemPoll a.s w).2 ≠ .bad := by
  have hmem := lookup_mem _ _ _ hl
  have hsto := hi.sok.each _ hmem
  simp only [] at hsto
  have hrn : (w :: rest).Nodup := by rw [← hr]; exact hsto.readyNodup
  obtain ⟨hwr, hrestn⟩ := List.nodup_cons.1 hrn
  have hw_in : w ∈ st.items := hsto.readySub w (by rw [hr]; simp)
  have hitn : st.items.Nodup := hi.sok.nodup _ hmem
  obtain ⟨wd, hwd, hcase⟩ := hsto.item w hw_in
  have hcase' : wd.st = .replica ∨ (wd.st = .queued ∧ hold a.s w wd.key = true) := by
    rcases hcase with ⟨c, _⟩ | ⟨c1, c2⟩
    · exact Or.inl c
    · exact Or.inr ⟨c1, c2.1 (by rw [hr]; simp)⟩
  obtain ⟨act, ha1, ha2, ha3, hs1, hout⟩ := itemPoll_cases a.s w wd hi.inv hwd hcase'
  have hinv1 : Inv (itemPoll a.s w).1 := by rw [hs1]; exact inv_step _ _ hi.inv
  -- every other item of every stream keeps valid bookkeeping
  have hframe : ∀ q : StreamSt, ∀ w', w' ≠ w → ItemOk a.s q w' → ItemOk (itemPoll a.s w).1 q w' := by
    intro q w' hne
    rw [hs1]
    exact itemOk_frame a.s act q w' hi.inv (by rw [ha1]; simp; exact fun e => hne e.symm) (by rw [ha2]; simp) ha3
  have hothers : ∀ p ∈ a.streams, p.1 ≠ sid → StreamOk (itemPoll a.s w).1 p.2 := by
    intro p hp hne
    have hp' := hi.sok.each p hp
    refine ⟨hp'.readyNodup, hp'.readySub, ?_⟩
    intro w' hw'
    have : w' ≠ w := by
      intro e; subst e
      exact hne (hi.sok.disj p hp _ hmem w' hw' hw_in)
    exact hframe p.2 w' this (hp'.item w' hw')
  have hrest_items : ∀ (its : List Nat), ∀ w' ∈ st.items.erase w,
      ItemOk (itemPoll a.s w).1 { st with ready := rest, items := its } w' := by
    intro its w' hw'
    obtain ⟨hne, hin⟩ := (List.Nodup.mem_erase_iff hitn).1 hw'
    apply itemOk_ready _ st _ w' _ (hframe st w' hne (hsto.item w' hin))
    simp only [hr, List.mem_cons]
    constructor
    · exact fun h => Or.inr h
    · rintro (h | h)
      · exact absurd h hne
      · exact h
  have hsubr : ∀ x ∈ rest, x ∈ st.items.erase w := by
    intro x hx
    have hxi : x ∈ st.items := hsto.readySub x (by rw [hr]; exact List.mem_cons_of_mem _ hx)
    have : x ≠ w := by intro e; subst e; exact hwr hx
    exact (List.mem_erase_of_ne this).2 hxi
  refine ⟨?_, ?_, ?_⟩
  · intro _
    refine ⟨hinv1, ?_⟩
    simp only [replaceS_replaceS]
    apply sok_replace (itemPoll a.s w).1 a.streams sid st _ hi.sok.ids hl hi.sok.nodup hi.sok.disj
    · intro x hx; exact List.mem_of_mem_erase hx
    · exact hitn.erase w
    · exact ⟨hrestn, hsubr, hrest_items _⟩
    · exact hothers
  · intro hp
    have hq : ∃ wd', (itemPoll a.s w).1.hs w = some wd' ∧ wd'.st = .queued ∧ hold (itemPoll a.s w).1 w wd'.key = false := by
      rcases hout with ⟨hy, _⟩ | ⟨_, hq⟩
      · rw [hp] at hy; rcases hy with e | e <;> cases e
      · exact hq
    obtain ⟨wd', e1, e2, e3⟩ := hq
    refine ⟨hinv1, ?_⟩
    simp only [replaceS_replaceS]
    apply sok_replace (itemPoll a.s w).1 a.streams sid st _ hi.sok.ids hl hi.sok.nodup hi.sok.disj
    · intro x hx
      rcases List.mem_cons.1 hx with e | e
      · rw [e]; exact hw_in
      · exact List.mem_of_mem_erase e
    · refine List.nodup_cons.2 ⟨?_, hitn.erase w⟩
      intro e; exact ((List.Nodup.mem_erase_iff hitn).1 e).1 rfl
    · refine ⟨hrestn, fun x hx => List.mem_cons_of_mem _ (hsubr x hx), ?_⟩
      intro w' hw'
      rcases List.mem_cons.1 hw' with e | e
      · subst e
        refine ⟨wd', e1, Or.inr ⟨e2, ?_⟩⟩
        simp only [e3]
        constructor
        · intro h; exact absurd h hwr
        · intro h; cases h
      · exact hrest_items _ w' e
    · exact hothers
  · intro hb
    rcases hout with ⟨hy, _⟩ | ⟨hp, _⟩
    · rw [hb] at hy; rcases hy with e | e <;> cases e
    · rw [hb] at hp; cases hp

theorem ainv_spollLoop (sid : Nat) : ∀ (fuel : Nat) (a : Api), AInv a → AInv (a.spollLoop sid fuel).1 := by
  intro fuel
  induction fuel with
  | zero => intro a hi; exact hi
  | succ fuel ih =>
    intro a hi
    cases hl : a.streams.lookup sid with
    | none => rw [Api.spollLoop]; simp only [hl]; exact hi
    | some st =>
      cases hr : st.ready with
      | nil => rw [Api.spollLoop]; simp only [hl, hr]; exact hi
      | cons w rest =>
        rw [spollLoop_succ a sid fuel st w rest hl hr]
        simp only []
        obtain ⟨hY, hP, hB⟩ := spoll_iter a sid st w rest hi hl hr
        cases hr2 : (itemPoll a.s w).2 with
        | yielded => exact hY (Or.inl hr2)
        | valueless => exact ih _ (keeps_dropGuard _ w (hY (Or.inr hr2))).1
        | pending => exact ih _ (hP hr2)
        | bad => exact absurd hr2 hB

/-- what the answer of the stream's poll means: `pending` — some items are left and every one of them is queued behind somebody
else's ownership of its key (nothing the stream could obtain right now is left unpolled); `ended` — no item is left -/
theorem spollLoop_answer (sid : Nat) : ∀ (fuel : Nat) (a : Api), AInv a →
    ((a.spollLoop sid fuel).2 = .pending → ∃ st, (a.spollLoop sid fuel).1.streams.lookup sid = some st ∧ st.items ≠ [] ∧
        ∀ w ∈ st.items, ∃ wd, (a.spollLoop sid fuel).1.s.hs w = some wd ∧ wd.st = .queued ∧
          hold (a.spollLoop sid fuel).1.s w wd.key = false) ∧
    ((a.spollLoop sid fuel).2 = .ended → ∃ st, (a.spollLoop sid fuel).1.streams.lookup sid = some st ∧ st.items = []) := by
  intro fuel
  induction fuel with
  | zero => intro a hi; simp [Api.spollLoop]
  | succ fuel ih =>
    intro a hi
    cases hl : a.streams.lookup sid with
    | none => rw [Api.spollLoop]; simp [hl]
    | some st =>
      cases hr : st.ready with
      | nil =>
        rw [Api.spollLoop]; simp only [hl, hr]
        have hsto := hi.sok.each _ (lookup_mem _ _ _ hl)
        by_cases he : st.items.isEmpty = true
        · simp only [he, ↓reduceIte]
          refine ⟨(by intro e; cases e), fun _ => ⟨st, rfl, by simpa using he⟩⟩
        · simp only [he, ↓reduceIte]
          refine ⟨fun _ => ⟨st, rfl, by simpa using he, ?_⟩, (by intro e; cases e)⟩
          intro w hw
          obtain ⟨wd, hwd, hc⟩ := hsto.item w hw
          refine ⟨wd, hwd, ?_⟩
          rcases hc with ⟨_, c2⟩ | ⟨c1, c2⟩
          · rw [hr] at c2; cases c2
          · refine ⟨c1, ?_⟩
            cases hh : hold a.s w wd.key with
            | false => rfl
            | true => have := c2.2 hh; rw [hr] at this; cases this
      | cons w rest =>
        rw [spollLoop_succ a sid fuel st w rest hl hr]
        simp only []
        obtain ⟨hY, hP, hB⟩ := spoll_iter a sid st w rest hi hl hr
        cases hr2 : (itemPoll a.s w).2 with
        | yielded => simp
        | valueless => exact ih _ (keeps_dropGuard _ w (hY (Or.inr hr2))).1
        | pending => exact ih _ (hP hr2)
        | bad => exact absurd hr2 hB

/-! ### creating and dropping a stream -/

theorem nodup_of_map (f : Nat → Nat) (l : List Nat) (h : (l.map f).Nodup) : l.Nodup := by
  induction l with
  | nil => simp
  | cons x xs ih =>
    simp only [List.map_cons, List.nodup_cons] at h ⊢
    exact ⟨fun hx => h.1 (List.mem_map.2 ⟨x, hx, rfl⟩), ih h.2⟩

theorem snapshot_list_facts (s : State) (hids hs : List Nat) (hi : Inv s) (h : (step s (.snapshot hids)).2 = .list hs) :
    hs.Nodup ∧ ∀ w ∈ hs, s.hs w = none ∧ hst ((step s (.snapshot hids)).1.hs w) = some .replica := by
  simp only [step] at h ⊢
  split at h
  · rename_i hc
    simp only [Bool.and_eq_true, decide_eq_true_eq] at hc
    have hf := freshL_of s hids hc.1
    have hc' : (s.freshList hids && decide (s.order.length ≤ hids.length)) = true := by
      simp only [Bool.and_eq_true, decide_eq_true_eq]; exact hc
    simp only [hc', ↓reduceIte]
    unfold snapshot at h ⊢
    simp only [hi.notWedged, Bool.false_eq_true, ↓reduceIte] at h ⊢
    have hex := snapLoop_exact s.order s hids [] (fun k hk => (hi.keys k).1 hk) hi.nodup hf.2 hc.2
    simp only [List.length_nil, List.take_zero, List.reverse_nil, List.drop_zero, true_and] at hex
    have e : (snapLoop s s.order hids []).2 = hs := by simpa using h
    rw [e] at hex
    refine ⟨?_, fun w hw => ⟨hf.1 w (hex.2 w hw).2, (hex.2 w hw).1⟩⟩
    have : (hs.map (keyOfH (snapLoop s s.order hids []).1)).Nodup := by rw [hex.1]; exact hi.nodup
    exact nodup_of_map _ _ this
  · cases h

theorem lookup_none_not_mem (ss : List (Nat × StreamSt)) (sid : Nat) (h : ss.lookup sid = none) : sid ∉ ss.map Prod.fst := by
  induction ss with
  | nil => simp
  | cons p ps ih =>
    obtain ⟨i, x⟩ := p
    simp only [List.lookup_cons] at h
    split at h
    · cases h
    · rename_i e
      have hne : ¬ sid = i := by simpa using e
      simp only [List.map_cons, List.mem_cons, not_or]
      exact ⟨hne, ih h⟩

theorem ainv_lockAll (a : Api) (sid : Nat) (hids hs : List Nat) (hi : AInv a) (hl : a.streams.lookup sid = none)
    (h : (step a.s (.snapshot hids)).2 = .list hs) :
    AInv ⟨(step a.s (.snapshot hids)).1, (sid, ⟨hs.reverse, hs⟩) :: a.streams, a.susp⟩ := by
  obtain ⟨hnd, hfacts⟩ := snapshot_list_facts a.s hids hs hi.inv h
  have hk := keeps_snapshot a hids hi
  have hk1 := hk.1
  refine ⟨hk1.inv, ?_, ?_, ?_, ?_⟩
  · simp only [List.map_cons, List.nodup_cons]
    exact ⟨lookup_none_not_mem _ _ hl, hi.sok.ids⟩
  · intro p hp
    rcases List.mem_cons.1 hp with e | e
    · rw [e]; exact nodup_reverse' _ hnd
    · exact hi.sok.nodup p e
  · have hnew : ∀ p ∈ a.streams, ∀ w, w ∈ hs.reverse → w ∈ p.2.items → False := by
      intro p hp w hw hw'
      have h1 := (hfacts w (List.mem_reverse.1 hw)).1
      exact fresh_not_item _ _ hi.sok w h1 ((mem_itemsOfSS _ w).2 ⟨p, hp, hw'⟩)
    intro p hp q hq w hw hw'
    rcases List.mem_cons.1 hp with e | e <;> rcases List.mem_cons.1 hq with e' | e'
    · rw [e, e']
    · rw [e] at hw; exact absurd hw' (fun x => hnew q e' w hw x)
    · rw [e'] at hw'; exact absurd hw (fun x => hnew p e w hw' x)
    · exact hi.sok.disj p e q e' w hw hw'
  · intro p hp
    rcases List.mem_cons.1 hp with e | e
    · rw [e]
      refine ⟨hnd, fun w hw => List.mem_reverse.2 hw, ?_⟩
      intro w hw
      have hw' := List.mem_reverse.1 hw
      obtain ⟨wd, e1, e2⟩ := hst_inv (hfacts w hw').2
      exact ⟨wd, e1, Or.inl ⟨e2, hw'⟩⟩
    · exact hk1.sok.each p e

theorem sok_filter (s : State) (ss : List (Nat × StreamSt)) (f : Nat × StreamSt → Bool) (hok : SOk s ss) : SOk s (ss.filter f) := by
  refine ⟨?_, ?_, ?_, ?_⟩
  · exact List.Nodup.sublist (List.Sublist.map _ List.filter_sublist) hok.ids
  · intro p hp; exact hok.nodup p (List.mem_filter.1 hp).1
  · intro p hp q hq; exact hok.disj p (List.mem_filter.1 hp).1 q (List.mem_filter.1 hq).1
  · intro p hp; exact hok.each p (List.mem_filter.1 hp).1

theorem ainv_cancelAll (l : List Nat) : ∀ (b : Api), AInv b → (∀ h ∈ l, h ∉ itemsOfSS b.streams) →
    AInv (l.foldl (fun a h => (a.cancelHandle h).1) b) := by
  induction l with
  | nil => intro b hb _; exact hb
  | cons x xs ih =>
    intro b hb hnot
    have hk := keeps_cancelHandle b x hb (hnot x (by simp))
    simp only [List.foldl_cons]
    apply ih _ hk.1
    intro h hh
    rw [hk.items]; exact hnot h (List.mem_cons_of_mem _ hh)

theorem not_owned_not_item (a : Api) (h : Nat) (hn : a.ownedByStream h = false) : h ∉ itemsOfSS a.streams := by
  intro hin
  obtain ⟨p, hp, hw⟩ := (mem_itemsOfSS _ h).1 hin
  have : a.ownedByStream h = true := by
    unfold Api.ownedByStream
    rw [List.any_eq_true]
    refine ⟨p, hp, ?_⟩
    obtain ⟨i, x⟩ := p
    simpa using hw
  rw [hn] at this; cases this

/-- **every API call keeps the bookkeeping of every stream exact** -/
theorem ainv_exec (a : Api) (c : Call) (hi : AInv a) : AInv (a.exec c).1 := by
  cases c with
  | lock v h k limit h0 => exact (keeps_lock a v h k limit h0 hi).1
  | poll h =>
    simp only [Api.exec]
    split; · exact hi
    rename_i hno
    have hnot := not_owned_not_item a h (by simpa using hno)
    split
    · exact (keeps_resume a h _ hi).1
    · exact (keeps_own a (.acquire h) h hi hnot rfl rfl rfl).1
  | cancel h =>
    simp only [Api.exec]
    split; · exact hi
    rename_i hno
    have hnot := not_owned_not_item a h (by simpa using hno)
    split
    · exact (keeps_abandon a h _ hi).1
    · exact (keeps_cancelHandle a h hi hnot).1
  | op h g =>
    simp only [Api.exec]
    split
    · exact hi
    · exact (keeps_gop_ a h g hi).1
  | drop h =>
    simp only [Api.exec]
    split
    · exact hi
    · exact (keeps_dropGuard a h hi).1
  | count => exact hi
  | keys => exact hi
  | adv d => exact (keeps_plain a (.tick d) hi (fun w _ => ⟨by simp [Act.actor], by simp [Act.fresh]⟩) rfl).1
  | expire d h0 =>
    simp only [Api.exec]
    have := (keeps_expire a (cutoffOf a.s d) (List.range' h0 supplyLen) hi).1
    split <;> exact this
  | lockAll sid h0 =>
    simp only [Api.exec]
    split
    · exact hi
    · rename_i hno
      have hl : a.streams.lookup sid = none := by
        cases hq : a.streams.lookup sid with
        | none => rfl
        | some x => rw [hq] at hno; simp at hno
      split
      · rename_i hs heq
        exact ainv_lockAll a sid _ hs hi hl heq
      · exact (keeps_snapshot a _ hi).1
  | spoll sid => exact ainv_spollLoop sid _ a hi
  | sdrop sid =>
    simp only [Api.exec]
    split
    · rename_i st hl
      have hmem := lookup_mem _ _ _ hl
      apply ainv_cancelAll
      · exact ⟨hi.inv, sok_filter _ _ _ hi.sok⟩
      · intro h hh hin
        obtain ⟨q, hq, hw⟩ := (mem_itemsOfSS _ h).1 hin
        obtain ⟨hq1, hq2⟩ := List.mem_filter.1 hq
        have := hi.sok.disj _ hmem q hq1 h hh hw
        obtain ⟨i, x⟩ := q
        simp at hq2 this
        exact hq2 this.symm
    · exact hi
  | into => exact hi
  | reorder perm =>
    simp only [Api.exec]
    exact (keeps_plain a (.reorder perm) hi (fun w _ => ⟨by simp [Act.actor], by simp [Act.fresh]⟩) rfl).1

theorem ainv_init (kind : Kind) : AInv (Api.init kind) := by
  refine ⟨inv_init kind, ?_, ?_, ?_, ?_⟩ <;> simp [Api.init]

theorem ainv_execs (cs : List Call) : ∀ (a : Api), AInv a → AInv (cs.foldl (fun a c => (a.exec c).1) a) := by
  induction cs with
  | nil => intro a hi; exact hi
  | cons c cs ih => intro a hi; exact ih _ (ainv_exec a c hi)

end Lockable
