/-
Frame lemmas about stored values: which actions can change `absVal`.
-/
import Lockable.Proofs.Steps3
namespace Lockable

@[simp] theorem wrap_val (s : State) (v : Nat) : (s.wrap v).val = v := by
  unfold State.wrap; split <;> rfl

def valOf : Option Entry → Option Nat
  | some m => m.value.map (·.val)
  | none => none

/-- the value the container stores for `k` (what the next guard for `k` will see) -/
def absVal (s : State) (k : Nat) : Option Nat := valOf (s.ent k)

theorem touch_ent (s : State) (k' : Nat) : (s.touch k').ent = s.ent := by
  unfold State.touch; split <;> rfl
theorem touch_hs (s : State) (k' : Nat) : (s.touch k').hs = s.hs := by
  unfold State.touch; split <;> rfl

theorem absVal_touch (s : State) (k k' : Nat) : absVal (s.touch k') k = absVal s k := by
  unfold absVal; rw [touch_ent]

theorem absVal_scanLock (s : State) (h k' : Nat) (m : Entry) (hm : s.ent k' = some m) (k : Nat) :
    absVal (s.scanLock h k' m) k = absVal s k := by
  unfold absVal State.scanLock; simp only [upd]
  split
  · rename_i e; subst e; rw [hm]; rfl
  · rfl

theorem absVal_clone (s : State) (h k' : Nat) (m : Entry) (hm : s.ent k' = some m) (k : Nat) :
    absVal (s.clone h k' m) k = absVal s k := by
  unfold absVal State.clone; simp only [upd]
  split
  · rename_i e; subst e; rw [hm]; rfl
  · rfl

theorem absVal_evictLoop (keys : List Nat) (k : Nat) : ∀ (s : State) (hids : List Nat) (n : Nat) (acc : List Nat),
    absVal (evictLoop s keys hids n acc).1 k = absVal s k := by
  induction keys with
  | nil => intro s hids n acc; simp [evictLoop]
  | cons k' ks ih =>
    intro s hids n acc
    unfold evictLoop
    split; · rfl
    split; · exact ih ..
    rename_i m hm
    split
    · split
      · split
        · rw [ih]; exact absVal_scanLock s _ k' m hm k
        · rfl
      · split
        · exact ih ..
        · rfl
    · split
      · exact ih ..
      · rfl

theorem absVal_snapLoop (keys : List Nat) (k : Nat) : ∀ (s : State) (hids : List Nat) (acc : List Nat),
    absVal (snapLoop s keys hids acc).1 k = absVal s k := by
  induction keys with
  | nil => intro s hids acc; simp [snapLoop]
  | cons k' ks ih =>
    intro s hids acc
    cases hids with
    | nil => simp [snapLoop]
    | cons h hs' =>
      simp only [snapLoop]
      split
      · rename_i m hm; rw [ih]; exact absVal_clone s h k' m hm k
      · exact ih ..

theorem absVal_expireLoop (keys : List Nat) (k : Nat) : ∀ (s : State) (hids : List Nat) (c : Nat) (acc : List Nat),
    absVal (expireLoop s keys hids c acc).1 k = absVal s k := by
  induction keys with
  | nil => intro s hids c acc; simp [expireLoop]
  | cons k' ks ih =>
    intro s hids c acc
    unfold expireLoop
    split; · exact ih ..
    rename_i m hm
    split
    · split
      · rw [ih]; exact absVal_scanLock s _ k' m hm k
      · exact ih ..
    · exact ih ..

theorem absVal_lookup (s : State) (h k' k : Nat) : absVal (lookup s h k').1 k = absVal s k := by
  unfold lookup
  split; · rfl
  split; · rfl
  split
  · rename_i m hm; rw [absVal_touch]; exact absVal_clone s h k' m hm k
  · rename_i hm
    unfold absVal; simp only [upd]
    split
    · rename_i e; subst e; rw [hm]; rfl
    · rfl


theorem absVal_setEnt_same (s : State) (k' : Nat) (m m' : Entry) (hm : s.ent k' = some m)
    (hv : m'.value.map (·.val) = m.value.map (·.val)) (k : Nat) :
    absVal (s.setEnt k' m') k = absVal s k := by
  unfold absVal State.setEnt; simp only [upd]
  split
  · rename_i e; subst e; rw [hm]; exact hv
  · rfl

theorem absVal_setSt (s : State) (h : Nat) (hd : Handle) (st : HSt) (k : Nat) :
    absVal (s.setSt h hd st) k = absVal s k := rfl
theorem absVal_dropHandle (s : State) (h : Nat) (k : Nat) : absVal (s.dropHandle h) k = absVal s k := rfl

theorem absVal_removeKey_none (s : State) (k' : Nat) (hv : absVal s k' = none) (k : Nat) :
    absVal (s.removeKey k') k = absVal s k := by
  unfold absVal State.removeKey; simp only [upd]
  split
  · rename_i e; subst e; exact hv.symm
  · rfl

theorem absVal_tryKey (s : State) (h k : Nat) : absVal (tryKey s h).1 k = absVal s k := by
  unfold tryKey
  split <;> try rfl
  split <;> try rfl
  split <;> try rfl
  rename_i m hm
  split
  · rw [absVal_setSt]; exact absVal_setEnt_same s _ m _ (entryOf_some hm).1 (by rfl) k
  · rfl

theorem absVal_trySpurious (s : State) (h k : Nat) : absVal (trySpurious s h).1 k = absVal s k := by
  unfold trySpurious
  split <;> try rfl
  split <;> rfl

theorem absVal_enqueue (s : State) (h k : Nat) : absVal (enqueue s h).1 k = absVal s k := by
  unfold enqueue
  split <;> try rfl
  split <;> try rfl
  split <;> try rfl
  rename_i m hm
  split <;> (rw [absVal_setSt]; exact absVal_setEnt_same s _ m _ (entryOf_some hm).1 (by rfl) k)

theorem absVal_enqueueLate (s : State) (h k : Nat) : absVal (enqueueLate s h).1 k = absVal s k := by
  unfold enqueueLate
  split <;> try rfl
  split <;> try rfl
  split <;> try rfl
  rename_i m hm
  split <;> (rw [absVal_setSt]; exact absVal_setEnt_same s _ m _ (entryOf_some hm).1 (by rfl) k)

theorem absVal_acquire (s : State) (h k : Nat) : absVal (acquire s h).1 k = absVal s k := by
  unfold acquire
  split <;> try rfl
  split <;> try rfl
  split <;> try rfl
  split <;> rfl

theorem absVal_stamp (s : State) (h k : Nat) : absVal (stamp s h).1 k = absVal s k := by
  unfold stamp
  split <;> try rfl
  split <;> try rfl
  split <;> try rfl
  rename_i m hm
  simp only []
  rw [absVal_setSt]
  apply absVal_setEnt_same s _ m _ (entryOf_some hm).1
  split
  · rename_i e1 e2; simp [e2]
  · rfl

/-- a guard method changes at most the value of its own key -/
theorem absVal_gop_other (s : State) (h : Nat) (op : GOp) (k : Nat) (hk : hkey (s.hs h) ≠ some k) :
    absVal (gop s h op).1 k = absVal s k := by
  unfold gop
  split <;> try rfl
  rename_i hd hhd
  have hne : k ≠ hd.key := by intro e; apply hk; simp [hhd, e]
  have hset : ∀ m', absVal (s.setEnt hd.key m') k = absVal s k := by
    intro m'; unfold absVal State.setEnt; simp [upd, hne]
  split <;> try rfl
  split <;> try rfl
  split <;> (try split) <;> first | rfl | exact hset _

theorem absVal_release (s : State) (h k : Nat) (hi : Inv s) : absVal (release s h).1 k = absVal s k := by
  unfold release
  split <;> try rfl
  split <;> try rfl
  split <;> try rfl
  split <;> try rfl
  rename_i _ hd hhd _ hv hst _ m hm
  have ⟨hm1, hm2⟩ := entryOf_some hm
  have hv' := hi.stampedOk h hd hv hhd hst m hm1
  have base : absVal ((s.setEnt hd.key (handoff m h)).dropHandle h) k = absVal s k := by
    rw [absVal_dropHandle]; exact absVal_setEnt_same s _ m _ hm1 (by rfl) k
  simp only []
  split
  · exact base
  · rename_i hvf
    split
    · rw [absVal_removeKey_none, absVal_touch, base]
      rw [absVal_touch, absVal_dropHandle, absVal_setEnt_same s _ m (handoff m h) hm1 (by rfl)]
      unfold absVal; rw [hm1]
      cases hval : m.value with
      | none => simp [valOf, hval]
      | some st => simp [hval] at hv'; exact absurd hv' hvf
    · rw [absVal_touch, base]

theorem absVal_cleanupFailed (s : State) (h k : Nat) : absVal (cleanupFailed s h).1 k = absVal s k := by
  unfold cleanupFailed
  split <;> try rfl
  split <;> try rfl
  split <;> try rfl
  split <;> try rfl
  rename_i hd hhd hst _ m hm
  have ⟨hm1, hm2⟩ := entryOf_some hm
  have base : absVal ((s.setEnt hd.key { m with refs := m.refs.erase h }).dropHandle h) k = absVal s k := by
    rw [absVal_dropHandle]; exact absVal_setEnt_same s _ m _ hm1 (by rfl) k
  simp only []
  split
  · split
    · rfl
    · split
      · rename_i hvn
        rw [absVal_removeKey_none, base]
        rw [absVal_dropHandle, absVal_setEnt_same s _ m { m with refs := m.refs.erase h } hm1 (by rfl)]
        unfold absVal; rw [hm1]
        cases hval : m.value with
        | none => simp [valOf, hval]
        | some st => simp [hval] at hvn
      · exact base
  · exact base

theorem absVal_cancel (s : State) (h k : Nat) : absVal (cancel s h).1 k = absVal s k := by
  unfold cancel
  split <;> try rfl
  split <;> try rfl
  split <;> try rfl
  split <;> try rfl
  rename_i hd hhd hst _ m hm
  have ⟨hm1, hm2⟩ := entryOf_some hm
  have hv : ∀ m' : Entry, m'.value = m.value →
      absVal (if m'.refs.length = 0 then
          if m'.holder.isSome = true then (s.wedge, Out.panic Site.cancelTry)
          else if m'.value.isNone = true then
            (((s.setEnt hd.key m').dropHandle h).removeKey hd.key, Out.unit)
          else ((s.setEnt hd.key m').dropHandle h, Out.unit)
        else ((s.setEnt hd.key m').dropHandle h, Out.unit)).1 k = absVal s k := by
    intro m' e
    have base : absVal ((s.setEnt hd.key m').dropHandle h) k = absVal s k := by
      rw [absVal_dropHandle]; exact absVal_setEnt_same s _ m _ hm1 (by rw [e]) k
    split
    · split
      · rfl
      · split
        · rename_i hvn
          rw [absVal_removeKey_none, base]
          rw [absVal_dropHandle, absVal_setEnt_same s _ m m' hm1 (by rw [e])]
          unfold absVal; rw [hm1]
          rw [e] at hvn
          cases hval : m.value with
          | none => simp [valOf, hval]
          | some st => simp [hval] at hvn
        · exact base
    · exact base
  simp only []
  split
  · exact hv (handoff m h) rfl
  · exact hv _ rfl

/-- **C02 frame**: nothing except a guard method on a guard for key `k` changes the value stored for `k` -/
theorem absVal_step (s : State) (a : Act) (k : Nat) (hi : Inv s)
    (hne : ∀ h op, a = .gop h op → hkey (s.hs h) ≠ some k) :
    absVal (step s a).1 k = absVal s k := by
  cases a with
  | lookup h k' => exact absVal_lookup s h k' k
  | limitLookup h k' n hids =>
    simp only [step]
    split <;> try rfl
    unfold limitLookup
    split <;> try rfl
    split <;> try rfl
    simp only []
    split; · exact absVal_lookup s h k' k
    have := absVal_evictLoop s.order k s hids (s.order.length - (n - 1)) []
    split
    · rename_i e; rw [e] at this; exact this
    · exact absVal_lookup s h k' k
    · rename_i e; rw [e] at this; exact this
  | tryKey h => exact absVal_tryKey s h k
  | trySpurious h => exact absVal_trySpurious s h k
  | enqueue h => exact absVal_enqueue s h k
  | enqueueLate h => exact absVal_enqueueLate s h k
  | acquire h => exact absVal_acquire s h k
  | cancel h => exact absVal_cancel s h k
  | cleanupFailed h => exact absVal_cleanupFailed s h k
  | gop h op => exact absVal_gop_other s h op k (hne h op rfl)
  | stamp h => exact absVal_stamp s h k
  | release h => exact absVal_release s h k hi
  | snapshot hids =>
    simp only [step]
    split <;> try rfl
    unfold snapshot; split <;> try rfl
    exact absVal_snapLoop _ k _ _ _
  | expire d hids =>
    simp only [step]
    split <;> try rfl
    unfold expireAt; split <;> try rfl
    split <;> try rfl
    exact absVal_expireLoop _ k _ _ _ _
  | count => simp only [step, count]; split <;> rfl
  | keys => simp only [step, keys]; split <;> rfl
  | intoEntries => simp only [step, intoEntries]; split <;> rfl
  | tick d => rfl
  | reorder perm => simp only [step, reorder]; split <;> rfl

end Lockable
