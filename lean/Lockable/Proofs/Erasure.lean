/-
Erasure: a pending acquisition that is cancelled, and a try that fails, leave the state they found —
except for the recency refresh of the lookup (lru) — as if the call had never been made.
-/
import Lockable.Proofs.SpecTrace
namespace Lockable

theorem erase_append_self (l : List Nat) (h : Nat) (hn : h ∉ l) : (l ++ [h]).erase h = l := by
  rw [List.erase_append_right _ hn]; simp

theorem state_ext_pt (s t : State) (h1 : s.kind = t.kind) (h2 : s.order = t.order) (h3 : ∀ x, s.ent x = t.ent x)
    (h4 : ∀ x, s.hs x = t.hs x) (h5 : s.nextE = t.nextE) (h6 : s.now = t.now) (h7 : s.wedged = t.wedged) : s = t := by
  cases s; cases t
  simp only [State.mk.injEq] at *
  exact ⟨h1, h2, funext h3, funext h4, h5, h6, h7⟩

/-- **a cancelled wait is erased**: looking up a key that somebody holds, queueing behind the holder and then dropping the
pending acquisition leads back to the state before the call, up to the recency refresh of the lookup -/
theorem cancel_erases_wait (s : State) (hi : Inv s) (h k : Nat) (m : Entry) (w : Nat) (hf : s.hs h = none)
    (hm : s.ent k = some m) (hho : m.holder = some w) :
    (cancel (enqueue (lookup s h k).1 h).1 h).1 = s.touch k ∧ (cancel (enqueue (lookup s h k).1 h).1 h).2 = .unit := by
  have hnr : h ∉ m.refs := fun e => by
    have := (hi.refs k m hm h).1 e
    rw [hf] at this; cases this
  have hnq : h ∉ m.queue := fun e => by
    have := ((hi.queue k m hm h).1 e).1
    rw [hf] at this; cases this
  have hwh : w ≠ h := fun e => by
    subst e
    have := (hi.holderLive k m w hm hho).1
    rw [hf] at this; cases this
  have hl : lookup s h k = ((s.clone h k m).touch k, .unit) := by
    simp [lookup, hi.notWedged, hf, hm]
  rw [hl]
  simp only []
  have he : enqueue ((s.clone h k m).touch k) h =
      (((((s.clone h k m).touch k).setEnt k { m with refs := h :: m.refs, queue := m.queue ++ [h] }).setSt h ⟨k, m.eid, .replica⟩ .queued), .bool false) := by
    simp [enqueue, touch_hs, touch_ent, State.clone, State.entryOf, upd, hho]
  rw [he]
  simp only []
  have hw : ((s.clone h k m).touch k).wedged = false := by
    unfold State.touch; split <;> simp [State.clone, hi.notWedged]
  have hrn : ((h :: m.refs).erase h).length = 0 → False := by
    intro hl0
    simp only [List.erase_cons_head] at hl0
    have := (hi.holderLive k m w hm hho).1
    have hwr := (hi.refs k m hm w).2 this
    rw [List.eq_nil_of_length_eq_zero hl0] at hwr; cases hwr
  have hlen : m.refs.length ≠ 0 := fun e => hrn (by simpa using e)
  have key : ∀ s2 : State, s2 = (((s.clone h k m).touch k).setEnt k { m with refs := h :: m.refs, queue := m.queue ++ [h] }).setSt h ⟨k, m.eid, .replica⟩ .queued →
      cancel s2 h = ((s2.setEnt k m).dropHandle h, Out.unit) := by
    intro s2 e
    subst e
    unfold cancel
    simp only [State.setSt, State.setEnt, hw, Bool.false_eq_true, ↓reduceIte, upd_same, State.entryOf, or_true, hho,
      Option.some.injEq, hwh, erase_append_self _ _ hnq, List.erase_cons_head, hlen]
    have : ({ eid := m.eid, value := m.value, holder := some w, queue := m.queue, refs := m.refs } : Entry) = m := by
      cases m; simp_all
    rw [this]
  rw [key _ rfl]
  refine ⟨?_, rfl⟩
  have tk : ∀ t : State, (t.touch k).kind = t.kind ∧ (t.touch k).nextE = t.nextE ∧ (t.touch k).now = t.now ∧
      (t.touch k).wedged = t.wedged := by
    intro t; unfold State.touch; split <;> simp
  have to : ((s.clone h k m).touch k).order = (s.touch k).order := by
    unfold State.touch; simp only [State.clone]; split <;> rfl
  apply state_ext_pt
  · simp [State.dropHandle, State.setEnt, State.setSt, (tk _).1, State.clone]
  · simp only [State.dropHandle, State.setEnt, State.setSt]; exact to
  · intro x
    simp only [State.dropHandle, State.setEnt, State.setSt, touch_ent]
    by_cases hx : x = k
    · subst hx; simp [upd, hm]
    · simp [upd, hx, State.clone]
  · intro x
    simp only [State.dropHandle, State.setEnt, State.setSt, touch_hs]
    by_cases hx : x = h
    · subst hx; simp [upd, hf]
    · simp [upd, hx, State.clone]
  · simp [State.dropHandle, State.setEnt, State.setSt, (tk _).2.1, State.clone]
  · simp [State.dropHandle, State.setEnt, State.setSt, (tk _).2.2.1, State.clone]
  · simp [State.dropHandle, State.setEnt, State.setSt, (tk _).2.2.2, State.clone]

/-- **a failed try is erased**: looking up a key that somebody holds, failing to lock it and running the clean-up section
leads back to the state before the call, up to the recency refresh of the lookup -/
theorem failed_try_erased (s : State) (hi : Inv s) (h k : Nat) (m : Entry) (w : Nat) (hf : s.hs h = none)
    (hm : s.ent k = some m) (hho : m.holder = some w) :
    (tryKey (lookup s h k).1 h).2 = .bool false ∧
    (cleanupFailed (tryKey (lookup s h k).1 h).1 h).1 = s.touch k ∧ (cleanupFailed (tryKey (lookup s h k).1 h).1 h).2 = .unit := by
  have hl : lookup s h k = ((s.clone h k m).touch k, .unit) := by
    simp [lookup, hi.notWedged, hf, hm]
  rw [hl]
  simp only []
  have he : tryKey ((s.clone h k m).touch k) h = (((s.clone h k m).touch k).setSt h ⟨k, m.eid, .replica⟩ .failedTry, .bool false) := by
    simp [tryKey, touch_hs, touch_ent, State.clone, State.entryOf, upd, hho]
  rw [he]
  simp only []
  have hw : ((s.clone h k m).touch k).wedged = false := by
    unfold State.touch; split <;> simp [State.clone, hi.notWedged]
  have hlen : m.refs.length ≠ 0 := by
    intro e
    have := (hi.holderLive k m w hm hho).1
    have hwr := (hi.refs k m hm w).2 this
    rw [List.eq_nil_of_length_eq_zero e] at hwr; cases hwr
  have key : ∀ s2 : State, s2 = ((s.clone h k m).touch k).setSt h ⟨k, m.eid, .replica⟩ .failedTry →
      cleanupFailed s2 h = ((s2.setEnt k m).dropHandle h, Out.unit) := by
    intro s2 e
    subst e
    have hentk : ((s.clone h k m).touch k).ent k = some { m with refs := h :: m.refs } := by
      rw [touch_ent]; simp [State.clone]
    unfold cleanupFailed
    simp only [State.setSt, State.setEnt, hw, Bool.false_eq_true, ↓reduceIte, upd_same, State.entryOf, hentk,
      List.erase_cons_head, List.length_cons, Nat.add_eq_right, hlen]
  rw [key _ rfl]
  refine ⟨trivial, ?_, rfl⟩
  have tk : ∀ t : State, (t.touch k).kind = t.kind ∧ (t.touch k).nextE = t.nextE ∧ (t.touch k).now = t.now ∧
      (t.touch k).wedged = t.wedged := by
    intro t; unfold State.touch; split <;> simp
  have to : ((s.clone h k m).touch k).order = (s.touch k).order := by
    unfold State.touch; simp only [State.clone]; split <;> rfl
  apply state_ext_pt
  · simp [State.dropHandle, State.setEnt, State.setSt, (tk _).1, State.clone]
  · simp only [State.dropHandle, State.setEnt, State.setSt]; exact to
  · intro x
    simp only [State.dropHandle, State.setEnt, State.setSt, touch_ent]
    by_cases hx : x = k
    · subst hx; simp [upd, hm]
    · simp [upd, hx, State.clone]
  · intro x
    simp only [State.dropHandle, State.setEnt, State.setSt, touch_hs]
    by_cases hx : x = h
    · subst hx; simp [upd, hf]
    · simp [upd, hx, State.clone]
  · simp [State.dropHandle, State.setEnt, State.setSt, (tk _).2.1, State.clone]
  · simp [State.dropHandle, State.setEnt, State.setSt, (tk _).2.2.1, State.clone]
  · simp [State.dropHandle, State.setEnt, State.setSt, (tk _).2.2.2, State.clone]

/-- in the specification: waiting and giving up is the identity -/
theorem spec_wait_leave_id (sp sp1 : Spec) (h k : Nat) (he : applyEv sp (.wait h k) = some sp1) :
    applyEv sp1 (.leave h k) = some sp := by
  simp only [applyEv] at he
  split at he
  · cases he
  · rename_i hg
    cases he
    simp only [not_or] at hg
    simp only [applyEv, updL, ↓reduceIte, List.mem_append, List.mem_singleton, or_true, erase_append_self _ _ hg.2]
    congr 1
    cases sp
    simp only [Spec.mk.injEq, true_and]
    funext x
    by_cases hx : x = k
    · subst hx; simp [updL]
    · simp [updL, hx]

end Lockable
