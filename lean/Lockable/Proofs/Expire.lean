/-
Exactness of the expiry scan (`lock_all_unlocked` with `last_unlocked <= cutoff`).
-/
import Lockable.Proofs.Frame2
namespace Lockable

/-- unlocked (free mutex), valued, stamp not younger than `cutoff` -/
def Elig (s : State) (cutoff k : Nat) : Prop :=
  ∃ m st, s.ent k = some m ∧ m.holder = none ∧ m.value = some st ∧ st.stamp ≤ cutoff

theorem scanLock_ent_other (s : State) (h k : Nat) (m : Entry) (x : Nat) (hx : x ≠ k) :
    (s.scanLock h k m).ent x = s.ent x := by simp [State.scanLock, upd, hx]

theorem expireLoop_hs_other (keys : List Nat) (x : Nat) : ∀ (s : State) (hids : List Nat) (c : Nat) (acc : List Nat),
    x ∉ hids → (expireLoop s keys hids c acc).1.hs x = s.hs x := by
  induction keys with
  | nil => intro s hids c acc _; simp [expireLoop]
  | cons k ks ih =>
    intro s hids c acc hx
    unfold expireLoop
    split
    · exact ih s hids c acc hx
    · split
      · rename_i st h hs' _ _
        split
        · rw [ih _ hs' c _ (fun e => hx (List.mem_cons_of_mem _ e))]
          exact scanLock_hs _ _ _ _ _ (fun e => hx (by rw [e]; simp))
        · exact ih s _ c acc hx
      · exact ih s _ c acc hx

theorem expireLoop_ent_other (keys : List Nat) (x : Nat) : ∀ (s : State) (hids : List Nat) (c : Nat) (acc : List Nat),
    x ∉ keys → (expireLoop s keys hids c acc).1.ent x = s.ent x := by
  induction keys with
  | nil => intro s hids c acc _; simp [expireLoop]
  | cons k ks ih =>
    intro s hids c acc hx
    have hxk : x ≠ k := fun e => hx (by rw [e]; simp)
    have hxks : x ∉ ks := fun e => hx (List.mem_cons_of_mem _ e)
    unfold expireLoop
    split
    · exact ih s hids c acc hxks
    · split
      · split
        · rw [ih _ _ c _ hxks]; exact scanLock_ent_other _ _ _ _ _ hxk
        · exact ih s _ c acc hxks
      · exact ih s _ c acc hxks

theorem elig_congr (s s' : State) (c k : Nat) (h : s'.ent k = s.ent k) : Elig s' c k ↔ Elig s c k := by
  unfold Elig; rw [h]

/-- the scan returns a guard for every eligible key, and only for eligible keys -/
theorem expireLoop_exact (keys : List Nat) : ∀ (s : State) (hids : List Nat) (c : Nat) (acc : List Nat),
    keys.Nodup → hids.Nodup → keys.length ≤ hids.length → (∀ a ∈ acc, a ∉ hids) →
    let r := expireLoop s keys hids c acc
    (∀ h ∈ r.2, h ∈ acc ∨ (h ∈ hids ∧ ∃ k ∈ keys, Elig s c k ∧ hkey (r.1.hs h) = some k ∧ hst (r.1.hs h) = some .holding)) ∧
    (∀ k ∈ keys, Elig s c k → ∃ h ∈ r.2, h ∈ hids ∧ hkey (r.1.hs h) = some k) ∧
    (∀ a ∈ acc, a ∈ r.2) := by
  induction keys with
  | nil =>
    intro s hids c acc _ _ _ _
    simp [expireLoop]
  | cons k ks ih =>
    intro s hids c acc hkn hhn hlen hacc
    have ⟨hk1, hk2⟩ := List.nodup_cons.1 hkn
    -- the recursive call on the unchanged state
    have same : ¬ Elig s c k →
        let r := expireLoop s ks hids c acc
        (∀ h ∈ r.2, h ∈ acc ∨ (h ∈ hids ∧ ∃ k' ∈ k :: ks, Elig s c k' ∧ hkey (r.1.hs h) = some k' ∧ hst (r.1.hs h) = some .holding)) ∧
        (∀ k' ∈ k :: ks, Elig s c k' → ∃ h ∈ r.2, h ∈ hids ∧ hkey (r.1.hs h) = some k') ∧
        (∀ a ∈ acc, a ∈ r.2) := by
      intro hne
      have := ih s hids c acc hk2 hhn (by simp at hlen; omega) hacc
      obtain ⟨a1, a2, a3⟩ := this
      refine ⟨fun h hh => ?_, fun k' hk' he => ?_, a3⟩
      · rcases a1 h hh with l | ⟨hin, k', hk', r⟩
        · exact Or.inl l
        · exact Or.inr ⟨hin, k', List.mem_cons_of_mem _ hk', r⟩
      · rcases List.mem_cons.1 hk' with e | hk'
        · subst e; exact absurd he hne
        · exact a2 k' hk' he
    unfold expireLoop
    cases hm : s.ent k with
    | none =>
      simp only []
      exact same (fun ⟨m, st, e, _⟩ => by rw [hm] at e; cases e)
    | some m =>
      simp only []
      cases hho : m.holder with
      | some x => exact same (fun ⟨m', st, e, f, _⟩ => by rw [hm] at e; cases e; rw [hho] at f; cases f)
      | none =>
        cases hv : m.value with
        | none => exact same (fun ⟨m', st, e, _, g, _⟩ => by rw [hm] at e; cases e; rw [hv] at g; cases g)
        | some st =>
          cases hids with
          | nil => simp at hlen
          | cons h hs' =>
            simp only []
            have ⟨hh1, hh2⟩ := List.nodup_cons.1 hhn
            split
            · rename_i hle
              have hel : Elig s c k := ⟨m, st, hm, hho, hv, hle⟩
              have hacc' : ∀ a ∈ h :: acc, a ∉ hs' := by
                intro a ha
                rcases List.mem_cons.1 ha with e | ha
                · rw [e]; exact hh1
                · exact fun e => hacc a ha (List.mem_cons_of_mem _ e)
              have := ih (s.scanLock h k m) hs' c (h :: acc) hk2 hh2 (by simp at hlen; omega) hacc'
              obtain ⟨a1, a2, a3⟩ := this
              have hfinal : (expireLoop (s.scanLock h k m) ks hs' c (h :: acc)).1.hs h = some ⟨k, m.eid, .holding⟩ := by
                rw [expireLoop_hs_other ks h _ hs' c _ hh1]; simp [State.scanLock, upd]
              have hcongr : ∀ k' ∈ ks, (Elig (s.scanLock h k m) c k' ↔ Elig s c k') := by
                intro k' hk'
                exact elig_congr _ _ _ _ (scanLock_ent_other _ _ _ _ _ (fun e => hk1 (e ▸ hk')))
              refine ⟨fun x hx => ?_, fun k' hk' he => ?_, fun a ha => a3 a (List.mem_cons_of_mem _ ha)⟩
              · rcases a1 x hx with l | ⟨hin, k', hk', e1, e2⟩
                · rcases List.mem_cons.1 l with e | l
                  · right; subst e
                    exact ⟨by simp, k, by simp, hel, by simp [hfinal], by simp [hfinal]⟩
                  · exact Or.inl l
                · exact Or.inr ⟨List.mem_cons_of_mem _ hin, k', List.mem_cons_of_mem _ hk', (hcongr k' hk').1 e1, e2⟩
              · rcases List.mem_cons.1 hk' with e | hk'
                · subst e
                  exact ⟨h, a3 h (by simp), by simp, by simp [hfinal]⟩
                · obtain ⟨x, hx, hxin, hxk⟩ := a2 k' hk' ((hcongr k' hk').2 he)
                  exact ⟨x, hx, List.mem_cons_of_mem _ hxin, hxk⟩
            · rename_i hgt
              exact same (fun ⟨m', st', e, _, g, l⟩ => by
                rw [hm] at e; cases e; rw [hv] at g; cases g; exact hgt l)


theorem expireLoop_order (keys : List Nat) : ∀ (s : State) (hids : List Nat) (c : Nat) (acc : List Nat),
    (expireLoop s keys hids c acc).1.order = s.order := by
  induction keys with
  | nil => intro s hids c acc; simp [expireLoop]
  | cons k ks ih =>
    intro s hids c acc
    unfold expireLoop
    split
    · exact ih ..
    · split
      · split
        · rw [ih]; rfl
        · exact ih ..
      · exact ih ..

theorem expireLoop_now (keys : List Nat) : ∀ (s : State) (hids : List Nat) (c : Nat) (acc : List Nat),
    (expireLoop s keys hids c acc).1.now = s.now := by
  induction keys with
  | nil => intro s hids c acc; simp [expireLoop]
  | cons k ks ih =>
    intro s hids c acc
    unfold expireLoop
    split
    · exact ih ..
    · split
      · split
        · rw [ih]; rfl
        · exact ih ..
      · exact ih ..

/-- the returned handles are pairwise distinct -/
theorem expireLoop_nodup (keys : List Nat) : ∀ (s : State) (hids : List Nat) (c : Nat) (acc : List Nat),
    hids.Nodup → (∀ a ∈ acc, a ∉ hids) → acc.Nodup → (expireLoop s keys hids c acc).2.Nodup := by
  induction keys with
  | nil => intro s hids c acc _ _ ha; simp only [expireLoop]; exact nodup_reverse' _ ha
  | cons k ks ih =>
    intro s hids c acc hn hacc ha
    unfold expireLoop
    split
    · exact ih s hids c acc hn hacc ha
    · split
      · rename_i st h hs' _ _
        have ⟨hh1, hh2⟩ := List.nodup_cons.1 hn
        split
        · apply ih _ hs' c _ hh2
          · intro a haa
            rcases List.mem_cons.1 haa with e | haa
            · rw [e]; exact hh1
            · exact fun e => hacc a haa (List.mem_cons_of_mem _ e)
          · exact List.nodup_cons.2 ⟨fun e => hacc h e (by simp), ha⟩
        · exact ih s _ c acc hn hacc ha
      · exact ih s _ c acc hn hacc ha

end Lockable
