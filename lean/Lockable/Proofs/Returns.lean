import Lockable.Proofs.Term
namespace Lockable

/-- after a successful lookup the caller owns a handle for the key: a guard (placeholder inserted) or a `ReplicaArc` -/
def Looked (s : State) (h k : Nat) : Prop :=
  ∃ hd m, s.hs h = some hd ∧ hd.key = k ∧ s.entryOf hd = some m ∧ (hd.st = .holding ∨ hd.st = .replica)

theorem looked_lookup (s : State) (h k : Nat) (hi : Inv s) (hf : s.hs h = none) : Looked (lookup s h k).1 h k := by
  unfold lookup
  simp only [hi.notWedged, Bool.false_eq_true, ↓reduceIte, hf, Option.isSome_none]
  cases hm : s.ent k with
  | none =>
    exact ⟨⟨k, s.nextE, .holding⟩, ⟨s.nextE, none, some h, [], [h]⟩, by simp [upd], rfl,
      by simp [State.entryOf, upd], Or.inl rfl⟩
  | some m =>
    refine ⟨⟨k, m.eid, .replica⟩, { m with refs := h :: m.refs }, ?_, rfl, ?_, Or.inr rfl⟩
    · rw [touch_hs]; simp [State.clone, upd]
    · simp [State.entryOf, touch_ent, State.clone, upd]

/-- whenever the eviction loop ends with `ok`, the lookup for the requested key was performed -/
theorem lockPrelude_ok_looked (h k : Nat) : ∀ (fuel : Nat) (a : Api) (limit : Limit) (h0 : Nat) (tr : List RoundTrace),
    Inv a.s → a.s.hs h = none →
    (match (a.lockPrelude h k limit h0 fuel tr).2.2 with | .ok => True | _ => False) →
    Looked (a.lockPrelude h k limit h0 fuel tr).1.s h k := by
  intro fuel
  induction fuel with
  | zero => intro a limit h0 tr _ _ hok; simp [Api.lockPrelude] at hok
  | succ fuel ih =>
    intro a limit h0 tr hi hf hok
    unfold Api.lockPrelude at hok ⊢
    cases limit with
    | none => exact looked_lookup a.s h k hi hf
    | soft n script =>
      simp only [] at hok ⊢
      have hstepInv : Inv (step a.s (.limitLookup h k n (List.range' h0 supplyLen))).1 := inv_step _ _ hi
      -- what this round's critical section answered
      have hcase : ((step a.s (.limitLookup h k n (List.range' h0 supplyLen))).2 = .unit ∧
            (step a.s (.limitLookup h k n (List.range' h0 supplyLen))).1 = (lookup a.s h k).1) ∨
          (∃ c cs, (step a.s (.limitLookup h k n (List.range' h0 supplyLen))).2 = .list (c :: cs) ∧
            (step a.s (.limitLookup h k n (List.range' h0 supplyLen))).1.hs h = none ∧ h ∉ c :: cs) ∨
          (step a.s (.limitLookup h k n (List.range' h0 supplyLen))).2 = .bad := by
        simp only [step]
        split
        · rename_i hc
          simp only [Bool.and_eq_true] at hc
          have hfl0 := freshL_of a.s _ hc.1.1
          have hfl : FreshL a.s (List.range' h0 supplyLen) :=
            ⟨fun x hx => hfl0.1 x (List.mem_cons_of_mem _ hx), (List.nodup_cons.1 hfl0.2).2⟩
          rcases limitLookup_out a.s h k n _ hi hf hfl with e | ⟨c, cs, e1, _, _⟩
          · left
            refine ⟨e, ?_⟩
            have hno := (inv_evictLoop a.s.order a.s (List.range' h0 supplyLen) (a.s.order.length - (n - 1)) [] hi hfl).2
            unfold limitLookup at e ⊢
            simp only [hi.notWedged, Bool.false_eq_true, ↓reduceIte, hf, Option.isSome_none] at e ⊢
            split
            · rfl
            · split
              · rename_i site e2; rw [e2] at hno; cases hno
              · rfl
              · rename_i s' c cs e2
                rename_i hex _
                simp only [hex, ↓reduceIte, e2] at e
                cases e
          · right; left
            have hl := limitLookup_list_hs a.s h k n _ (c :: cs) hi hc.1.1 e1
            have hnot : h ∉ List.range' h0 supplyLen := (List.nodup_cons.1 hfl0.2).1
            exact ⟨c, cs, e1, hl.1, fun e => hnot (hl.2 h e)⟩
        · right; right; rfl
      rcases hcase with ⟨e1, e2⟩ | ⟨c, cs, e1, e2, e3⟩ | e1
      · simp only [e1] at hok ⊢
        rw [e2]; exact looked_lookup a.s h k hi hf
      · simp only [e1] at hok ⊢
        cases hfin : (script.head?.getD defaultRound).fin with
        | panic => simp [hfin] at hok
        | err => simp [hfin] at hok
        | latePanic => simp [hfin] at hok
        | pendOk => simp [hfin] at hok
        | pendErr => simp [hfin] at hok
        | ok =>
          simp only [hfin] at hok ⊢
          have hi2 := inv_runActs (c :: cs) { a with s := (step a.s (.limitLookup h k n (List.range' h0 supplyLen))).1 }
            (script.head?.getD defaultRound).acts hstepInv
          have hf2 := runActs_hs_other (c :: cs) h e3 { a with s := (step a.s (.limitLookup h k n (List.range' h0 supplyLen))).1 }
            (script.head?.getD defaultRound).acts
          simp only [reduceCtorEq, ↓reduceIte] at hok ⊢
          exact ih _ _ _ _ hi2 (by rw [hf2]; exact e2) hok
      · simp [e1] at hok

end Lockable

namespace Lockable

inductive Returned : Res → Prop where
  | guard : Returned .guard
  | none : Returned .none
  | pending : Returned .pending

/-- **A soft-limited lock call with a cooperative callback returns**: the loop ends (`lockPrelude_terminates`), the lookup is
performed, and the call answers with a guard — or, if somebody else holds or awaits the key, `None` (try variants) /
keeps waiting for that guard (waiting variants). It never gets stuck in the eviction loop and never fails internally. -/
theorem lock_cooperative_returns (a : Api) (v : Variant) (h k n h0 : Nat) (hn : 1 ≤ n) (hi : Inv a.s)
    (hfr : a.s.hs h = none) (hlt : h < h0) (hfree : ∀ x, h0 ≤ x → a.s.hs x = none) (hlen : a.s.order.length ≤ supplyLen) :
    Returned (a.lock v h k (.soft n []) h0).2.res := by
  have hterm := lockPrelude_terminates h k n hn (0 + a.s.order.length + 2) a h0 [] hi hfr hlt hfree hlen (by
    have : eligCount a.s ≤ a.s.order.length := by unfold eligCount; exact List.length_filter_le _ _
    omega)
  have hlooked := lockPrelude_ok_looked h k (0 + a.s.order.length + 2) a (.soft n []) h0 [] hi hfr hterm
  have hinv := inv_lockPrelude h k (0 + a.s.order.length + 2) a (.soft n []) h0 [] hi
  unfold Api.lock
  simp only [List.length_nil]
  generalize a.lockPrelude h k (.soft n []) h0 (0 + a.s.order.length + 2) [] = r at hterm hlooked hinv
  obtain ⟨a1, tr, res⟩ := r
  simp only [] at hterm hlooked hinv ⊢
  cases res with
  | ok =>
    simp only []
    obtain ⟨hd, m, e1, e2, e3, e4⟩ := hlooked
    simp only [e1]
    rcases e4 with e4 | e4
    · simp only [e4, ↓reduceIte]; exact .guard
    · have hne : hd.st ≠ .holding := by rw [e4]; simp
      simp only [hne, ↓reduceIte]
      by_cases hfree : m.holder.isNone = true
      · cases v <;> simp [enqueue, tryKey, e1, e4, e3, hfree] <;> exact .guard
      · cases v with
        | wait => simp [enqueue, e1, e4, e3, hfree]; exact .pending
        | «try» =>
          have hi2 : Inv (a1.s.setSt h hd .failedTry) := by
            have := inv_tryKey a1.s h hinv
            simp only [tryKey, e1, e4, e3, ↓reduceIte, hfree] at this
            exact this
          have hh2 : (a1.s.setSt h hd .failedTry).hs h = some { hd with st := .failedTry } := by simp [State.setSt, upd]
          have heo2 : (a1.s.setSt h hd .failedTry).entryOf { hd with st := .failedTry } = some m := by
            have := e3; simp only [State.entryOf, State.setSt] at this ⊢; exact this
          have hsp := cleanupFailed_spec _ h _ m hi2 hh2 rfl heo2
          simp [tryKey, e1, e4, e3, hfree, hsp.1]; exact .none
  | _ => simp at hterm

end Lockable
