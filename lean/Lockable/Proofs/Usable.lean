/-
A plain `try_lock` call (no limit) with a fresh handle, and the counting calls, on any state satisfying the invariant:
their answers are functions of the abstraction of the requested key / of the iteration order alone — whatever acquisitions,
stream items or suspended calls are pending on other keys.
-/
import Lockable.Proofs.LinearOut
import Lockable.Proofs.Holds
import Lockable.Proofs.Erasure
import Lockable.Proofs.Stream
import Lockable.Proofs.Frame
import Lockable.Proofs.Layers
set_option linter.unusedSimpArgs false
namespace Lockable

/-- a plain `try_lock` call with a fresh handle, on any state satisfying the invariant: a guard exactly when the key is free -/
theorem lock_try_plain (a : Api) (hi : Inv a.s) (h k h0 : Nat) (hf : a.s.hs h = none) :
    (a.exec (.lock .try h k .none h0)).2.res.isGuard = true ↔ (absSpec a.s).free k = true := by
  have hu := lookup_unit a.s h k hi hf
  have hi1 := inv_lookup a.s h k hi
  have hlin := lin_lookup a.s h k hi
  simp only [evOf, hu, true_and] at hlin
  show (a.lock .try h k .none h0).2.res.isGuard = true ↔ _
  unfold Api.lock
  simp only [Nat.zero_add]
  unfold Api.lockPrelude
  simp only [hu]
  cases hm : a.s.ent k with
  | none =>
    have hhs : (lookup a.s h k).1.hs h = some ⟨k, a.s.nextE, .holding⟩ := by
      unfold lookup
      simp [hi.notWedged, hf, hm, upd]
    simp [hhs, Spec.free, absSpec, heldOf, waitingOf, hm, Res.isGuard]
  | some m =>
    have hhs : (lookup a.s h k).1.hs h = some ⟨k, m.eid, .replica⟩ := by
      unfold lookup
      simp only [hi.notWedged, Bool.false_eq_true, ↓reduceIte, hf, Option.isSome_none, hm]
      rw [touch_hs]; simp [State.clone, upd]
    simp only [hm, reduceCtorEq, ↓reduceIte, applyEvs, Option.some.injEq] at hlin
    have ht := try_iff_free _ hi1 h _ hhs rfl
    simp only at ht
    rw [← hlin] at ht
    simp only [hhs, reduceCtorEq, ↓reduceIte]
    rw [← ht]
    cases hto : (tryKey (lookup a.s h k).1 h).2 <;> simp [Res.isGuard]
    rename_i b
    cases b
    · simp only [Bool.false_eq_true, iff_false]
      split
      · rename_i heq; split at heq <;> cases heq
      · simp
    · simp
/-- the counting calls answer from the iteration order, whatever is pending -/
theorem count_keys_plain (a : Api) (hi : Inv a.s) :
    (match (a.exec .count).2.res with | .out (.nat n) => n = a.s.order.length | _ => False) ∧
    (match (a.exec .keys).2.res with | .out (.list l) => l = a.s.order | _ => False) ∧
    (a.exec .count).1 = a ∧ (a.exec .keys).1 = a := by
  simp [Api.exec, count, keys, hi.notWedged]
/-- the waiting plain call (`blocking_lock`/`async_lock` up to its first poll): a guard exactly when the key is free, pending exactly when not -/
theorem lock_wait_plain (a : Api) (hi : Inv a.s) (h k h0 : Nat) (hf : a.s.hs h = none) :
    ((a.exec (.lock .wait h k .none h0)).2.res.isGuard = true ↔ (absSpec a.s).free k = true) ∧
    ((match (a.exec (.lock .wait h k .none h0)).2.res with | .pending => True | _ => False) ↔ (absSpec a.s).free k = false) := by
  have hu := lookup_unit a.s h k hi hf
  have hi1 := inv_lookup a.s h k hi
  have hlin := lin_lookup a.s h k hi
  simp only [evOf, hu, true_and] at hlin
  show ((a.lock .wait h k .none h0).2.res.isGuard = true ↔ _) ∧ ((match (a.lock .wait h k .none h0).2.res with | .pending => True | _ => False) ↔ _)
  unfold Api.lock
  simp only [Nat.zero_add]
  unfold Api.lockPrelude
  simp only [hu]
  cases hm : a.s.ent k with
  | none =>
    have hhs : (lookup a.s h k).1.hs h = some ⟨k, a.s.nextE, .holding⟩ := by
      unfold lookup
      simp [hi.notWedged, hf, hm, upd]
    simp [hhs, Spec.free, absSpec, heldOf, waitingOf, hm, Res.isGuard]
  | some m =>
    have hhs : (lookup a.s h k).1.hs h = some ⟨k, m.eid, .replica⟩ := by
      unfold lookup
      simp only [hi.notWedged, Bool.false_eq_true, ↓reduceIte, hf, Option.isSome_none, hm]
      rw [touch_hs]; simp [State.clone, upd]
    simp only [hm, reduceCtorEq, ↓reduceIte, applyEvs, Option.some.injEq] at hlin
    have ht := enqueue_iff_free _ hi1 h _ hhs rfl
    simp only at ht
    rw [← hlin] at ht
    simp only [hhs, reduceCtorEq, ↓reduceIte]
    rw [← ht.1, ← ht.2]
    cases hto : (enqueue (lookup a.s h k).1 h).2 <;> simp [Res.isGuard]
    rename_i b
    cases b <;> simp

/-- a plain `try_lock` call that returns no guard is the identity on the whole API state, up to the recency refresh of its lookup -/
theorem lock_try_failed_erased (a : Api) (hi : Inv a.s) (h k h0 : Nat) (hf : a.s.hs h = none)
    (hfail : (a.exec (.lock .try h k .none h0)).2.res.isGuard = false) :
    (a.exec (.lock .try h k .none h0)).1 = { a with s := a.s.touch k } ∧
    (match (a.exec (.lock .try h k .none h0)).2.res with | .none => True | _ => False) := by
  have hfree : (absSpec a.s).free k = false := by
    have := lock_try_plain a hi h k h0 hf
    cases hx : (absSpec a.s).free k
    · rfl
    · rw [this.2 hx] at hfail; cases hfail
  cases hm : a.s.ent k with
  | none => simp [Spec.free, absSpec, heldOf, waitingOf, hm] at hfree
  | some m =>
    cases hho : m.holder with
    | none =>
      have hq := hi.freeNoQueue _ m hm hho
      simp [Spec.free, absSpec, heldOf, waitingOf, waitersOf, hm, hho, hq] at hfree
    | some w =>
      obtain ⟨e1, e2, e3⟩ := failed_try_erased a.s hi h k m w hf hm hho
      have hu := lookup_unit a.s h k hi hf
      have hhs : (lookup a.s h k).1.hs h = some ⟨k, m.eid, .replica⟩ := by
        unfold lookup
        simp only [hi.notWedged, Bool.false_eq_true, ↓reduceIte, hf, Option.isSome_none, hm]
        rw [touch_hs]; simp [State.clone, upd]
      show (a.lock .try h k .none h0).1 = _ ∧ (match (a.lock .try h k .none h0).2.res with | .none => True | _ => False)
      unfold Api.lock
      simp only [Nat.zero_add]
      unfold Api.lockPrelude
      simp only [hu, hhs, reduceCtorEq, ↓reduceIte, e1, e2, e3, and_self]

/-- a plain waiting lock call on a held key, cancelled (its future dropped) before it is served: the two calls together are the
identity on the whole API state, up to the recency refresh of the lookup; no stream item is woken by the cancellation -/
theorem lock_wait_cancel_erased (a : Api) (hi : AInv a) (h k h0 : Nat) (m : Entry) (w : Nat) (hf : a.s.hs h = none)
    (hsu : a.susp.lookup h = none) (hm : a.s.ent k = some m) (hho : m.holder = some w) :
    let a1 := (a.exec (.lock .wait h k .none h0)).1
    (a1.exec (.cancel h)).1 = { a with s := a.s.touch k } := by
  intro a1
  have hinv := hi.inv
  have hwh : w ≠ h := fun e => by
    subst e
    have := (hinv.holderLive k m w hm hho).1
    rw [hf] at this; cases this
  obtain ⟨e1, e2⟩ := cancel_erases_wait a.s hinv h k m w hf hm hho
  have hu := lookup_unit a.s h k hinv hf
  have hl : lookup a.s h k = ((a.s.clone h k m).touch k, .unit) := by
    simp [lookup, hinv.notWedged, hf, hm]
  have he : enqueue ((a.s.clone h k m).touch k) h =
      (((((a.s.clone h k m).touch k).setEnt k { m with refs := h :: m.refs, queue := m.queue ++ [h] }).setSt h ⟨k, m.eid, .replica⟩ .queued), .bool false) := by
    simp [enqueue, touch_hs, touch_ent, State.clone, State.entryOf, upd, hho]
  have hhs : (lookup a.s h k).1.hs h = some ⟨k, m.eid, .replica⟩ := by
    rw [hl]; simp only []; rw [touch_hs]; simp [State.clone, upd]
  have ha1 : a1 = { a with s := (enqueue (lookup a.s h k).1 h).1 } := by
    show (a.lock .wait h k .none h0).1 = _
    unfold Api.lock
    simp only [Nat.zero_add]
    unfold Api.lockPrelude
    simp only [hu, hhs, reduceCtorEq, ↓reduceIte]
  have hnw : nextWaiter (enqueue (lookup a.s h k).1 h).1 h = none := by
    rw [hl]; simp only []; rw [he]
    simp [nextWaiter, State.setSt, State.setEnt, State.entryOf, upd, hho, hwh]
  have hos : a.ownedByStream h = false := by
    cases hx : a.ownedByStream h
    · rfl
    · simp only [Api.ownedByStream, List.any_eq_true, List.contains_iff_mem] at hx
      obtain ⟨p, hp, hmem⟩ := hx
      obtain ⟨wd, hwd, _⟩ := (hi.sok.each p hp).item h (by simpa using hmem)
      rw [hf] at hwd; cases hwd
  rw [ha1]
  show (Api.exec _ (.cancel h)).1 = _
  unfold Api.exec
  have hos' : ({ a with s := (enqueue (lookup a.s h k).1 h).1 } : Api).ownedByStream h = false := hos
  simp only [hos', Bool.false_eq_true, ↓reduceIte, hsu, Api.cancelHandle, hnw, e2, Api.woken, e1]

/-- a plain lock call (no limit), whatever it answers, changes no stored value -/
theorem lock_plain_vals (a : Api) (v : Variant) (h k h0 k' : Nat) :
    absVal (a.lock v h k .none h0).1.s k' = absVal a.s k' := by
  unfold Api.lock
  simp only [Nat.zero_add]
  unfold Api.lockPrelude
  simp only []
  have hl := absVal_lookup a.s h k k'
  have ht := absVal_tryKey (lookup a.s h k).1 h k'
  have he := absVal_enqueue (lookup a.s h k).1 h k'
  have hc := absVal_cleanupFailed (tryKey (lookup a.s h k).1 h).1 h k'
  repeat' split
  all_goals (try simp only [])
  all_goals first
    | exact hl
    | (rw [he]; exact hl)
    | (rw [ht]; exact hl)
    | (rw [hc, ht]; exact hl)
    | skip
theorem lock_plain_susp (a : Api) (v : Variant) (h k h0 : Nat) :
    (a.lock v h k .none h0).1.susp = a.susp ∧ (a.lock v h k .none h0).1.streams = a.streams := by
  unfold Api.lock
  simp only [Nat.zero_add]
  unfold Api.lockPrelude
  simp only []
  repeat' split
  all_goals (try simp only [])
  all_goals first | exact ⟨rfl, rfl⟩ | exact ⟨trivial, trivial⟩ | simp

/-- the guard a plain lock call returns reads exactly the value the map had for the key before the call -/
theorem lock_plain_reads (a : Api) (hi : Inv a.s) (v : Variant) (h k h0 : Nat) (hf : a.s.hs h = none)
    (hs : a.ownedBySusp h = false) (hg : (a.exec (.lock v h k .none h0)).2.res.isGuard = true) :
    ((a.exec (.lock v h k .none h0)).1.exec (.op h .value)).2.res = .out (.optVal ((absSpec a.s).vals k)) := by
  have hg' : (a.lock v h k .none h0).2.res.isGuard = true := hg
  have h1 := lock_guard_holds a v h k .none h0 hi hf
  have hi' := inv_lock a v h k .none h0 hi
  show ((a.lock v h k .none h0).1.exec (.op h .value)).2.res = _
  cases hr : (a.lock v h k .none h0).2.res <;> rw [hr] at hg' <;> simp [Res.isGuard] at hg'
  simp only [hr] at h1
  obtain ⟨hd, e1, e2, e3⟩ := h1
  have hos : (a.lock v h k .none h0).1.ownedBySusp h = false := by
    unfold Api.ownedBySusp; rw [(lock_plain_susp a v h k h0).1]; exact hs
  have hout := (gop_out_spec _ hi' h hd .value e1 e3).1
  unfold Api.exec
  simp only [hos, Bool.false_eq_true, ↓reduceIte, hout, specOp, e2]
  simp [absSpec, lock_plain_vals]

theorem acquire_bool (s : State) (hi : Inv s) (h : Nat) (hd : Handle) (hh : s.hs h = some hd) (hst1 : hd.st = .queued) :
    ∃ b, (acquire s h).2 = .bool b := by
  obtain ⟨m, hm, he⟩ := eeid_inv (hi.live h hd hh)
  have heo : s.entryOf hd = some m := by simp [State.entryOf, hm, he]
  simp only [acquire, hh, hst1, ↓reduceIte, heo]
  split <;> exact ⟨_, rfl⟩

/-- polling a pending plain acquisition: it completes exactly when the specification has no guard for the key and this waiter
first in line; otherwise it stays pending -/
theorem poll_plain (a : Api) (hi : Inv a.s) (h : Nat) (hd : Handle) (hh : a.s.hs h = some hd) (hq : hd.st = .queued)
    (hos : a.ownedByStream h = false) (hsu : a.susp.lookup h = none) :
    ((a.exec (.poll h)).2.res.isGuard = true ↔
      ((absSpec a.s).held hd.key = none ∧ ((absSpec a.s).waiting hd.key).head? = some h)) ∧
    ((match (a.exec (.poll h)).2.res with | .pending => True | _ => False) ↔
      ¬ ((absSpec a.s).held hd.key = none ∧ ((absSpec a.s).waiting hd.key).head? = some h)) := by
  have hg := acquire_iff_grantable a.s hi h hd hh hq
  obtain ⟨b, hb⟩ := acquire_bool a.s hi h hd hh hq
  unfold Api.exec
  simp only [hos, Bool.false_eq_true, ↓reduceIte, hsu, hb]
  rw [← hg, hb]
  cases b <;> simp [Res.isGuard]

/-- dropping a guard: when the call answers `ok`, the specification's guard for the key is gone, its FIFO and every value unchanged -/
theorem drop_releases (a : Api) (hi : Inv a.s) (h : Nat) (hd : Handle) (hh : a.s.hs h = some hd) (hst1 : hd.st = .holding)
    (hos : a.ownedBySusp h = false)
    (hok : (match (a.exec (.drop h)).2.res with | .ok => True | _ => False)) :
    absSpec (a.exec (.drop h)).1.s = { absSpec a.s with held := upd (absSpec a.s).held hd.key none } ∧
    (absSpec a.s).held hd.key = some h := by
  obtain ⟨m, hm, he⟩ := eeid_inv (hi.live h hd hh)
  have heo : a.s.entryOf hd = some m := by simp [State.entryOf, hm, he]
  have hsu : (stamp a.s h).2 = .unit := by simp [stamp, hh, hst1, heo]
  have hl1 := lin_stamp a.s h hi
  simp only [evOf, applyEvs, Option.some.injEq] at hl1
  have hi1 : Inv (stamp a.s h).1 := inv_step a.s (.stamp h) hi
  have hl2 := lin_release (stamp a.s h).1 h hi1
  have hk : keyOfH (stamp a.s h).1 h = hd.key := by
    simp [keyOfH, stamp, hh, hst1, heo, State.setSt, State.setEnt, upd, hkey]
  unfold Api.exec at hok ⊢
  simp only [hos, Bool.false_eq_true, ↓reduceIte, Api.dropGuard, hsu] at hok ⊢
  have hru : (release (stamp a.s h).1 h).2 = .unit := by
    cases hr : (release (stamp a.s h).1 h).2 <;> rw [hr] at hok <;> first | rfl | cases hok
  simp only [evOf, hru, ↓reduceIte, applyEvs, hk, applyEv, ← hl1] at hl2
  have hs' : ∀ w, (({ a with s := (release (stamp a.s h).1 h).1 } : Api).woken w).s = (release (stamp a.s h).1 h).1 := by
    intro w; cases w <;> rfl
  simp only [hs']
  by_cases hheld : (absSpec a.s).held hd.key = some h
  · simp only [hheld, ↓reduceIte, Option.some.injEq] at hl2
    exact ⟨hl2.symm, hheld⟩
  · simp [hheld] at hl2

/-- a guard method at the level of the public call: it answers what the plain map answers, stores what the plain map stores
under its own key, and touches no other key's value -/
theorem op_plain (a : Api) (hi : Inv a.s) (h : Nat) (hd : Handle) (g : GOp) (hh : a.s.hs h = some hd) (hst1 : hd.st = .holding)
    (hos : a.ownedBySusp h = false) :
    (a.exec (.op h g)).2.res = .out (match g with | .key => Out.nat hd.key | _ => (specOp ((absSpec a.s).vals hd.key) g).2) ∧
    absVal (a.exec (.op h g)).1.s hd.key = (specOp ((absSpec a.s).vals hd.key) g).1 ∧
    ∀ k', k' ≠ hd.key → absVal (a.exec (.op h g)).1.s k' = absVal a.s k' := by
  have hs := gop_out_spec a.s hi h hd g hh hst1
  unfold Api.exec
  simp only [hos, Bool.false_eq_true, ↓reduceIte]
  refine ⟨by rw [hs.1]; cases g <;> rfl, hs.2, ?_⟩
  intro k' hk
  apply absVal_gop_other
  simp [hh, hkey]
  exact fun e => hk e.symm

/-- a failed plain `try_lock` call leaves both counting calls' answers' sizes, the set of keys, every value and the whole
specification state unchanged -/
theorem lock_try_failed_counts (a : Api) (hi : Inv a.s) (h k h0 : Nat) (hf : a.s.hs h = none)
    (hfail : (a.exec (.lock .try h k .none h0)).2.res.isGuard = false) :
    let a' := (a.exec (.lock .try h k .none h0)).1
    a'.s.order.length = a.s.order.length ∧ (∀ x, x ∈ a'.s.order ↔ x ∈ a.s.order) ∧ a'.s.ent = a.s.ent ∧ a'.s.hs = a.s.hs := by
  intro a'
  have he := (lock_try_failed_erased a hi h k h0 hf hfail).1
  have hfree : (absSpec a.s).free k = false := by
    have := lock_try_plain a hi h k h0 hf
    cases hx : (absSpec a.s).free k
    · rfl
    · rw [this.2 hx] at hfail; cases hfail
  have hmem : k ∈ a.s.order := by
    rw [hi.keys]
    intro hm
    simp [Spec.free, absSpec, heldOf, waitingOf, hm] at hfree
  show (a.exec (.lock .try h k .none h0)).1.s.order.length = _ ∧ (∀ x, x ∈ (a.exec (.lock .try h k .none h0)).1.s.order ↔ _) ∧
    (a.exec (.lock .try h k .none h0)).1.s.ent = _ ∧ (a.exec (.lock .try h k .none h0)).1.s.hs = _
  rw [he]
  simp only [touch_ent, touch_hs, and_true]
  unfold State.touch
  split
  · simp only [promote, List.length_append, List.length_erase_of_mem hmem, List.length_singleton, List.mem_append,
      List.mem_singleton]
    refine ⟨by have := List.length_pos_of_mem hmem; omega, ?_⟩
    intro x
    by_cases hx : x = k
    · subst hx; simp [hmem]
    · simp [hx, List.mem_erase_of_ne hx]
  · exact ⟨rfl, fun _ => Iff.rfl⟩

end Lockable
