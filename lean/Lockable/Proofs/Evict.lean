/-
Exactness of the eviction scan `_lock_up_to_n_first_unlocked_entries`: the candidates are the first
`n` eligible (unlocked, valued) keys of the iteration order, in that order.
-/
import Lockable.Proofs.Expire
namespace Lockable

/-- unlocked and valued: what the eviction scan may offer -/
def eligB (s : State) (k : Nat) : Bool :=
  match s.ent k with
  | some m => m.holder.isNone && m.value.isSome
  | none => false

def keyOfH (s : State) (h : Nat) : Nat := (hkey (s.hs h)).getD 0

theorem evictLoop_hs_other (keys : List Nat) (x : Nat) : ∀ (s : State) (hids : List Nat) (n : Nat) (acc : List Nat),
    x ∉ hids → (evictLoop s keys hids n acc).1.hs x = s.hs x := by
  induction keys with
  | nil => intro s hids n acc _; simp [evictLoop]
  | cons k ks ih =>
    intro s hids n acc hx
    unfold evictLoop
    split; · rfl
    split; · exact ih s hids n acc hx
    split
    · split
      · split
        · rename_i h hs'
          rw [ih _ hs' n _ (fun e => hx (List.mem_cons_of_mem _ e))]
          exact scanLock_hs _ _ _ _ _ (fun e => hx (by rw [e]; simp))
        · rfl
      · split
        · exact ih s hids n acc hx
        · rfl
    · split
      · exact ih s hids n acc hx
      · rfl

theorem eligB_scanLock_other (s : State) (h k : Nat) (m : Entry) (x : Nat) (hx : x ≠ k) :
    eligB (s.scanLock h k m) x = eligB s x := by
  unfold eligB; rw [scanLock_ent_other _ _ _ _ _ hx]

theorem filter_congr_mem {l : List Nat} {p q : Nat → Bool} (h : ∀ x ∈ l, p x = q x) : l.filter p = l.filter q := by
  induction l with
  | nil => rfl
  | cons a t ih =>
    simp only [List.filter_cons, h a (by simp)]
    rw [ih (fun x hx => h x (List.mem_cons_of_mem _ hx))]

theorem take_length_reverse (l : List Nat) : l.reverse.take l.length = l.reverse := by
  have : l.length = l.reverse.length := by simp
  rw [this, List.take_length]

theorem drop_length_reverse (l : List Nat) : l.reverse.drop l.length = [] := by
  have : l.length = l.reverse.length := by simp
  rw [this, List.drop_length]

/-- **the candidates are the first `n` eligible keys of the iteration order, in order** (and no assertion fires) -/
theorem evictLoop_exact (keys : List Nat) : ∀ (s : State) (hids : List Nat) (n : Nat) (acc : List Nat),
    Inv s → keys.Nodup → FreshL s hids → keys.length ≤ hids.length → (∀ a ∈ acc, a ∉ hids) →
    let r := evictLoop s keys hids n acc
    r.2.1.take acc.length = acc.reverse ∧
    (r.2.1.drop acc.length).map (keyOfH r.1) = (keys.filter (eligB s)).take (n - acc.length) := by
  induction keys with
  | nil =>
    intro s hids n acc _ _ _ _ _
    simp [evictLoop, take_length_reverse, drop_length_reverse]
  | cons k ks ih =>
    intro s hids n acc hi hkn hf hlen hacc
    have ⟨hk1, hk2⟩ := List.nodup_cons.1 hkn
    have hlen' : ks.length ≤ hids.length := by simp at hlen; omega
    have same : eligB s k = false →
        let r := evictLoop s ks hids n acc
        r.2.1.take acc.length = acc.reverse ∧
        (r.2.1.drop acc.length).map (keyOfH r.1) = ((k :: ks).filter (eligB s)).take (n - acc.length) := by
      intro hne
      have := ih s hids n acc hi hk2 hf hlen' hacc
      simp only [List.filter_cons, hne]
      exact this
    unfold evictLoop
    split
    · rename_i hge
      have : n - acc.length = 0 := by omega
      simp [this, take_length_reverse, drop_length_reverse]
    · rename_i hlt
      cases hm : s.ent k with
      | none => simp only []; exact same (by simp [eligB, hm])
      | some m =>
        simp only []
        split
        · rename_i hfree
          split
          · rename_i hval
            have hel : eligB s k = true := by simp [eligB, hm, hfree, hval]
            cases hids with
            | nil => simp at hlen
            | cons h hs' =>
              simp only []
              have hh1 : h ∉ hs' := (List.nodup_cons.1 hf.2).1
              have hfree' : m.holder = none := by simpa using hfree
              have hi' := inv_scanLock s h k m hi (hf.1 h (by simp)) hm hfree'
              have hf' := freshL_tail_scanLock s h k m hs' hf
              have hacc' : ∀ a ∈ h :: acc, a ∉ hs' := by
                intro a ha
                rcases List.mem_cons.1 ha with e | ha
                · rw [e]; exact hh1
                · exact fun e => hacc a ha (List.mem_cons_of_mem _ e)
              have := ih (s.scanLock h k m) hs' n (h :: acc) hi' hk2 hf' (by simp at hlen; omega) hacc'
              obtain ⟨b1, b2⟩ := this
              have hkey : keyOfH (evictLoop (s.scanLock h k m) ks hs' n (h :: acc)).1 h = k := by
                unfold keyOfH
                rw [evictLoop_hs_other ks h _ hs' n _ hh1]
                simp [State.scanLock, upd]
              have hfil : ks.filter (eligB (s.scanLock h k m)) = ks.filter (eligB s) :=
                filter_congr_mem (fun x hx => eligB_scanLock_other s h k m x (fun e => hk1 (e ▸ hx)))
              generalize hr : (evictLoop (s.scanLock h k m) ks hs' n (h :: acc)) = r at b1 b2 hkey
              simp only [List.length_cons, List.reverse_cons] at b1 b2
              have hsplit : r.2.1 = (acc.reverse ++ [h]) ++ r.2.1.drop (acc.length + 1) := by
                conv => lhs; rw [← List.take_append_drop (acc.length + 1) r.2.1]
                rw [b1]
              constructor
              · rw [hsplit]
                rw [List.append_assoc, List.take_append_of_le_length (by simp)]
                exact take_length_reverse acc
              · rw [hsplit]
                have hd : ((acc.reverse ++ [h]) ++ r.2.1.drop (acc.length + 1)).drop acc.length
                    = h :: r.2.1.drop (acc.length + 1) := by
                  rw [List.append_assoc, List.drop_append_of_le_length (by simp)]
                  rw [drop_length_reverse]; rfl
                rw [hd]
                simp only [List.map_cons, hkey, List.filter_cons, hel, ite_true]
                have : n - acc.length = (n - (acc.length + 1)) + 1 := by omega
                rw [this, List.take_succ_cons, b2, hfil]
          · rename_i hval
            have hne : eligB s k = false := by simp [eligB, hm, hval]
            split
            · exact same hne
            · rename_i hl
              exfalso; apply hl
              have hval' : m.value = none := by simpa using hval
              have := hi.inv2 k m hm hval'
              cases hr : m.refs with
              | nil => exact absurd hr this
              | cons a t => simp
        · rename_i hheld
          have hne : eligB s k = false := by simp [eligB, hm, hheld]
          split
          · exact same hne
          · rename_i hl
            exfalso; apply hl
            cases hh : m.holder with
            | none => simp [hh] at hheld
            | some x =>
              have hx : x ∈ m.refs := (hi.refs k m hm x).2 (hi.holderLive k m x hm hh).1
              cases hr : m.refs with
              | nil => simp [hr] at hx
              | cons a t => simp


/-- every returned candidate was already accumulated or comes from the supply -/
theorem evictLoop_sub (keys : List Nat) : ∀ (s : State) (hids : List Nat) (n : Nat) (acc : List Nat),
    ∀ x ∈ (evictLoop s keys hids n acc).2.1, x ∈ acc ∨ x ∈ hids := by
  induction keys with
  | nil => intro s hids n acc x hx; simp [evictLoop] at hx; exact Or.inl hx
  | cons k ks ih =>
    intro s hids n acc x hx
    unfold evictLoop at hx
    split at hx
    · simp at hx; exact Or.inl hx
    split at hx
    · exact ih s hids n acc x hx
    split at hx
    · split at hx
      · split at hx
        · rename_i h hs'
          rcases ih _ hs' n _ x hx with l | r
          · rcases List.mem_cons.1 l with e | l
            · right; rw [e]; simp
            · exact Or.inl l
          · exact Or.inr (List.mem_cons_of_mem _ r)
        · simp at hx; exact Or.inl hx
      · split at hx
        · exact ih s hids n acc x hx
        · simp at hx; exact Or.inl hx
    · split at hx
      · exact ih s hids n acc x hx
      · simp at hx; exact Or.inl hx


theorem evictLoop_kind (keys : List Nat) : ∀ (s : State) (hids : List Nat) (n : Nat) (acc : List Nat),
    (evictLoop s keys hids n acc).1.kind = s.kind := by
  induction keys with
  | nil => intro s hids n acc; simp [evictLoop]
  | cons k ks ih =>
    intro s hids n acc
    unfold evictLoop
    repeat' split
    all_goals first
      | rfl
      | (rw [ih]; done)
      | (rw [ih]; rfl)

theorem snapLoop_kind (keys : List Nat) : ∀ (s : State) (hids : List Nat) (acc : List Nat),
    (snapLoop s keys hids acc).1.kind = s.kind := by
  induction keys with
  | nil => intro s hids acc; cases hids <;> simp [snapLoop]
  | cons k ks ih =>
    intro s hids acc
    cases hids with
    | nil => simp [snapLoop]
    | cons h hs' =>
      simp only [snapLoop]
      split
      · rw [ih]; rfl
      · exact ih ..

theorem expireLoop_kind (keys : List Nat) : ∀ (s : State) (hids : List Nat) (c : Nat) (acc : List Nat),
    (expireLoop s keys hids c acc).1.kind = s.kind := by
  induction keys with
  | nil => intro s hids c acc; simp [expireLoop]
  | cons k ks ih =>
    intro s hids c acc
    unfold expireLoop
    repeat' split
    all_goals first
      | (rw [ih]; done)
      | (rw [ih]; rfl)

end Lockable
