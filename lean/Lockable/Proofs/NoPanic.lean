/-
No atomic action reaches a library `expect`/`assert!`/`panic!` site or finds the global lock poisoned
in a state satisfying the invariant; `into_entries_unordered` is exact when nothing is alive.
-/
import Lockable.Proofs.Frame
namespace Lockable

def Out.isFailure : Out → Bool
  | .panic _ => true
  | .poisoned => true
  | _ => false

theorem lookup_noFail (s : State) (h k : Nat) (hi : Inv s) : (lookup s h k).2.isFailure = false := by
  unfold lookup
  simp only [hi.notWedged, Bool.false_eq_true, ↓reduceIte]
  split <;> (try split) <;> rfl

theorem evict_noFail (s : State) (h k n : Nat) (hids : List Nat) (hi : Inv s) (hf : FreshL s hids) :
    (limitLookup s h k n hids).2.isFailure = false := by
  have h1 := (inv_limitLookup s h k n hids hi hf).2
  have h2 : (limitLookup s h k n hids).2 ≠ .poisoned := by
    unfold limitLookup
    simp only [hi.notWedged, Bool.false_eq_true, ↓reduceIte]
    have hl : (lookup s h k).2 ≠ .poisoned := by
      unfold lookup; simp only [hi.notWedged, Bool.false_eq_true, ↓reduceIte]; split <;> (try split) <;> simp
    split
    · simp
    · try simp only []
      split
      · exact hl
      · split <;> first | exact hl | simp
  cases ho : (limitLookup s h k n hids).2 <;> simp_all [Out.isFailure]

theorem release_noFail (s : State) (h : Nat) (hi : Inv s) : (release s h).2.isFailure = false := by
  unfold release
  simp only [hi.notWedged, Bool.false_eq_true, ↓reduceIte]
  split <;> try rfl
  split <;> try rfl
  split <;> try rfl
  try simp only []
  split <;> try rfl
  split <;> rfl

theorem cleanupFailed_fail_wedges (s : State) (h : Nat) :
    (cleanupFailed s h).2.isFailure = true → (cleanupFailed s h).1.wedged = true := by
  unfold cleanupFailed
  split
  · intro _; assumption
  · repeat' split
    all_goals (try simp only [])
    all_goals repeat' split
    all_goals simp [Out.isFailure, State.wedge]

theorem cleanupFailed_noFail (s : State) (h : Nat) (hi : Inv s) : (cleanupFailed s h).2.isFailure = false := by
  have hw := (inv_cleanupFailed s h hi).notWedged
  cases hf : (cleanupFailed s h).2.isFailure with
  | false => rfl
  | true => rw [cleanupFailed_fail_wedges s h hf] at hw; exact absurd hw (by simp)

theorem cancel_fail_wedges (s : State) (h : Nat) :
    (cancel s h).2.isFailure = true → (cancel s h).1.wedged = true := by
  unfold cancel
  split
  · intro _; assumption
  · repeat' split
    all_goals (try simp only [])
    all_goals repeat' split
    all_goals simp [Out.isFailure, State.wedge]

theorem cancel_noFail (s : State) (h : Nat) (hi : Inv s) : (cancel s h).2.isFailure = false := by
  have hw := (inv_cancel s h hi).notWedged
  cases hf : (cancel s h).2.isFailure with
  | false => rfl
  | true => rw [cancel_fail_wedges s h hf] at hw; exact absurd hw (by simp)

theorem cancel_hs_other (s : State) (h x : Nat) (hx : x ≠ h) : (cancel s h).1.hs x = s.hs x := by
  unfold cancel
  repeat' split
  all_goals (try simp only [])
  all_goals repeat' split
  all_goals simp [State.removeKey, State.dropHandle, State.setEnt, State.wedge, upd, hx]

/-- **no step panics or finds the lock poisoned** (`intoEntries` is treated separately: it needs exclusive ownership) -/
theorem step_noFail (s : State) (a : Act) (hi : Inv s) (hna : a ≠ .intoEntries) : (step s a).2.isFailure = false := by
  cases a with
  | lookup h k => exact lookup_noFail s h k hi
  | limitLookup h k n hids =>
    simp only [step]
    split
    · rename_i hc
      simp only [Bool.and_eq_true] at hc
      have hf := freshL_of s (h :: hids) hc.1.1
      exact evict_noFail s h k n hids hi ⟨fun x hx => hf.1 x (List.mem_cons_of_mem _ hx), (List.nodup_cons.1 hf.2).2⟩
    · rfl
  | tryKey h => simp only [step, tryKey]; split <;> (try split) <;> (try split) <;> (try split) <;> rfl
  | trySpurious h => simp only [step, trySpurious]; split <;> (try split) <;> rfl
  | enqueue h => simp only [step, enqueue]; split <;> (try split) <;> (try split) <;> (try split) <;> rfl
  | enqueueLate h => simp only [step, enqueueLate]; split <;> (try split) <;> (try split) <;> (try split) <;> rfl
  | acquire h => simp only [step, acquire]; split <;> (try split) <;> (try split) <;> (try split) <;> rfl
  | cancel h => exact cancel_noFail s h hi
  | cleanupFailed h => exact cleanupFailed_noFail s h hi
  | gop h op =>
    simp only [step, gop]
    split <;> try rfl
    split <;> try rfl
    split <;> try rfl
    split <;> (try split) <;> rfl
  | stamp h => simp only [step, stamp]; split <;> (try split) <;> (try split) <;> rfl
  | release h => exact release_noFail s h hi
  | snapshot hids => simp only [step, snapshot, hi.notWedged, Bool.false_eq_true, ↓reduceIte]; split <;> rfl
  | expire d hids => simp only [step, expireAt, hi.notWedged, Bool.false_eq_true, ↓reduceIte]; split <;> (try split) <;> rfl
  | count => simp [step, count, hi.notWedged, Out.isFailure]
  | keys => simp [step, keys, hi.notWedged, Out.isFailure]
  | intoEntries => exact absurd rfl hna
  | tick d => rfl
  | reorder perm => simp only [step, reorder]; split <;> rfl

/-- `assert_invariant` of `slow_assertions` never fires -/
theorem slowCheck_ok (s : State) (hi : Inv s) : slowCheck s = none := by
  unfold slowCheck
  rw [List.findSome?_eq_none_iff]
  intro k hk
  split
  · rename_i m hm
    split
    · rename_i hl
      have hr : m.refs = [] := List.eq_nil_of_length_eq_zero hl
      have hfree : m.holder = none := by
        cases hh : m.holder with
        | none => rfl
        | some x =>
          have := (hi.refs k m hm x).2 (hi.holderLive k m x hm hh).1
          simp [hr] at this
      have hval : m.value ≠ none := fun e => hi.inv2 k m hm e hr
      cases hv : m.value with
      | none => exact absurd hv hval
      | some v => simp [hfree]
    · rfl
  · rfl

/-- what `into_entries_unordered` is supposed to return: the valued pairs in iteration order -/
def valuedPairs (s : State) : List Nat → List (Nat × Nat)
  | [] => []
  | k :: ks => match absVal s k with
    | some v => (k, v) :: valuedPairs s ks
    | none => valuedPairs s ks

theorem intoLoop_exact (s : State) (hi : Inv s) (hq : ∀ h, s.hs h = none) :
    ∀ (ks : List Nat) (acc : List (Nat × Nat)), (∀ k ∈ ks, k ∈ s.order) →
    intoLoop s ks acc = .pairs (acc.reverse ++ valuedPairs s ks) := by
  intro ks
  induction ks with
  | nil => intro acc _; simp [intoLoop, valuedPairs]
  | cons k ks ih =>
    intro acc hks
    have hk : s.ent k ≠ none := (hi.keys k).1 (hks k (by simp))
    cases hm : s.ent k with
    | none => exact absurd hm hk
    | some m =>
      have hr : m.refs = [] := by
        cases hrf : m.refs with
        | nil => rfl
        | cons a t =>
          have := (hi.refs k m hm a).1 (by simp [hrf])
          rw [hq a] at this; simp at this
      have hv : m.value ≠ none := fun e => hi.inv2 k m hm e hr
      cases hval : m.value with
      | none => exact absurd hval hv
      | some st =>
        simp only [intoLoop, hm, hr, hval, List.length_nil, ne_eq, not_true_eq_false, ite_false]
        rw [ih _ (fun x hx => hks x (List.mem_cons_of_mem _ hx))]
        simp [valuedPairs, absVal, valOf, hm, hval]

end Lockable
