/-
Frame lemmas about stored values INCLUDING their `last_unlocked` stamp (generated from Frame.lean by
renaming; the only difference: `stamp` on a guard of the key is also excluded).
-/
import Lockable.Proofs.Frame
namespace Lockable

def stOf : Option Entry → Option Stored
  | some m => m.value
  | none => none

/-- the value the container stores for `k` (what the next guard for `k` will see) -/
def absSt (s : State) (k : Nat) : Option Stored := stOf (s.ent k)


theorem absSt_touch (s : State) (k k' : Nat) : absSt (s.touch k') k = absSt s k := by
  unfold absSt; rw [touch_ent]

theorem absSt_scanLock (s : State) (h k' : Nat) (m : Entry) (hm : s.ent k' = some m) (k : Nat) :
    absSt (s.scanLock h k' m) k = absSt s k := by
  unfold absSt State.scanLock; simp only [upd]
  split
  · rename_i e; subst e; rw [hm]; rfl
  · rfl

theorem absSt_clone (s : State) (h k' : Nat) (m : Entry) (hm : s.ent k' = some m) (k : Nat) :
    absSt (s.clone h k' m) k = absSt s k := by
  unfold absSt State.clone; simp only [upd]
  split
  · rename_i e; subst e; rw [hm]; rfl
  · rfl

theorem absSt_evictLoop (keys : List Nat) (k : Nat) : ∀ (s : State) (hids : List Nat) (n : Nat) (acc : List Nat),
    absSt (evictLoop s keys hids n acc).1 k = absSt s k := by
  induction keys with
  | nil => intro s hids n acc; simp [evictLoop]
  | cons k' ks ih =>
    intro s hids n acc
    unfold evictLoop
    split; · rfl
    split; · exact ih ..
    rename_i m hm
    split
    · split
      · split
        · rw [ih]; exact absSt_scanLock s _ k' m hm k
        · rfl
      · split
        · exact ih ..
        · rfl
    · split
      · exact ih ..
      · rfl

theorem absSt_snapLoop (keys : List Nat) (k : Nat) : ∀ (s : State) (hids : List Nat) (acc : List Nat),
    absSt (snapLoop s keys hids acc).1 k = absSt s k := by
  induction keys with
  | nil => intro s hids acc; simp [snapLoop]
  | cons k' ks ih =>
    intro s hids acc
    cases hids with
    | nil => simp [snapLoop]
    | cons h hs' =>
      simp only [snapLoop]
      split
      · rename_i m hm; rw [ih]; exact absSt_clone s h k' m hm k
      · exact ih ..

theorem absSt_expireLoop (keys : List Nat) (k : Nat) : ∀ (s : State) (hids : List Nat) (c : Nat) (acc : List Nat),
    absSt (expireLoop s keys hids c acc).1 k = absSt s k := by
  induction keys with
  | nil => intro s hids c acc; simp [expireLoop]
  | cons k' ks ih =>
    intro s hids c acc
    unfold expireLoop
    split; · exact ih ..
    rename_i m hm
    split
    · split
      · rw [ih]; exact absSt_scanLock s _ k' m hm k
      · exact ih ..
    · exact ih ..

theorem absSt_lookup (s : State) (h k' k : Nat) : absSt (lookup s h k').1 k = absSt s k := by
  unfold lookup
  split; · rfl
  split; · rfl
  split
  · rename_i m hm; rw [absSt_touch]; exact absSt_clone s h k' m hm k
  · rename_i hm
    unfold absSt; simp only [upd]
    split
    · rename_i e; subst e; rw [hm]; rfl
    · rfl


theorem absSt_setEnt_same (s : State) (k' : Nat) (m m' : Entry) (hm : s.ent k' = some m)
    (hv : m'.value = m.value) (k : Nat) :
    absSt (s.setEnt k' m') k = absSt s k := by
  unfold absSt State.setEnt; simp only [upd]
  split
  · rename_i e; subst e; rw [hm]; exact hv
  · rfl

theorem absSt_setSt (s : State) (h : Nat) (hd : Handle) (st : HSt) (k : Nat) :
    absSt (s.setSt h hd st) k = absSt s k := rfl
theorem absSt_dropHandle (s : State) (h : Nat) (k : Nat) : absSt (s.dropHandle h) k = absSt s k := rfl

theorem absSt_removeKey_none (s : State) (k' : Nat) (hv : absSt s k' = none) (k : Nat) :
    absSt (s.removeKey k') k = absSt s k := by
  unfold absSt State.removeKey; simp only [upd]
  split
  · rename_i e; subst e; exact hv.symm
  · rfl

theorem absSt_tryKey (s : State) (h k : Nat) : absSt (tryKey s h).1 k = absSt s k := by
  unfold tryKey
  split <;> try rfl
  split <;> try rfl
  split <;> try rfl
  rename_i m hm
  split
  · rw [absSt_setSt]; exact absSt_setEnt_same s _ m _ (entryOf_some hm).1 (by rfl) k
  · rfl

theorem absSt_trySpurious (s : State) (h k : Nat) : absSt (trySpurious s h).1 k = absSt s k := by
  unfold trySpurious
  split <;> try rfl
  split <;> rfl

theorem absSt_enqueue (s : State) (h k : Nat) : absSt (enqueue s h).1 k = absSt s k := by
  unfold enqueue
  split <;> try rfl
  split <;> try rfl
  split <;> try rfl
  rename_i m hm
  split <;> (rw [absSt_setSt]; exact absSt_setEnt_same s _ m _ (entryOf_some hm).1 (by rfl) k)

theorem absSt_enqueueLate (s : State) (h k : Nat) : absSt (enqueueLate s h).1 k = absSt s k := by
  unfold enqueueLate
  split <;> try rfl
  split <;> try rfl
  split <;> try rfl
  rename_i m hm
  split <;> (rw [absSt_setSt]; exact absSt_setEnt_same s _ m _ (entryOf_some hm).1 (by rfl) k)

theorem absSt_acquire (s : State) (h k : Nat) : absSt (acquire s h).1 k = absSt s k := by
  unfold acquire
  split <;> try rfl
  split <;> try rfl
  split <;> try rfl
  split <;> rfl

theorem absSt_stamp (s : State) (h k : Nat) (hk : hkey (s.hs h) ≠ some k) : absSt (stamp s h).1 k = absSt s k := by
  unfold stamp
  split <;> try rfl
  rename_i hd hhd
  have hne : k ≠ hd.key := by intro e; apply hk; simp [hhd, e]
  split <;> try rfl
  split <;> try rfl
  simp only []
  rw [absSt_setSt]
  unfold absSt State.setEnt; simp [upd, hne]

/-- a guard method changes at most the value of its own key -/
theorem absSt_gop_other (s : State) (h : Nat) (op : GOp) (k : Nat) (hk : hkey (s.hs h) ≠ some k) :
    absSt (gop s h op).1 k = absSt s k := by
  unfold gop
  split <;> try rfl
  rename_i hd hhd
  have hne : k ≠ hd.key := by intro e; apply hk; simp [hhd, e]
  have hset : ∀ m', absSt (s.setEnt hd.key m') k = absSt s k := by
    intro m'; unfold absSt State.setEnt; simp [upd, hne]
  split <;> try rfl
  split <;> try rfl
  split <;> (try split) <;> first | rfl | exact hset _

theorem absSt_release (s : State) (h k : Nat) (hi : Inv s) : absSt (release s h).1 k = absSt s k := by
  unfold release
  split <;> try rfl
  split <;> try rfl
  split <;> try rfl
  split <;> try rfl
  rename_i _ hd hhd _ hv hst _ m hm
  have ⟨hm1, hm2⟩ := entryOf_some hm
  have hv' := hi.stampedOk h hd hv hhd hst m hm1
  have base : absSt ((s.setEnt hd.key (handoff m h)).dropHandle h) k = absSt s k := by
    rw [absSt_dropHandle]; exact absSt_setEnt_same s _ m _ hm1 (by rfl) k
  simp only []
  split
  · exact base
  · rename_i hvf
    split
    · rw [absSt_removeKey_none, absSt_touch, base]
      rw [absSt_touch, absSt_dropHandle, absSt_setEnt_same s _ m (handoff m h) hm1 (by rfl)]
      unfold absSt; rw [hm1]
      cases hval : m.value with
      | none => simp [stOf, hval]
      | some st => simp [hval] at hv'; exact absurd hv' hvf
    · rw [absSt_touch, base]

theorem absSt_cleanupFailed (s : State) (h k : Nat) : absSt (cleanupFailed s h).1 k = absSt s k := by
  unfold cleanupFailed
  split <;> try rfl
  split <;> try rfl
  split <;> try rfl
  split <;> try rfl
  rename_i hd hhd hst _ m hm
  have ⟨hm1, hm2⟩ := entryOf_some hm
  have base : absSt ((s.setEnt hd.key { m with refs := m.refs.erase h }).dropHandle h) k = absSt s k := by
    rw [absSt_dropHandle]; exact absSt_setEnt_same s _ m _ hm1 (by rfl) k
  simp only []
  split
  · split
    · rfl
    · split
      · rename_i hvn
        rw [absSt_removeKey_none, base]
        rw [absSt_dropHandle, absSt_setEnt_same s _ m { m with refs := m.refs.erase h } hm1 (by rfl)]
        unfold absSt; rw [hm1]
        cases hval : m.value with
        | none => simp [stOf, hval]
        | some st => simp [hval] at hvn
      · exact base
  · exact base

theorem absSt_cancel (s : State) (h k : Nat) : absSt (cancel s h).1 k = absSt s k := by
  unfold cancel
  split <;> try rfl
  split <;> try rfl
  split <;> try rfl
  split <;> try rfl
  rename_i hd hhd hst _ m hm
  have ⟨hm1, hm2⟩ := entryOf_some hm
  have hv : ∀ m' : Entry, m'.value = m.value →
      absSt (if m'.refs.length = 0 then
          if m'.holder.isSome = true then (s.wedge, Out.panic Site.cancelTry)
          else if m'.value.isNone = true then
            (((s.setEnt hd.key m').dropHandle h).removeKey hd.key, Out.unit)
          else ((s.setEnt hd.key m').dropHandle h, Out.unit)
        else ((s.setEnt hd.key m').dropHandle h, Out.unit)).1 k = absSt s k := by
    intro m' e
    have base : absSt ((s.setEnt hd.key m').dropHandle h) k = absSt s k := by
      rw [absSt_dropHandle]; exact absSt_setEnt_same s _ m _ hm1 (by rw [e]) k
    split
    · split
      · rfl
      · split
        · rename_i hvn
          rw [absSt_removeKey_none, base]
          rw [absSt_dropHandle, absSt_setEnt_same s _ m m' hm1 (by rw [e])]
          unfold absSt; rw [hm1]
          rw [e] at hvn
          cases hval : m.value with
          | none => simp [stOf, hval]
          | some st => simp [hval] at hvn
        · exact base
    · exact base
  simp only []
  split
  · exact hv (handoff m h) rfl
  · exact hv _ rfl

/-- nothing except a guard method or the unlock stamp on a guard for key `k` changes value or stamp stored for `k` -/
theorem absSt_step (s : State) (a : Act) (k : Nat) (hi : Inv s)
    (hne : ∀ h op, a = .gop h op → hkey (s.hs h) ≠ some k)
    (hns : ∀ h, a = .stamp h → hkey (s.hs h) ≠ some k) :
    absSt (step s a).1 k = absSt s k := by
  cases a with
  | lookup h k' => exact absSt_lookup s h k' k
  | limitLookup h k' n hids =>
    simp only [step]
    split <;> try rfl
    unfold limitLookup
    split <;> try rfl
    split <;> try rfl
    simp only []
    split; · exact absSt_lookup s h k' k
    have := absSt_evictLoop s.order k s hids (s.order.length - (n - 1)) []
    split
    · rename_i e; rw [e] at this; exact this
    · exact absSt_lookup s h k' k
    · rename_i e; rw [e] at this; exact this
  | tryKey h => exact absSt_tryKey s h k
  | trySpurious h => exact absSt_trySpurious s h k
  | enqueue h => exact absSt_enqueue s h k
  | enqueueLate h => exact absSt_enqueueLate s h k
  | acquire h => exact absSt_acquire s h k
  | cancel h => exact absSt_cancel s h k
  | cleanupFailed h => exact absSt_cleanupFailed s h k
  | gop h op => exact absSt_gop_other s h op k (hne h op rfl)
  | stamp h => exact absSt_stamp s h k (hns h rfl)
  | release h => exact absSt_release s h k hi
  | snapshot hids =>
    simp only [step]
    split <;> try rfl
    unfold snapshot; split <;> try rfl
    exact absSt_snapLoop _ k _ _ _
  | expire d hids =>
    simp only [step]
    split <;> try rfl
    unfold expireAt; split <;> try rfl
    split <;> try rfl
    exact absSt_expireLoop _ k _ _ _ _
  | count => simp only [step, count]; split <;> rfl
  | keys => simp only [step, keys]; split <;> rfl
  | intoEntries => simp only [step, intoEntries]; split <;> rfl
  | tick d => rfl
  | reorder perm => simp only [step, reorder]; split <;> rfl

end Lockable
