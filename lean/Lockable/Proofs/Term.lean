/-
Termination of the soft-limit eviction loop for a cooperative callback: the number of evictable entries
(unlocked, valued) strictly decreases in every round, so the loop reaches the lookup.
-/
import Lockable.Proofs.Layers
import Lockable.Proofs.Recency
namespace Lockable

/-- number of evictable entries -/
def eligCount (s : State) : Nat := (s.order.filter (eligB s)).length

theorem nodup_length_le_of_subset : ∀ (l₁ l₂ : List Nat), l₁.Nodup → (∀ x ∈ l₁, x ∈ l₂) → l₁.length ≤ l₂.length := by
  intro l₁
  induction l₁ with
  | nil => intro l₂ _ _; simp
  | cons a t ih =>
    intro l₂ hn hsub
    have ⟨h1, h2⟩ := List.nodup_cons.1 hn
    have ha : a ∈ l₂ := hsub a (by simp)
    have := ih (l₂.erase a) h2 (fun x hx => by
      have hx2 : x ∈ l₂ := hsub x (List.mem_cons_of_mem _ hx)
      have hne : x ≠ a := fun e => h1 (e ▸ hx)
      exact (List.mem_erase_of_ne hne).2 hx2)
    rw [List.length_erase_of_mem ha] at this
    have hpos := List.length_pos_of_mem ha
    simp only [List.length_cons]; omega

/-- if no entry becomes evictable and the key set does not grow, the number of evictable entries does not grow -/
theorem eligCount_mono (s s' : State) (hn' : s'.order.Nodup)
    (hsub : ∀ x ∈ s'.order, x ∈ s.order) (hel : ∀ x ∈ s'.order, eligB s' x = true → eligB s x = true) :
    eligCount s' ≤ eligCount s := by
  unfold eligCount
  apply nodup_length_le_of_subset
  · exact hn'.sublist List.filter_sublist
  · intro x hx
    rw [List.mem_filter] at hx ⊢
    exact ⟨hsub x hx.1, hel x hx.1 hx.2⟩

/-- … and it shrinks if moreover some evictable entry stops being evictable -/
theorem eligCount_lt (s s' : State) (_hn : s.order.Nodup) (hn' : s'.order.Nodup)
    (hsub : ∀ x ∈ s'.order, x ∈ s.order) (hel : ∀ x ∈ s'.order, eligB s' x = true → eligB s x = true)
    (y : Nat) (hy : y ∈ s.order) (hye : eligB s y = true) (hy' : y ∉ s'.order ∨ eligB s' y = false) :
    eligCount s' < eligCount s := by
  unfold eligCount
  have h1 : (s'.order.filter (eligB s')).length ≤ ((s.order.filter (eligB s)).erase y).length := by
    apply nodup_length_le_of_subset
    · exact hn'.sublist List.filter_sublist
    · intro x hx
      rw [List.mem_filter] at hx
      have hxy : x ≠ y := by
        intro e; subst e
        rcases hy' with h | h
        · exact h hx.1
        · rw [h] at hx; exact absurd hx.2 (by simp)
      exact (List.mem_erase_of_ne hxy).2 (List.mem_filter.2 ⟨hsub x hx.1, hel x hx.1 hx.2⟩)
  have hym : y ∈ s.order.filter (eligB s) := List.mem_filter.2 ⟨hy, hye⟩
  rw [List.length_erase_of_mem hym] at h1
  have := List.length_pos_of_mem hym
  omega


theorem eligB_scanLock_le (s : State) (h k : Nat) (m : Entry) (x : Nat) :
    eligB (s.scanLock h k m) x = true → eligB s x = true ∨ x = k := by
  intro hx
  by_cases e : x = k
  · exact Or.inr e
  · left; rw [eligB_scanLock_other s h k m x e] at hx; exact hx

theorem eligB_scanLock_self (s : State) (h k : Nat) (m : Entry) : eligB (s.scanLock h k m) k = false := by
  simp [eligB, State.scanLock, upd]

/-- the scan never makes an entry evictable, and every candidate it locks stops being evictable -/
theorem evictLoop_elig (keys : List Nat) : ∀ (s : State) (hids : List Nat) (n : Nat) (acc : List Nat),
    (∀ x, eligB (evictLoop s keys hids n acc).1 x = true → eligB s x = true) := by
  induction keys with
  | nil => intro s hids n acc x hx; simpa [evictLoop] using hx
  | cons k ks ih =>
    intro s hids n acc x
    unfold evictLoop
    split; · exact fun hx => hx
    split; · exact ih s hids n acc x
    rename_i m hm
    split
    · split
      · split
        · rename_i h hs'
          intro hx
          have h1 := ih (s.scanLock h k m) hs' n (h :: acc) x hx
          rcases eligB_scanLock_le s h k m x h1 with e | e
          · exact e
          · subst e; rw [eligB_scanLock_self] at h1; exact absurd h1 (by simp)
        · exact fun hx => hx
      · split
        · exact ih s hids n acc x
        · intro hx; simpa [State.wedge, eligB] using hx
    · split
      · exact ih s hids n acc x
      · intro hx; simpa [State.wedge, eligB] using hx


/-- every candidate handle the scan returns is a live guard -/
theorem evictLoop_holding (keys : List Nat) : ∀ (s : State) (hids : List Nat) (n : Nat) (acc : List Nat),
    hids.Nodup → (∀ a ∈ acc, a ∉ hids) →
    (∀ a ∈ acc, hst (s.hs a) = some .holding) →
    ∀ x ∈ (evictLoop s keys hids n acc).2.1, hst ((evictLoop s keys hids n acc).1.hs x) = some .holding := by
  induction keys with
  | nil => intro s hids n acc _ _ hacc x hx; simp [evictLoop] at hx ⊢; exact hacc x hx
  | cons k ks ih =>
    intro s hids n acc hn hdis hacc x
    unfold evictLoop
    split; · intro hx; simp at hx; exact hacc x hx
    split; · exact ih s hids n acc hn hdis hacc x
    rename_i m hm
    split
    · split
      · split
        · rename_i h hs'
          have ⟨hh1, hh2⟩ := List.nodup_cons.1 hn
          apply ih (s.scanLock h k m) hs' n (h :: acc) hh2
          · intro a ha
            rcases List.mem_cons.1 ha with e | ha
            · rw [e]; exact hh1
            · exact fun e => hdis a ha (List.mem_cons_of_mem _ e)
          · intro a ha
            rcases List.mem_cons.1 ha with e | ha
            · subst e; simp [State.scanLock, upd]
            · have hne : a ≠ h := fun e => hdis a ha (by rw [e]; simp)
              rw [scanLock_hs _ _ _ _ _ hne]; exact hacc a ha
        · intro hx; simp at hx; exact hacc x hx
      · split
        · exact ih s hids n acc hn hdis hacc x
        · intro hx; simp at hx; simp [State.wedge]; exact hacc x hx
    · split
      · exact ih s hids n acc hn hdis hacc x
      · intro hx; simp at hx; simp [State.wedge]; exact hacc x hx

/-- the scan strictly decreases the number of evictable entries when it returns candidates -/
theorem evictLoop_decreases (s : State) (hids : List Nat) (n : Nat) (hi : Inv s) (hf : FreshL s hids)
    (hlen : s.order.length ≤ hids.length) (c : Nat) (cs : List Nat)
    (hres : (evictLoop s s.order hids n []).2.1 = c :: cs) :
    eligCount (evictLoop s s.order hids n []).1 < eligCount s := by
  have hx := evictLoop_exact s.order s hids n [] hi hi.nodup hf hlen (by simp)
  simp only [List.length_nil, List.take_zero, List.reverse_nil, List.drop_zero, Nat.sub_zero, true_and] at hx
  have hinv := (inv_evictLoop s.order s hids n [] hi hf).1
  have hhold := evictLoop_holding s.order s hids n [] hf.2 (by simp) (by simp) c (by rw [hres]; simp)
  have hord := evictLoop_order s.order s hids n []
  generalize hs1 : (evictLoop s s.order hids n []).1 = s1 at hx hinv hhold hord ⊢
  rw [hres] at hx
  -- the key of the first candidate
  obtain ⟨cd, e1, e2⟩ := hst_inv hhold
  have hy : keyOfH s1 c ∈ (s.order.filter (eligB s)).take n := by
    rw [← hx]; simp
  have hy2 := List.mem_filter.1 (List.mem_of_mem_take hy)
  have hkey : keyOfH s1 c = cd.key := by simp [keyOfH, e1]
  apply eligCount_lt s s1 hi.nodup (by rw [hord]; exact hi.nodup) (by rw [hord]; exact fun x hx => hx)
    (fun x _ hx => by have := evictLoop_elig s.order s hids n [] x; rw [hs1] at this; exact this hx)
    cd.key (by rw [← hkey]; exact hy2.1) (by rw [← hkey]; exact hy2.2)
  right
  -- in s1 the key is held by the candidate guard
  obtain ⟨m1, hm1, _⟩ := eeid_inv (hinv.live c cd e1)
  have := hinv.guardHolds c cd e1 (by simp [e2, HSt.isGuard]) m1 hm1
  simp [eligB, hm1, this]

theorem C07_rm_not_eligible_aux (a : Api) (c : Nat) (hd : Handle) (m : Entry) (hi : Inv a.s)
    (hh : a.s.hs c = some hd) (hst : hd.st = .holding) (heo : a.s.entryOf hd = some m) :
    eligB (((a.gop_ c .remove).dropGuard c).1).s hd.key = false := by
  have hm1 := (entryOf_some heo).1
  have he := (entryOf_some heo).2
  have hs1 : (gop a.s c .remove).1 = a.s.setEnt hd.key { m with value := none } := by
    simp [gop, hh, hst, heo]
  have hs1h : (gop a.s c .remove).1.hs c = some hd := by rw [hs1]; exact hh
  have hs1e : (gop a.s c .remove).1.entryOf hd = some { m with value := none } := by
    rw [hs1]; simp [State.entryOf, State.setEnt, upd, he]
  rw [dropGuard_s]
  show eligB (if (stamp (gop a.s c .remove).1 c).2 = .unit then (release (stamp (gop a.s c .remove).1 c).1 c).1
              else (stamp (gop a.s c .remove).1 c).1) hd.key = false
  have hst1 : (stamp (gop a.s c .remove).1 c).2 = .unit := by simp [stamp, hs1h, hst, hs1e]
  rw [if_pos hst1]
  have hs2 : (stamp (gop a.s c .remove).1 c).1 =
      (((gop a.s c .remove).1).setEnt hd.key { m with value := none }).setSt c hd (.stamped false) := by
    simp only [stamp, hs1h, hst, hs1e]
    cases (gop a.s c .remove).1.kind <;> simp
  have hs2h : (stamp (gop a.s c .remove).1 c).1.hs c = some { hd with st := .stamped false } := by
    rw [hs2]; simp [State.setSt, upd]
  have hs2e : (stamp (gop a.s c .remove).1 c).1.entryOf { hd with st := .stamped false } = some { m with value := none } := by
    rw [hs2]; simp [State.entryOf, State.setSt, State.setEnt, upd, he]
  have hw : (stamp (gop a.s c .remove).1 c).1.wedged = false := by rw [hs2, hs1]; exact hi.notWedged
  simp only [release, hw, Bool.false_eq_true, ↓reduceIte, hs2h, hs2e]
  split
  · simp [eligB, State.removeKey, upd]
  · simp only [eligB, touch_ent]
    simp [State.setEnt, State.dropHandle, upd, handoff]

theorem gop_order (s : State) (h : Nat) (g : GOp) : (gop s h g).1.order = s.order := by
  unfold gop; repeat' split
  all_goals rfl

theorem stamp_order (s : State) (h : Nat) : (stamp s h).1.order = s.order := by
  unfold stamp; repeat' split
  all_goals (try simp only [])
  all_goals rfl

theorem release_order_subset (s : State) (h : Nat) (hi : Inv s) : ∀ x ∈ (release s h).1.order, x ∈ s.order := by
  intro x
  unfold release
  split; · exact id
  split
  · rename_i hd hh
    split
    · split
      · rename_i m hm
        have hk : hd.key ∈ s.order := (hi.keys _).2 (by simp [(entryOf_some hm).1])
        simp only []
        split
        · exact id
        · split
          · intro hx
            simp only [State.removeKey, State.touch] at hx
            split at hx
            · have := List.mem_of_mem_erase hx
              exact (mem_promote hd.key x s.order hk).1 this
            · exact List.mem_of_mem_erase hx
          · intro hx
            simp only [State.touch] at hx
            split at hx
            · exact (mem_promote hd.key x s.order hk).1 hx
            · exact hx
      · exact id
    · exact id
  · exact id

/-- what the cooperative callback does with one guard: `remove()` and drop -/
def rmCand (a : Api) (c : Nat) : Api := ((a.gop_ c .remove).dropGuard c).1

theorem rmCand_facts (a : Api) (c : Nat) (hd : Handle) (hi : Inv a.s) (hh : a.s.hs c = some hd) (hst : hd.st = .holding) :
    Inv (rmCand a c).s ∧ (∀ x ∈ (rmCand a c).s.order, x ∈ a.s.order) ∧
    (∀ x, eligB (rmCand a c).s x = true → eligB a.s x = true) ∧
    (∀ g, g ≠ c → (rmCand a c).s.hs g = a.s.hs g) ∧ (rmCand a c).s.hs c = none := by
  obtain ⟨m, hm, he⟩ := eeid_inv (hi.live c hd hh)
  have heo : a.s.entryOf hd = some m := by simp [State.entryOf, hm, he]
  have hi1 : Inv (a.gop_ c .remove).s := inv_gop a.s c .remove hi
  have hh1 : (a.gop_ c .remove).s.hs c = some hd := by
    show (gop a.s c .remove).1.hs c = _
    simp [gop, hh, hst, heo, State.setEnt]
  refine ⟨inv_dropGuard _ c hi1, ?_, ?_, ?_, dropGuard_gone _ c hd hi1 hh1 hst⟩
  · intro x hx
    unfold rmCand at hx
    rw [dropGuard_s] at hx
    have hs1 : (stamp (a.gop_ c .remove).s c).2 = .unit := by
      obtain ⟨m1, hm1, he1⟩ := eeid_inv (hi1.live c hd hh1)
      have heo1 : (a.gop_ c .remove).s.entryOf hd = some m1 := by simp [State.entryOf, hm1, he1]
      simp [stamp, hh1, hst, heo1]
    rw [if_pos hs1] at hx
    have := release_order_subset _ c (inv_stamp _ c hi1) x hx
    rw [stamp_order] at this
    have ho : (a.gop_ c .remove).s.order = a.s.order := gop_order a.s c .remove
    rw [ho] at this; exact this
  · intro x hx
    by_cases e : x = hd.key
    · subst e
      have := C07_rm_not_eligible_aux a c hd m hi hh hst heo
      have hx' : eligB ((a.gop_ c .remove).dropGuard c).1.s hd.key = true := hx
      rw [this] at hx'; exact absurd hx' (by simp)
    · have hent : (rmCand a c).s.ent x = a.s.ent x := by
        unfold rmCand
        rw [dropGuard_s]
        have hs1 : (stamp (a.gop_ c .remove).s c).2 = .unit := by
          obtain ⟨m1, hm1, he1⟩ := eeid_inv (hi1.live c hd hh1)
          have heo1 : (a.gop_ c .remove).s.entryOf hd = some m1 := by simp [State.entryOf, hm1, he1]
          simp [stamp, hh1, hst, heo1]
        rw [if_pos hs1]
        have hb : ∃ b, (stamp (a.gop_ c .remove).s c).1.hs c = some { hd with st := .stamped b } := by
          obtain ⟨m1, hm1, he1⟩ := eeid_inv (hi1.live c hd hh1)
          have heo1 : (a.gop_ c .remove).s.entryOf hd = some m1 := by simp [State.entryOf, hm1, he1]
          simp only [stamp, hh1, hst, heo1]
          exact ⟨m1.value.isSome, by simp [State.setSt, upd]⟩
        obtain ⟨b, hb⟩ := hb
        rw [release_ent_other _ c _ x hb e, stamp_ent_other _ c hd x hh1 e]
        exact C03_aux_gop_ent a.s c hd x hh e .remove
      simp only [eligB, hent] at hx ⊢; exact hx
  · intro g hg
    unfold rmCand
    rw [dropGuard_hs_other _ c g hg]
    exact gop_hs_other a.s c .remove g hg


theorem runActs_nil_eq (cands : List Nat) : ∀ (a : Api), a.runActs cands [] = cands.foldl rmCand a := by
  induction cands with
  | nil => intro a; rfl
  | cons c cs ih => intro a; simp only [Api.runActs, List.head?_nil, Option.getD_none, List.tail_nil, List.foldl]; exact ih _

/-- a cooperative round: every guard handed to the callback is removed and dropped -/
theorem round_facts (cands : List Nat) : ∀ (a : Api), Inv a.s → cands.Nodup →
    (∀ c ∈ cands, hst (a.s.hs c) = some .holding) →
    Inv (cands.foldl rmCand a).s ∧ (∀ x ∈ (cands.foldl rmCand a).s.order, x ∈ a.s.order) ∧
    (∀ x, eligB (cands.foldl rmCand a).s x = true → eligB a.s x = true) ∧
    (∀ g, g ∉ cands → (cands.foldl rmCand a).s.hs g = a.s.hs g) ∧
    (∀ c ∈ cands, (cands.foldl rmCand a).s.hs c = none) := by
  induction cands with
  | nil => intro a hi _ _; exact ⟨hi, fun x hx => hx, fun x hx => hx, fun g _ => rfl, fun c hc => by cases hc⟩
  | cons c cs ih =>
    intro a hi hn hall
    have ⟨hn1, hn2⟩ := List.nodup_cons.1 hn
    obtain ⟨hd, e1, e2⟩ := hst_inv (hall c (by simp))
    obtain ⟨f1, f2, f3, f4, f5⟩ := rmCand_facts a c hd hi e1 e2
    have hall' : ∀ x ∈ cs, hst ((rmCand a c).s.hs x) = some .holding := by
      intro x hx
      rw [f4 x (fun e => hn1 (e ▸ hx))]; exact hall x (List.mem_cons_of_mem _ hx)
    obtain ⟨g1, g2, g3, g4, g5⟩ := ih (rmCand a c) f1 hn2 hall'
    simp only [List.foldl]
    refine ⟨g1, fun x hx => f2 x (g2 x hx), fun x hx => f3 x (g3 x hx), ?_, ?_⟩
    · intro g hg
      have hgc : g ≠ c := fun e => hg (by rw [e]; simp)
      have hgcs : g ∉ cs := fun e => hg (List.mem_cons_of_mem _ e)
      rw [g4 g hgcs, f4 g hgc]
    · intro x hx
      rcases List.mem_cons.1 hx with e | hx
      · subst e; rw [g4 x hn1]; exact f5
      · exact g5 x hx


theorem evictLoop_acc_sub (keys : List Nat) : ∀ (s : State) (hids : List Nat) (n : Nat) (acc : List Nat),
    ∀ a ∈ acc, a ∈ (evictLoop s keys hids n acc).2.1 := by
  induction keys with
  | nil => intro s hids n acc a ha; simp [evictLoop, ha]
  | cons k ks ih =>
    intro s hids n acc a ha
    unfold evictLoop
    split; · simp [ha]
    split; · exact ih s hids n acc a ha
    split
    · split
      · split
        · exact ih _ _ n _ a (List.mem_cons_of_mem _ ha)
        · simp [ha]
      · split
        · exact ih s hids n acc a ha
        · simp [ha]
    · split
      · exact ih s hids n acc a ha
      · simp [ha]

theorem evictLoop_nodup (keys : List Nat) : ∀ (s : State) (hids : List Nat) (n : Nat) (acc : List Nat),
    hids.Nodup → (∀ a ∈ acc, a ∉ hids) → acc.Nodup → (evictLoop s keys hids n acc).2.1.Nodup := by
  induction keys with
  | nil => intro s hids n acc _ _ ha; simp only [evictLoop]; exact nodup_reverse' _ ha
  | cons k ks ih =>
    intro s hids n acc hn hacc ha
    unfold evictLoop
    split; · exact nodup_reverse' _ ha
    split; · exact ih s hids n acc hn hacc ha
    split
    · split
      · split
        · rename_i h hs'
          have ⟨hh1, hh2⟩ := List.nodup_cons.1 hn
          apply ih _ hs' n _ hh2
          · intro a haa
            rcases List.mem_cons.1 haa with e | haa
            · rw [e]; exact hh1
            · exact fun e => hacc a haa (List.mem_cons_of_mem _ e)
          · exact List.nodup_cons.2 ⟨fun e => hacc h e (by simp), ha⟩
        · exact nodup_reverse' _ ha
      · split
        · exact ih s hids n acc hn hacc ha
        · exact nodup_reverse' _ ha
    · split
      · exact ih s hids n acc hn hacc ha
      · exact nodup_reverse' _ ha

theorem evictLoop_unused (keys : List Nat) : ∀ (s : State) (hids : List Nat) (n : Nat) (acc : List Nat) (x : Nat),
    s.hs x = none → x ∉ (evictLoop s keys hids n acc).2.1 → (evictLoop s keys hids n acc).1.hs x = none := by
  induction keys with
  | nil => intro s hids n acc x hx _; simpa [evictLoop] using hx
  | cons k ks ih =>
    intro s hids n acc x hx
    unfold evictLoop
    split; · exact fun _ => hx
    split; · exact ih s hids n acc x hx
    rename_i m hm
    split
    · split
      · split
        · rename_i h hs'
          intro hnot
          have hxh : x ≠ h := by
            intro e; subst e
            exact hnot (evictLoop_acc_sub ks _ hs' n (x :: acc) x (by simp))
          exact ih _ hs' n _ x (by rw [scanLock_hs _ _ _ _ _ hxh]; exact hx) hnot
        · exact fun _ => hx
      · split
        · exact ih s hids n acc x hx
        · exact fun _ => hx
    · split
      · exact ih s hids n acc x hx
      · exact fun _ => hx


theorem range'_fresh (s : State) (h h0 n : Nat) (hh : s.hs h = none) (hlt : h < h0) (hfree : ∀ x, h0 ≤ x → s.hs x = none) :
    s.freshList (h :: List.range' h0 n) = true := by
  unfold State.freshList
  simp only [Bool.and_eq_true, List.all_eq_true, decide_eq_true_eq]
  constructor
  · intro x hx
    rcases List.mem_cons.1 hx with e | hx
    · subst e; simp [hh]
    · have := (List.mem_range'_1.1 hx).1; simp [hfree x this]
  · rw [List.nodup_cons]
    refine ⟨fun hm => ?_, List.nodup_range' (step := 1) (by omega)⟩
    have := (List.mem_range'_1.1 hm).1; omega

/-- one round of the loop either performs the lookup or hands at least one candidate to the callback -/
theorem limitLookup_out (s : State) (h k n : Nat) (hids : List Nat) (hi : Inv s) (hfr : s.hs h = none) (hf : FreshL s hids) :
    (limitLookup s h k n hids).2 = .unit ∨ ∃ c cs, (limitLookup s h k n hids).2 = .list (c :: cs) ∧
      (evictLoop s s.order hids (s.order.length - (n - 1)) []).2.1 = c :: cs ∧
      (limitLookup s h k n hids).1 = (evictLoop s s.order hids (s.order.length - (n - 1)) []).1 := by
  have hlk : (lookup s h k).2 = .unit := by
    simp only [lookup, hi.notWedged, Bool.false_eq_true, ↓reduceIte, hfr, Option.isSome_none]
    split <;> rfl
  have hno := (inv_evictLoop s.order s hids (s.order.length - (n - 1)) [] hi hf).2
  unfold limitLookup
  simp only [hi.notWedged, Bool.false_eq_true, ↓reduceIte, hfr, Option.isSome_none]
  split
  · exact Or.inl hlk
  · split
    · rename_i site e; rw [e] at hno; cases hno
    · exact Or.inl hlk
    · rename_i s' c cs e; exact Or.inr ⟨c, cs, rfl, by rw [e], by rw [e]⟩

/-- **Termination of the eviction loop for a cooperative callback**: with fuel larger than the number of evictable
entries, the loop with the default (remove everything, return Ok) callback always reaches the lookup. -/
theorem lockPrelude_terminates (h k n : Nat) (hn : 1 ≤ n) : ∀ (fuel : Nat) (a : Api) (h0 : Nat) (tr : List RoundTrace),
    Inv a.s → a.s.hs h = none → h < h0 → (∀ x, h0 ≤ x → a.s.hs x = none) → a.s.order.length ≤ supplyLen →
    eligCount a.s < fuel →
    (match (a.lockPrelude h k (.soft n []) h0 fuel tr).2.2 with | .ok => True | _ => False) := by
  intro fuel
  induction fuel with
  | zero => intro a h0 tr _ _ _ _ _ hlt; omega
  | succ fuel ih =>
    intro a h0 tr hi hfr hlt hfree hlen hcount
    have hfl := range'_fresh a.s h h0 supplyLen hfr hlt hfree
    have hf0 := freshL_of a.s _ hfl
    have hf : FreshL a.s (List.range' h0 supplyLen) :=
      ⟨fun x hx => hf0.1 x (List.mem_cons_of_mem _ hx), (List.nodup_cons.1 hf0.2).2⟩
    have hstep : step a.s (.limitLookup h k n (List.range' h0 supplyLen)) = limitLookup a.s h k n (List.range' h0 supplyLen) := by
      simp [step, hfl, hlen, hn]
    unfold Api.lockPrelude
    simp only [hstep]
    rcases limitLookup_out a.s h k n _ hi hfr hf with e | ⟨c, cs, e1, e2, e3⟩
    · simp [e]
    · simp only [e1, List.head?_nil, Option.getD_none, defaultRound]
      -- the cooperative round
      have hs1 : Inv (limitLookup a.s h k n (List.range' h0 supplyLen)).1 := (inv_limitLookup a.s h k n _ hi hf).1
      have hsub := evictLoop_sub a.s.order a.s (List.range' h0 supplyLen) (a.s.order.length - (n - 1)) []
      have hhold := evictLoop_holding a.s.order a.s (List.range' h0 supplyLen) (a.s.order.length - (n - 1)) [] hf.2 (by simp) (by simp)
      have hdec := evictLoop_decreases a.s (List.range' h0 supplyLen) (a.s.order.length - (n - 1)) hi hf (by simpa using hlen) c cs e2
      have hord := evictLoop_order a.s.order a.s (List.range' h0 supplyLen) (a.s.order.length - (n - 1)) []
      have hother := evictLoop_hs_other a.s.order
      rw [e2] at hsub hhold
      rw [← e3] at hdec hord hhold
      have hcn : (c :: cs).Nodup := by
        have := evictLoop_nodup a.s.order a.s (List.range' h0 supplyLen) (a.s.order.length - (n - 1)) [] hf.2 (by simp) List.nodup_nil
        rw [e2] at this; exact this
      have hin : ∀ x ∈ c :: cs, h0 ≤ x := by
        intro x hx
        rcases hsub x hx with l | r
        · cases l
        · exact (List.mem_range'_1.1 r).1
      obtain ⟨g1, g2, g3, g4, g5⟩ := round_facts (c :: cs)
        { a with s := (limitLookup a.s h k n (List.range' h0 supplyLen)).1 } hs1 hcn hhold
      rw [runActs_nil_eq]
      simp only [List.tail_nil]
      have hnot : ∀ x, x ∉ c :: cs → (limitLookup a.s h k n (List.range' h0 supplyLen)).1.hs x = a.s.hs x ∨ h0 ≤ x := by
        intro x _
        by_cases hx : x ∈ List.range' h0 supplyLen
        · exact Or.inr (List.mem_range'_1.1 hx).1
        · left; rw [e3]; exact hother x a.s _ _ [] hx
      apply ih
      · exact g1
      · -- the requested handle is still unused
        have hnc : h ∉ c :: cs := fun e => by have := hin h e; omega
        rw [g4 h hnc]
        rcases hnot h hnc with e | e
        · rw [e]; exact hfr
        · omega
      · omega
      · intro x hx
        by_cases hxc : x ∈ c :: cs
        · exact g5 x hxc
        · rw [g4 x hxc]
          have hx0 : h0 ≤ x := by omega
          by_cases hxr : x ∈ List.range' h0 supplyLen
          · -- an unused id of the supply: untouched by the scan? it was fresh and is not a candidate
            rw [e3]
            have := evictLoop_unused a.s.order a.s (List.range' h0 supplyLen) (a.s.order.length - (n - 1)) [] x
              (hf.1 x hxr) (by rw [e2]; exact hxc)
            exact this
          · rw [e3, hother x a.s _ _ [] hxr]; exact hfree x hx0
      · -- the key set did not grow
        have h1 : (List.foldl rmCand { a with s := (limitLookup a.s h k n (List.range' h0 supplyLen)).1 } (c :: cs)).s.order.length
            ≤ (limitLookup a.s h k n (List.range' h0 supplyLen)).1.order.length :=
          nodup_length_le_of_subset _ _ g1.nodup g2
        rw [hord] at h1; omega
      · have h1 := eligCount_mono (limitLookup a.s h k n (List.range' h0 supplyLen)).1 _ g1.nodup g2 (fun x _ hx => g3 x hx)
        omega

end Lockable
