/-
The fuel of the API layer's eviction loop is never exhausted: for *every* callback script the loop of a lock call ends
within (rounds of the script) + (evictable entries) + 1 rounds. So `Res.bad` (the model's "out of fuel") is not a
behaviour of `Api.lock`, and no lock call spins in its eviction loop, whatever the callback does.
-/
import Lockable.Proofs.Term
import Lockable.Proofs.Linear
import Lockable.Proofs.Returns
namespace Lockable

/-- the candidates of a scan are named by the first ids of the supply, in order -/
theorem evictLoop_take (keys : List Nat) : ∀ (s : State) (hids : List Nat) (n : Nat) (acc : List Nat),
    ∃ j, (evictLoop s keys hids n acc).2.1 = acc.reverse ++ hids.take j := by
  induction keys with
  | nil => intro s hids n acc; exact ⟨0, by simp [evictLoop]⟩
  | cons k ks ih =>
    intro s hids n acc
    unfold evictLoop
    split; · exact ⟨0, by simp⟩
    split; · exact ih s hids n acc
    split
    · split
      · split
        · rename_i h hs'
          obtain ⟨j, e⟩ := ih (s.scanLock h k _) hs' n (h :: acc)
          exact ⟨j + 1, by rw [e]; simp⟩
        · exact ⟨0, by simp⟩
      · split
        · exact ih s hids n acc
        · exact ⟨0, by simp⟩
    · split
      · exact ih s hids n acc
      · exact ⟨0, by simp⟩

theorem mem_take_range' (L : Nat) : ∀ (j h0 x : Nat), x ∈ (List.range' h0 L).take j →
    h0 ≤ x ∧ x < h0 + ((List.range' h0 L).take j).length := by
  induction L with
  | zero => intro j h0 x hx; simp at hx
  | succ L ih =>
    intro j h0 x hx
    cases j with
    | zero => simp at hx
    | succ j =>
      simp only [List.range'_succ, List.take_succ_cons, List.mem_cons, List.length_cons] at hx ⊢
      rcases hx with e | hx
      · subst e; omega
      · have := ih j (h0 + 1) x hx
        omega

theorem evictLoop_ids_lt (s : State) (h0 L n : Nat) (x : Nat)
    (hx : x ∈ (evictLoop s s.order (List.range' h0 L) n []).2.1) :
    h0 ≤ x ∧ x < h0 + (evictLoop s s.order (List.range' h0 L) n []).2.1.length := by
  obtain ⟨j, e⟩ := evictLoop_take s.order s (List.range' h0 L) n []
  simp only [List.reverse_nil, List.nil_append] at e
  rw [e] at hx ⊢
  exact mem_take_range' L j h0 x hx

/-- dropping the guard `c` of key `hd.key`: invariant, no new keys, the entries of other keys and the other handles untouched -/
theorem dropGuard_facts (a : Api) (c : Nat) (hd : Handle) (hi : Inv a.s) (hh : a.s.hs c = some hd) (hst : hd.st = .holding) :
    Inv (a.dropGuard c).1.s ∧ (∀ x ∈ (a.dropGuard c).1.s.order, x ∈ a.s.order) ∧
    (∀ x, x ≠ hd.key → (a.dropGuard c).1.s.ent x = a.s.ent x) ∧
    (∀ g, g ≠ c → (a.dropGuard c).1.s.hs g = a.s.hs g) := by
  obtain ⟨m, hm, he⟩ := eeid_inv (hi.live c hd hh)
  have heo : a.s.entryOf hd = some m := by simp [State.entryOf, hm, he]
  have hs1 : (stamp a.s c).2 = .unit := by simp [stamp, hh, hst, heo]
  have hb : ∃ b, (stamp a.s c).1.hs c = some { hd with st := .stamped b } := by
    simp only [stamp, hh, hst, heo]
    exact ⟨m.value.isSome, by simp [State.setSt, upd]⟩
  obtain ⟨b, hb⟩ := hb
  refine ⟨inv_dropGuard a c hi, ?_, ?_, fun g hg => dropGuard_hs_other a c g hg⟩
  · intro x hx
    rw [dropGuard_s, if_pos hs1] at hx
    have := release_order_subset _ c (inv_stamp _ c hi) x hx
    rw [stamp_order] at this; exact this
  · intro x hx
    rw [dropGuard_s, if_pos hs1, release_ent_other _ c _ x hb hx, stamp_ent_other _ c hd x hh hx]

/-- what the callback does with one of its guards -/
def actCand (a : Api) (c : Nat) (act : CandAct) : Api :=
  match act with
  | .rm => ((a.gop_ c .remove).dropGuard c).1
  | .keep => (a.dropGuard c).1
  | .set v => ((a.gop_ c (.insert v)).dropGuard c).1
  | .stash => a

theorem runActs_cons (a : Api) (c : Nat) (cs : List Nat) (acts : List CandAct) :
    a.runActs (c :: cs) acts = (actCand a c (acts.head?.getD .rm)).runActs cs acts.tail := by
  simp only [Api.runActs, actCand]
  cases acts.head?.getD .rm <;> rfl

theorem actCand_facts (a : Api) (c : Nat) (hd : Handle) (act : CandAct) (hi : Inv a.s) (hh : a.s.hs c = some hd)
    (hst : hd.st = .holding) :
    Inv (actCand a c act).s ∧ (∀ x ∈ (actCand a c act).s.order, x ∈ a.s.order) ∧
    (∀ x, x ≠ hd.key → (actCand a c act).s.ent x = a.s.ent x) ∧
    (∀ g, g ≠ c → (actCand a c act).s.hs g = a.s.hs g) := by
  have viaGop : ∀ g : GOp, Inv ((a.gop_ c g).dropGuard c).1.s ∧ (∀ x ∈ ((a.gop_ c g).dropGuard c).1.s.order, x ∈ a.s.order) ∧
      (∀ x, x ≠ hd.key → ((a.gop_ c g).dropGuard c).1.s.ent x = a.s.ent x) ∧
      (∀ g', g' ≠ c → ((a.gop_ c g).dropGuard c).1.s.hs g' = a.s.hs g') := by
    intro g
    have hi1 : Inv (a.gop_ c g).s := inv_gop a.s c g hi
    have hh1 : (a.gop_ c g).s.hs c = some hd := by
      show (gop a.s c g).1.hs c = _
      rw [gop_hs]; exact hh
    obtain ⟨f1, f2, f3, f4⟩ := dropGuard_facts (a.gop_ c g) c hd hi1 hh1 hst
    refine ⟨f1, ?_, ?_, ?_⟩
    · intro x hx
      have := f2 x hx
      have ho : (a.gop_ c g).s.order = a.s.order := gop_order a.s c g
      rw [ho] at this; exact this
    · intro x hx
      rw [f3 x hx]
      exact C03_aux_gop_ent a.s c hd x hh hx g
    · intro g' hg'
      rw [f4 g' hg']
      show (gop a.s c g).1.hs g' = _
      rw [gop_hs]
  cases act with
  | rm => exact viaGop .remove
  | keep => exact dropGuard_facts a c hd hi hh hst
  | set v => exact viaGop (.insert v)
  | stash => exact ⟨hi, fun x hx => hx, fun x _ => rfl, fun g _ => rfl⟩

/-- one round of any callback: invariant, no new keys, only the entries of the guards' keys and only the guards' handles change -/
theorem runActs_facts (cands : List Nat) : ∀ (a : Api) (acts : List CandAct), Inv a.s → cands.Nodup →
    (∀ c ∈ cands, hst (a.s.hs c) = some .holding) →
    Inv (a.runActs cands acts).s ∧ (∀ x ∈ (a.runActs cands acts).s.order, x ∈ a.s.order) ∧
    (∀ x, (∀ c ∈ cands, hkey (a.s.hs c) ≠ some x) → (a.runActs cands acts).s.ent x = a.s.ent x) ∧
    (∀ g, g ∉ cands → (a.runActs cands acts).s.hs g = a.s.hs g) := by
  induction cands with
  | nil => intro a acts hi _ _; exact ⟨hi, fun x hx => hx, fun x _ => rfl, fun g _ => rfl⟩
  | cons c cs ih =>
    intro a acts hi hn hall
    have ⟨hn1, hn2⟩ := List.nodup_cons.1 hn
    obtain ⟨hd, e1, e2⟩ := hst_inv (hall c (by simp))
    rw [runActs_cons]
    obtain ⟨f1, f2, f3, f4⟩ := actCand_facts a c hd (acts.head?.getD .rm) hi e1 e2
    have hall' : ∀ x ∈ cs, hst ((actCand a c (acts.head?.getD .rm)).s.hs x) = some .holding := by
      intro x hx
      rw [f4 x (fun e => hn1 (e ▸ hx))]; exact hall x (List.mem_cons_of_mem _ hx)
    obtain ⟨g1, g2, g3, g4⟩ := ih (actCand a c (acts.head?.getD .rm)) acts.tail f1 hn2 hall'
    refine ⟨g1, fun x hx => f2 x (g2 x hx), ?_, ?_⟩
    · intro x hx
      have hxc : x ≠ hd.key := by
        intro e
        have := hx c (by simp)
        rw [e1] at this; simp [e] at this
      rw [g3 x (fun c' hc' => by
        rw [f4 c' (fun e => hn1 (e ▸ hc'))]; exact hx c' (List.mem_cons_of_mem _ hc')), f3 x hxc]
    · intro g hg
      have hgc : g ≠ c := fun e => hg (by rw [e]; simp)
      have hgcs : g ∉ cs := fun e => hg (List.mem_cons_of_mem _ e)
      rw [g4 g hgcs, f4 g hgc]

/-- the keys of the candidates of a scan were evictable before the scan -/
theorem evictLoop_cand_keys (s : State) (hids : List Nat) (n : Nat) (hi : Inv s) (hf : FreshL s hids)
    (hlen : s.order.length ≤ hids.length) :
    ∀ c ∈ (evictLoop s s.order hids n []).2.1, ∀ x, hkey ((evictLoop s s.order hids n []).1.hs c) = some x → eligB s x = true := by
  intro c hc x hx
  have hex := evictLoop_exact s.order s hids n [] hi hi.nodup hf hlen (by simp)
  simp only [List.length_nil, List.take_zero, List.reverse_nil, List.drop_zero, Nat.sub_zero, true_and] at hex
  have : keyOfH (evictLoop s s.order hids n []).1 c ∈ (s.order.filter (eligB s)).take n := by
    rw [← hex]; exact List.mem_map_of_mem hc
  have h2 := (List.mem_filter.1 (List.mem_of_mem_take this)).2
  have : keyOfH (evictLoop s s.order hids n []).1 c = x := by simp [keyOfH, hx]
  rw [this] at h2; exact h2

/-- **The eviction loop of a lock call ends, whatever the callback does**: with the fuel the API layer gives it
(rounds of the script + evictable entries + 1 suffice) the loop never runs out of fuel. -/
theorem lockPrelude_fuel (h k n : Nat) (hn : 1 ≤ n) : ∀ (fuel : Nat) (a : Api) (script : List Round) (h0 : Nat) (tr : List RoundTrace),
    Inv a.s → a.s.hs h = none → h < h0 → (∀ x, h0 ≤ x → a.s.hs x = none) → a.s.order.length ≤ supplyLen →
    script.length + eligCount a.s < fuel →
    (match (a.lockPrelude h k (.soft n script) h0 fuel tr).2.2 with | .bad => False | _ => True) := by
  intro fuel
  induction fuel with
  | zero => intro a script h0 tr _ _ _ _ _ hlt; omega
  | succ fuel ih =>
    intro a script h0 tr hi hfr hlt hfree hlen hcount
    have hfl := range'_fresh a.s h h0 supplyLen hfr hlt hfree
    have hf0 := freshL_of a.s _ hfl
    have hf : FreshL a.s (List.range' h0 supplyLen) :=
      ⟨fun x hx => hf0.1 x (List.mem_cons_of_mem _ hx), (List.nodup_cons.1 hf0.2).2⟩
    have hstep : step a.s (.limitLookup h k n (List.range' h0 supplyLen)) = limitLookup a.s h k n (List.range' h0 supplyLen) := by
      simp [step, hfl, hlen, hn]
    unfold Api.lockPrelude
    simp only [hstep]
    rcases limitLookup_out a.s h k n _ hi hfr hf with e | ⟨c, cs, e1, e2, e3⟩
    · simp [e]
    · simp only [e1]
      -- facts about the scan
      have hs1 : Inv (limitLookup a.s h k n (List.range' h0 supplyLen)).1 := (inv_limitLookup a.s h k n _ hi hf).1
      have hhold := evictLoop_holding a.s.order a.s (List.range' h0 supplyLen) (a.s.order.length - (n - 1)) [] hf.2 (by simp) (by simp)
      have hdec := evictLoop_decreases a.s (List.range' h0 supplyLen) (a.s.order.length - (n - 1)) hi hf (by simpa using hlen) c cs e2
      have hord := evictLoop_order a.s.order a.s (List.range' h0 supplyLen) (a.s.order.length - (n - 1)) []
      have hother := evictLoop_hs_other a.s.order
      have hel1 := evictLoop_elig a.s.order a.s (List.range' h0 supplyLen) (a.s.order.length - (n - 1)) []
      have hck := evictLoop_cand_keys a.s (List.range' h0 supplyLen) (a.s.order.length - (n - 1)) hi hf (by simpa using hlen)
      have hids := fun x => evictLoop_ids_lt a.s h0 supplyLen (a.s.order.length - (n - 1)) x
      rw [e2] at hhold hck hids
      rw [← e3] at hdec hord hhold hel1 hck
      have hcn : (c :: cs).Nodup := by
        have := evictLoop_nodup a.s.order a.s (List.range' h0 supplyLen) (a.s.order.length - (n - 1)) [] hf.2 (by simp) List.nodup_nil
        rw [e2] at this; exact this
      generalize hS1 : (limitLookup a.s h k n (List.range' h0 supplyLen)).1 = s1 at hs1 hdec hord hhold hel1 hck e3 ⊢
      -- the round, whatever it does
      obtain ⟨g1, g2, g3, g4⟩ := runActs_facts (c :: cs) { a with s := s1 } (script.head?.getD defaultRound).acts hs1 hcn hhold
      generalize ha2 : ({ a with s := s1 } : Api).runActs (c :: cs) (script.head?.getD defaultRound).acts = a2 at g1 g2 g3 g4
      simp only [] at g2 g3 g4
      have hnot : ∀ x, s1.hs x = a.s.hs x ∨ (h0 ≤ x ∧ x ∈ List.range' h0 supplyLen) := by
        intro x
        by_cases hx : x ∈ List.range' h0 supplyLen
        · exact Or.inr ⟨(List.mem_range'_1.1 hx).1, hx⟩
        · left; rw [e3]; exact hother x a.s _ _ [] hx
      have hnc : h ∉ c :: cs := fun e => by have := (hids h e).1; omega
      have hfr2 : a2.s.hs h = none := by
        rw [g4 h hnc]
        rcases hnot h with e | e
        · rw [e]; exact hfr
        · omega
      have hfree2 : ∀ x, h0 + (c :: cs).length ≤ x → a2.s.hs x = none := by
        intro x hx
        have hxc : x ∉ c :: cs := fun e => by have := (hids x e).2; omega
        rw [g4 x hxc]
        by_cases hxr : x ∈ List.range' h0 supplyLen
        · rw [e3]
          exact evictLoop_unused a.s.order a.s (List.range' h0 supplyLen) (a.s.order.length - (n - 1)) [] x
            (hf.1 x hxr) (by rw [e2]; exact hxc)
        · rw [e3, hother x a.s _ _ [] hxr]; exact hfree x (by omega)
      have hlen2 : a2.s.order.length ≤ supplyLen := by
        have h1 := nodup_length_le_of_subset _ _ g1.nodup g2
        rw [hord] at h1; omega
      -- evictable entries do not become more
      have hle : eligCount a2.s ≤ eligCount a.s := by
        apply eligCount_mono a.s _ g1.nodup
        · intro x hx; have := g2 x hx; rw [hord] at this; exact this
        · intro x _ hx
          by_cases hk : ∀ c' ∈ c :: cs, hkey (s1.hs c') ≠ some x
          · have := g3 x hk
            simp only [eligB, this] at hx
            exact hel1 x (by simpa [eligB] using hx)
          · have : ∃ c', c' ∈ c :: cs ∧ hkey (s1.hs c') = some x := by
              false_or_by_contra
              rename_i hcontra
              exact hk (fun c' hc' e => hcontra ⟨c', hc', e⟩)
            obtain ⟨c', hc', hk'⟩ := this
            exact hck c' hc' x hk'
      cases hfin : (script.head?.getD defaultRound).fin with
      | panic => simp
      | pendOk => simp
      | pendErr => simp
      | err => simp
      | latePanic => simp
      | ok =>
        simp only [reduceCtorEq, ↓reduceIte]
        apply ih
        · exact g1
        · exact hfr2
        · omega
        · exact hfree2
        · exact hlen2
        · cases script with
          | cons r rest => simp only [List.tail_cons, List.length_cons] at hcount ⊢; omega
          | nil =>
            -- the default round removes what it is given: strictly fewer evictable entries
            simp only [List.head?_nil, Option.getD_none, defaultRound, List.tail_nil, List.length_nil, Nat.zero_add] at hcount ha2 ⊢
            rw [runActs_nil_eq] at ha2
            subst ha2
            obtain ⟨r1, r2, r3, _, _⟩ := round_facts (c :: cs) { a with s := s1 } hs1 hcn hhold
            have h1 := eligCount_mono s1 _ r1.nodup r2 (fun x _ hx => r3 x hx)
            omega

/-- **`Res.bad` is not a behaviour of a soft-limited lock call**, for any variant and any callback script: the fuel suffices
(`lockPrelude_fuel`), and when the loop ends with the lookup the caller owns a handle for the key. -/
theorem lock_never_bad (a : Api) (v : Variant) (h k n : Nat) (script : List Round) (h0 : Nat) (hn : 1 ≤ n) (hi : Inv a.s)
    (hfr : a.s.hs h = none) (hlt : h < h0) (hfree : ∀ x, h0 ≤ x → a.s.hs x = none) (hlen : a.s.order.length ≤ supplyLen) :
    (match (a.lock v h k (.soft n script) h0).2.res with | .bad => False | _ => True) := by
  have hfuel := lockPrelude_fuel h k n hn (script.length + a.s.order.length + 2) a script h0 [] hi hfr hlt hfree hlen (by
    have : eligCount a.s ≤ a.s.order.length := by unfold eligCount; exact List.length_filter_le _ _
    omega)
  have hlooked := lockPrelude_ok_looked h k (script.length + a.s.order.length + 2) a (.soft n script) h0 [] hi hfr
  unfold Api.lock
  simp only []
  generalize a.lockPrelude h k (.soft n script) h0 (script.length + a.s.order.length + 2) [] = r at hfuel hlooked
  obtain ⟨a1, tr, res⟩ := r
  simp only [] at hfuel hlooked ⊢
  cases res with
  | ok =>
    simp only []
    obtain ⟨hd, m, e1, e2, e3, e4⟩ := hlooked trivial
    simp only [e1]
    by_cases hst : hd.st = .holding
    · simp only [hst, ↓reduceIte]
    · simp only [hst, ↓reduceIte]
      cases v with
      | wait =>
        simp only []
        generalize (enqueue a1.s h).2 = o
        cases o <;> try trivial
        rename_i b; cases b <;> trivial
      | «try» =>
        simp only []
        generalize (tryKey a1.s h).2 = o
        cases o <;> try trivial
        rename_i b
        cases b
        · simp only []
          generalize (cleanupFailed (tryKey a1.s h).1 h).2 = o2
          cases o2 <;> trivial
        · trivial
  | bad => exact hfuel
  | suspended cands => trivial
  | _ => trivial

end Lockable
