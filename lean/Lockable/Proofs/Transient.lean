/-
The two spurious actions of the model are exactly what a per-key operation sees when it lands inside the transient
lock-then-release window of a scan (supports the atomicity reduction, DESIGN.md §3.3).
-/
import Lockable.Proofs.Inv
namespace Lockable

/-- a scan (holding the global lock) drops the raw `ReplicaOwnedMutexGuard` `c` it had obtained with
`PrimaryArc::clone(mutex).try_lock_owned()` on key `k` without going through a `Guard`: the tokio mutex is released (hand-off to the
oldest waiter), the handle goes away, no clean-up (exception of rule 2C: the global lock was held since the clone) -/
def transientDrop (s : State) (c k : Nat) : State :=
  match s.ent k with
  | some m => { s with ent := upd s.ent k (some (handoff m c)), hs := upd s.hs c none }
  | none => s

theorem ent_ext_lemma (s : State) (k : Nat) (m : Entry) (hm : s.ent k = some m) : upd s.ent k (some m) = s.ent := by
  funext x; simp only [upd]; split
  · rename_i e; rw [e, hm]
  · rfl

theorem upd_upd_same {α : Type} (f : Nat → Option α) (k : Nat) (v w : Option α) : upd (upd f k v) k w = upd f k w := by
  funext x; simp only [upd]; split <;> rfl

theorem upd_none_fresh {α : Type} (f : Nat → Option α) (c : Nat) (hc : f c = none) : upd f c none = f := by
  funext x; simp only [upd]; split
  · rename_i e; rw [e, hc]
  · rfl

/-- **Why `trySpurious` exists.** A scan of another thread try-locks the free mutex of key `k` and releases it again (l.633-644:
a valueless placeholder; or, in the expiry scan, an entry that does not match). A `try_lock_owned` of handle `h` that
lands inside that window fails although no guard exists. The fine-grained execution
`scan locks; tryKey h; scan releases` ends in exactly the state of the atomic model's `trySpurious h`. -/
theorem transient_try_is_spurious (s : State) (c h k : Nat) (m : Entry) (hd : Handle)
    (hm : s.ent k = some m) (hfree : m.holder = none) (hq : m.queue = []) (hc : s.hs c = none) (hch : c ≠ h)
    (hh : s.hs h = some hd) (hst : hd.st = .replica) (hk : hd.key = k) (he : m.eid = hd.eid) (hcr : c ∉ m.refs) :
    transientDrop (tryKey (s.scanLock c k m) h).1 c k = (trySpurious s h).1 ∧
    (tryKey (s.scanLock c k m) h).2 = (trySpurious s h).2 := by
  subst hk
  have hh1 : (s.scanLock c hd.key m).hs h = some hd := by simp [State.scanLock, upd, Ne.symm hch, hh]
  have heo1 : (s.scanLock c hd.key m).entryOf hd = some { m with refs := c :: m.refs, holder := some c } := by
    simp [State.entryOf, State.scanLock, upd, he]
  have ht : tryKey (s.scanLock c hd.key m) h = ((s.scanLock c hd.key m).setSt h hd .failedTry, .bool false) := by
    simp [tryKey, hh1, hst, heo1]
  have hs : trySpurious s h = (s.setSt h hd .failedTry, .bool false) := by simp [trySpurious, hh, hst]
  rw [ht, hs]
  refine ⟨?_, rfl⟩
  simp only [transientDrop, State.setSt, State.scanLock, upd_same]
  have hent : upd (upd s.ent hd.key (some { m with refs := c :: m.refs, holder := some c })) hd.key
      (some (handoff { m with refs := c :: m.refs, holder := some c } c)) = s.ent := by
    rw [upd_upd_same]
    have : handoff { m with refs := c :: m.refs, holder := some c } c = m := by
      cases m; simp_all [handoff]
    rw [this]; exact ent_ext_lemma s hd.key m hm
  have hhs : upd (upd (upd s.hs c (some ⟨hd.key, m.eid, .holding⟩)) h (some { hd with st := .failedTry })) c none
      = upd s.hs h (some { hd with st := .failedTry }) := by
    funext x; simp only [upd]
    by_cases e1 : x = c
    · subst e1; simp [hch, hc]
    · simp [e1]
  simp only [hent, hhs]

/-- **Why `enqueueLate` exists.** The same window, hit by the first poll of a `lock_owned()`: the waiter queues behind the scan's
transient lock and is handed the mutex when the scan releases it — it owns the lock but completes one poll later. -/
theorem transient_enqueue_is_late (s : State) (c h k : Nat) (m : Entry) (hd : Handle)
    (hm : s.ent k = some m) (hfree : m.holder = none) (hq : m.queue = []) (hc : s.hs c = none) (hch : c ≠ h)
    (hh : s.hs h = some hd) (hst : hd.st = .replica) (hk : hd.key = k) (he : m.eid = hd.eid) (hcr : c ∉ m.refs) :
    transientDrop (enqueue (s.scanLock c k m) h).1 c k = (enqueueLate s h).1 ∧
    (enqueue (s.scanLock c k m) h).2 = (enqueueLate s h).2 := by
  subst hk
  have hh1 : (s.scanLock c hd.key m).hs h = some hd := by simp [State.scanLock, upd, Ne.symm hch, hh]
  have heo1 : (s.scanLock c hd.key m).entryOf hd = some { m with refs := c :: m.refs, holder := some c } := by
    simp [State.entryOf, State.scanLock, upd, he]
  have heo : s.entryOf hd = some m := by simp [State.entryOf, hm, he]
  have ht : enqueue (s.scanLock c hd.key m) h =
      (((s.scanLock c hd.key m).setEnt hd.key { m with refs := c :: m.refs, holder := some c, queue := m.queue ++ [h] }).setSt h hd .queued,
       .bool false) := by
    simp [enqueue, hh1, hst, heo1]
  have hs : enqueueLate s h = ((s.setEnt hd.key { m with holder := some h }).setSt h hd .queued, .bool false) := by
    simp [enqueueLate, hh, hst, heo, hfree]
  rw [ht, hs]
  refine ⟨?_, rfl⟩
  simp only [transientDrop, State.setSt, State.setEnt, State.scanLock, upd_same]
  have hent : upd (upd (upd s.ent hd.key (some { m with refs := c :: m.refs, holder := some c })) hd.key
        (some { m with refs := c :: m.refs, holder := some c, queue := m.queue ++ [h] })) hd.key
      (some (handoff { m with refs := c :: m.refs, holder := some c, queue := m.queue ++ [h] } c))
      = upd s.ent hd.key (some { m with holder := some h }) := by
    rw [upd_upd_same, upd_upd_same]
    have : handoff { m with refs := c :: m.refs, holder := some c, queue := m.queue ++ [h] } c = { m with holder := some h } := by
      cases m; simp_all [handoff]
    rw [this]
  have hhs : upd (upd (upd s.hs c (some ⟨hd.key, m.eid, .holding⟩)) h (some { hd with st := .queued })) c none
      = upd s.hs h (some { hd with st := .queued }) := by
    funext x; simp only [upd]
    by_cases e1 : x = c
    · subst e1; simp [hch, hc]
    · simp [e1]
  simp only [hent, hhs]

end Lockable
