/-
Theorem C, outputs: what an action answers is determined by the abstract state — a try or an uncontended
wait gets the key iff it is free there, a waiter is served iff the key has no guard and it is first in line,
a guard method answers what the plain map answers.
-/
import Lockable.Proofs.Linear
set_option linter.unusedSimpArgs false
namespace Lockable

theorem enqueue_iff_free (s : State) (hi : Inv s) (h : Nat) (hd : Handle) (hh : s.hs h = some hd) (hst1 : hd.st = .replica) :
    ((enqueue s h).2 = .bool true ↔ (absSpec s).free hd.key = true) ∧
    ((enqueue s h).2 = .bool false ↔ (absSpec s).free hd.key = false) := by
  obtain ⟨m, hm, he⟩ := eeid_inv (hi.live h hd hh)
  have heo : s.entryOf hd = some m := by simp [State.entryOf, hm, he]
  simp only [enqueue, hh, hst1, ↓reduceIte, heo]
  by_cases hho : m.holder = none
  · have hq := hi.freeNoQueue _ m hm hho
    simp [hho, Spec.free, absSpec, heldOf, waitingOf, waitersOf, hm, hq]
  · obtain ⟨w, hw⟩ : ∃ w, m.holder = some w := by cases hx : m.holder <;> simp_all
    simp only [hw, Option.isNone_some, Bool.false_eq_true, ↓reduceIte, Out.bool.injEq,
      Spec.free, absSpec, heldOf, waitingOf, waitersOf, hm]
    by_cases hq : hst (s.hs w) = some .queued <;> simp [hq]

/-- a pending acquisition completes exactly when the abstraction has no guard for the key and the waiter first in line -/
theorem acquire_iff_grantable (s : State) (hi : Inv s) (h : Nat) (hd : Handle) (hh : s.hs h = some hd) (hst1 : hd.st = .queued) :
    (acquire s h).2 = .bool true ↔
      ((absSpec s).held hd.key = none ∧ ((absSpec s).waiting hd.key).head? = some h) := by
  obtain ⟨m, hm, he⟩ := eeid_inv (hi.live h hd hh)
  have heo : s.entryOf hd = some m := by simp [State.entryOf, hm, he]
  simp only [acquire, hh, hst1, ↓reduceIte, heo]
  by_cases hho : m.holder = some h
  · simp [hho, absSpec, heldOf, waitingOf, waitersOf, hm, hh, hst1]
  · simp only [hho, ↓reduceIte, reduceCtorEq, false_iff, not_and, absSpec, heldOf, waitingOf, waitersOf, hm]
    have hin : h ∈ m.queue := (hi.queue hd.key m hm h).2 ⟨by simp [hh], by simp [hh, hst1], hho⟩
    cases hw : m.holder with
    | none =>
      have := hi.freeNoQueue _ m hm hw
      rw [this] at hin; cases hin
    | some w =>
      have hwh : w ≠ h := fun e => hho (by rw [hw, e])
      by_cases hq : hst (s.hs w) = some .queued
      · simp [hq, hwh]
      · simp [hq]

/-- a guard method answers what the plain map `vals` of the abstraction answers, and stores what it stores -/
theorem gop_out_spec (s : State) (hi : Inv s) (h : Nat) (hd : Handle) (g : GOp) (hh : s.hs h = some hd) (hst1 : hd.st = .holding) :
    (gop s h g).2 = (match g with | .key => Out.nat hd.key | _ => (specOp ((absSpec s).vals hd.key) g).2) ∧
    absVal (gop s h g).1 hd.key = (specOp ((absSpec s).vals hd.key) g).1 := by
  obtain ⟨m, hm, he⟩ := eeid_inv (hi.live h hd hh)
  have heo : s.entryOf hd = some m := by simp [State.entryOf, hm, he]
  have hv : (absSpec s).vals hd.key = m.value.map (·.val) := by simp [absSpec, absVal, hm, valOf]
  rw [hv]
  cases g <;> cases hmv : m.value <;>
    simp [gop, hh, hst1, heo, hmv, specOp, absVal, valOf, State.setEnt, upd, hm]

end Lockable
