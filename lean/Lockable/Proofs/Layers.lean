/-
The API layer and the scheduled interpreter only ever compose atomic actions: every state they reach
satisfies the invariant, so Theorem A and all state theorems apply to everything the correspondence
check executes on the model side.
-/
import Lockable.Proofs.Refine
import Lockable.Model.Sched
namespace Lockable

theorem inv_cancelHandle (a : Api) (h : Nat) (hi : Inv a.s) : Inv (a.cancelHandle h).1.s := by
  unfold Api.cancelHandle
  simp only []
  split
  · simp only [woken_s]; exact inv_cancel a.s h hi
  · exact inv_cancel a.s h hi

theorem inv_lockPrelude (h k : Nat) : ∀ (fuel : Nat) (a : Api) (limit : Limit) (h0 : Nat) (tr : List RoundTrace),
    Inv a.s → Inv (a.lockPrelude h k limit h0 fuel tr).1.s := by
  intro fuel
  induction fuel with
  | zero => intro a limit h0 tr hi; simpa [Api.lockPrelude] using hi
  | succ fuel ih =>
    intro a limit h0 tr hi
    unfold Api.lockPrelude
    cases limit with
    | none => exact inv_lookup a.s h k hi
    | soft n script =>
      simp only []
      have hstep : Inv (step a.s (.limitLookup h k n (List.range' h0 supplyLen))).1 := inv_step _ _ hi
      split
      · exact hstep
      · split
        · exact inv_dropAll _ _ hstep
        · exact hstep
        · exact hstep
        · have hi2 := fun cands => inv_runActs cands { a with s := (step a.s (.limitLookup h k n (List.range' h0 supplyLen))).1 }
            (script.head?.getD defaultRound).acts hstep
          split
          · exact hi2 _
          · split
            · exact hi2 _
            · exact ih _ _ _ _ (hi2 _)
      · exact hstep

theorem inv_lock (a : Api) (v : Variant) (h k : Nat) (limit : Limit) (h0 : Nat) (hi : Inv a.s) :
    Inv (a.lock v h k limit h0).1.s := by
  unfold Api.lock
  simp only []
  repeat' split
  all_goals first
    | exact inv_lockPrelude h k _ a _ h0 [] hi
    | exact inv_enqueue _ h (inv_lockPrelude h k _ a _ h0 [] hi)
    | exact inv_tryKey _ h (inv_lockPrelude h k _ a _ h0 [] hi)
    | exact inv_cleanupFailed _ h (inv_tryKey _ h (inv_lockPrelude h k _ a _ h0 [] hi))

theorem inv_spollLoop (sid : Nat) : ∀ (fuel : Nat) (a : Api), Inv a.s → Inv (a.spollLoop sid fuel).1.s := by
  intro fuel
  induction fuel with
  | zero => intro a hi; exact hi
  | succ fuel ih =>
    intro a hi
    unfold Api.spollLoop
    split
    · exact hi
    · split
      · exact hi
      · simp only []
        rename_i st w rest _
        have hip : Inv (itemPoll a.s w).1 := by
          unfold itemPoll
          split
          · simp only []
            split <;> (repeat' split) <;> first | exact inv_enqueue a.s w hi | exact inv_acquire a.s w hi
          · exact hi
        split
        · exact hip
        · apply ih; exact inv_dropGuard _ w hip
        · apply ih; exact hip
        · exact hip

theorem inv_resume (a : Api) (h : Nat) (su : Susp) (hi : Inv a.s) : Inv (a.resume h su).1.s := by
  unfold Api.resume
  simp only []
  have hi2 := inv_runActs (su.cands.map Prod.fst) { a with susp := a.susp.filter fun (i, _) => i ≠ h }
    (su.script.head?.getD defaultRound).acts hi
  split
  · exact hi2
  · exact hi2
  · exact hi2
  · exact inv_lock _ su.v h su.k _ su.h0 hi2

theorem inv_abandon (a : Api) (h : Nat) (su : Susp) (hi : Inv a.s) : Inv (a.abandon h su).s := by
  unfold Api.abandon
  exact inv_dropAll _ _ hi

theorem inv_exec (a : Api) (c : Call) (hi : Inv a.s) : Inv (a.exec c).1.s := by
  cases c with
  | lock v h k limit h0 => exact inv_lock a v h k limit h0 hi
  | poll h =>
    simp only [Api.exec]
    split; · exact hi
    split
    · exact inv_resume a h _ hi
    · exact inv_acquire a.s h hi
  | cancel h =>
    simp only [Api.exec]
    split; · exact hi
    split
    · exact inv_abandon a h _ hi
    · exact inv_cancelHandle a h hi
  | op h g =>
    simp only [Api.exec]
    split
    · exact hi
    · exact inv_gop a.s h g hi
  | drop h =>
    simp only [Api.exec]
    split
    · exact hi
    · exact inv_dropGuard a h hi
  | count => exact hi
  | keys => exact hi
  | adv d => exact { hi with }
  | expire d h0 =>
    simp only [Api.exec]
    have := inv_step a.s (.expire (cutoffOf a.s d) (List.range' h0 supplyLen)) hi
    split <;> exact this
  | lockAll sid h0 =>
    simp only [Api.exec]
    split
    · exact hi
    · have := inv_step a.s (.snapshot (List.range' h0 supplyLen)) hi
      split <;> exact this
  | spoll sid => exact inv_spollLoop sid _ a hi
  | sdrop sid =>
    simp only [Api.exec]
    split
    · rename_i st _
      have : ∀ (l : List Nat) (b : Api), Inv b.s → Inv (l.foldl (fun a h => (a.cancelHandle h).1) b).s := by
        intro l
        induction l with
        | nil => intro b hb; exact hb
        | cons x xs ih => intro b hb; exact ih _ (inv_cancelHandle b x hb)
      exact this _ _ hi
    · exact hi
  | into => exact hi
  | reorder perm =>
    simp only [Api.exec]
    exact inv_step a.s (.reorder perm) hi

/-- every sequence of API calls from the empty container keeps the invariant -/
theorem inv_execs (cs : List Call) : ∀ (a : Api), Inv a.s → Inv (cs.foldl (fun a c => (a.exec c).1) a).s := by
  induction cs with
  | nil => intro a hi; exact hi
  | cons c cs ih => intro a hi; exact ih _ (inv_exec a c hi)

/-! scheduled interpreter -/

theorem inv_itemGot (s : State) (th : Thread) (w : Nat) (evs : List Event) (hi : Inv s) : Inv (itemGot s th w evs).1 := by
  unfold itemGot
  simp only []
  split
  · exact hi
  · exact inv_stamp s _ hi

theorem inv_spollRun : ∀ (fuel : Nat) (s : State) (th : Thread) (evs : List Event), Inv s → Inv (spollRun s th evs fuel).1 := by
  intro fuel
  induction fuel with
  | zero => intro s th evs hi; exact hi
  | succ fuel ih =>
    intro s th evs hi
    unfold spollRun
    repeat' split
    all_goals (try simp only [])
    all_goals repeat' split
    all_goals first
      | exact hi
      | exact inv_itemGot _ _ _ _ (inv_acquire s _ hi)
      | exact ih _ _ _ (inv_acquire s _ hi)
      | exact inv_acquire s _ hi

theorem inv_advance (t : Nat) : ∀ (fuel : Nat) (s : State) (th : Thread) (evs : List Event),
    Inv s → Inv (advance s t th evs fuel).1 := by
  intro fuel
  induction fuel with
  | zero => intro s th evs hi; exact hi
  | succ fuel ih =>
    intro s th evs hi
    unfold advance
    repeat' split
    all_goals (try simp only [])
    all_goals repeat' split
    all_goals first
      | exact hi
      | exact inv_stamp s _ hi
      | exact ih _ _ _ hi
      | exact ih _ _ _ (inv_gop s _ _ hi)
      | exact ih _ _ _ (inv_acquire s _ hi)
      | exact ih _ _ _ (inv_spollRun _ s _ _ hi)
      | exact inv_spollRun _ s _ _ hi

theorem inv_gotGuard (s : State) (t : Nat) (th : Thread) (slot : Nat) (evs : List Event) (hi : Inv s) :
    Inv (gotGuard s t th slot evs).1 := inv_advance t _ s _ _ hi

theorem inv_processCands (s : State) (th : Thread) (cands : List Nat) (slot : Nat) (v : Variant) (k n : Nat)
    (evs : List Event) (hi : Inv s) : Inv (processCands s th cands slot v k n evs).1 := by
  unfold processCands
  split
  · exact hi
  · exact inv_stamp _ _ (inv_gop s _ _ hi)

theorem inv_processExpired (s : State) (t : Nat) (th : Thread) (gs : List Nat) (evs : List Event) (hi : Inv s) :
    Inv (processExpired s t th gs evs).1 := by
  unfold processExpired
  split
  · exact inv_advance t _ _ _ _ hi
  · exact inv_stamp _ _ hi

theorem inv_stepThread (s : State) (t : Nat) (th : Thread) (hi : Inv s) : Inv (stepThread s t th).1 := by
  unfold stepThread
  simp only []
  repeat' split
  all_goals first
    | exact hi
    | exact inv_advance t _ _ _ _ hi
    | exact inv_gotGuard _ t _ _ _ hi
    | exact inv_lookup s _ _ hi
    | exact inv_step s _ hi
    | exact inv_enqueue s _ hi
    | exact inv_tryKey s _ hi
    | exact inv_acquire s _ hi
    | exact inv_cancel s _ hi
    | exact inv_cleanupFailed s _ hi
    | exact inv_release s _ hi
    | exact inv_processCands _ _ _ _ _ _ _ _ (inv_step s _ hi)
    | exact inv_processCands _ _ _ _ _ _ _ _ (inv_release s _ hi)
    | exact inv_processExpired _ t _ _ _ (inv_step s _ hi)
    | exact inv_processExpired _ t _ _ _ (inv_release s _ hi)
    | exact inv_gotGuard _ t _ _ _ (inv_enqueue s _ hi)
    | exact inv_gotGuard _ t _ _ _ (inv_tryKey s _ hi)
    | exact inv_gotGuard _ t _ _ _ (inv_acquire s _ hi)
    | exact inv_advance t _ _ _ _ (inv_enqueue s _ hi)
    | exact inv_advance t _ _ _ _ (inv_cancel s _ hi)
    | exact inv_advance t _ _ _ _ (inv_cleanupFailed s _ hi)
    | exact inv_advance t _ _ _ _ (inv_release s _ hi)
    | exact inv_advance t _ _ _ _ (inv_step s .count hi)
    | exact inv_advance t _ _ _ _ (inv_step s .keys hi)
    | exact inv_advance t _ _ _ _ (inv_step s _ hi)
    | exact inv_advance t _ _ _ _ (inv_spollRun _ _ _ _ (inv_release s _ hi))
    | exact inv_spollRun _ _ _ _ (inv_release s _ hi)
    | exact inv_advance t _ _ _ _ (inv_itemGot _ _ _ _ (inv_enqueue s _ hi))
    | exact inv_itemGot _ _ _ _ (inv_enqueue s _ hi)
    | exact inv_advance t _ _ _ _ (inv_spollRun _ _ _ _ (inv_enqueue s _ hi))
    | exact inv_spollRun _ _ _ _ (inv_enqueue s _ hi)

/-- every schedule of every set of thread programs keeps the invariant -/
theorem inv_schedStep (sc : Sched) (t : Nat) (hi : Inv sc.s) : Inv (sc.step t).1.s := by
  unfold Sched.step
  split
  · exact hi
  · split
    · exact inv_stepThread sc.s t _ hi
    · exact hi

end Lockable
