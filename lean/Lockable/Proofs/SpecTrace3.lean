/-
Progress fact of the atomic specification: it is never stuck on a key.
-/
import Lockable.Proofs.SpecTrace2
namespace Lockable

/-- whenever somebody waits for a key, either its guard can release it or the first waiter can be granted it:
the specification never deadlocks on a key -/
theorem spec_never_stuck (sp : Spec) (k : Nat) (hw : sp.waiting k ≠ []) :
    (∃ h, sp.held k = some h ∧ (applyEv sp (.release h k)).isSome) ∨
    (∃ h, (sp.waiting k).head? = some h ∧ (applyEv sp (.grant h k)).isSome) := by
  cases hh : sp.held k with
  | some h => exact Or.inl ⟨h, rfl, by simp [applyEv, hh]⟩
  | none =>
    cases hq : sp.waiting k with
    | nil => exact absurd hq hw
    | cons w t => exact Or.inr ⟨w, rfl, by simp [applyEv, hh, hq]⟩

end Lockable
