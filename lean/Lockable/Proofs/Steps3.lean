/-
Theorem A, continued: scans (eviction candidates, expiry, `lock_all_entries` snapshot) and the
remaining actions; `inv_step` and `inv_run`.
-/
import Lockable.Proofs.Steps2
namespace Lockable

theorem inv_scanLock (s : State) (h k : Nat) (m : Entry) (hi : Inv s) (hf : s.hs h = none)
    (hm : s.ent k = some m) (hfree : m.holder = none) : Inv (s.scanLock h k m) := by
  inv_close

theorem inv_clone (s : State) (h k : Nat) (m : Entry) (hi : Inv s) (hf : s.hs h = none)
    (hm : s.ent k = some m) : Inv (s.clone h k m) := by
  inv_close

theorem scanLock_hs (s : State) (h k : Nat) (m : Entry) (x : Nat) (hx : x ≠ h) :
    (s.scanLock h k m).hs x = s.hs x := by simp [State.scanLock, upd, hx]
theorem clone_hs (s : State) (h k : Nat) (m : Entry) (x : Nat) (hx : x ≠ h) :
    (s.clone h k m).hs x = s.hs x := by simp [State.clone, upd, hx]

def FreshL (s : State) (hids : List Nat) : Prop := (∀ h ∈ hids, s.hs h = none) ∧ hids.Nodup

theorem freshL_of (s : State) (hids : List Nat) (h : s.freshList hids = true) : FreshL s hids := by
  unfold State.freshList at h
  simp at h
  exact ⟨fun x hx => h.1 x hx, h.2⟩

theorem freshL_tail_scanLock (s : State) (h k : Nat) (m : Entry) (hs' : List Nat) (hf : FreshL s (h :: hs')) :
    FreshL (s.scanLock h k m) hs' := by
  obtain ⟨h1, h2⟩ := hf
  simp at h2
  refine ⟨fun x hx => ?_, h2.2⟩
  have hne : x ≠ h := fun e => h2.1 (by rw [← e]; exact hx)
  rw [scanLock_hs _ _ _ _ _ hne]
  exact h1 x (List.mem_cons_of_mem _ hx)

theorem freshL_tail_clone (s : State) (h k : Nat) (m : Entry) (hs' : List Nat) (hf : FreshL s (h :: hs')) :
    FreshL (s.clone h k m) hs' := by
  obtain ⟨h1, h2⟩ := hf
  simp at h2
  refine ⟨fun x hx => ?_, h2.2⟩
  have hne : x ≠ h := fun e => h2.1 (by rw [← e]; exact hx)
  rw [clone_hs _ _ _ _ _ hne]
  exact h1 x (List.mem_cons_of_mem _ hx)

/-- the eviction scan keeps the invariant, and never reaches one of its two assertions -/
theorem inv_evictLoop (keys : List Nat) : ∀ (s : State) (hids : List Nat) (n : Nat) (acc : List Nat),
    Inv s → FreshL s hids →
    Inv (evictLoop s keys hids n acc).1 ∧ (evictLoop s keys hids n acc).2.2 = none := by
  induction keys with
  | nil => intro s hids n acc hi hf; simp [evictLoop, hi]
  | cons k ks ih =>
    intro s hids n acc hi hf
    unfold evictLoop
    split
    · exact ⟨hi, rfl⟩
    · split
      · exact ih s hids n acc hi hf
      · rename_i m hm
        split
        · rename_i hfree
          have hfree' : m.holder = none := by simpa using hfree
          split
          · split
            · rename_i h hs'
              exact ih _ hs' n _ (inv_scanLock s h k m hi (hf.1 h (by simp)) hm hfree') (freshL_tail_scanLock s h k m hs' hf)
            · exact ⟨hi, rfl⟩
          · rename_i hval
            have hval' : m.value = none := by simpa using hval
            have := hi.inv2 k m hm hval'
            split
            · exact ih s hids n acc hi hf
            · rename_i hl
              exfalso; apply hl
              cases hr : m.refs with
              | nil => exact absurd hr this
              | cons a t => simp
        · rename_i hheld
          split
          · exact ih s hids n acc hi hf
          · rename_i hl
            exfalso; apply hl
            cases hh : m.holder with
            | none => simp [hh] at hheld
            | some x =>
              have hl := (hi.holderLive k m x hm hh).1
              have hx : x ∈ m.refs := (hi.refs k m hm x).2 hl
              cases hr : m.refs with
              | nil => simp [hr] at hx
              | cons a t => simp


theorem inv_snapLoop (keys : List Nat) : ∀ (s : State) (hids : List Nat) (acc : List Nat),
    Inv s → FreshL s hids → Inv (snapLoop s keys hids acc).1 := by
  induction keys with
  | nil => intro s hids acc hi hf; simp [snapLoop, hi]
  | cons k ks ih =>
    intro s hids acc hi hf
    cases hids with
    | nil => simp [snapLoop, hi]
    | cons h hs' =>
      simp only [snapLoop]
      split
      · rename_i m hm
        exact ih _ hs' _ (inv_clone s h k m hi (hf.1 h (by simp)) hm) (freshL_tail_clone s h k m hs' hf)
      · exact ih s (h :: hs') acc hi hf

theorem inv_expireLoop (keys : List Nat) : ∀ (s : State) (hids : List Nat) (cutoff : Nat) (acc : List Nat),
    Inv s → FreshL s hids → Inv (expireLoop s keys hids cutoff acc).1 := by
  induction keys with
  | nil => intro s hids c acc hi hf; simp [expireLoop, hi]
  | cons k ks ih =>
    intro s hids c acc hi hf
    unfold expireLoop
    split
    · exact ih s hids c acc hi hf
    · rename_i m hm
      split
      · rename_i st h hs' hh hv
        split
        · exact ih _ hs' c _ (inv_scanLock s h k m hi (hf.1 h (by simp)) hm hh) (freshL_tail_scanLock s h k m hs' hf)
        · exact ih s _ c acc hi hf
      · exact ih s _ c acc hi hf


theorem inv_limitLookup (s : State) (h k n : Nat) (hids : List Nat) (hi : Inv s) (hf : FreshL s hids) :
    Inv (limitLookup s h k n hids).1 ∧ ∀ site, (limitLookup s h k n hids).2 ≠ .panic site := by
  unfold limitLookup
  have hlk : ∀ site, (lookup s h k).2 ≠ .panic site := by
    intro site; unfold lookup; split <;> (try split) <;> (try split) <;> simp
  split
  · exact ⟨hi, by simp⟩
  · split
    · exact ⟨hi, by simp⟩
    · simp only []
      split
      · exact ⟨inv_lookup s h k hi, hlk⟩
      · have := inv_evictLoop s.order s hids (s.order.length - (n - 1)) [] hi hf
        split
        · rename_i e; rw [e] at this; simp at this
        · exact ⟨inv_lookup s h k hi, hlk⟩
        · rename_i e; rw [e] at this; exact ⟨this.1, by simp⟩

theorem inv_step (s : State) (a : Act) (hi : Inv s) : Inv (step s a).1 := by
  cases a with
  | lookup h k => exact inv_lookup s h k hi
  | limitLookup h k n hids =>
    simp only [step]
    split
    · rename_i hc
      simp only [Bool.and_eq_true] at hc
      have hf := freshL_of s (h :: hids) hc.1.1
      exact (inv_limitLookup s h k n hids hi ⟨fun x hx => hf.1 x (List.mem_cons_of_mem _ hx), (List.nodup_cons.1 hf.2).2⟩).1
    · exact hi
  | tryKey h => exact inv_tryKey s h hi
  | trySpurious h => exact inv_trySpurious s h hi
  | enqueue h => exact inv_enqueue s h hi
  | enqueueLate h => exact inv_enqueueLate s h hi
  | acquire h => exact inv_acquire s h hi
  | cancel h => exact inv_cancel s h hi
  | cleanupFailed h => exact inv_cleanupFailed s h hi
  | gop h op => exact inv_gop s h op hi
  | stamp h => exact inv_stamp s h hi
  | release h => exact inv_release s h hi
  | snapshot hids =>
    simp only [step]
    split
    · rename_i hc
      simp only [Bool.and_eq_true] at hc
      unfold snapshot; split
      · exact hi
      · exact inv_snapLoop _ _ _ _ hi (freshL_of s hids hc.1)
    · exact hi
  | expire d hids =>
    simp only [step]
    split
    · rename_i hc
      simp only [Bool.and_eq_true] at hc
      unfold expireAt; split
      · exact hi
      · split
        · exact hi
        · exact inv_expireLoop _ _ _ _ _ hi (freshL_of s hids hc.1)
    · exact hi
  | count => simp only [step, count]; split <;> exact hi
  | keys => simp only [step, keys]; split <;> exact hi
  | intoEntries => simp only [step, intoEntries]; split <;> exact hi
  | tick d => exact { hi with }
  | reorder perm =>
    simp only [step, reorder]
    split
    · rename_i hc
      have hp : perm.Perm s.order := List.isPerm_iff.1 hc.2
      exact { hi with nodup := hp.nodup_iff.2 hi.nodup, keys := fun k => by rw [← hi.keys k]; exact hp.mem_iff }
    · exact hi

/-- **Theorem A**: the invariant holds after every finite sequence of atomic actions — any number of
threads, tasks, keys and handles, any interleaving, any cancellation point. -/
theorem inv_run (as : List Act) : ∀ s, Inv s → Inv (run s as) := by
  induction as with
  | nil => intro s hi; exact hi
  | cons a as ih => intro s hi; exact ih _ (inv_step s a hi)

theorem inv_reachable (kind : Kind) (as : List Act) : Inv (run (State.init kind) as) :=
  inv_run as _ (inv_init kind)

end Lockable
