/-
Lemmas about the sequential API layer (`Api.lean`): every composite preserves the invariant, and the
eviction prelude never creates the handle of the requested key unless it reaches the lookup.
-/
import Lockable.Model.Api
import Lockable.Proofs.Evict
import Lockable.Proofs.NoPanic
namespace Lockable

theorem gop_hs_other (s : State) (c : Nat) (g : GOp) (x : Nat) (_hx : x ≠ c) : (gop s c g).1.hs x = s.hs x := by
  unfold gop
  repeat' split
  all_goals simp [State.setEnt]

theorem stamp_hs_other (s : State) (c : Nat) (x : Nat) (hx : x ≠ c) : (stamp s c).1.hs x = s.hs x := by
  unfold stamp
  repeat' split
  all_goals (try simp only [])
  all_goals simp [State.setEnt, State.setSt, upd, hx]

theorem release_hs_other (s : State) (c : Nat) (x : Nat) (hx : x ≠ c) : (release s c).1.hs x = s.hs x := by
  unfold release
  repeat' split
  all_goals (try simp only [])
  all_goals repeat' split
  all_goals simp [State.setEnt, State.dropHandle, State.removeKey, touch_hs, upd, hx]

theorem woken_s (a : Api) (w : Option Nat) : (a.woken w).s = a.s := by
  unfold Api.woken; split <;> rfl

theorem dropGuard_s (a : Api) (c : Nat) :
    (a.dropGuard c).1.s = (if (stamp a.s c).2 = .unit then (release (stamp a.s c).1 c).1 else (stamp a.s c).1) := by
  unfold Api.dropGuard
  simp only []
  split
  · rename_i h; simp [h, woken_s]
  · rename_i h; simp only []; rw [if_neg]; intro e; exact h e

theorem inv_dropGuard (a : Api) (c : Nat) (hi : Inv a.s) : Inv (a.dropGuard c).1.s := by
  rw [dropGuard_s]
  split
  · exact inv_release _ c (inv_stamp _ c hi)
  · exact inv_stamp _ c hi

theorem dropGuard_hs_other (a : Api) (c x : Nat) (hx : x ≠ c) : (a.dropGuard c).1.s.hs x = a.s.hs x := by
  rw [dropGuard_s]
  split
  · rw [release_hs_other _ _ _ hx, stamp_hs_other _ _ _ hx]
  · rw [stamp_hs_other _ _ _ hx]

theorem inv_gop_ (a : Api) (c : Nat) (g : GOp) (hi : Inv a.s) : Inv (a.gop_ c g).s := inv_gop a.s c g hi

theorem inv_runActs (cands : List Nat) : ∀ (a : Api) (acts : List CandAct), Inv a.s → Inv (a.runActs cands acts).s := by
  induction cands with
  | nil => intro a acts hi; exact hi
  | cons c cs ih =>
    intro a acts hi
    simp only [Api.runActs]
    apply ih
    split
    · exact inv_dropGuard _ c (inv_gop_ a c _ hi)
    · exact inv_dropGuard _ c hi
    · exact inv_dropGuard _ c (inv_gop_ a c _ hi)
    · exact hi

theorem runActs_hs_other (cands : List Nat) (x : Nat) (hx : x ∉ cands) : ∀ (a : Api) (acts : List CandAct),
    (a.runActs cands acts).s.hs x = a.s.hs x := by
  induction cands with
  | nil => intro a acts; rfl
  | cons c cs ih =>
    intro a acts
    have hxc : x ≠ c := fun e => hx (by rw [e]; simp)
    simp only [Api.runActs]
    rw [ih (fun e => hx (List.mem_cons_of_mem _ e))]
    split
    · rw [dropGuard_hs_other _ _ _ hxc]; exact gop_hs_other _ _ _ _ hxc
    · exact dropGuard_hs_other _ _ _ hxc
    · rw [dropGuard_hs_other _ _ _ hxc]; exact gop_hs_other _ _ _ _ hxc
    · rfl

theorem inv_dropAll (hs : List Nat) : ∀ (a : Api), Inv a.s → Inv (a.dropAll hs).s := by
  induction hs with
  | nil => intro a hi; exact hi
  | cons c cs ih => intro a hi; exact ih _ (inv_dropGuard a c hi)

theorem dropAll_hs_other (hs : List Nat) (x : Nat) (hx : x ∉ hs) : ∀ (a : Api), (a.dropAll hs).s.hs x = a.s.hs x := by
  induction hs with
  | nil => intro a; rfl
  | cons c cs ih =>
    intro a
    simp only [Api.dropAll, List.foldl]
    have := ih (fun e => hx (List.mem_cons_of_mem _ e)) (a.dropGuard c).1
    simp only [Api.dropAll] at this
    rw [this]
    exact dropGuard_hs_other a c x (fun e => hx (by rw [e]; simp))

/-- the candidates of a round are taken from the supply, which does not contain `h` -/
theorem limitLookup_list_hs (s : State) (h k n : Nat) (hids cands : List Nat) (hi : Inv s)
    (hc : s.freshList (h :: hids) = true) (hout : (limitLookup s h k n hids).2 = .list cands) :
    (limitLookup s h k n hids).1.hs h = none ∧ (∀ c ∈ cands, c ∈ hids) := by
  have hfl0 := freshL_of s (h :: hids) hc
  have hfresh : s.hs h = none := hfl0.1 h (by simp)
  have hnot : h ∉ hids := (List.nodup_cons.1 hfl0.2).1
  unfold limitLookup at hout ⊢
  simp only [hi.notWedged, Bool.false_eq_true, ↓reduceIte, hfresh, Option.isSome_none] at hout ⊢
  split at hout
  · exact absurd hout (by unfold lookup; split <;> (try split) <;> (try split) <;> simp)
  · rename_i hex
    simp only [hex, ↓reduceIte]
    have hsub := evictLoop_sub s.order s hids (s.order.length - (n - 1)) []
    split at hout
    · cases hout
    · exact absurd hout (by unfold lookup; split <;> (try split) <;> (try split) <;> simp)
    · rename_i s' c cs heq
      cases hout
      have h1 := evictLoop_hs_other s.order h s hids (s.order.length - (n - 1)) [] hnot
      rw [heq] at h1 hsub
      exact ⟨by rw [h1]; exact hfresh, fun x hx => by
        rcases hsub x hx with l | r
        · cases l
        · exact r⟩


def Res.isAbort : Res → Bool
  | .err => true
  | .userPanic => true
  | _ => false

/-- the eviction loop keeps the invariant; if it ends with the callback's error or panic, the handle of the
requested key was never created (the lookup was not reached) -/
theorem lockPrelude_spec (h k : Nat) : ∀ (fuel : Nat) (a : Api) (limit : Limit) (h0 : Nat) (tr : List RoundTrace),
    Inv a.s → a.s.hs h = none →
    Inv (a.lockPrelude h k limit h0 fuel tr).1.s ∧
    ((a.lockPrelude h k limit h0 fuel tr).2.2.isAbort = true → (a.lockPrelude h k limit h0 fuel tr).1.s.hs h = none) := by
  intro fuel
  induction fuel with
  | zero => intro a limit h0 tr hi hf; simp [Api.lockPrelude, hi, Res.isAbort]
  | succ fuel ih =>
    intro a limit h0 tr hi hf
    unfold Api.lockPrelude
    cases limit with
    | none =>
      simp only []
      refine ⟨inv_lookup a.s h k hi, ?_⟩
      split <;> simp [Res.isAbort]
    | soft n script =>
      simp only []
      have hstep : Inv (step a.s (.limitLookup h k n (List.range' h0 supplyLen))).1 := inv_step _ _ hi
      split
      · exact ⟨hstep, by simp [Res.isAbort]⟩
      · rename_i cands hout
        -- the candidates of this round
        have hc : a.s.freshList (h :: List.range' h0 supplyLen) = true ∧
            (limitLookup a.s h k n (List.range' h0 supplyLen)).2 = .list cands ∧
            (step a.s (.limitLookup h k n (List.range' h0 supplyLen))).1 = (limitLookup a.s h k n (List.range' h0 supplyLen)).1 := by
          simp only [step] at hout ⊢
          split at hout
          · rename_i hc; rw [if_pos hc]; simp only [Bool.and_eq_true] at hc; exact ⟨hc.1.1, hout, rfl⟩
          · cases hout
        obtain ⟨hc1, hc2, hc3⟩ := hc
        have hl := limitLookup_list_hs a.s h k n _ cands hi hc1 hc2
        have hnot : h ∉ List.range' h0 supplyLen := (List.nodup_cons.1 (freshL_of _ _ hc1).2).1
        have hnc : h ∉ cands := fun e => hnot (hl.2 h e)
        have hf1 : (step a.s (.limitLookup h k n (List.range' h0 supplyLen))).1.hs h = none := by rw [hc3]; exact hl.1
        split
        · -- panic round
          refine ⟨inv_dropAll cands _ hstep, fun _ => ?_⟩
          rw [dropAll_hs_other cands h hnc]; exact hf1
        · exact ⟨hstep, by simp [Res.isAbort]⟩
        · exact ⟨hstep, by simp [Res.isAbort]⟩
        · have hi2 := inv_runActs cands { a with s := (step a.s (.limitLookup h k n (List.range' h0 supplyLen))).1 }
            (script.head?.getD defaultRound).acts hstep
          have hf2 := runActs_hs_other cands h hnc { a with s := (step a.s (.limitLookup h k n (List.range' h0 supplyLen))).1 }
            (script.head?.getD defaultRound).acts
          split
          · exact ⟨hi2, fun _ => by rw [hf2]; exact hf1⟩
          · split
            · exact ⟨hi2, fun _ => by rw [hf2]; exact hf1⟩
            · exact ih _ _ _ _ hi2 (by rw [hf2]; exact hf1)
      · exact ⟨hstep, by simp [Res.isAbort]⟩


theorem absVal_dropGuard (a : Api) (c k : Nat) (hi : Inv a.s) : absVal (a.dropGuard c).1.s k = absVal a.s k := by
  rw [dropGuard_s]
  split
  · rw [absVal_release _ _ _ (inv_stamp _ c hi), absVal_stamp]
  · rw [absVal_stamp]

theorem absVal_dropAll (hs : List Nat) (k : Nat) : ∀ (a : Api), Inv a.s → absVal (a.dropAll hs).s k = absVal a.s k := by
  induction hs with
  | nil => intro a _; rfl
  | cons c cs ih =>
    intro a hi
    simp only [Api.dropAll, List.foldl]
    have := ih (a.dropGuard c).1 (inv_dropGuard a c hi)
    simp only [Api.dropAll] at this
    rw [this, absVal_dropGuard a c k hi]

/-- dropping a guard makes its handle disappear -/
theorem dropGuard_gone (a : Api) (c : Nat) (hd : Handle) (hi : Inv a.s) (hh : a.s.hs c = some hd) (hst : hd.st = .holding) :
    (a.dropGuard c).1.s.hs c = none := by
  obtain ⟨m, hm, he⟩ := eeid_inv (hi.live c hd hh)
  have heo : a.s.entryOf hd = some m := by simp [State.entryOf, hm, he]
  rw [dropGuard_s]
  have hs1 : (stamp a.s c).2 = .unit := by simp [stamp, hh, hst, heo]
  rw [if_pos hs1]
  have hi1 := inv_stamp a.s c hi
  have hh1 : ∃ b, (stamp a.s c).1.hs c = some { hd with st := .stamped b } := by
    simp only [stamp, hh, hst, heo]
    exact ⟨m.value.isSome, by simp [State.setSt, upd]⟩
  obtain ⟨b, hh1⟩ := hh1
  obtain ⟨m1, hm1, he1⟩ := eeid_inv (hi1.live c _ hh1)
  have heo1 : (stamp a.s c).1.entryOf { hd with st := .stamped b } = some m1 := by
    simp [State.entryOf] at hm1 he1 ⊢; simp [hm1, he1]
  unfold release
  simp only [hi1.notWedged, Bool.false_eq_true, ↓reduceIte, hh1, heo1]
  repeat' split
  all_goals simp [State.removeKey, State.dropHandle, State.setEnt, touch_hs, upd]


/-- the clean-up section of a failed try always succeeds and removes the handle -/
theorem cleanupFailed_spec (s : State) (h : Nat) (hd : Handle) (m : Entry) (hi : Inv s)
    (hh : s.hs h = some hd) (hst : hd.st = .failedTry) (hm : s.entryOf hd = some m) :
    (cleanupFailed s h).2 = .unit ∧ (cleanupFailed s h).1.hs h = none := by
  have hnf := cleanupFailed_noFail s h hi
  unfold cleanupFailed at hnf ⊢
  simp only [hi.notWedged, Bool.false_eq_true, ↓reduceIte, hh, hst, hm] at hnf ⊢
  repeat' split
  all_goals (try simp only [])
  all_goals repeat' split
  all_goals first
    | (simp [State.removeKey, State.dropHandle, State.setEnt, upd]; done)
    | (simp_all [Out.isFailure])

end Lockable
