/-
Commutation of per-key operations on different keys (supports the atomicity reduction, DESIGN.md §3.3).
-/
import Lockable.Proofs.Inv
namespace Lockable

/-- the per-key operations: they take place outside the global lock and touch one tokio mutex -/
inductive KeyOp where
  | tryKey | trySpurious | enqueue | enqueueLate | acquire | stamp
  | gop (g : GOp)
deriving Repr

def KeyOp.act (o : KeyOp) (h : Nat) : Act :=
  match o with
  | .tryKey => .tryKey h | .trySpurious => .trySpurious h | .enqueue => .enqueue h
  | .enqueueLate => .enqueueLate h | .acquire => .acquire h | .stamp => .stamp h | .gop g => .gop h g

theorem upd_comm {α : Type} (f : Nat → Option α) (k1 k2 : Nat) (v1 v2 : Option α) (hne : k1 ≠ k2) :
    upd (upd f k1 v1) k2 v2 = upd (upd f k2 v2) k1 v1 := by
  funext x
  simp only [upd]
  by_cases e1 : x = k1 <;> by_cases e2 : x = k2 <;> simp_all

theorem state_ext (s t : State) (h1 : s.kind = t.kind) (h2 : s.order = t.order) (h3 : s.ent = t.ent) (h4 : s.hs = t.hs)
    (h5 : s.nextE = t.nextE) (h6 : s.now = t.now) (h7 : s.wedged = t.wedged) : s = t := by
  cases s; cases t; simp_all

/-- what a per-key operation of handle `h` (key `k`) does: it rewrites the entry of `k` and the handle `h`, as a function
of those two only, and nothing else -/
structure Local (f : State → State) (h k : Nat) : Prop where
  kind : ∀ s, (f s).kind = s.kind
  order : ∀ s, (f s).order = s.order
  nextE : ∀ s, (f s).nextE = s.nextE
  now : ∀ s, (f s).now = s.now
  wedged : ∀ s, (f s).wedged = s.wedged
  entOther : ∀ s x, x ≠ k → (f s).ent x = s.ent x
  hsOther : ∀ s x, x ≠ h → (f s).hs x = s.hs x
  /-- the new entry and handle depend only on the old entry, the old handle, the kind and the clock -/
  dep : ∀ s t, s.ent k = t.ent k → s.hs h = t.hs h → s.kind = t.kind → s.now = t.now →
    (f s).ent k = (f t).ent k ∧ (f s).hs h = (f t).hs h

theorem local_commute (f g : State → State) (h1 k1 h2 k2 : Nat) (hf : Local f h1 k1) (hg : Local g h2 k2)
    (hh : h1 ≠ h2) (hk : k1 ≠ k2) : ∀ s, f (g s) = g (f s) := by
  intro s
  apply state_ext
  · rw [hf.kind, hg.kind, hg.kind, hf.kind]
  · rw [hf.order, hg.order, hg.order, hf.order]
  · funext x
    by_cases e1 : x = k1
    · subst e1
      rw [hg.entOther (f s) x hk]
      exact (hf.dep (g s) s (hg.entOther s x hk) (hg.hsOther s h1 hh) (hg.kind s) (hg.now s)).1
    · rw [hf.entOther (g s) x e1]
      by_cases e2 : x = k2
      · subst e2
        exact ((hg.dep (f s) s (hf.entOther s x e1) (hf.hsOther s h2 (Ne.symm hh)) (hf.kind s) (hf.now s)).1).symm
      · rw [hg.entOther s x e2, hg.entOther (f s) x e2, hf.entOther s x e1]
  · funext x
    by_cases e1 : x = h1
    · subst e1
      rw [hg.hsOther (f s) x hh]
      exact (hf.dep (g s) s (hg.entOther s k1 hk) (hg.hsOther s x hh) (hg.kind s) (hg.now s)).2
    · rw [hf.hsOther (g s) x e1]
      by_cases e2 : x = h2
      · subst e2
        exact ((hg.dep (f s) s (hf.entOther s k2 (Ne.symm hk)) (hf.hsOther s x e1) (hf.kind s) (hf.now s)).2).symm
      · rw [hg.hsOther s x e2, hg.hsOther (f s) x e2, hf.hsOther s x e1]
  · rw [hf.nextE, hg.nextE, hg.nextE, hf.nextE]
  · rw [hf.now, hg.now, hg.now, hf.now]
  · rw [hf.wedged, hg.wedged, hg.wedged, hf.wedged]

end Lockable

namespace Lockable

/-- a per-key operation of handle `h`, restricted to states in which `h` is a handle of key `k` -/
def guarded (a : Act) (h k : Nat) (s : State) : State :=
  if hkey (s.hs h) = some k then (step s a).1 else s

theorem entryOf_congr (s t : State) (hd : Handle) (h : s.ent hd.key = t.ent hd.key) : s.entryOf hd = t.entryOf hd := by
  unfold State.entryOf; rw [h]

theorem local_keyOp (o : KeyOp) (h k : Nat) : Local (guarded (o.act h) h k) h k := by
  constructor
  all_goals intro s
  -- the six frame clauses
  case kind =>
    unfold guarded; split <;> try rfl
    cases o <;> simp only [KeyOp.act, step, tryKey, trySpurious, enqueue, enqueueLate, acquire, stamp, gop] <;>
      (repeat' split) <;> (try simp only []) <;> (repeat' split) <;> rfl
  case order =>
    unfold guarded; split <;> try rfl
    cases o <;> simp only [KeyOp.act, step, tryKey, trySpurious, enqueue, enqueueLate, acquire, stamp, gop] <;>
      (repeat' split) <;> (try simp only []) <;> (repeat' split) <;> rfl
  case nextE =>
    unfold guarded; split <;> try rfl
    cases o <;> simp only [KeyOp.act, step, tryKey, trySpurious, enqueue, enqueueLate, acquire, stamp, gop] <;>
      (repeat' split) <;> (try simp only []) <;> (repeat' split) <;> rfl
  case now =>
    unfold guarded; split <;> try rfl
    cases o <;> simp only [KeyOp.act, step, tryKey, trySpurious, enqueue, enqueueLate, acquire, stamp, gop] <;>
      (repeat' split) <;> (try simp only []) <;> (repeat' split) <;> rfl
  case wedged =>
    unfold guarded; split <;> try rfl
    cases o <;> simp only [KeyOp.act, step, tryKey, trySpurious, enqueue, enqueueLate, acquire, stamp, gop] <;>
      (repeat' split) <;> (try simp only []) <;> (repeat' split) <;> rfl
  case entOther =>
    intro x hx
    unfold guarded; split <;> try rfl
    rename_i hkk
    obtain ⟨hd, e1, e2⟩ := hkey_inv hkk
    have hxk : x ≠ hd.key := by rw [e2]; exact hx
    cases o <;> simp only [KeyOp.act, step, tryKey, trySpurious, enqueue, enqueueLate, acquire, stamp, gop, e1] <;>
      (repeat' split) <;> (try simp only []) <;> (repeat' split) <;>
      simp [State.setEnt, State.setSt, upd, hxk]
  case hsOther =>
    intro x hx
    unfold guarded; split <;> try rfl
    cases o <;> simp only [KeyOp.act, step, tryKey, trySpurious, enqueue, enqueueLate, acquire, stamp, gop] <;>
      (repeat' split) <;> (try simp only []) <;> (repeat' split) <;>
      simp [State.setEnt, State.setSt, upd, hx]
  case dep =>
    intro t e1 e2 e3 e4
    unfold guarded
    rw [← e2]
    split
    · rename_i hkk
      obtain ⟨hd, a1, a2⟩ := hkey_inv hkk
      have a1' : t.hs h = some hd := by rw [← e2]; exact a1
      have heo : s.entryOf hd = t.entryOf hd := entryOf_congr s t hd (by rw [a2]; exact e1)
      cases o <;>
        simp only [KeyOp.act, step, tryKey, trySpurious, enqueue, enqueueLate, acquire, stamp, gop, a1, a1', heo, e3, e4,
                   State.wrap] <;>
        (repeat' split) <;> (try simp only []) <;> (repeat' split) <;>
        simp_all [State.setEnt, State.setSt, upd]
    · exact ⟨e1, e2⟩

end Lockable

namespace Lockable

/-- **Per-key operations on different keys commute** (the basis of the atomicity reduction of DESIGN.md §3: a per-key
operation of one thread that overlaps a critical section or a per-key operation of another thread on a different
mutex can be moved before or after it without changing the resulting state). -/
theorem keyOps_commute (o₁ o₂ : KeyOp) (h₁ k₁ h₂ k₂ : Nat) (hh : h₁ ≠ h₂) (hk : k₁ ≠ k₂) (s : State)
    (hs1 : hkey (s.hs h₁) = some k₁) (hs2 : hkey (s.hs h₂) = some k₂) :
    (step (step s (o₂.act h₂)).1 (o₁.act h₁)).1 = (step (step s (o₁.act h₁)).1 (o₂.act h₂)).1 := by
  have l1 := local_keyOp o₁ h₁ k₁
  have l2 := local_keyOp o₂ h₂ k₂
  have hc := local_commute _ _ h₁ k₁ h₂ k₂ l1 l2 hh hk s
  have g2 : guarded (o₂.act h₂) h₂ k₂ s = (step s (o₂.act h₂)).1 := by simp [guarded, hs2]
  have g1 : guarded (o₁.act h₁) h₁ k₁ s = (step s (o₁.act h₁)).1 := by simp [guarded, hs1]
  have k1' : hkey ((step s (o₂.act h₂)).1.hs h₁) = some k₁ := by
    rw [← g2, l2.hsOther s h₁ hh]; exact hs1
  have k2' : hkey ((step s (o₁.act h₁)).1.hs h₂) = some k₂ := by
    rw [← g1, l1.hsOther s h₂ (Ne.symm hh)]; exact hs2
  have g12 : guarded (o₁.act h₁) h₁ k₁ (step s (o₂.act h₂)).1 = (step (step s (o₂.act h₂)).1 (o₁.act h₁)).1 := by
    simp [guarded, k1']
  have g21 : guarded (o₂.act h₂) h₂ k₂ (step s (o₁.act h₁)).1 = (step (step s (o₁.act h₁)).1 (o₂.act h₂)).1 := by
    simp [guarded, k2']
  rw [g2, g1] at hc
  rw [← g12, ← g21]; exact hc

/-- the outputs commute as well: what one operation answers does not depend on whether the other one ran first -/
theorem keyOps_out_indep (o₁ o₂ : KeyOp) (h₁ k₁ h₂ k₂ : Nat) (hh : h₁ ≠ h₂) (hk : k₁ ≠ k₂) (s : State)
    (hs1 : hkey (s.hs h₁) = some k₁) (hs2 : hkey (s.hs h₂) = some k₂) :
    (step (step s (o₂.act h₂)).1 (o₁.act h₁)).2 = (step s (o₁.act h₁)).2 := by
  have l2 := local_keyOp o₂ h₂ k₂
  have g2 : guarded (o₂.act h₂) h₂ k₂ s = (step s (o₂.act h₂)).1 := by simp [guarded, hs2]
  obtain ⟨hd, a1, a2⟩ := hkey_inv hs1
  have e1 : (step s (o₂.act h₂)).1.hs h₁ = s.hs h₁ := by rw [← g2]; exact l2.hsOther s h₁ hh
  have e2 : (step s (o₂.act h₂)).1.ent hd.key = s.ent hd.key := by rw [← g2, a2]; exact l2.entOther s k₁ hk
  have e3 : (step s (o₂.act h₂)).1.kind = s.kind := by rw [← g2]; exact l2.kind s
  have e4 : (step s (o₂.act h₂)).1.now = s.now := by rw [← g2]; exact l2.now s
  have heo : (step s (o₂.act h₂)).1.entryOf hd = s.entryOf hd := entryOf_congr _ _ hd e2
  -- the answer of an operation is a function of its handle and of the entry of its key
  have key : ∀ (t : State), t.hs h₁ = some hd → t.entryOf hd = s.entryOf hd →
      (step t (o₁.act h₁)).2 = (step s (o₁.act h₁)).2 := by
    intro t ht1 ht2
    cases hm : s.entryOf hd with
    | none =>
      rw [hm] at ht2
      cases o₁ <;> simp only [KeyOp.act, step, tryKey, trySpurious, enqueue, enqueueLate, acquire, stamp, gop, ht1, a1, ht2, hm] <;>
        (repeat' split) <;> rfl
    | some m =>
      rw [hm] at ht2
      cases o₁ with
      | gop g =>
        simp only [KeyOp.act, step, gop, ht1, a1, ht2, hm]
        split
        · cases g <;> simp only [] <;> (repeat' split) <;> rfl
        · rfl
      | _ =>
        simp only [KeyOp.act, step, tryKey, trySpurious, enqueue, enqueueLate, acquire, stamp, ht1, a1, ht2, hm] <;>
          (repeat' split) <;> rfl
  exact key _ (by rw [e1]; exact a1) heo

end Lockable
