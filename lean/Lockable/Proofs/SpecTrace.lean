/-
Properties of the histories of the atomic specification (`applyEvs`): guard intervals of one key are
disjoint, the guard that ends an interval is the one that started it, and waiters are served first come
first served. With Theorem C (`lin_run`) these hold for the abstract history of every run of the core model.
-/
import Lockable.Proofs.Linear
namespace Lockable

theorem applyEvs_split (a b : List SEv) : ∀ sp sp', applyEvs sp (a ++ b) = some sp' →
    ∃ sp1, applyEvs sp a = some sp1 ∧ applyEvs sp1 b = some sp' := by
  induction a with
  | nil => intro sp sp' h; exact ⟨sp, rfl, h⟩
  | cons e es ih =>
    intro sp sp' h
    simp only [List.cons_append, applyEvs] at h ⊢
    cases he : applyEv sp e with
    | none => rw [he] at h; cases h
    | some sp1 => rw [he] at h; exact ih sp1 sp' h

/-- the handle that an event makes the guard of `k` -/
def SEv.makesGuard (k : Nat) : SEv → Option Nat
  | .acquire h k' => if k' = k then some h else none
  | .grant h k' => if k' = k then some h else none
  | _ => none

/-- a guard stays the guard until it is released: nothing else ends its interval -/
theorem held_stays (k g : Nat) (es : List SEv) : ∀ sp sp', applyEvs sp es = some sp' → sp.held k = some g →
    SEv.release g k ∉ es → sp'.held k = some g := by
  induction es with
  | nil => intro sp sp' h hg _; simp only [applyEvs, Option.some.injEq] at h; subst h; exact hg
  | cons e es ih =>
    intro sp sp' h hg hn
    simp only [applyEvs] at h
    cases he : applyEv sp e with
    | none => rw [he] at h; cases h
    | some sp1 =>
      rw [he] at h
      simp only [List.mem_cons, not_or] at hn
      refine ih sp1 sp' h ?_ hn.2
      cases e with
      | acquire h' k' =>
        simp only [applyEv] at he
        split at he
        · rename_i hf
          cases he
          by_cases e : k = k'
          · subst e; simp [Spec.free, hg] at hf
          · simp [upd, e, hg]
        · cases he
      | wait h' k' => simp only [applyEv] at he; split at he <;> cases he; exact hg
      | lateWait h' k' => simp only [applyEv] at he; split at he <;> cases he; exact hg
      | grant h' k' =>
        simp only [applyEv] at he
        split at he
        · rename_i hf
          cases he
          by_cases e : k = k'
          · subst e; simp [hg] at hf
          · simp [upd, e, hg]
        · cases he
      | release h' k' =>
        simp only [applyEv] at he
        split at he
        · rename_i hf
          cases he
          by_cases e : k = k'
          · subst e
            rw [hg] at hf; cases hf
            exact absurd rfl hn.1
          · simp [upd, e, hg]
        · cases he
      | leave h' k' => simp only [applyEv] at he; split at he <;> cases he; exact hg
      | write h' k' v => simp only [applyEv] at he; split at he <;> cases he; exact hg

/-- an event that makes a guard of `k` is enabled only when `k` has no guard, and installs that guard -/
theorem makesGuard_enabled (k h : Nat) (e : SEv) (sp sp1 : Spec) (he : applyEv sp e = some sp1)
    (hm : e.makesGuard k = some h) : sp.held k = none ∧ sp1.held k = some h := by
  cases e with
  | acquire h' k' =>
    simp only [SEv.makesGuard] at hm
    split at hm
    · rename_i e; subst e; cases hm
      simp only [applyEv] at he
      split at he
      · rename_i hf; cases he
        simp only [Spec.free, Bool.and_eq_true, Option.isNone_iff_eq_none] at hf
        exact ⟨hf.1, by simp⟩
      · cases he
    · cases hm
  | grant h' k' =>
    simp only [SEv.makesGuard] at hm
    split at hm
    · rename_i e; subst e; cases hm
      simp only [applyEv] at he
      split at he
      · rename_i hf; cases he
        simp only [Bool.and_eq_true, Option.isNone_iff_eq_none] at hf
        exact ⟨hf.1, by simp⟩
      · cases he
    · cases hm
  | _ => simp [SEv.makesGuard] at hm

/-- **guard intervals of a key are disjoint**: between two events that make guards of the same key, the first
guard is released -/
theorem history_exclusive (k h1 h2 : Nat) (pre mid post : List SEv) (e1 e2 : SEv) (sp sp' : Spec)
    (hrun : applyEvs sp (pre ++ e1 :: (mid ++ e2 :: post)) = some sp')
    (hm1 : e1.makesGuard k = some h1) (hm2 : e2.makesGuard k = some h2) : SEv.release h1 k ∈ mid := by
  obtain ⟨sp1, _, hrest⟩ := applyEvs_split pre _ sp sp' hrun
  simp only [applyEvs] at hrest
  cases he1 : applyEv sp1 e1 with
  | none => rw [he1] at hrest; cases hrest
  | some sp2 =>
    rw [he1] at hrest
    obtain ⟨sp3, hmid, hrest2⟩ := applyEvs_split mid _ sp2 sp' hrest
    simp only [applyEvs] at hrest2
    cases he2 : applyEv sp3 e2 with
    | none => rw [he2] at hrest2; cases hrest2
    | some sp4 =>
      have a1 := (makesGuard_enabled k h1 e1 sp1 sp2 he1 hm1).2
      have a2 := (makesGuard_enabled k h2 e2 sp3 sp4 he2 hm2).1
      false_or_by_contra
      rename_i hn
      have := held_stays k h1 mid sp2 sp3 hmid a1 hn
      rw [a2] at this; cases this

/-- only the guard of a key can write its value or release it -/
theorem only_guard_acts (k h : Nat) (e : SEv) (sp sp1 : Spec) (he : applyEv sp e = some sp1)
    (hact : e = .release h k ∨ ∃ v, e = .write h k v) : sp.held k = some h := by
  rcases hact with e1 | ⟨v, e1⟩ <;> subst e1 <;> simp only [applyEv] at he <;> split at he
  all_goals first | assumption | cases he

/-! ### first come, first served -/

def Before (h1 h2 : Nat) (l : List Nat) : Prop := ∃ a b, l = a ++ h1 :: b ∧ h2 ∈ b

theorem before_head (h1 h2 : Nat) (l : List Nat) (hb : Before h1 h2 l) (hn : l.Nodup) : l.head? ≠ some h2 := by
  obtain ⟨a, b, e, hm⟩ := hb
  subst e
  intro hh
  cases a with
  | nil =>
    simp only [List.nil_append, List.head?_cons, Option.some.injEq] at hh
    subst hh
    simp only [List.nil_append, List.nodup_cons] at hn
    exact hn.1 hm
  | cons x a' =>
    simp only [List.cons_append, List.head?_cons, Option.some.injEq] at hh
    subst hh
    simp only [List.cons_append, List.nodup_cons, List.mem_append, List.mem_cons, not_or] at hn
    exact hn.1.2.2 hm

theorem before_tail (h1 h2 : Nat) (l : List Nat) (hb : Before h1 h2 l) (hh : l.head? ≠ some h1) : Before h1 h2 l.tail := by
  obtain ⟨a, b, e, hm⟩ := hb
  subst e
  cases a with
  | nil => simp at hh
  | cons x a' => exact ⟨a', b, by simp, hm⟩

theorem before_append (h1 h2 x : Nat) (l : List Nat) (hb : Before h1 h2 l) : Before h1 h2 (l ++ [x]) := by
  obtain ⟨a, b, e, hm⟩ := hb
  subst e
  exact ⟨a, b ++ [x], by simp, by simp [hm]⟩

theorem before_new (h1 h2 : Nat) (l : List Nat) (hm : h1 ∈ l) : Before h1 h2 (l ++ [h2]) := by
  obtain ⟨a, b, e⟩ := List.append_of_mem hm
  subst e
  exact ⟨a, b ++ [h2], by simp, by simp⟩

theorem before_erase (h1 h2 x : Nat) (l : List Nat) (hb : Before h1 h2 l) (h1x : x ≠ h1) (h2x : x ≠ h2) :
    Before h1 h2 (l.erase x) := by
  obtain ⟨a, b, e, hm⟩ := hb
  subst e
  by_cases hxa : x ∈ a
  · rw [List.erase_append_left _ hxa]
    exact ⟨a.erase x, b, rfl, hm⟩
  · rw [List.erase_append_right _ hxa, List.erase_cons_tail (by simpa using Ne.symm h1x)]
    exact ⟨a, b.erase x, rfl, (List.mem_erase_of_ne (Ne.symm h2x)).2 hm⟩

/-- the FIFO invariant: `h1` is waiting for `k`, and whenever `h2` is waiting too it is behind `h1` -/
def Ahead (k h1 h2 : Nat) (sp : Spec) : Prop :=
  (sp.waiting k).Nodup ∧ h1 ∈ sp.waiting k ∧ (h2 ∈ sp.waiting k → Before h1 h2 (sp.waiting k))

/-- one event keeps `h1` ahead of `h2`, unless it takes `h1` out of the queue; and it cannot serve `h2` -/
theorem ahead_step (k h1 h2 : Nat) (hne : h1 ≠ h2) (e : SEv) (sp sp1 : Spec) (he : applyEv sp e = some sp1)
    (ha : Ahead k h1 h2 sp) : e ≠ .grant h2 k ∧ (Ahead k h1 h2 sp1 ∨ e = .grant h1 k ∨ e = .leave h1 k) := by
  obtain ⟨hnd, hin, hbe⟩ := ha
  cases e with
  | acquire h' k' =>
    simp only [applyEv] at he
    split at he <;> cases he
    exact ⟨by simp, Or.inl ⟨hnd, hin, hbe⟩⟩
  | release h' k' =>
    simp only [applyEv] at he
    split at he <;> cases he
    exact ⟨by simp, Or.inl ⟨hnd, hin, hbe⟩⟩
  | write h' k' v =>
    simp only [applyEv] at he
    split at he <;> cases he
    exact ⟨by simp, Or.inl ⟨hnd, hin, hbe⟩⟩
  | lateWait h' k' =>
    simp only [applyEv] at he
    split at he
    · rename_i hf
      cases he
      refine ⟨by simp, Or.inl ?_⟩
      by_cases e : k = k'
      · subst e
        simp only [Spec.free, Bool.and_eq_true, List.isEmpty_iff] at hf
        rw [hf.2] at hin; cases hin
      · simp only [Ahead, updL, e, ↓reduceIte]; exact ⟨hnd, hin, hbe⟩
    · cases he
  | wait h' k' =>
    simp only [applyEv] at he
    split at he
    · cases he
    · rename_i hg
      cases he
      refine ⟨by simp, Or.inl ?_⟩
      by_cases e : k = k'
      · subst e
        simp only [not_or] at hg
        simp only [Ahead, updL, ↓reduceIte]
        refine ⟨?_, by simp [hin], ?_⟩
        · rw [List.nodup_append]
          exact ⟨hnd, by simp, by intro a ha b hb; simp at hb; subst hb; intro e; subst e; exact hg.2 ha⟩
        · intro hm
          by_cases e2 : h' = h2
          · subst e2; exact before_new h1 h' _ hin
          · have : h2 ∈ sp.waiting k := by
              simp only [List.mem_append, List.mem_singleton] at hm
              rcases hm with hm | hm
              · exact hm
              · exact absurd hm.symm e2
            exact before_append h1 h2 h' _ (hbe this)
      · simp only [Ahead, updL, e, ↓reduceIte]; exact ⟨hnd, hin, hbe⟩
  | grant h' k' =>
    simp only [applyEv] at he
    split at he
    · rename_i hf
      cases he
      simp only [Bool.and_eq_true, Option.isNone_iff_eq_none, beq_iff_eq] at hf
      by_cases e : k = k'
      · subst e
        by_cases e1 : h' = h1
        · subst e1
          exact ⟨by simp [hne], Or.inr (Or.inl rfl)⟩
        · have hh1 : (sp.waiting k).head? ≠ some h1 := by rw [hf.2]; simpa using e1
          have hf2 := (queue_facts _ hnd)
          refine ⟨?_, Or.inl ?_⟩
          · intro e2
            have e3 : h' = h2 := by injection e2
            rw [e3] at hf
            exact before_head h1 h2 _ (hbe (head_mem _ _ hf.2)) hnd hf.2
          · simp only [Ahead, updL, ↓reduceIte]
            refine ⟨hf2.2.2.2.2, ?_, ?_⟩
            · rcases hf2.2.2.2.1 h1 hin with c | c
              · exact absurd c hh1
              · exact c
            · intro hm
              exact before_tail h1 h2 _ (hbe (hf2.2.2.1 h2 hm)) hh1
      · refine ⟨by simp [Ne.symm e], Or.inl ?_⟩
        simp only [Ahead, updL, e, ↓reduceIte]; exact ⟨hnd, hin, hbe⟩
    · cases he
  | leave h' k' =>
    simp only [applyEv] at he
    split at he
    · cases he
      refine ⟨by simp, ?_⟩
      by_cases e : k = k'
      · subst e
        by_cases e1 : h' = h1
        · subst e1; exact Or.inr (Or.inr rfl)
        · left
          simp only [Ahead, updL, ↓reduceIte]
          refine ⟨hnd.erase h', (List.mem_erase_of_ne (Ne.symm e1)).2 hin, ?_⟩
          intro hm
          have hm2 := (List.Nodup.mem_erase_iff hnd).1 hm
          exact before_erase h1 h2 h' _ (hbe hm2.2) e1 (Ne.symm hm2.1)
      · left
        simp only [Ahead, updL, e, ↓reduceIte]; exact ⟨hnd, hin, hbe⟩
    · cases he

/-- **first come, first served**: if `h1` is ahead of `h2` in the queue of `k`, `h2` is not made the guard of `k`
by a `grant` before `h1` was served or gave up -/
theorem history_fifo (k h1 h2 : Nat) (hne : h1 ≠ h2) (es : List SEv) : ∀ sp sp', applyEvs sp es = some sp' →
    Ahead k h1 h2 sp → ∀ pre post, es = pre ++ SEv.grant h2 k :: post →
    (SEv.grant h1 k ∈ pre ∨ SEv.leave h1 k ∈ pre) := by
  induction es with
  | nil => intro sp sp' _ _ pre post e; cases pre <;> cases e
  | cons e es ih =>
    intro sp sp' hrun ha pre post hdec
    simp only [applyEvs] at hrun
    cases he : applyEv sp e with
    | none => rw [he] at hrun; cases hrun
    | some sp1 =>
      rw [he] at hrun
      obtain ⟨hng, hnext⟩ := ahead_step k h1 h2 hne e sp sp1 he ha
      cases pre with
      | nil =>
        simp only [List.nil_append, List.cons.injEq] at hdec
        exact absurd hdec.1 hng
      | cons p pre' =>
        simp only [List.cons_append, List.cons.injEq] at hdec
        obtain ⟨e1, e2⟩ := hdec
        subst e1
        rcases hnext with hnext | hnext | hnext
        · rcases ih sp1 sp' hrun hnext pre' post e2 with c | c
          · exact Or.inl (List.mem_cons_of_mem _ c)
          · exact Or.inr (List.mem_cons_of_mem _ c)
        · exact Or.inl (by rw [hnext]; simp)
        · exact Or.inr (by rw [hnext]; simp)

/-- queues never hold a handle twice -/
theorem waiting_nodup (es : List SEv) : ∀ sp sp', applyEvs sp es = some sp' → (∀ k, (sp.waiting k).Nodup) →
    ∀ k, (sp'.waiting k).Nodup := by
  induction es with
  | nil => intro sp sp' h hn; simp only [applyEvs, Option.some.injEq] at h; subst h; exact hn
  | cons e es ih =>
    intro sp sp' h hn
    simp only [applyEvs] at h
    cases he : applyEv sp e with
    | none => rw [he] at h; cases h
    | some sp1 =>
      rw [he] at h
      refine ih sp1 sp' h ?_
      intro k
      cases e with
      | acquire h' k' => simp only [applyEv] at he; split at he <;> cases he; exact hn k
      | release h' k' => simp only [applyEv] at he; split at he <;> cases he; exact hn k
      | write h' k' v => simp only [applyEv] at he; split at he <;> cases he; exact hn k
      | lateWait h' k' =>
        simp only [applyEv] at he; split at he <;> cases he
        by_cases e : k = k'
        · subst e; simp [updL]
        · simp only [updL, e, ↓reduceIte]; exact hn k
      | wait h' k' =>
        simp only [applyEv] at he
        split at he
        · cases he
        · rename_i hg
          cases he
          simp only [not_or] at hg
          by_cases e : k = k'
          · subst e
            simp only [updL, ↓reduceIte]
            rw [List.nodup_append]
            exact ⟨hn k, by simp, by intro a ha b hb; simp at hb; subst hb; intro e; subst e; exact hg.2 ha⟩
          · simp only [updL, e, ↓reduceIte]; exact hn k
      | grant h' k' =>
        simp only [applyEv] at he; split at he <;> cases he
        by_cases e : k = k'
        · subst e; simp only [updL, ↓reduceIte]; exact nodup_tail _ (hn k)
        · simp only [updL, e, ↓reduceIte]; exact hn k
      | leave h' k' =>
        simp only [applyEv] at he; split at he <;> cases he
        by_cases e : k = k'
        · subst e; simp only [updL, ↓reduceIte]; exact (hn k).erase h'
        · simp only [updL, e, ↓reduceIte]; exact hn k

/-- a waiter that arrives (event `wait h2 k`) while `h1` is already waiting for `k` is behind `h1` -/
theorem ahead_after_wait (k h1 h2 : Nat) (sp sp1 : Spec) (hn : (sp.waiting k).Nodup) (hin : h1 ∈ sp.waiting k)
    (he : applyEv sp (.wait h2 k) = some sp1) : Ahead k h1 h2 sp1 := by
  simp only [applyEv] at he
  split at he
  · cases he
  · rename_i hg
    cases he
    simp only [not_or] at hg
    simp only [Ahead, updL, ↓reduceIte]
    refine ⟨?_, by simp [hin], fun _ => before_new h1 h2 _ hin⟩
    rw [List.nodup_append]
    exact ⟨hn, by simp, by intro a ha b hb; simp at hb; subst hb; intro e; subst e; exact hg.2 ha⟩

end Lockable
