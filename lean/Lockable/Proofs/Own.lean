import Lockable.Proofs.Layers
import Lockable.Proofs.Linear
import Lockable.Proofs.Snap
set_option linter.unusedSimpArgs false
set_option linter.unusedVariables false
namespace Lockable

/-- the handle on whose behalf an action is performed -/
def Act.actor : Act → Option Nat
  | .lookup h _ | .limitLookup h _ _ _ | .tryKey h | .trySpurious h | .enqueue h | .enqueueLate h | .acquire h
  | .cancel h | .cleanupFailed h | .gop h _ | .stamp h | .release h => some h
  | _ => none

/-- the fresh handle ids an action may create -/
def Act.fresh : Act → List Nat
  | .limitLookup _ _ _ hids | .snapshot hids | .expire _ hids => hids
  | _ => []

/-- the tokio mutex of key `x` is owned by handle `w` (as a guard, or as a waiter that was handed the lock) -/
def hold (s : State) (w x : Nat) : Bool :=
  match s.ent x with
  | some m => m.holder == some w
  | none => false

theorem hold_of_ent (s s' : State) (w x : Nat) (h : s'.ent x = s.ent x) : hold s' w x = hold s w x := by
  unfold hold; rw [h]

theorem lookup_hs_other (s : State) (h k w : Nat) (hw : w ≠ h) : (lookup s h k).1.hs w = s.hs w := by
  unfold lookup
  repeat' split
  all_goals simp [State.clone, touch_hs, upd, hw]

theorem tryKey_hs_other (s : State) (h w : Nat) (hw : w ≠ h) : (tryKey s h).1.hs w = s.hs w := by
  unfold tryKey
  repeat' split
  all_goals simp [State.setEnt, State.setSt, upd, hw]

theorem trySpurious_hs_other (s : State) (h w : Nat) (hw : w ≠ h) : (trySpurious s h).1.hs w = s.hs w := by
  unfold trySpurious
  repeat' split
  all_goals simp [State.setEnt, State.setSt, upd, hw]

theorem enqueue_hs_other (s : State) (h w : Nat) (hw : w ≠ h) : (enqueue s h).1.hs w = s.hs w := by
  unfold enqueue
  repeat' split
  all_goals simp [State.setEnt, State.setSt, upd, hw]

theorem enqueueLate_hs_other (s : State) (h w : Nat) (hw : w ≠ h) : (enqueueLate s h).1.hs w = s.hs w := by
  unfold enqueueLate
  repeat' split
  all_goals simp [State.setEnt, State.setSt, upd, hw]

theorem acquire_hs_other (s : State) (h w : Nat) (hw : w ≠ h) : (acquire s h).1.hs w = s.hs w := by
  unfold acquire
  repeat' split
  all_goals simp [State.setEnt, State.setSt, upd, hw]

/-- **handle ownership**: an action changes only the record of the handle it is performed for and creates records only
for the fresh ids it was given; every other handle's record (key, mutex identity, typestate) is untouched -/
theorem hs_step_other (s : State) (a : Act) (w : Nat) (ha : a.actor ≠ some w) (hf : w ∉ a.fresh) :
    (step s a).1.hs w = s.hs w := by
  cases a with
  | lookup h k => exact lookup_hs_other s h k w (fun e => ha (by simp [Act.actor, e]))
  | limitLookup h k n hids =>
    have hw : w ≠ h := fun e => ha (by simp [Act.actor, e])
    simp only [Act.fresh] at hf
    simp only [step]
    split <;> try rfl
    unfold limitLookup
    split <;> try rfl
    split <;> try rfl
    simp only []
    split; · exact lookup_hs_other s h k w hw
    have := evictLoop_hs_other s.order w s hids (s.order.length - (n - 1)) [] hf
    split
    · rename_i e; rw [e] at this; exact this
    · exact lookup_hs_other s h k w hw
    · rename_i e; rw [e] at this; exact this
  | tryKey h => exact tryKey_hs_other s h w (fun e => ha (by simp [Act.actor, e]))
  | trySpurious h => exact trySpurious_hs_other s h w (fun e => ha (by simp [Act.actor, e]))
  | enqueue h => exact enqueue_hs_other s h w (fun e => ha (by simp [Act.actor, e]))
  | enqueueLate h => exact enqueueLate_hs_other s h w (fun e => ha (by simp [Act.actor, e]))
  | acquire h => exact acquire_hs_other s h w (fun e => ha (by simp [Act.actor, e]))
  | cancel h => exact cancel_hs_other s h w (fun e => ha (by simp [Act.actor, e]))
  | cleanupFailed h => exact cleanupFailed_hs_other s h w (fun e => ha (by simp [Act.actor, e]))
  | gop h op => exact gop_hs_other s h op w (fun e => ha (by simp [Act.actor, e]))
  | stamp h => exact stamp_hs_other s h w (fun e => ha (by simp [Act.actor, e]))
  | release h => exact release_hs_other s h w (fun e => ha (by simp [Act.actor, e]))
  | snapshot hids =>
    simp only [Act.fresh] at hf
    simp only [step]
    split <;> try rfl
    unfold snapshot; split <;> try rfl
    exact snapLoop_hs_other _ w _ _ _ hf
  | expire d hids =>
    simp only [Act.fresh] at hf
    simp only [step]
    split <;> try rfl
    unfold expireAt; split <;> try rfl
    split <;> try rfl
    exact expireLoop_hs_other _ w _ _ _ _ hf
  | count => simp only [step, count]; split <;> rfl
  | keys => simp only [step, keys]; split <;> rfl
  | intoEntries => simp only [step, intoEntries]; split <;> rfl
  | tick d => rfl
  | reorder perm => simp only [step, reorder]; split <;> rfl

/-! ### who owns the mutex of a key: changed only by the owner itself and by a hand-off -/

theorem hold_touch (s : State) (k w x : Nat) : hold (s.touch k) w x = hold s w x := by
  unfold hold; rw [touch_ent]

theorem hold_setSt (s : State) (h : Nat) (hd : Handle) (st : HSt) (w x : Nat) : hold (s.setSt h hd st) w x = hold s w x := rfl

theorem hold_lookup (s : State) (h k w x : Nat) (hw : w ≠ h) : hold (lookup s h k).1 w x = hold s w x := by
  unfold lookup
  split; · rfl
  split; · rfl
  split
  · rename_i m hm
    rw [hold_touch]
    unfold hold State.clone
    by_cases hx : x = k
    · subst hx; simp [upd, hm]
    · simp [upd, hx]
  · rename_i hm
    unfold hold
    by_cases hx : x = k
    · subst hx; simp [upd, hm, hw]; exact fun e => hw e.symm
    · simp [upd, hx]

theorem hold_setEnt_holder (s : State) (k : Nat) (m m' : Entry) (w x : Nat) (hm : s.ent k = some m)
    (hh : (m'.holder == some w) = (m.holder == some w)) : hold (s.setEnt k m') w x = hold s w x := by
  unfold hold State.setEnt
  by_cases hx : x = k
  · subst hx; simp only [upd_same, hm, hh]
  · simp only [upd_other _ _ _ _ hx]

theorem beq_some_ne (h w : Nat) (hw : w ≠ h) : (some h == some w) = false := by
  simp; exact fun e => hw e.symm

theorem isNone_holder {m : Entry} (h : m.holder.isNone = true) : m.holder = none := by
  cases hh : m.holder <;> simp_all

theorem hold_tryKey (s : State) (h w x : Nat) (hw : w ≠ h) : hold (tryKey s h).1 w x = hold s w x := by
  unfold tryKey
  cases hh : s.hs h with
  | none => rfl
  | some hd =>
    simp only []
    by_cases hst : hd.st = .replica
    · simp only [hst, ↓reduceIte]
      cases hm : s.entryOf hd with
      | none => rfl
      | some m =>
        simp only []
        obtain ⟨hm1, _⟩ := entryOf_some hm
        by_cases hfree : m.holder.isNone = true
        · simp only [hfree, ↓reduceIte, hold_setSt]
          exact hold_setEnt_holder s _ m _ w x hm1 (by simp only [isNone_holder hfree, beq_some_ne h w hw]; rfl)
        · simp only [hfree, ↓reduceIte, hold_setSt]; rfl
    · simp only [hst, ↓reduceIte]

theorem hold_enqueue (s : State) (h w x : Nat) (hw : w ≠ h) : hold (enqueue s h).1 w x = hold s w x := by
  unfold enqueue
  cases hh : s.hs h with
  | none => rfl
  | some hd =>
    simp only []
    by_cases hst : hd.st = .replica
    · simp only [hst, ↓reduceIte]
      cases hm : s.entryOf hd with
      | none => rfl
      | some m =>
        simp only []
        obtain ⟨hm1, _⟩ := entryOf_some hm
        by_cases hfree : m.holder.isNone = true
        · simp only [hfree, ↓reduceIte, hold_setSt]
          exact hold_setEnt_holder s _ m _ w x hm1 (by simp only [isNone_holder hfree, beq_some_ne h w hw]; rfl)
        · simp only [hfree, ↓reduceIte, hold_setSt]
          exact hold_setEnt_holder s _ m _ w x hm1 rfl
    · simp only [hst, ↓reduceIte]

theorem hold_enqueueLate (s : State) (h w x : Nat) (hw : w ≠ h) : hold (enqueueLate s h).1 w x = hold s w x := by
  unfold enqueueLate
  cases hh : s.hs h with
  | none => rfl
  | some hd =>
    simp only []
    by_cases hst : hd.st = .replica
    · simp only [hst, ↓reduceIte]
      cases hm : s.entryOf hd with
      | none => rfl
      | some m =>
        simp only []
        obtain ⟨hm1, _⟩ := entryOf_some hm
        by_cases hfree : m.holder.isNone = true
        · simp only [hfree, ↓reduceIte, hold_setSt]
          exact hold_setEnt_holder s _ m _ w x hm1 (by simp only [isNone_holder hfree, beq_some_ne h w hw]; rfl)
        · simp only [hfree, ↓reduceIte, hold_setSt]
          exact hold_setEnt_holder s _ m _ w x hm1 rfl
    · simp only [hst, ↓reduceIte]

theorem hold_trySpurious (s : State) (h w x : Nat) : hold (trySpurious s h).1 w x = hold s w x := by
  unfold trySpurious
  repeat' split
  all_goals rfl

theorem hold_acquire (s : State) (h w x : Nat) : hold (acquire s h).1 w x = hold s w x := by
  unfold acquire
  repeat' split
  all_goals rfl

theorem hold_removeKey_free (s : State) (k w x : Nat) (hf : hold s w k = false) : hold (s.removeKey k) w x = hold s w x := by
  unfold hold State.removeKey
  by_cases hx : x = k
  · subst hx; simp only [upd_same]; unfold hold at hf; exact hf.symm
  · simp only [upd_other _ _ _ _ hx]

theorem hold_dropHandle (s : State) (h w x : Nat) : hold (s.dropHandle h) w x = hold s w x := rfl

theorem hold_gop (s : State) (h : Nat) (op : GOp) (w x : Nat) : hold (gop s h op).1 w x = hold s w x := by
  unfold gop
  cases hh : s.hs h with
  | none => rfl
  | some hd =>
    simp only []
    split <;> try rfl
    cases hm : s.entryOf hd with
    | none => rfl
    | some m =>
      obtain ⟨hm1, _⟩ := entryOf_some hm
      cases op <;> simp only [] <;> (try split) <;> (try rfl) <;> exact hold_setEnt_holder s _ m _ w x hm1 rfl

theorem hold_stamp (s : State) (h w x : Nat) : hold (stamp s h).1 w x = hold s w x := by
  unfold stamp
  cases hh : s.hs h with
  | none => rfl
  | some hd =>
    simp only []
    split <;> try rfl
    cases hm : s.entryOf hd with
    | none => rfl
    | some m =>
      obtain ⟨hm1, _⟩ := entryOf_some hm
      simp only [hold_setSt]
      apply hold_setEnt_holder s _ m _ w x hm1
      split <;> rfl

theorem hold_cleanupFailed (s : State) (h w x : Nat) (hw : w ≠ h) : hold (cleanupFailed s h).1 w x = hold s w x := by
  unfold cleanupFailed
  split; · rfl
  cases hh : s.hs h with
  | none => rfl
  | some hd =>
    simp only []
    split <;> try rfl
    cases hm : s.entryOf hd with
    | none => rfl
    | some m =>
      obtain ⟨hm1, _⟩ := entryOf_some hm
      simp only []
      have h1 : ∀ x, hold ((s.setEnt hd.key { m with refs := m.refs.erase h }).dropHandle h) w x = hold s w x := by
        intro x; rw [hold_dropHandle]; exact hold_setEnt_holder s _ m _ w x hm1 rfl
      split
      · split
        · rfl
        · rename_i hnone
          split
          · rw [hold_removeKey_free _ _ _ _ ?_, h1]
            rw [h1]; unfold hold; rw [hm1]
            have : m.holder = none := by cases hq : m.holder <;> simp_all
            simp [this]
          · exact h1 x
      · exact h1 x

theorem hold_scanLock (s : State) (h k : Nat) (m : Entry) (w x : Nat) (hm : s.ent k = some m) (hf : m.holder = none)
    (hw : w ≠ h) : hold (s.scanLock h k m) w x = hold s w x := by
  unfold hold State.scanLock
  by_cases hx : x = k
  · subst hx; simp only [upd_same, hm, hf, beq_some_ne h w hw]; rfl
  · simp only [upd_other _ _ _ _ hx]

theorem hold_clone (s : State) (h k : Nat) (m : Entry) (w x : Nat) (hm : s.ent k = some m) :
    hold (s.clone h k m) w x = hold s w x := by
  unfold hold State.clone
  by_cases hx : x = k
  · subst hx; simp only [upd_same, hm]
  · simp only [upd_other _ _ _ _ hx]

theorem hold_evictLoop (keys : List Nat) (w x : Nat) : ∀ (s : State) (hids : List Nat) (n : Nat) (acc : List Nat),
    w ∉ hids → hold (evictLoop s keys hids n acc).1 w x = hold s w x := by
  induction keys with
  | nil => intro s hids n acc _; simp [evictLoop]
  | cons k ks ih =>
    intro s hids n acc hx
    unfold evictLoop
    split; · rfl
    split; · exact ih s hids n acc hx
    rename_i m hm
    split
    · rename_i hfree
      split
      · split
        · rename_i h hs'
          rw [ih _ hs' n _ (fun e => hx (List.mem_cons_of_mem _ e))]
          exact hold_scanLock s h k m w x hm (isNone_holder hfree) (fun e => hx (by rw [e]; simp))
        · rfl
      · split
        · exact ih s hids n acc hx
        · rfl
    · split
      · exact ih s hids n acc hx
      · rfl

theorem hold_snapLoop (keys : List Nat) (w x : Nat) : ∀ (s : State) (hids : List Nat) (acc : List Nat),
    hold (snapLoop s keys hids acc).1 w x = hold s w x := by
  induction keys with
  | nil => intro s hids acc; simp [snapLoop]
  | cons k ks ih =>
    intro s hids acc
    cases hids with
    | nil => simp [snapLoop]
    | cons h hs' =>
      simp only [snapLoop]
      split
      · rename_i m hm
        rw [ih]; exact hold_clone s h k m w x hm
      · exact ih _ _ _

theorem hold_expireLoop (keys : List Nat) (w x : Nat) : ∀ (s : State) (hids : List Nat) (c : Nat) (acc : List Nat),
    w ∉ hids → hold (expireLoop s keys hids c acc).1 w x = hold s w x := by
  induction keys with
  | nil => intro s hids c acc _; simp [expireLoop]
  | cons k ks ih =>
    intro s hids c acc hx
    unfold expireLoop
    split; · exact ih s hids c acc hx
    rename_i m hm
    split
    · rename_i st h hs' hfree hv
      split
      · rw [ih _ hs' c _ (fun e => hx (List.mem_cons_of_mem _ e))]
        exact hold_scanLock s h k m w x hm hfree (fun e => hx (by rw [e]; simp))
      · exact ih s _ c acc hx
    · exact ih s _ c acc hx

/-! ### hand-off -/

theorem release_ok_facts (s : State) (h : Nat) (hok : (release s h).2 = .unit) :
    ∃ hd hv m, s.hs h = some hd ∧ hd.st = .stamped hv ∧ s.entryOf hd = some m := by
  unfold release at hok
  split at hok; · cases hok
  cases hh : s.hs h with
  | none => simp [hh] at hok
  | some hd =>
    simp only [hh] at hok
    cases hst : hd.st with
    | stamped hv =>
      simp only [hst] at hok
      cases hm : s.entryOf hd with
      | none => simp [hm] at hok
      | some m => exact ⟨hd, hv, m, rfl, hst, hm⟩
    | _ => simp [hst] at hok

theorem nextWaiter_eq (s : State) (h : Nat) (hd : Handle) (m : Entry) (hh : s.hs h = some hd) (hm : s.entryOf hd = some m) :
    nextWaiter s h = if m.holder = some h then m.queue.head? else none := by
  unfold nextWaiter; simp only [hh, hm]

/-- a waiter at the head of a queue refers to that key and is counted -/
theorem head_waiter (s : State) (hi : Inv s) (k : Nat) (m : Entry) (w : Nat) (hm : s.ent k = some m)
    (hq : m.queue.head? = some w) : hkey (s.hs w) = some k ∧ w ∈ m.refs := by
  have hin : w ∈ m.queue := head_mem _ _ hq
  have := ((hi.queue k m hm w).1 hin).1
  exact ⟨this, (hi.refs k m hm w).2 this⟩

theorem hold_release (s : State) (h w : Nat) (wd : Handle) (hi : Inv s) (hww : s.hs w = some wd) (hw : w ≠ h)
    (hok : (release s h).2 = .unit) :
    hold (release s h).1 w wd.key = (hold s w wd.key || (nextWaiter s h == some w)) := by
  obtain ⟨hd, hv, m, hh, hst, hm⟩ := release_ok_facts s h hok
  obtain ⟨hm1, _⟩ := entryOf_some hm
  have hholder : m.holder = some h := hi.guardHolds h hd hh (by simp [hst, HSt.isGuard]) m hm1
  rw [nextWaiter_eq s h hd m hh hm]
  simp only [hholder, ↓reduceIte]
  by_cases hk : wd.key = hd.key
  · rw [hk]
    have hb : hold s w hd.key = false := by unfold hold; rw [hm1]; simp only [hholder, beq_some_ne h w hw]
    rw [hb, Bool.false_or]
    unfold release
    simp only [hi.notWedged, Bool.false_eq_true, ↓reduceIte, hh, hst, hm]
    have e1 : hold ((s.setEnt hd.key (handoff m h)).dropHandle h) w hd.key = (m.queue.head? == some w) := by
      unfold hold State.dropHandle State.setEnt; simp only [upd_same]; rfl
    by_cases hq : m.queue.head? = some w
    · have hne : ¬ (handoff m h).refs.length = 0 := by
        have := (head_waiter s hi hd.key m w hm1 hq).2
        have : w ∈ m.refs.erase h := (List.mem_erase_of_ne hw).2 this
        intro e; simp only [handoff] at e
        rw [List.length_eq_zero_iff] at e; rw [e] at this; simp at this
      split
      · exact e1
      · simp only [hne, ↓reduceIte, hold_touch]; exact e1
    · have e2 : (m.queue.head? == some w) = false := by simpa using hq
      rw [e2] at e1 ⊢
      split
      · exact e1
      · split
        · rw [hold_removeKey_free _ _ _ _ (by rw [hold_touch]; exact e1), hold_touch]; exact e1
        · rw [hold_touch]; exact e1
  · rw [hold_of_ent _ _ _ _ (release_ent_other s h hd wd.key hh hk)]
    have : (m.queue.head? == some w) = false := by
      cases hq : m.queue.head? == some w with
      | false => rfl
      | true =>
        have hq' : m.queue.head? = some w := by simpa using hq
        have := (head_waiter s hi hd.key m w hm1 hq').1
        rw [hww] at this; simp at this; exact absurd this hk
    rw [this, Bool.or_false]

theorem cancel_ok_facts (s : State) (h : Nat) (hok : (cancel s h).2 = .unit) :
    ∃ hd m, s.hs h = some hd ∧ (hd.st = .replica ∨ hd.st = .queued) ∧ s.entryOf hd = some m := by
  unfold cancel at hok
  split at hok; · cases hok
  cases hh : s.hs h with
  | none => simp [hh] at hok
  | some hd =>
    simp only [hh] at hok
    by_cases hst : hd.st = .replica ∨ hd.st = .queued
    · simp only [hst, ↓reduceIte] at hok
      cases hm : s.entryOf hd with
      | none => simp [hm] at hok
      | some m => exact ⟨hd, m, rfl, hst, hm⟩
    · simp [hst] at hok

theorem hold_cancel (s : State) (h w : Nat) (wd : Handle) (hi : Inv s) (hww : s.hs w = some wd) (hw : w ≠ h)
    (hok : (cancel s h).2 = .unit) :
    hold (cancel s h).1 w wd.key = (hold s w wd.key || (nextWaiter s h == some w)) := by
  obtain ⟨hd, m, hh, hst, hm⟩ := cancel_ok_facts s h hok
  obtain ⟨hm1, _⟩ := entryOf_some hm
  rw [nextWaiter_eq s h hd m hh hm]
  by_cases hk : wd.key = hd.key
  · rw [hk]
    unfold cancel at hok ⊢
    simp only [hi.notWedged, Bool.false_eq_true, ↓reduceIte, hh, hst, hm] at hok ⊢
    by_cases hholder : m.holder = some h
    · simp only [hholder, ↓reduceIte] at hok ⊢
      have hb : hold s w hd.key = false := by unfold hold; rw [hm1]; simp only [hholder, beq_some_ne h w hw]
      rw [hb, Bool.false_or]
      have e1 : hold ((s.setEnt hd.key (handoff m h)).dropHandle h) w hd.key = (m.queue.head? == some w) := by
        unfold hold State.dropHandle State.setEnt; simp only [upd_same]; rfl
      by_cases hq : m.queue.head? = some w
      · have hne : ¬ (handoff m h).refs.length = 0 := by
          have := (head_waiter s hi hd.key m w hm1 hq).2
          have : w ∈ m.refs.erase h := (List.mem_erase_of_ne hw).2 this
          intro e; simp only [handoff] at e
          rw [List.length_eq_zero_iff] at e; rw [e] at this; simp at this
        simp only [hne, ↓reduceIte]; exact e1
      · have e2 : (m.queue.head? == some w) = false := by simpa using hq
        rw [e2] at e1 ⊢
        split
        · split
          · rename_i hc; simp only [hc, ↓reduceIte] at hok; rename_i hc2; simp [hc2] at hok
          · split
            · rw [hold_removeKey_free _ _ _ _ e1]; exact e1
            · exact e1
        · exact e1
    · simp only [hholder, ↓reduceIte] at hok ⊢
      have hnn : ((none : Option Nat) == some w) = false := rfl
      rw [hnn, Bool.or_false]
      have e1 : hold ((s.setEnt hd.key { m with queue := m.queue.erase h, refs := m.refs.erase h }).dropHandle h) w hd.key
          = hold s w hd.key := by
        rw [hold_dropHandle]; exact hold_setEnt_holder s _ m _ w _ hm1 rfl
      split
      · split
        · rename_i hc; simp only [hc, ↓reduceIte] at hok; rename_i hc2; simp [hc2] at hok
        · rename_i hnone
          have hb : hold s w hd.key = false := by
            unfold hold; rw [hm1]
            have : m.holder = none := by cases hq : m.holder <;> simp_all
            simp [this]
          split
          · rw [hold_removeKey_free _ _ _ _ (by rw [e1]; exact hb)]; exact e1
          · exact e1
      · exact e1
  · rw [hold_of_ent _ _ _ _ (cancel_ent_other s h hd wd.key hh hk)]
    have : ((if m.holder = some h then m.queue.head? else none) == some w) = false := by
      split
      · cases hq : m.queue.head? == some w with
        | false => rfl
        | true =>
          have hq' : m.queue.head? = some w := by simpa using hq
          have := (head_waiter s hi hd.key m w hm1 hq').1
          rw [hww] at this; simp at this; exact absurd this hk
      · rfl
    rw [this, Bool.or_false]

theorem release_fail_ent (s : State) (h : Nat) (hne : (release s h).2 ≠ .unit) : (release s h).1.ent = s.ent := by
  have : (release s h).1.ent = s.ent ∨ (release s h).2 = .unit := by
    unfold release
    repeat' split
    all_goals first
      | (left; rfl)
      | (right; rfl)
      | skip
    all_goals simp only []
    all_goals repeat' split
    all_goals first
      | (left; rfl)
      | (right; rfl)
  rcases this with e | e
  · exact e
  · exact absurd e hne

theorem cancel_fail_ent (s : State) (h : Nat) (hne : (cancel s h).2 ≠ .unit) : (cancel s h).1.ent = s.ent := by
  have : (cancel s h).1.ent = s.ent ∨ (cancel s h).2 = .unit := by
    unfold cancel
    repeat' split
    all_goals first
      | (left; rfl)
      | (right; rfl)
      | skip
    all_goals simp only []
    all_goals repeat' split
    all_goals first
      | (left; rfl)
      | (right; rfl)
  rcases this with e | e
  · exact e
  · exact absurd e hne

/-- the waiter (if any) that an action hands a mutex to: the oldest waiter of the key whose owner goes away -/
def handedTo (s : State) (a : Act) : Option Nat :=
  match a with
  | .release h => if (release s h).2 = .unit then nextWaiter s h else none
  | .cancel h => if (cancel s h).2 = .unit then nextWaiter s h else none
  | _ => none

/-- **mutex ownership**: for a live handle `w`, "the mutex of my key is mine" is changed by other parties' actions in one
way only: the owner's release (or a cancelled owner-to-be's clean-up) hands it to `w` as the oldest waiter. Nobody else can take
it away again, and nobody else can give it. -/
theorem hold_step_other (s : State) (a : Act) (w : Nat) (wd : Handle) (hi : Inv s) (hww : s.hs w = some wd)
    (ha : a.actor ≠ some w) (hf : w ∉ a.fresh) :
    hold (step s a).1 w wd.key = (hold s w wd.key || (handedTo s a == some w)) := by
  have hnn : ((none : Option Nat) == some w) = false := rfl
  cases a with
  | release h =>
    have hw : w ≠ h := fun e => ha (by simp [Act.actor, e])
    simp only [step, handedTo]
    by_cases hok : (release s h).2 = .unit
    · simp only [hok, ↓reduceIte]; exact hold_release s h w wd hi hww hw hok
    · simp only [hok, ↓reduceIte, hnn, Bool.or_false]; exact hold_of_ent _ _ _ _ (by rw [release_fail_ent s h hok])
  | cancel h =>
    have hw : w ≠ h := fun e => ha (by simp [Act.actor, e])
    simp only [step, handedTo]
    by_cases hok : (cancel s h).2 = .unit
    · simp only [hok, ↓reduceIte]; exact hold_cancel s h w wd hi hww hw hok
    · simp only [hok, ↓reduceIte, hnn, Bool.or_false]; exact hold_of_ent _ _ _ _ (by rw [cancel_fail_ent s h hok])
  | lookup h k =>
    simp only [handedTo, hnn, Bool.or_false]; exact hold_lookup s h k w _ (fun e => ha (by simp [Act.actor, e]))
  | limitLookup h k n hids =>
    have hw : w ≠ h := fun e => ha (by simp [Act.actor, e])
    simp only [Act.fresh] at hf
    simp only [handedTo, hnn, Bool.or_false, step]
    split <;> try rfl
    unfold limitLookup
    split <;> try rfl
    split <;> try rfl
    simp only []
    split; · exact hold_lookup s h k w _ hw
    have := hold_evictLoop s.order w wd.key s hids (s.order.length - (n - 1)) [] hf
    split
    · rename_i e; rw [e] at this; exact this
    · exact hold_lookup s h k w _ hw
    · rename_i e; rw [e] at this; exact this
  | tryKey h => simp only [handedTo, hnn, Bool.or_false]; exact hold_tryKey s h w _ (fun e => ha (by simp [Act.actor, e]))
  | trySpurious h => simp only [handedTo, hnn, Bool.or_false]; exact hold_trySpurious s h w _
  | enqueue h => simp only [handedTo, hnn, Bool.or_false]; exact hold_enqueue s h w _ (fun e => ha (by simp [Act.actor, e]))
  | enqueueLate h =>
    simp only [handedTo, hnn, Bool.or_false]; exact hold_enqueueLate s h w _ (fun e => ha (by simp [Act.actor, e]))
  | acquire h => simp only [handedTo, hnn, Bool.or_false]; exact hold_acquire s h w _
  | cleanupFailed h =>
    simp only [handedTo, hnn, Bool.or_false]; exact hold_cleanupFailed s h w _ (fun e => ha (by simp [Act.actor, e]))
  | gop h op => simp only [handedTo, hnn, Bool.or_false]; exact hold_gop s h op w _
  | stamp h => simp only [handedTo, hnn, Bool.or_false]; exact hold_stamp s h w _
  | snapshot hids =>
    simp only [handedTo, hnn, Bool.or_false, step]
    split <;> try rfl
    unfold snapshot; split <;> try rfl
    exact hold_snapLoop _ w _ _ _ _
  | expire d hids =>
    simp only [Act.fresh] at hf
    simp only [handedTo, hnn, Bool.or_false, step]
    split <;> try rfl
    unfold expireAt; split <;> try rfl
    split <;> try rfl
    exact hold_expireLoop _ w _ _ _ _ _ hf
  | count => simp only [handedTo, hnn, Bool.or_false, step, count]; split <;> rfl
  | keys => simp only [handedTo, hnn, Bool.or_false, step, keys]; split <;> rfl
  | intoEntries => simp only [handedTo, hnn, Bool.or_false, step, intoEntries]; split <;> rfl
  | tick d => simp only [handedTo, hnn, Bool.or_false]; rfl
  | reorder perm => simp only [handedTo, hnn, Bool.or_false, step, reorder]; split <;> rfl

end Lockable
