/-
Theorem B: sequential refinement. A single caller using acquisitions without limit, polls and
cancellations of pending acquisitions, guard methods and guard drops: the container behaves like the
abstract `Spec` (a plain map, at most one guard per key, FIFO waiters per key).
-/
import Lockable.Proofs.ApiLemmas
namespace Lockable

/-- the abstract specification state -/
structure Spec where
  /-- the plain key → value map -/
  vals : Nat → Option Nat
  /-- the guard currently alive for a key -/
  held : Nat → Option Nat
  /-- pending acquisitions of a key, oldest first -/
  waiting : Nat → List Nat

def Spec.init : Spec := { vals := fun _ => none, held := fun _ => none, waiting := fun _ => [] }

def updL (f : Nat → List Nat) (k : Nat) (v : List Nat) : Nat → List Nat := fun x => if x = k then v else f x

inductive SCall where
  | lockWait (h k : Nat) | lockTry (h k : Nat)
  | poll (h k : Nat) | cancel (h k : Nat) | drop (h k : Nat)
  | op (h k : Nat) (g : GOp)
deriving Repr

inductive SOut where
  | guard | none | pending | ok | bad
  | val (o : Out)
deriving DecidableEq, Repr

def Spec.free (sp : Spec) (k : Nat) : Bool := (sp.held k).isNone && (sp.waiting k).isEmpty

/-- plain-map semantics of the guard methods -/
def specOp (cur : Option Nat) : GOp → Option Nat × Out
  | .value => (cur, .optVal cur)
  | .valueMut v => match cur with | some _ => (some v, .bool true) | none => (none, .bool false)
  | .insert v => (some v, .optVal cur)
  | .tryInsert v => match cur with | some _ => (cur, .bool false) | none => (some v, .bool true)
  | .valueOrInsert v | .valueOrInsertWith v => match cur with | some w => (cur, .nat w) | none => (some v, .nat v)
  | .valueOrInsertWithPanic => match cur with | some w => (cur, .nat w) | none => (none, .userPanic)
  | .remove => (none, .optVal cur)
  | .key => (cur, .unit)   -- the key itself is reported by the caller

def specExec (sp : Spec) : SCall → Spec × SOut
  | .lockWait h k =>
    if sp.free k then ({ sp with held := upd sp.held k (some h) }, .guard)
    else ({ sp with waiting := updL sp.waiting k (sp.waiting k ++ [h]) }, .pending)
  | .lockTry h k =>
    if sp.free k then ({ sp with held := upd sp.held k (some h) }, .guard) else (sp, .none)
  | .poll h k =>
    if (sp.held k).isNone && (sp.waiting k).head? == some h then
      ({ sp with held := upd sp.held k (some h), waiting := updL sp.waiting k (sp.waiting k).tail }, .guard)
    else (sp, .pending)
  | .cancel h k => ({ sp with waiting := updL sp.waiting k ((sp.waiting k).erase h) }, .ok)
  | .drop _ k => ({ sp with held := upd sp.held k none }, .ok)
  | .op _ k g =>
    let r := specOp (sp.vals k) g
    ({ sp with vals := upd sp.vals k r.1 }, .val (match g with | .key => .nat k | _ => r.2))

/-- the concrete call corresponding to an abstract one -/
def SCall.toCall : SCall → Call
  | .lockWait h k => .lock .wait h k .none 0
  | .lockTry h k => .lock .try h k .none 0
  | .poll h _ => .poll h
  | .cancel h _ => .cancel h
  | .drop h _ => .drop h
  | .op h _ g => .op h g

def resOut : Res → SOut
  | .guard => .guard | .none => .none | .pending => .pending | .ok => .ok
  | .out o => .val o
  | _ => .bad

/-- the waiters of a key in arrival order: a waiter that was handed the lock first, then the queue -/
def waitersOf (s : State) (m : Entry) : List Nat :=
  (match m.holder with
   | some w => if hst (s.hs w) = some .queued then [w] else []
   | none => []) ++ m.queue

def waitingOf (s : State) (k : Nat) : List Nat :=
  match s.ent k with
  | some m => waitersOf s m
  | none => []

/-- the abstraction relation between calls of a sequential client -/
structure Rel (s : State) (sp : Spec) : Prop where
  vals : ∀ k, absVal s k = sp.vals k
  held : ∀ k h, sp.held k = some h ↔ (hkey (s.hs h) = some k ∧ hst (s.hs h) = some .holding)
  wait : ∀ k, sp.waiting k = waitingOf s k
  /-- between two calls of a sequential client every live handle is a guard or a pending acquisition -/
  seq : ∀ h st, hst (s.hs h) = some st → st = .holding ∨ st = .queued

theorem rel_init (kind : Kind) : Rel (State.init kind) Spec.init := by
  constructor <;> simp [State.init, Spec.init, absVal, valOf, waitingOf]

/-- the spec's `free` is the concrete "mutex has no holder" -/
theorem free_iff (s : State) (sp : Spec) (hi : Inv s) (hr : Rel s sp) (k : Nat) (m : Entry) (hm : s.ent k = some m) :
    sp.free k = true ↔ m.holder = none := by
  unfold Spec.free
  constructor
  · intro hf
    simp only [Bool.and_eq_true, Option.isNone_iff_eq_none, List.isEmpty_iff] at hf
    cases hh : m.holder with
    | none => rfl
    | some x =>
      exfalso
      obtain ⟨hk, st, hs1, hs2⟩ := hi.holderLive k m x hm hh
      rcases hr.seq x st hs1 with e | e
      · subst e
        have := (hr.held k x).2 ⟨hk, hs1⟩
        rw [hf.1] at this; cases this
      · subst e
        have hw := hr.wait k
        simp only [waitingOf, hm, waitersOf, hh, hs1, ↓reduceIte] at hw
        rw [hf.2] at hw; cases hw
  · intro hfree
    simp only [Bool.and_eq_true, Option.isNone_iff_eq_none, List.isEmpty_iff]
    constructor
    · cases hh : sp.held k with
      | none => rfl
      | some x =>
        exfalso
        obtain ⟨hk, hs1⟩ := (hr.held k x).1 hh
        obtain ⟨xd, e1, e2⟩ := hkey_inv hk
        obtain ⟨xd', e1', e2'⟩ := hst_inv hs1
        rw [e1] at e1'; cases e1'
        have := hi.guardHolds x xd e1 (by simp [e2', HSt.isGuard]) m (by rw [e2]; exact hm)
        rw [hfree] at this; cases this
    · rw [hr.wait k]
      simp [waitingOf, hm, waitersOf, hfree, hi.freeNoQueue k m hm hfree]


theorem rel_congr (s s' : State) (sp : Spec) (he : ∀ x, s'.ent x = s.ent x) (hh : ∀ x, s'.hs x = s.hs x)
    (hr : Rel s sp) : Rel s' sp := by
  constructor
  · intro k; rw [← hr.vals k]; unfold absVal; rw [he]
  · intro k h; rw [hr.held k h, hh]
  · intro k; rw [hr.wait k]; unfold waitingOf; rw [he]; cases s.ent k with
    | none => rfl
    | some m => simp only [waitersOf]; cases m.holder with
      | none => rfl
      | some w => simp only [hh]
  · intro h st; rw [hh]; exact hr.seq h st

/-- preconditions of the abstract calls: what Rust's ownership gives a sequential client -/
def Pre (s : State) : SCall → Prop
  | .lockWait h _ | .lockTry h _ => s.hs h = none
  | .poll h k | .cancel h k => s.hs h ≠ none ∧ hkey (s.hs h) = some k ∧ hst (s.hs h) = some .queued
  | .drop h k | .op h k _ => s.hs h ≠ none ∧ hkey (s.hs h) = some k ∧ hst (s.hs h) = some .holding

/-- locking an absent key: both sides answer `guard` at once -/
theorem sim_lock_absent (s : State) (sp : Spec) (hi : Inv s) (hr : Rel s sp) (v : Variant) (h k : Nat)
    (hf : s.hs h = none) (hm : s.ent k = none) :
    let r := (Api.lock ⟨s, [], []⟩ v h k .none 0)
    resOut r.2.res = .guard ∧ sp.free k = true ∧ Rel r.1.s { sp with held := upd sp.held k (some h) } := by
  have hnoh : ∀ x, hkey (s.hs x) ≠ some k := by
    intro x e
    obtain ⟨xd, e1, e2⟩ := hkey_inv e
    have := hi.live x xd e1; rw [e2, hm] at this; simp at this
  have hfree : sp.free k = true := by
    unfold Spec.free
    simp only [Bool.and_eq_true, Option.isNone_iff_eq_none, List.isEmpty_iff]
    constructor
    · cases hh : sp.held k with
      | none => rfl
      | some x => exact absurd ((hr.held k x).1 hh).1 (hnoh x)
    · rw [hr.wait k]; simp [waitingOf, hm]
  have hst : (Api.lock ⟨s, [], []⟩ v h k .none 0) =
      (⟨{ s with ent := upd s.ent k (some ⟨s.nextE, none, some h, [], [h]⟩),
                 hs := upd s.hs h (some ⟨k, s.nextE, .holding⟩),
                 order := s.order ++ [k], nextE := s.nextE + 1 }, [], []⟩, ⟨[], .guard⟩) := by
    simp [Api.lock, Api.lockPrelude, lookup, hi.notWedged, hf, hm, upd]
  rw [hst]
  refine ⟨rfl, hfree, ?_⟩
  have rv := hr.vals; have rh := hr.held; have rw' := hr.wait; have rs := hr.seq
  constructor
  · intro x
    simp only [absVal, upd]
    by_cases e : x = k
    · subst e; simp [valOf, ← rv x, absVal, hm]
    · simp [e]; exact rv x
  · intro x g
    simp only [upd]
    by_cases e : x = k
    · subst e
      by_cases eg : g = h
      · subst eg; simp
      · simp [eg]
        constructor
        · intro e2; exact absurd e2.symm eg
        · intro e2; exact absurd e2.1 (hnoh g)
    · simp only [e, ↓reduceIte]
      by_cases eg : g = h
      · subst eg; simp [hf, rh x g, Ne.symm e]
      · simp [eg]; exact rh x g
  · intro x
    simp only [waitingOf, upd]
    by_cases e : x = k
    · subst e
      have : sp.waiting x = [] := by rw [rw' x]; simp [waitingOf, hm]
      simp [waitersOf, this]
    · simp only [e, ↓reduceIte]
      rw [rw' x]
      simp only [waitingOf]
      cases hx : s.ent x with
      | none => rfl
      | some mx =>
        simp only [waitersOf]
        cases hho : mx.holder with
        | none => rfl
        | some w =>
          have hwh : w ≠ h := by
            intro e2; subst e2
            have := (hi.holderLive x mx w hx hho).1; rw [hf] at this; simp at this
          simp [upd, hwh]
  · intro g st
    simp only [upd]
    by_cases eg : g = h
    · subst eg; simp; intro e; exact Or.inl e.symm
    · simp [eg]; exact rs g st


/-- a call changes the concrete and the abstract state only at one key `k` and one handle `h` of that key:
the relation then only has to be re-established locally -/
theorem rel_local (s s' : State) (sp sp' : Spec) (h k : Nat) (hi : Inv s) (hr : Rel s sp)
    (hkh : hkey (s.hs h) = some k ∨ s.hs h = none)
    (hkh' : hkey (s'.hs h) = some k ∨ s'.hs h = none)
    (he : ∀ x, x ≠ k → s'.ent x = s.ent x) (hh : ∀ g, g ≠ h → s'.hs g = s.hs g)
    (hv : ∀ x, x ≠ k → sp'.vals x = sp.vals x) (hhe : ∀ x, x ≠ k → sp'.held x = sp.held x)
    (hw : ∀ x, x ≠ k → sp'.waiting x = sp.waiting x)
    (lv : absVal s' k = sp'.vals k)
    (lh : ∀ g, sp'.held k = some g ↔ (hkey (s'.hs g) = some k ∧ hst (s'.hs g) = some .holding))
    (lw : sp'.waiting k = waitingOf s' k)
    (ls : ∀ st, hst (s'.hs h) = some st → st = .holding ∨ st = .queued) : Rel s' sp' := by
  have hnotx : ∀ x, x ≠ k → hkey (s.hs h) ≠ some x := by
    intro x hx e
    rcases hkh with e2 | e2
    · rw [e2] at e; exact hx (Option.some.inj e).symm
    · rw [e2] at e; simp at e
  have hnotx' : ∀ x, x ≠ k → hkey (s'.hs h) ≠ some x := by
    intro x hx e
    rcases hkh' with e2 | e2
    · rw [e2] at e; exact hx (Option.some.inj e).symm
    · rw [e2] at e; simp at e
  constructor
  · intro x
    by_cases e : x = k
    · subst e; exact lv
    · rw [hv x e, ← hr.vals x]; unfold absVal; rw [he x e]
  · intro x g
    by_cases e : x = k
    · subst e; exact lh g
    · rw [hhe x e, hr.held x g]
      by_cases eg : g = h
      · subst eg
        constructor
        · intro c; exact absurd c.1 (hnotx x e)
        · intro c; exact absurd c.1 (hnotx' x e)
      · rw [hh g eg]
  · intro x
    by_cases e : x = k
    · subst e; exact lw
    · rw [hw x e, hr.wait x]
      unfold waitingOf
      rw [he x e]
      cases hx : s.ent x with
      | none => rfl
      | some mx =>
        simp only [waitersOf]
        cases hho : mx.holder with
        | none => rfl
        | some w =>
          have hwh : w ≠ h := by
            intro e2; subst e2
            exact hnotx x e (hi.holderLive x mx w hx hho).1
          simp only [hh w hwh]
  · intro g st
    by_cases eg : g = h
    · subst eg; exact ls st
    · rw [hh g eg]; exact hr.seq g st


theorem waitingOf_eq (s : State) (k : Nat) (m : Entry) (hm : s.ent k = some m) : waitingOf s k = waitersOf s m := by
  simp [waitingOf, hm]

/-- locking a present, free key: guard at once -/
theorem sim_lock_free (s : State) (sp : Spec) (hi : Inv s) (hr : Rel s sp) (v : Variant) (h k : Nat) (m : Entry)
    (hf : s.hs h = none) (hm : s.ent k = some m) (hfree : m.holder = none) :
    let r := (Api.lock ⟨s, [], []⟩ v h k .none 0)
    resOut r.2.res = .guard ∧ Rel r.1.s { sp with held := upd sp.held k (some h) } ∧ Inv r.1.s := by
  have hlk : (lookup s h k) = ((s.clone h k m).touch k, .unit) := by
    simp [lookup, hi.notWedged, hf, hm]
  have hhs : ((s.clone h k m).touch k).hs h = some ⟨k, m.eid, .replica⟩ := by
    rw [touch_hs]; simp [State.clone, upd]
  have hent : ((s.clone h k m).touch k).ent k = some { m with refs := h :: m.refs } := by
    rw [touch_ent]; simp [State.clone, upd]
  have heo : ((s.clone h k m).touch k).entryOf ⟨k, m.eid, .replica⟩ = some { m with refs := h :: m.refs } := by
    simp [State.entryOf, hent]
  let s' := (((s.clone h k m).touch k).setEnt k { m with refs := h :: m.refs, holder := some h }).setSt h ⟨k, m.eid, .replica⟩ .holding
  have hst : (Api.lock ⟨s, [], []⟩ v h k .none 0) = (⟨s', [], []⟩, ⟨[], .guard⟩) := by
    cases v <;> simp [Api.lock, Api.lockPrelude, hlk, hhs, enqueue, tryKey, heo, hfree, s']
  have hinv : Inv s' := by
    have h1 : Inv ((s.clone h k m).touch k) := by have := inv_lookup s h k hi; rw [hlk] at this; exact this
    have h2 := inv_enqueue _ h h1
    simp only [enqueue, hhs, heo, hfree] at h2
    exact h2
  rw [hst]
  refine ⟨rfl, ?_, hinv⟩
  have hq : m.queue = [] := hi.freeNoQueue k m hm hfree
  have hsw : sp.waiting k = [] := by rw [hr.wait k, waitingOf_eq s k m hm]; simp [waitersOf, hfree, hq]
  have hs'h : s'.hs h = some ⟨k, m.eid, .holding⟩ := by simp [s', State.setSt, upd]
  have hs'e : s'.ent k = some { m with refs := h :: m.refs, holder := some h } := by
    simp [s', State.setSt, State.setEnt, upd]
  apply rel_local s s' sp _ h k hi hr (Or.inr hf) (Or.inl (by simp [hs'h]))
  · intro x hx; simp [s', State.setSt, State.setEnt, State.clone, touch_ent, upd, hx]
  · intro g hg; simp [s', State.setSt, State.setEnt, State.clone, touch_hs, upd, hg]
  · intro x _; rfl
  · intro x hx; simp [upd, hx]
  · intro x _; rfl
  · simp only [absVal, hs'e, valOf]; rw [← hr.vals k]; simp [absVal, hm, valOf]
  · intro g
    simp only [upd, ↓reduceIte]
    by_cases eg : g = h
    · subst eg; simp [hs'h]
    · have : s'.hs g = s.hs g := by simp [s', State.setSt, State.setEnt, State.clone, touch_hs, upd, eg]
      rw [this]
      constructor
      · intro e; exact absurd (Option.some.inj e).symm eg
      · intro ⟨e1, e2⟩
        exfalso
        obtain ⟨gd, a1, a2⟩ := hkey_inv e1
        obtain ⟨gd', b1, b2⟩ := hst_inv e2
        rw [a1] at b1; cases b1
        have := hi.guardHolds g gd a1 (by simp [b2, HSt.isGuard]) m (by rw [a2]; exact hm)
        rw [hfree] at this; cases this
  · show sp.waiting k = waitingOf s' k
    rw [hsw, waitingOf_eq s' k _ hs'e]
    simp [waitersOf, hs'h, hq]
  · intro st e; rw [hs'h] at e; simp at e; exact Or.inl e.symm


/-- a waiting acquisition on a key that is held or awaited: queued at the end -/
theorem sim_lock_wait_held (s : State) (sp : Spec) (hi : Inv s) (hr : Rel s sp) (h k : Nat) (m : Entry)
    (hf : s.hs h = none) (hm : s.ent k = some m) (hheld : m.holder ≠ none) :
    let r := (Api.lock ⟨s, [], []⟩ .wait h k .none 0)
    resOut r.2.res = .pending ∧ Rel r.1.s { sp with waiting := updL sp.waiting k (sp.waiting k ++ [h]) } ∧ Inv r.1.s := by
  have hlk : (lookup s h k) = ((s.clone h k m).touch k, .unit) := by
    simp [lookup, hi.notWedged, hf, hm]
  have hhs : ((s.clone h k m).touch k).hs h = some ⟨k, m.eid, .replica⟩ := by
    rw [touch_hs]; simp [State.clone, upd]
  have hent : ((s.clone h k m).touch k).ent k = some { m with refs := h :: m.refs } := by
    rw [touch_ent]; simp [State.clone, upd]
  have heo : ((s.clone h k m).touch k).entryOf ⟨k, m.eid, .replica⟩ = some { m with refs := h :: m.refs } := by
    simp [State.entryOf, hent]
  have hsome : m.holder.isNone = false := by cases hx : m.holder <;> simp_all
  let s' := (((s.clone h k m).touch k).setEnt k { m with refs := h :: m.refs, queue := m.queue ++ [h] }).setSt h ⟨k, m.eid, .replica⟩ .queued
  have hst : (Api.lock ⟨s, [], []⟩ .wait h k .none 0) = (⟨s', [], []⟩, ⟨[], .pending⟩) := by
    simp [Api.lock, Api.lockPrelude, hlk, hhs, enqueue, heo, hsome, s']
  have hinv : Inv s' := by
    have h1 : Inv ((s.clone h k m).touch k) := by have := inv_lookup s h k hi; rw [hlk] at this; exact this
    have h2 := inv_enqueue _ h h1
    simp only [enqueue, hhs, heo, hsome] at h2
    exact h2
  rw [hst]
  refine ⟨rfl, ?_, hinv⟩
  have hs'h : s'.hs h = some ⟨k, m.eid, .queued⟩ := by simp [s', State.setSt, upd]
  have hs'e : s'.ent k = some { m with refs := h :: m.refs, queue := m.queue ++ [h] } := by
    simp [s', State.setSt, State.setEnt, upd]
  have hother : ∀ g, g ≠ h → s'.hs g = s.hs g := by
    intro g hg; simp [s', State.setSt, State.setEnt, State.clone, touch_hs, upd, hg]
  apply rel_local s s' sp _ h k hi hr (Or.inr hf) (Or.inl (by simp [hs'h]))
  · intro x hx; simp [s', State.setSt, State.setEnt, State.clone, touch_ent, upd, hx]
  · exact hother
  · intro x _; rfl
  · intro x _; rfl
  · intro x hx; simp [updL, hx]
  · simp only [absVal, hs'e, valOf]; rw [← hr.vals k]; simp [absVal, hm, valOf]
  · intro g
    show sp.held k = some g ↔ _
    rw [hr.held k g]
    by_cases eg : g = h
    · subst eg; simp [hs'h, hf]
    · rw [hother g eg]
  · show updL sp.waiting k (sp.waiting k ++ [h]) k = waitingOf s' k
    simp only [updL, ↓reduceIte]
    rw [hr.wait k, waitingOf_eq s k m hm, waitingOf_eq s' k _ hs'e]
    simp only [waitersOf]
    cases hho : m.holder with
    | none => exact absurd hho hheld
    | some w =>
      have hwh : w ≠ h := by
        intro e; subst e
        have := (hi.holderLive k m w hm hho).1; rw [hf] at this; simp at this
      simp only [hother w hwh, List.append_assoc]
  · intro st e; rw [hs'h] at e; simp at e; exact Or.inr e.symm

/-- a try on a key that is held or awaited: `none`, and nothing changes (except lru recency) -/
theorem sim_lock_try_held (s : State) (sp : Spec) (hi : Inv s) (hr : Rel s sp) (h k : Nat) (m : Entry)
    (hf : s.hs h = none) (hm : s.ent k = some m) (hheld : m.holder ≠ none) :
    let r := (Api.lock ⟨s, [], []⟩ .try h k .none 0)
    resOut r.2.res = .none ∧ Rel r.1.s sp ∧ Inv r.1.s := by
  have hlk : (lookup s h k) = ((s.clone h k m).touch k, .unit) := by
    simp [lookup, hi.notWedged, hf, hm]
  have hhs : ((s.clone h k m).touch k).hs h = some ⟨k, m.eid, .replica⟩ := by
    rw [touch_hs]; simp [State.clone, upd]
  have hent : ((s.clone h k m).touch k).ent k = some { m with refs := h :: m.refs } := by
    rw [touch_ent]; simp [State.clone, upd]
  have heo : ((s.clone h k m).touch k).entryOf ⟨k, m.eid, .replica⟩ = some { m with refs := h :: m.refs } := by
    simp [State.entryOf, hent]
  have hsome : m.holder.isNone = false := by cases hx : m.holder <;> simp_all
  let s1 := ((s.clone h k m).touch k).setSt h ⟨k, m.eid, .replica⟩ .failedTry
  have htk : tryKey ((s.clone h k m).touch k) h = (s1, .bool false) := by
    simp [tryKey, hhs, heo, hsome, s1]
  have hi1 : Inv ((s.clone h k m).touch k) := by have := inv_lookup s h k hi; rw [hlk] at this; exact this
  have hi2 : Inv s1 := by have := inv_tryKey _ h hi1; rw [htk] at this; exact this
  have hh2 : s1.hs h = some ⟨k, m.eid, .failedTry⟩ := by simp [s1, State.setSt, upd]
  have heo2 : s1.entryOf ⟨k, m.eid, .failedTry⟩ = some { m with refs := h :: m.refs } := by
    simp [s1, State.entryOf, State.setSt, hent]
  have hsp := cleanupFailed_spec s1 h ⟨k, m.eid, .failedTry⟩ _ hi2 hh2 rfl heo2
  have hres : (Api.lock ⟨s, [], []⟩ .try h k .none 0) = (⟨(cleanupFailed s1 h).1, [], []⟩, ⟨[], .none⟩) := by
    simp only [Api.lock, Api.lockPrelude, hlk, hhs, htk, hsp.1]
    simp
  rw [hres]
  refine ⟨rfl, ?_, inv_cleanupFailed s1 h hi2⟩
  -- the clean-up restores the entry and removes the handle: pointwise the old state
  have hlen : ({ m with refs := h :: m.refs } : Entry).refs.length ≠ 1 := by
    have : m.refs ≠ [] := by
      cases hho : m.holder with
      | none => exact absurd hho hheld
      | some w =>
        have := (hi.refs k m hm w).2 (hi.holderLive k m w hm hho).1
        intro e; rw [e] at this; cases this
    cases hr' : m.refs with
    | nil => exact absurd hr' this
    | cons a t => simp
  have hfinal : (cleanupFailed s1 h).1 = (s1.setEnt k { m with refs := (h :: m.refs).erase h }).dropHandle h := by
    unfold cleanupFailed
    simp only [hi2.notWedged, Bool.false_eq_true, ↓reduceIte, hh2, heo2, hlen]
  apply rel_congr s _ sp _ _ hr
  · intro x
    rw [hfinal]
    by_cases e : x = k
    · subst e; simp [State.setEnt, State.dropHandle, upd, hm]
    · simp [State.setEnt, State.dropHandle, upd, e, s1, State.setSt, State.clone, touch_ent]
  · intro g
    rw [hfinal]
    by_cases e : g = h
    · subst e; simp [State.setEnt, State.dropHandle, upd, hf]
    · simp [State.setEnt, State.dropHandle, upd, e, s1, State.setSt, State.clone, touch_hs]


/-- facts about a pending acquisition `h` of key `k` in a sequential state -/
theorem queued_facts (s : State) (sp : Spec) (hi : Inv s) (hr : Rel s sp) (h k : Nat)
    (hpre : s.hs h ≠ none ∧ hkey (s.hs h) = some k ∧ hst (s.hs h) = some .queued) :
    ∃ hd m, s.hs h = some hd ∧ hd.key = k ∧ hd.st = .queued ∧ s.ent k = some m ∧ s.entryOf hd = some m ∧
      (m.holder = some h ↔ ((sp.held k).isNone && (sp.waiting k).head? == some h) = true) := by
  obtain ⟨_, hk, hs1⟩ := hpre
  obtain ⟨hd, e1, e2⟩ := hkey_inv hk
  obtain ⟨hd', e1', e3⟩ := hst_inv hs1
  rw [e1] at e1'; cases e1'
  obtain ⟨m, hm, he⟩ := eeid_inv (hi.live h hd e1)
  rw [e2] at hm
  have heo : s.entryOf hd = some m := by simp [State.entryOf, e2, hm, he]
  refine ⟨hd, m, e1, e2, e3, hm, heo, ?_⟩
  simp only [Bool.and_eq_true, Option.isNone_iff_eq_none, beq_iff_eq]
  rw [hr.wait k, waitingOf_eq s k m hm]
  constructor
  · intro hho
    constructor
    · cases hh : sp.held k with
      | none => rfl
      | some g =>
        exfalso
        obtain ⟨a1, a2⟩ := (hr.held k g).1 hh
        obtain ⟨gd, b1, b2⟩ := hkey_inv a1
        obtain ⟨gd', c1, c2⟩ := hst_inv a2
        rw [b1] at c1; cases c1
        have := hi.guardHolds g gd b1 (by simp [c2, HSt.isGuard]) m (by rw [b2]; exact hm)
        rw [hho] at this; cases this
        rw [e1] at b1; cases b1; rw [e3] at c2; cases c2
    · simp [waitersOf, hho, e1, e3]
  · intro ⟨hnone, hhead⟩
    cases hho : m.holder with
    | none =>
      have := hi.freeNoQueue k m hm hho
      simp [waitersOf, hho, this] at hhead
    | some w =>
      obtain ⟨wk, st, ws1, ws2⟩ := hi.holderLive k m w hm hho
      rcases hr.seq w st ws1 with e | e
      · subst e
        have := (hr.held k w).2 ⟨wk, ws1⟩
        rw [hnone] at this; cases this
      · subst e
        simp [waitersOf, hho, ws1] at hhead
        rw [hhead]

theorem sim_poll (s : State) (sp : Spec) (hi : Inv s) (hr : Rel s sp) (h k : Nat)
    (hpre : s.hs h ≠ none ∧ hkey (s.hs h) = some k ∧ hst (s.hs h) = some .queued) :
    let r := (Api.exec ⟨s, [], []⟩ (.poll h))
    resOut r.2.res = (specExec sp (.poll h k)).2 ∧ Rel r.1.s (specExec sp (.poll h k)).1 ∧ Inv r.1.s := by
  obtain ⟨hd, m, e1, e2, e3, hm, heo, hiff⟩ := queued_facts s sp hi hr h k hpre
  by_cases hho : m.holder = some h
  · have hc := hiff.1 hho
    have hst : (Api.exec ⟨s, [], []⟩ (.poll h)) = (⟨s.setSt h hd .holding, [], []⟩, ⟨[], .guard⟩) := by
      simp [Api.exec, acquire, e1, e3, heo, hho]
    have hinv : Inv (s.setSt h hd .holding) := by
      have := inv_acquire s h hi; simp only [acquire, e1, e3, heo, hho] at this; exact this
    rw [hst]
    simp only [specExec, hc, ↓reduceIte]
    refine ⟨rfl, ?_, hinv⟩
    have hs'h : (s.setSt h hd .holding).hs h = some ⟨hd.key, hd.eid, .holding⟩ := by simp [State.setSt, upd]
    have hnq : h ∉ m.queue := fun hx => ((hi.queue k m hm h).1 hx).2.2 hho
    apply rel_local s (s.setSt h hd .holding) sp _ h k hi hr (Or.inl (by simp [e1, e2])) (Or.inl (by simp [hs'h, e2]))
    · intro x _; rfl
    · intro g hg; simp [State.setSt, upd, hg]
    · intro x _; rfl
    · intro x hx; simp [upd, hx]
    · intro x hx; simp [updL, hx]
    · exact hr.vals k
    · intro g
      simp only [upd, ↓reduceIte]
      by_cases eg : g = h
      · subst eg; simp [hs'h, e2]
      · have : (s.setSt h hd .holding).hs g = s.hs g := by simp [State.setSt, upd, eg]
        rw [this]
        constructor
        · intro e; exact absurd (Option.some.inj e).symm eg
        · intro ⟨a1, a2⟩
          exfalso
          obtain ⟨gd, b1, b2⟩ := hkey_inv a1
          obtain ⟨gd', c1, c2⟩ := hst_inv a2
          rw [b1] at c1; cases c1
          have := hi.guardHolds g gd b1 (by simp [c2, HSt.isGuard]) m (by rw [b2]; exact hm)
          rw [hho] at this; exact eg (Option.some.inj this).symm
    · show updL sp.waiting k (sp.waiting k).tail k = waitingOf (s.setSt h hd .holding) k
      simp only [updL, ↓reduceIte]
      rw [hr.wait k, waitingOf_eq s k m hm]
      have : (s.setSt h hd .holding).ent k = some m := hm
      rw [waitingOf_eq _ k m this]
      simp [waitersOf, hho, e1, e3, hs'h]
    · intro st e; rw [hs'h] at e; simp at e; exact Or.inl e.symm
  · have hc : ((sp.held k).isNone && (sp.waiting k).head? == some h) = false := by
      cases hx : ((sp.held k).isNone && (sp.waiting k).head? == some h) with
      | false => rfl
      | true => exact absurd (hiff.2 hx) hho
    have hst : (Api.exec ⟨s, [], []⟩ (.poll h)) = (⟨s, [], []⟩, ⟨[], .pending⟩) := by
      simp [Api.exec, acquire, e1, e3, heo, hho]
    rw [hst]
    simp only [specExec, hc]
    exact ⟨rfl, hr, hi⟩


theorem C03_aux_gop_ent (s : State) (h : Nat) (hd : Handle) (x : Nat) (hh : s.hs h = some hd) (hx : x ≠ hd.key) (g : GOp) :
    (gop s h g).1.ent x = s.ent x := by
  unfold gop; simp only [hh]
  repeat' split
  all_goals simp [State.setEnt, upd, hx]

/-- facts about a guard `h` of key `k` in a sequential state -/
theorem holding_facts (s : State) (hi : Inv s) (h k : Nat)
    (hpre : s.hs h ≠ none ∧ hkey (s.hs h) = some k ∧ hst (s.hs h) = some .holding) :
    ∃ hd m, s.hs h = some hd ∧ hd.key = k ∧ hd.st = .holding ∧ s.ent k = some m ∧ s.entryOf hd = some m ∧
      m.holder = some h := by
  obtain ⟨_, hk, hs1⟩ := hpre
  obtain ⟨hd, e1, e2⟩ := hkey_inv hk
  obtain ⟨hd', e1', e3⟩ := hst_inv hs1
  rw [e1] at e1'; cases e1'
  obtain ⟨m, hm, he⟩ := eeid_inv (hi.live h hd e1)
  rw [e2] at hm
  have heo : s.entryOf hd = some m := by simp [State.entryOf, e2, hm, he]
  exact ⟨hd, m, e1, e2, e3, hm, heo, hi.guardHolds h hd e1 (by simp [e3, HSt.isGuard]) m (by rw [e2]; exact hm)⟩

theorem sim_op (s : State) (sp : Spec) (hi : Inv s) (hr : Rel s sp) (h k : Nat) (g : GOp)
    (hpre : s.hs h ≠ none ∧ hkey (s.hs h) = some k ∧ hst (s.hs h) = some .holding) :
    let r := (Api.exec ⟨s, [], []⟩ (.op h g))
    resOut r.2.res = (specExec sp (.op h k g)).2 ∧ Rel r.1.s (specExec sp (.op h k g)).1 ∧ Inv r.1.s := by
  obtain ⟨hd, m, e1, e2, e3, hm, heo, hho⟩ := holding_facts s hi h k hpre
  have hv : sp.vals k = m.value.map (·.val) := by rw [← hr.vals k]; simp [absVal, hm, valOf]
  have hinv : Inv (gop s h g).1 := inv_gop s h g hi
  simp only [Api.exec, Api.ownedBySusp_nil, Bool.false_eq_true, ↓reduceIte]
  refine ⟨?_, ?_, hinv⟩
  · -- outputs agree
    subst e2
    cases g <;> cases hmv : m.value <;>
      simp [gop, e1, e3, heo, hmv, specExec, specOp, hv, resOut]
  · -- the relation: only the value of `k` may have changed
    have hent : ∀ x, x ≠ k → (gop s h g).1.ent x = s.ent x := by
      intro x hx
      have := (C03_aux_gop_ent s h hd x e1 (by rw [e2]; exact hx) g)
      exact this
    have hhs : ∀ x, (gop s h g).1.hs x = s.hs x := by
      intro x; unfold gop; repeat' split
      all_goals simp [State.setEnt]
    have hnew : ∃ m', (gop s h g).1.ent k = some m' ∧ m'.holder = m.holder ∧ m'.queue = m.queue ∧
        m'.value.map (·.val) = (specOp (sp.vals k) g).1 := by
      subst e2
      cases g <;> cases hmv : m.value <;>
        simp [gop, e1, e3, heo, hmv, specOp, hv, State.setEnt, upd, hm]
    obtain ⟨m', hm', h1, h2, h3⟩ := hnew
    apply rel_local s (gop s h g).1 sp _ h k hi hr (Or.inl (by simp [e1, e2])) (Or.inl (by rw [hhs]; simp [e1, e2]))
    · exact hent
    · intro x _; exact hhs x
    · intro x hx; simp [specExec, upd, hx]
    · intro x _; rfl
    · intro x _; rfl
    · simp [specExec, absVal, hm', valOf, h3]
    · intro x; simp only [specExec]; rw [hhs]; exact hr.held k x
    · simp only [specExec]
      rw [hr.wait k, waitingOf_eq s k m hm, waitingOf_eq _ k m' hm']
      simp only [waitersOf, h1, h2, hhs]
    · intro st; rw [hhs]; exact hr.seq h st


theorem stamp_ent_other (s : State) (h : Nat) (hd : Handle) (x : Nat) (hh : s.hs h = some hd) (hx : x ≠ hd.key) :
    (stamp s h).1.ent x = s.ent x := by
  unfold stamp; simp only [hh]
  repeat' split
  all_goals (try simp only [])
  all_goals simp [State.setEnt, State.setSt, upd, hx]

theorem release_ent_other (s : State) (h : Nat) (hd : Handle) (x : Nat) (hh : s.hs h = some hd) (hx : x ≠ hd.key) :
    (release s h).1.ent x = s.ent x := by
  unfold release; simp only [hh]
  repeat' split
  all_goals (try simp only [])
  all_goals repeat' split
  all_goals simp [State.setEnt, State.dropHandle, State.removeKey, touch_ent, upd, hx]

/-- what dropping the guard `h` of key `k` does to the entry of `k` -/
theorem dropGuard_ent_k (s : State) (hi : Inv s) (h : Nat) (hd : Handle) (m : Entry)
    (e1 : s.hs h = some hd) (e3 : hd.st = .holding) (hm : s.ent hd.key = some m) (heo : s.entryOf hd = some m) :
    let s' := (Api.dropGuard ⟨s, [], []⟩ h).1.s
    (s'.ent hd.key = none ∧ m.queue = []) ∨
    (∃ m', s'.ent hd.key = some m' ∧ m'.holder = m.queue.head? ∧ m'.queue = m.queue.tail) := by
  intro s'
  have hs' : s' = (if (stamp s h).2 = .unit then (release (stamp s h).1 h).1 else (stamp s h).1) := dropGuard_s ⟨s, [], []⟩ h
  have hs1 : (stamp s h).2 = .unit := by simp [stamp, e1, e3, heo]
  rw [if_pos hs1] at hs'
  -- the state after `stamp`
  obtain ⟨m1, hm1, hq1, hr1, hh1, b, hb⟩ : ∃ m1, (stamp s h).1.ent hd.key = some m1 ∧ m1.queue = m.queue ∧ m1.refs = m.refs ∧
      m1.eid = m.eid ∧ ∃ b, (stamp s h).1.hs h = some { hd with st := .stamped b } := by
    simp only [stamp, e1, e3, heo]
    cases s.kind <;> cases m.value <;> simp [State.setEnt, State.setSt, upd]
  have he := (entryOf_some heo).2
  have heo1 : (stamp s h).1.entryOf { hd with st := .stamped b } = some m1 := by
    simp [State.entryOf, hm1, hh1, he]
  have hi1 := inv_stamp s h hi
  rw [hs']
  unfold release
  simp only [hi1.notWedged, Bool.false_eq_true, ↓reduceIte, hb, heo1]
  have hqr : (handoff m1 h).refs.length = 0 → m.queue = [] := by
    intro hl
    have hnil : m.refs.erase h = [] := by
      have : (handoff m1 h).refs = m.refs.erase h := by simp [handoff, hr1]
      rw [← this]; exact List.eq_nil_of_length_eq_zero hl
    cases hq : m.queue with
    | nil => rfl
    | cons w t =>
      exfalso
      have hwq : w ∈ m.queue := by rw [hq]; simp
      have hw := (hi.queue hd.key m hm w).1 hwq
      have hwr : w ∈ m.refs := (hi.refs hd.key m hm w).2 hw.1
      have hwh : w ≠ h := by
        intro e; subst e
        obtain ⟨wd, a1, a2⟩ := hst_inv hw.2.1
        rw [e1] at a1; cases a1; rw [e3] at a2; cases a2
      have := (List.Nodup.mem_erase_iff (hi.refsNodup hd.key m hm)).2 ⟨hwh, hwr⟩
      rw [hnil] at this; cases this
  cases b with
  | true =>
    right
    exact ⟨handoff m1 h, by simp [State.setEnt, State.dropHandle, upd], by simp [handoff, hq1], by simp [handoff, hq1]⟩
  | false =>
    simp only [Bool.false_eq_true, ↓reduceIte]
    split
    · rename_i hl
      left
      exact ⟨by simp [State.removeKey, upd], hqr hl⟩
    · right
      exact ⟨handoff m1 h, by rw [touch_ent]; simp [State.setEnt, State.dropHandle, upd], by simp [handoff, hq1], by simp [handoff, hq1]⟩

theorem sim_drop (s : State) (sp : Spec) (hi : Inv s) (hr : Rel s sp) (h k : Nat)
    (hpre : s.hs h ≠ none ∧ hkey (s.hs h) = some k ∧ hst (s.hs h) = some .holding) :
    let r := (Api.exec ⟨s, [], []⟩ (.drop h))
    resOut r.2.res = (specExec sp (.drop h k)).2 ∧ Rel r.1.s (specExec sp (.drop h k)).1 ∧ Inv r.1.s := by
  obtain ⟨hd, m, e1, e2, e3, hm, heo, hho⟩ := holding_facts s hi h k hpre
  subst e2
  have hout : (Api.dropGuard ⟨s, [], []⟩ h).2 = .unit := by
    unfold Api.dropGuard
    have hs1 : (stamp s h).2 = .unit := by simp [stamp, e1, e3, heo]
    have hrel := release_noFail (stamp s h).1 h (inv_stamp s h hi)
    simp only []
    cases hst : stamp s h with
    | mk s1 o1 =>
      rw [hst] at hs1 hrel; simp only [] at hs1 hrel
      subst hs1
      simp only []
      -- release of a stamped handle answers unit
      have : ∃ b, s1.hs h = some { hd with st := .stamped b } := by
        have : s1 = (stamp s h).1 := by rw [hst]
        rw [this]; simp only [stamp, e1, e3, heo]
        exact ⟨m.value.isSome, by simp [State.setSt, upd]⟩
      obtain ⟨b, hb⟩ := this
      have hi1 : Inv s1 := by have := inv_stamp s h hi; rw [hst] at this; exact this
      obtain ⟨m1, hm1, hee⟩ := eeid_inv (hi1.live h _ hb)
      have heo1 : s1.entryOf { hd with st := .stamped b } = some m1 := by
        simp [State.entryOf] at hm1 hee ⊢; simp [hm1, hee]
      unfold release
      simp only [hi1.notWedged, Bool.false_eq_true, ↓reduceIte, hb, heo1]
      repeat' split
      all_goals rfl
  have hinv : Inv (Api.dropGuard ⟨s, [], []⟩ h).1.s := inv_dropGuard ⟨s, [], []⟩ h hi
  simp only [Api.exec, Api.ownedBySusp_nil, Bool.false_eq_true, ↓reduceIte, hout, specExec]
  refine ⟨rfl, ?_, hinv⟩
  have hgone := dropGuard_gone ⟨s, [], []⟩ h hd hi e1 e3
  have hother : ∀ g, g ≠ h → (Api.dropGuard ⟨s, [], []⟩ h).1.s.hs g = s.hs g := fun g hg => dropGuard_hs_other ⟨s, [], []⟩ h g hg
  have hentx : ∀ x, x ≠ hd.key → (Api.dropGuard ⟨s, [], []⟩ h).1.s.ent x = s.ent x := by
    intro x hx
    rw [dropGuard_s]
    have hs1 : (stamp s h).2 = .unit := by simp [stamp, e1, e3, heo]
    rw [if_pos hs1]
    have : ∃ b, (stamp s h).1.hs h = some { hd with st := .stamped b } := by
      simp only [stamp, e1, e3, heo]; exact ⟨m.value.isSome, by simp [State.setSt, upd]⟩
    obtain ⟨b, hb⟩ := this
    rw [release_ent_other _ h _ x hb hx, stamp_ent_other s h hd x e1 hx]
  apply rel_local s _ sp _ h hd.key hi hr (Or.inl (by simp [e1])) (Or.inr hgone)
  · exact hentx
  · exact hother
  · intro x _; rfl
  · intro x hx; simp [upd, hx]
  · intro x _; rfl
  · rw [absVal_dropGuard ⟨s, [], []⟩ h hd.key hi]; exact hr.vals hd.key
  · intro g
    simp only [upd, ↓reduceIte]
    constructor
    · intro e; cases e
    · intro ⟨a1, a2⟩
      exfalso
      by_cases eg : g = h
      · subst eg; rw [hgone] at a1; simp at a1
      · rw [hother g eg] at a1 a2
        obtain ⟨gd, b1, b2⟩ := hkey_inv a1
        obtain ⟨gd', c1, c2⟩ := hst_inv a2
        rw [b1] at c1; cases c1
        have := hi.guardHolds g gd b1 (by simp [c2, HSt.isGuard]) m (by rw [b2]; exact hm)
        rw [hho] at this; exact eg (Option.some.inj this).symm
  · show sp.waiting hd.key = waitingOf _ hd.key
    rw [hr.wait hd.key, waitingOf_eq s hd.key m hm]
    have hw0 : waitersOf s m = m.queue := by simp [waitersOf, hho, e1, e3]
    rw [hw0]
    rcases dropGuard_ent_k s hi h hd m e1 e3 hm heo with ⟨hn, hq⟩ | ⟨m', hm', h1, h2⟩
    · simp [waitingOf, hn, hq]
    · rw [waitingOf_eq _ hd.key m' hm']
      simp only [waitersOf, h1, h2]
      cases hq : m.queue with
      | nil => simp
      | cons w t =>
        have hwq : w ∈ m.queue := by rw [hq]; simp
        have hw := (hi.queue hd.key m hm w).1 hwq
        have hwh : w ≠ h := by
          intro e; subst e
          obtain ⟨wd, a1, a2⟩ := hst_inv hw.2.1
          rw [e1] at a1; cases a1; rw [e3] at a2; cases a2
        simp [hother w hwh, hw.2.1]
  · intro st e; rw [hgone] at e; simp at e


theorem cancel_ent_other (s : State) (h : Nat) (hd : Handle) (x : Nat) (hh : s.hs h = some hd) (hx : x ≠ hd.key) :
    (cancel s h).1.ent x = s.ent x := by
  unfold cancel; simp only [hh]
  repeat' split
  all_goals (try simp only [])
  all_goals repeat' split
  all_goals simp [State.setEnt, State.dropHandle, State.removeKey, State.wedge, upd, hx]

/-- what cancelling the pending acquisition `h` does to the entry of its key -/
theorem cancel_ent_k (s : State) (hi : Inv s) (h : Nat) (hd : Handle) (m : Entry)
    (e1 : s.hs h = some hd) (e3 : hd.st = .queued) (hm : s.ent hd.key = some m) (heo : s.entryOf hd = some m) :
    let q' := if m.holder = some h then m.queue.tail else m.queue.erase h
    let h' := if m.holder = some h then m.queue.head? else m.holder
    (cancel s h).2 = .unit ∧ (cancel s h).1.hs h = none ∧
    (((cancel s h).1.ent hd.key = none ∧ q' = [] ∧ h' = none) ∨
     (∃ m', (cancel s h).1.ent hd.key = some m' ∧ m'.holder = h' ∧ m'.queue = q')) := by
  intro q' h'
  let m' : Entry := if m.holder = some h then handoff m h
                    else { m with queue := m.queue.erase h, refs := m.refs.erase h }
  have hmh : m'.holder = h' := by simp only [m', h']; split <;> simp [handoff]
  have hmq : m'.queue = q' := by simp only [m', q']; split <;> simp [handoff]
  have key : cancel s h =
      (if m'.refs.length = 0 then
        if m'.holder.isSome = true then (s.wedge, Out.panic Site.cancelTry)
        else if m'.value.isNone = true then (((s.setEnt hd.key m').dropHandle h).removeKey hd.key, Out.unit)
        else ((s.setEnt hd.key m').dropHandle h, Out.unit)
      else ((s.setEnt hd.key m').dropHandle h, Out.unit)) := by
    simp only [cancel, hi.notWedged, Bool.false_eq_true, ↓reduceIte, e1, e3, heo, or_true, m']
  have hnf := cancel_noFail s h hi
  rw [key] at hnf ⊢
  by_cases hl : m'.refs.length = 0
  · simp only [hl, ↓reduceIte] at hnf ⊢
    by_cases hs : m'.holder.isSome = true
    · simp [hs, Out.isFailure] at hnf
    · simp only [hs] at hnf ⊢
      have hnone : h' = none := by rw [← hmh]; cases hx : m'.holder <;> simp_all
      -- no other handle references the key, so nobody is queued
      have hqnil : q' = [] := by
        rw [← hmq]
        cases hq : m'.queue with
        | nil => rfl
        | cons w t =>
          exfalso
          have hwq' : w ∈ m'.queue := by rw [hq]; simp
          have hwq : w ∈ m.queue ∧ w ≠ h := by
            simp only [m'] at hwq'
            split at hwq'
            · rename_i hho
              simp only [handoff] at hwq'
              have hin := List.mem_of_mem_tail hwq'
              exact ⟨hin, fun e => ((hi.queue hd.key m hm w).1 hin).2.2 (e ▸ hho)⟩
            · simp only [] at hwq'
              have := (List.Nodup.mem_erase_iff (hi.queueNodup hd.key m hm)).1 hwq'
              exact ⟨this.2, this.1⟩
          have hwr : w ∈ m.refs := (hi.refs hd.key m hm w).2 ((hi.queue hd.key m hm w).1 hwq.1).1
          have hwr' : w ∈ m'.refs := by
            simp only [m']; split <;>
              (simp only [handoff]; exact (List.Nodup.mem_erase_iff (hi.refsNodup hd.key m hm)).2 ⟨hwq.2, hwr⟩)
          rw [List.eq_nil_of_length_eq_zero hl] at hwr'; cases hwr'
      by_cases hv : m'.value.isNone = true
      · simp only [hv, ↓reduceIte]
        exact ⟨rfl, by simp [State.removeKey, State.dropHandle, State.setEnt, upd],
               Or.inl ⟨by simp [State.removeKey, upd], hqnil, hnone⟩⟩
      · simp only [hv]
        exact ⟨rfl, by simp [State.dropHandle, State.setEnt, upd],
               Or.inr ⟨m', by simp [State.dropHandle, State.setEnt, upd], hmh, hmq⟩⟩
  · simp only [hl, ↓reduceIte]
    exact ⟨trivial, by simp [State.dropHandle, State.setEnt, upd],
           Or.inr ⟨m', by simp [State.dropHandle, State.setEnt, upd], hmh, hmq⟩⟩

theorem sim_cancel (s : State) (sp : Spec) (hi : Inv s) (hr : Rel s sp) (h k : Nat)
    (hpre : s.hs h ≠ none ∧ hkey (s.hs h) = some k ∧ hst (s.hs h) = some .queued) :
    let r := (Api.exec ⟨s, [], []⟩ (.cancel h))
    resOut r.2.res = (specExec sp (.cancel h k)).2 ∧ Rel r.1.s (specExec sp (.cancel h k)).1 ∧ Inv r.1.s := by
  obtain ⟨hd, m, e1, e2, e3, hm, heo, _⟩ := queued_facts s sp hi hr h k hpre
  subst e2
  obtain ⟨hout, hgone, hent⟩ := cancel_ent_k s hi h hd m e1 e3 hm heo
  have hexec : (Api.exec ⟨s, [], []⟩ (.cancel h)).2.res = .ok ∧ (Api.exec ⟨s, [], []⟩ (.cancel h)).1.s = (cancel s h).1 := by
    simp [Api.exec, Api.cancelHandle, hout, woken_s]
  show resOut (Api.exec ⟨s, [], []⟩ (.cancel h)).2.res = _ ∧ Rel (Api.exec ⟨s, [], []⟩ (.cancel h)).1.s _ ∧ Inv (Api.exec ⟨s, [], []⟩ (.cancel h)).1.s
  rw [hexec.1, hexec.2]
  simp only [specExec]
  refine ⟨rfl, ?_, inv_cancel s h hi⟩
  have hother : ∀ g, g ≠ h → (cancel s h).1.hs g = s.hs g := fun g hg => cancel_hs_other s h g hg
  have hnq : m.holder = some h → h ∉ m.queue := fun hh hx => ((hi.queue hd.key m hm h).1 hx).2.2 hh
  apply rel_local s _ sp _ h hd.key hi hr (Or.inl (by simp [e1])) (Or.inr hgone)
  · intro x hx; exact cancel_ent_other s h hd x e1 hx
  · exact hother
  · intro x _; rfl
  · intro x _; rfl
  · intro x hx; simp [updL, hx]
  · rw [absVal_cancel]; exact hr.vals hd.key
  · intro g
    show sp.held hd.key = some g ↔ _
    rw [hr.held hd.key g]
    by_cases eg : g = h
    · subst eg; simp [hgone, e1, e3]
    · rw [hother g eg]
  · show updL sp.waiting hd.key ((sp.waiting hd.key).erase h) hd.key = waitingOf (cancel s h).1 hd.key
    simp only [updL, ↓reduceIte]
    rw [hr.wait hd.key, waitingOf_eq s hd.key m hm]
    by_cases hho : m.holder = some h
    · -- the lock had been handed to `h`: it is passed on to the next waiter
      have hw0 : waitersOf s m = h :: m.queue := by simp [waitersOf, hho, e1, e3]
      rw [hw0, List.erase_cons_head]
      simp only [hho, ↓reduceIte] at hent
      rcases hent with ⟨hn, hq, _⟩ | ⟨m', hm', h1, h2⟩
      · have : m.queue = [] := by cases hqq : m.queue <;> simp_all
        simp [waitingOf, hn, this]
      · rw [waitingOf_eq _ hd.key m' hm']
        simp only [waitersOf, h1, h2]
        cases hq : m.queue with
        | nil => simp
        | cons w t =>
          have hwq : w ∈ m.queue := by rw [hq]; simp
          have hw := (hi.queue hd.key m hm w).1 hwq
          have hwh : w ≠ h := fun e => hnq hho (e ▸ hwq)
          simp [hother w hwh, hw.2.1]
    · simp only [hho, ↓reduceIte] at hent
      rcases hent with ⟨_, _, hn⟩ | ⟨m', hm', h1, h2⟩
      · -- impossible: `h` is queued behind a holder
        have hq : h ∈ m.queue := (hi.queue hd.key m hm h).2 ⟨by simp [e1], by simp [e1, e3], hho⟩
        have := hi.freeNoQueue hd.key m hm hn; rw [this] at hq; cases hq
      · rw [waitingOf_eq _ hd.key m' hm']
        simp only [waitersOf, h1, h2]
        cases hh2 : m.holder with
        | none => simp
        | some w =>
          have hwh : w ≠ h := fun e => hho (by rw [hh2, e])
          simp only [hother w hwh]
          split
          · have hbeq : ¬ (w == h) = true := by simpa using hwh
            simp [List.erase_cons_tail hbeq]
          · simp
  · intro st e; rw [hgone] at e; simp at e


theorem inv_exec_lock (s : State) (hi : Inv s) (v : Variant) (h k : Nat) (hf : s.hs h = none) :
    Inv (Api.lock ⟨s, [], []⟩ v h k .none 0).1.s := by
  cases hm : s.ent k with
  | none =>
    have hst : (Api.lock ⟨s, [], []⟩ v h k .none 0).1.s = (lookup s h k).1 := by
      simp [Api.lock, Api.lockPrelude, lookup, hi.notWedged, hf, hm, upd]
    rw [hst]; exact inv_lookup s h k hi
  | some m =>
    by_cases hfree : m.holder = none
    · have sp0 : Rel s ⟨fun x => absVal s x, fun _ => none, fun _ => []⟩ → True := fun _ => trivial
      -- reuse the simulation lemma with a dummy relation-free argument: go through the explicit state
      have hlk : (lookup s h k) = ((s.clone h k m).touch k, .unit) := by simp [lookup, hi.notWedged, hf, hm]
      have hhs : ((s.clone h k m).touch k).hs h = some ⟨k, m.eid, .replica⟩ := by rw [touch_hs]; simp [State.clone, upd]
      have hent : ((s.clone h k m).touch k).ent k = some { m with refs := h :: m.refs } := by rw [touch_ent]; simp [State.clone, upd]
      have heo : ((s.clone h k m).touch k).entryOf ⟨k, m.eid, .replica⟩ = some { m with refs := h :: m.refs } := by
        simp [State.entryOf, hent]
      have h1 : Inv ((s.clone h k m).touch k) := by have := inv_lookup s h k hi; rw [hlk] at this; exact this
      have h2 := inv_enqueue _ h h1
      simp only [enqueue, hhs, heo, hfree] at h2
      have hst : (Api.lock ⟨s, [], []⟩ v h k .none 0).1.s =
          (((s.clone h k m).touch k).setEnt k { m with refs := h :: m.refs, holder := some h }).setSt h ⟨k, m.eid, .replica⟩ .holding := by
        cases v <;> simp [Api.lock, Api.lockPrelude, hlk, hhs, enqueue, tryKey, heo, hfree]
      rw [hst]; exact h2
    · cases v with
      | wait =>
        have hr0 : Rel s ⟨fun x => absVal s x, fun _ => none, fun _ => []⟩ ∨ True := Or.inr trivial
        have hlk : (lookup s h k) = ((s.clone h k m).touch k, .unit) := by simp [lookup, hi.notWedged, hf, hm]
        have hhs : ((s.clone h k m).touch k).hs h = some ⟨k, m.eid, .replica⟩ := by rw [touch_hs]; simp [State.clone, upd]
        have hent : ((s.clone h k m).touch k).ent k = some { m with refs := h :: m.refs } := by rw [touch_ent]; simp [State.clone, upd]
        have heo : ((s.clone h k m).touch k).entryOf ⟨k, m.eid, .replica⟩ = some { m with refs := h :: m.refs } := by
          simp [State.entryOf, hent]
        have hsome : m.holder.isNone = false := by cases hx : m.holder <;> simp_all
        have h1 : Inv ((s.clone h k m).touch k) := by have := inv_lookup s h k hi; rw [hlk] at this; exact this
        have h2 := inv_enqueue _ h h1
        simp only [enqueue, hhs, heo, hsome] at h2
        have hst : (Api.lock ⟨s, [], []⟩ .wait h k .none 0).1.s =
            (((s.clone h k m).touch k).setEnt k { m with refs := h :: m.refs, queue := m.queue ++ [h] }).setSt h ⟨k, m.eid, .replica⟩ .queued := by
          simp [Api.lock, Api.lockPrelude, hlk, hhs, enqueue, heo, hsome]
        rw [hst]; exact h2
      | «try» =>
        -- `sim_lock_try_held` does not need the relation for its invariant part
        have hlk : (lookup s h k) = ((s.clone h k m).touch k, .unit) := by simp [lookup, hi.notWedged, hf, hm]
        have hhs : ((s.clone h k m).touch k).hs h = some ⟨k, m.eid, .replica⟩ := by rw [touch_hs]; simp [State.clone, upd]
        have hent : ((s.clone h k m).touch k).ent k = some { m with refs := h :: m.refs } := by rw [touch_ent]; simp [State.clone, upd]
        have heo : ((s.clone h k m).touch k).entryOf ⟨k, m.eid, .replica⟩ = some { m with refs := h :: m.refs } := by
          simp [State.entryOf, hent]
        have hsome : m.holder.isNone = false := by cases hx : m.holder <;> simp_all
        have htk : tryKey ((s.clone h k m).touch k) h = (((s.clone h k m).touch k).setSt h ⟨k, m.eid, .replica⟩ .failedTry, .bool false) := by
          simp [tryKey, hhs, heo, hsome]
        have hi1 : Inv ((s.clone h k m).touch k) := by have := inv_lookup s h k hi; rw [hlk] at this; exact this
        have hi2 : Inv (((s.clone h k m).touch k).setSt h ⟨k, m.eid, .replica⟩ .failedTry) := by
          have := inv_tryKey _ h hi1; rw [htk] at this; exact this
        have hh2 : (((s.clone h k m).touch k).setSt h ⟨k, m.eid, .replica⟩ .failedTry).hs h = some ⟨k, m.eid, .failedTry⟩ := by
          simp [State.setSt, upd]
        have heo2 : (((s.clone h k m).touch k).setSt h ⟨k, m.eid, .replica⟩ .failedTry).entryOf ⟨k, m.eid, .failedTry⟩ =
            some { m with refs := h :: m.refs } := by simp [State.entryOf, State.setSt, hent]
        have hsp := cleanupFailed_spec _ h ⟨k, m.eid, .failedTry⟩ _ hi2 hh2 rfl heo2
        have hst : (Api.lock ⟨s, [], []⟩ .try h k .none 0).1.s =
            (cleanupFailed (((s.clone h k m).touch k).setSt h ⟨k, m.eid, .replica⟩ .failedTry) h).1 := by
          simp only [Api.lock, Api.lockPrelude, hlk, hhs, htk, hsp.1]; simp
        rw [hst]; exact inv_cleanupFailed _ h hi2

theorem lock_streams (s : State) (v : Variant) (h k : Nat) : (Api.lock ⟨s, [], []⟩ v h k .none 0).1.streams = [] := by
  simp only [Api.lock, Api.lockPrelude]
  repeat' split
  all_goals rfl

theorem exec_streams (s : State) (c : SCall) : (Api.exec ⟨s, [], []⟩ c.toCall).1.streams = [] := by
  cases c with
  | lockWait h k => exact lock_streams s .wait h k
  | lockTry h k => exact lock_streams s .try h k
  | poll h k => simp [SCall.toCall, Api.exec]
  | cancel h k =>
    simp only [SCall.toCall, Api.exec, Api.cancelHandle]
    repeat' split
    all_goals simp_all [Api.woken]
    all_goals (repeat' split) <;> simp_all
  | drop h k =>
    simp only [SCall.toCall, Api.exec, Api.dropGuard, Api.ownedBySusp_nil, Bool.false_eq_true, ↓reduceIte]
    repeat' split
    all_goals simp_all [Api.woken]
    all_goals (repeat' split) <;> simp_all
  | op h k g => simp [SCall.toCall, Api.exec, Api.ownedBySusp_nil]

/-- **Theorem B, one call**: from related states, the concrete call and the abstract call give the same
observable result and lead to related states (and the invariant is kept). -/
theorem refines_step (s : State) (sp : Spec) (hi : Inv s) (hr : Rel s sp) (c : SCall) (hpre : Pre s c) :
    resOut (Api.exec ⟨s, [], []⟩ c.toCall).2.res = (specExec sp c).2 ∧
    Rel (Api.exec ⟨s, [], []⟩ c.toCall).1.s (specExec sp c).1 ∧ Inv (Api.exec ⟨s, [], []⟩ c.toCall).1.s := by
  cases c with
  | lockWait h k =>
    have hf : s.hs h = none := hpre
    have hinv := inv_exec_lock s hi .wait h k hf
    simp only [SCall.toCall, Api.exec, specExec]
    cases hm : s.ent k with
    | none =>
      obtain ⟨a1, a2, a3⟩ := sim_lock_absent s sp hi hr .wait h k hf hm
      simp only [a2, ↓reduceIte]; exact ⟨a1, a3, hinv⟩
    | some m =>
      by_cases hfree : m.holder = none
      · obtain ⟨a1, a3, _⟩ := sim_lock_free s sp hi hr .wait h k m hf hm hfree
        simp only [(free_iff s sp hi hr k m hm).2 hfree, ↓reduceIte]; exact ⟨a1, a3, hinv⟩
      · obtain ⟨a1, a3, _⟩ := sim_lock_wait_held s sp hi hr h k m hf hm hfree
        have : sp.free k = false := by
          cases hx : sp.free k with
          | false => rfl
          | true => exact absurd ((free_iff s sp hi hr k m hm).1 hx) hfree
        simp only [this]; exact ⟨a1, a3, hinv⟩
  | lockTry h k =>
    have hf : s.hs h = none := hpre
    have hinv := inv_exec_lock s hi .try h k hf
    simp only [SCall.toCall, Api.exec, specExec]
    cases hm : s.ent k with
    | none =>
      obtain ⟨a1, a2, a3⟩ := sim_lock_absent s sp hi hr .try h k hf hm
      simp only [a2, ↓reduceIte]; exact ⟨a1, a3, hinv⟩
    | some m =>
      by_cases hfree : m.holder = none
      · obtain ⟨a1, a3, _⟩ := sim_lock_free s sp hi hr .try h k m hf hm hfree
        simp only [(free_iff s sp hi hr k m hm).2 hfree, ↓reduceIte]; exact ⟨a1, a3, hinv⟩
      · obtain ⟨a1, a3, _⟩ := sim_lock_try_held s sp hi hr h k m hf hm hfree
        have : sp.free k = false := by
          cases hx : sp.free k with
          | false => rfl
          | true => exact absurd ((free_iff s sp hi hr k m hm).1 hx) hfree
        simp only [this]; exact ⟨a1, a3, hinv⟩
  | poll h k => exact sim_poll s sp hi hr h k hpre
  | cancel h k => exact sim_cancel s sp hi hr h k hpre
  | drop h k => exact sim_drop s sp hi hr h k hpre
  | op h k g => exact sim_op s sp hi hr h k g hpre

/-- a history of abstract calls whose preconditions hold along the concrete run -/
def WF : State → List SCall → Prop
  | _, [] => True
  | s, c :: cs => Pre s c ∧ WF (Api.exec ⟨s, [], []⟩ c.toCall).1.s cs

def runApi (s : State) : List SCall → List SOut
  | [] => []
  | c :: cs => resOut (Api.exec ⟨s, [], []⟩ c.toCall).2.res :: runApi (Api.exec ⟨s, [], []⟩ c.toCall).1.s cs

def runSpec (sp : Spec) : List SCall → List SOut
  | [] => []
  | c :: cs => (specExec sp c).2 :: runSpec (specExec sp c).1 cs

/-- **Theorem B**: every finite sequential history produces the same observations on the container and on the spec -/
theorem refines_run (cs : List SCall) : ∀ (s : State) (sp : Spec), Inv s → Rel s sp → WF s cs →
    runApi s cs = runSpec sp cs := by
  induction cs with
  | nil => intro s sp _ _ _; rfl
  | cons c cs ih =>
    intro s sp hi hr hwf
    obtain ⟨a1, a2, a3⟩ := refines_step s sp hi hr c hwf.1
    simp only [runApi, runSpec]
    rw [a1, ih _ _ a3 a2 hwf.2]

end Lockable
