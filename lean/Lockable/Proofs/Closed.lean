/-
Every state the API layer or the scheduled interpreter can reach is reachable by a sequence of atomic actions:
all theorems stated for `run (State.init kind) as` apply to everything these layers do.
-/
import Lockable.Proofs.Layers
namespace Lockable

/-- a predicate on states that is preserved by every atomic action -/
def StepClosed (P : State → Prop) : Prop := ∀ s a, P s → P (step s a).1

section
variable {P : State → Prop} (hc : StepClosed P)
include hc

theorem cl_lookup (s : State) (h k : Nat) (hp : P s) : P (lookup s h k).1 := hc s (.lookup h k) hp
theorem cl_tryKey (s : State) (h : Nat) (hp : P s) : P (tryKey s h).1 := hc s (.tryKey h) hp
theorem cl_enqueue (s : State) (h : Nat) (hp : P s) : P (enqueue s h).1 := hc s (.enqueue h) hp
theorem cl_acquire (s : State) (h : Nat) (hp : P s) : P (acquire s h).1 := hc s (.acquire h) hp
theorem cl_cancel (s : State) (h : Nat) (hp : P s) : P (cancel s h).1 := hc s (.cancel h) hp
theorem cl_cleanupFailed (s : State) (h : Nat) (hp : P s) : P (cleanupFailed s h).1 := hc s (.cleanupFailed h) hp
theorem cl_gop (s : State) (h : Nat) (g : GOp) (hp : P s) : P (gop s h g).1 := hc s (.gop h g) hp
theorem cl_stamp (s : State) (h : Nat) (hp : P s) : P (stamp s h).1 := hc s (.stamp h) hp
theorem cl_release (s : State) (h : Nat) (hp : P s) : P (release s h).1 := hc s (.release h) hp
theorem cl_tick (s : State) (d : Nat) (hp : P s) : P (tick s d).1 := hc s (.tick d) hp
theorem cl_reorder (s : State) (perm : List Nat) (hp : P s) : P (reorder s perm).1 := hc s (.reorder perm) hp
theorem cl_count (s : State) (hp : P s) : P (count s).1 := hc s .count hp
theorem cl_keys (s : State) (hp : P s) : P (keys s).1 := hc s .keys hp

theorem cl_dropGuard (a : Api) (c : Nat) (hp : P a.s) : P (a.dropGuard c).1.s := by
  rw [dropGuard_s]
  split
  · exact cl_release hc _ c (cl_stamp hc _ c hp)
  · exact cl_stamp hc _ c hp

theorem cl_cancelHandle (a : Api) (h : Nat) (hp : P a.s) : P (a.cancelHandle h).1.s := by
  unfold Api.cancelHandle
  simp only []
  split
  · simp only [woken_s]; exact cl_cancel hc a.s h hp
  · exact cl_cancel hc a.s h hp

theorem cl_runActs (cands : List Nat) : ∀ (a : Api) (acts : List CandAct), P a.s → P (a.runActs cands acts).s := by
  induction cands with
  | nil => intro a acts hp; exact hp
  | cons c cs ih =>
    intro a acts hp
    simp only [Api.runActs]
    apply ih
    split
    · exact cl_dropGuard hc _ c (cl_gop hc a.s c _ hp)
    · exact cl_dropGuard hc _ c hp
    · exact cl_dropGuard hc _ c (cl_gop hc a.s c _ hp)
    · exact hp

theorem cl_dropAll (hs : List Nat) : ∀ (a : Api), P a.s → P (a.dropAll hs).s := by
  induction hs with
  | nil => intro a hp; exact hp
  | cons c cs ih => intro a hp; exact ih _ (cl_dropGuard hc a c hp)

theorem cl_lockPrelude (h k : Nat) : ∀ (fuel : Nat) (a : Api) (limit : Limit) (h0 : Nat) (tr : List RoundTrace),
    P a.s → P (a.lockPrelude h k limit h0 fuel tr).1.s := by
  intro fuel
  induction fuel with
  | zero => intro a limit h0 tr hp; simpa [Api.lockPrelude] using hp
  | succ fuel ih =>
    intro a limit h0 tr hp
    unfold Api.lockPrelude
    cases limit with
    | none => exact cl_lookup hc a.s h k hp
    | soft n script =>
      simp only []
      have hstep : P (step a.s (.limitLookup h k n (List.range' h0 supplyLen))).1 := hc _ _ hp
      split
      · exact hstep
      · split
        · exact cl_dropAll hc _ _ hstep
        · exact hstep
        · exact hstep
        · have hp2 := fun cands => cl_runActs hc cands { a with s := (step a.s (.limitLookup h k n (List.range' h0 supplyLen))).1 }
            (script.head?.getD defaultRound).acts hstep
          split
          · exact hp2 _
          · split
            · exact hp2 _
            · exact ih _ _ _ _ (hp2 _)
      · exact hstep

theorem cl_lock (a : Api) (v : Variant) (h k : Nat) (limit : Limit) (h0 : Nat) (hp : P a.s) :
    P (a.lock v h k limit h0).1.s := by
  unfold Api.lock
  simp only []
  repeat' split
  all_goals first
    | exact cl_lockPrelude hc h k _ a _ h0 [] hp
    | exact cl_enqueue hc _ h (cl_lockPrelude hc h k _ a _ h0 [] hp)
    | exact cl_tryKey hc _ h (cl_lockPrelude hc h k _ a _ h0 [] hp)
    | exact cl_cleanupFailed hc _ h (cl_tryKey hc _ h (cl_lockPrelude hc h k _ a _ h0 [] hp))

theorem cl_itemPoll (s : State) (w : Nat) (hp : P s) : P (itemPoll s w).1 := by
  unfold itemPoll
  split
  · simp only []
    split <;> (repeat' split) <;> first | exact cl_enqueue hc s w hp | exact cl_acquire hc s w hp
  · exact hp

theorem cl_spollLoop (sid : Nat) : ∀ (fuel : Nat) (a : Api), P a.s → P (a.spollLoop sid fuel).1.s := by
  intro fuel
  induction fuel with
  | zero => intro a hp; exact hp
  | succ fuel ih =>
    intro a hp
    unfold Api.spollLoop
    split
    · exact hp
    · split
      · exact hp
      · simp only []
        rename_i st w rest _
        have hip : P (itemPoll a.s w).1 := cl_itemPoll hc a.s w hp
        split
        · exact hip
        · apply ih; exact cl_dropGuard hc _ w hip
        · apply ih; exact hip
        · exact hip

theorem cl_resume (a : Api) (h : Nat) (su : Susp) (hp : P a.s) : P (a.resume h su).1.s := by
  unfold Api.resume
  simp only []
  have hp2 := cl_runActs hc (su.cands.map Prod.fst) { a with susp := a.susp.filter fun (i, _) => i ≠ h }
    (su.script.head?.getD defaultRound).acts hp
  split
  · exact hp2
  · exact hp2
  · exact hp2
  · exact cl_lock hc _ su.v h su.k _ su.h0 hp2

theorem cl_abandon (a : Api) (h : Nat) (su : Susp) (hp : P a.s) : P (a.abandon h su).s := by
  unfold Api.abandon
  exact cl_dropAll hc _ _ hp

theorem cl_exec (a : Api) (c : Call) (hp : P a.s) : P (a.exec c).1.s := by
  cases c with
  | lock v h k limit h0 => exact cl_lock hc a v h k limit h0 hp
  | poll h =>
    simp only [Api.exec]
    split; · exact hp
    split
    · exact cl_resume hc a h _ hp
    · exact cl_acquire hc a.s h hp
  | cancel h =>
    simp only [Api.exec]
    split; · exact hp
    split
    · exact cl_abandon hc a h _ hp
    · exact cl_cancelHandle hc a h hp
  | op h g =>
    simp only [Api.exec]
    split
    · exact hp
    · exact cl_gop hc a.s h g hp
  | drop h =>
    simp only [Api.exec]
    split
    · exact hp
    · exact cl_dropGuard hc a h hp
  | count => exact hp
  | keys => exact hp
  | adv d => exact cl_tick hc a.s d hp
  | expire d h0 =>
    simp only [Api.exec]
    have := hc a.s (.expire (cutoffOf a.s d) (List.range' h0 supplyLen)) hp
    split <;> exact this
  | lockAll sid h0 =>
    simp only [Api.exec]
    split
    · exact hp
    · have := hc a.s (.snapshot (List.range' h0 supplyLen)) hp
      split <;> exact this
  | spoll sid => exact cl_spollLoop hc sid _ a hp
  | sdrop sid =>
    simp only [Api.exec]
    split
    · have : ∀ (l : List Nat) (b : Api), P b.s → P (l.foldl (fun a h => (a.cancelHandle h).1) b).s := by
        intro l
        induction l with
        | nil => intro b hb; exact hb
        | cons x xs ih => intro b hb; exact ih _ (cl_cancelHandle hc b x hb)
      exact this _ _ hp
    · exact hp
  | into => exact hp
  | reorder perm =>
    simp only [Api.exec]
    exact cl_reorder hc a.s perm hp

theorem cl_execs (cs : List Call) : ∀ (a : Api), P a.s → P (cs.foldl (fun a c => (a.exec c).1) a).s := by
  induction cs with
  | nil => intro a hp; exact hp
  | cons c cs ih => intro a hp; exact ih _ (cl_exec hc a c hp)

theorem cl_itemGot (s : State) (th : Thread) (w : Nat) (evs : List Event) (hp : P s) : P (itemGot s th w evs).1 := by
  unfold itemGot
  simp only []
  split
  · exact hp
  · exact cl_stamp hc s _ hp

theorem cl_spollRun : ∀ (fuel : Nat) (s : State) (th : Thread) (evs : List Event), P s → P (spollRun s th evs fuel).1 := by
  intro fuel
  induction fuel with
  | zero => intro s th evs hp; exact hp
  | succ fuel ih =>
    intro s th evs hp
    unfold spollRun
    repeat' split
    all_goals (try simp only [])
    all_goals repeat' split
    all_goals first
      | exact hp
      | exact cl_itemGot hc _ _ _ _ (cl_acquire hc s _ hp)
      | exact ih _ _ _ (cl_acquire hc s _ hp)
      | exact cl_acquire hc s _ hp

theorem cl_advance (t : Nat) : ∀ (fuel : Nat) (s : State) (th : Thread) (evs : List Event),
    P s → P (advance s t th evs fuel).1 := by
  intro fuel
  induction fuel with
  | zero => intro s th evs hp; exact hp
  | succ fuel ih =>
    intro s th evs hp
    unfold advance
    repeat' split
    all_goals (try simp only [])
    all_goals repeat' split
    all_goals first
      | exact hp
      | exact cl_stamp hc s _ hp
      | exact ih _ _ _ hp
      | exact ih _ _ _ (cl_gop hc s _ _ hp)
      | exact ih _ _ _ (cl_acquire hc s _ hp)
      | exact ih _ _ _ (cl_spollRun hc _ s _ _ hp)
      | exact cl_spollRun hc _ s _ _ hp

theorem cl_stepThread (s : State) (t : Nat) (th : Thread) (hp : P s) : P (stepThread s t th).1 := by
  have cl_gotGuard : ∀ s' th' slot evs, P s' → P (gotGuard s' t th' slot evs).1 :=
    fun s' th' slot evs h' => cl_advance hc t _ s' _ _ h'
  have cl_processCands : ∀ s' th' cands slot v k n evs, P s' → P (processCands s' th' cands slot v k n evs).1 := by
    intro s' th' cands slot v k n evs h'
    unfold processCands
    split
    · exact h'
    · exact cl_stamp hc _ _ (cl_gop hc s' _ _ h')
  have cl_processExpired : ∀ s' th' gs evs, P s' → P (processExpired s' t th' gs evs).1 := by
    intro s' th' gs evs h'
    unfold processExpired
    split
    · exact cl_advance hc t _ _ _ _ h'
    · exact cl_stamp hc _ _ h'
  unfold stepThread
  simp only []
  repeat' split
  all_goals first
    | exact hp
    | exact cl_advance hc t _ _ _ _ hp
    | exact cl_processExpired _ _ _ _ (hc s _ hp)
    | exact cl_processExpired _ _ _ _ (cl_release hc s _ hp)
    | exact cl_gotGuard _ _ _ _ hp
    | exact cl_lookup hc s _ _ hp
    | exact hc s _ hp
    | exact cl_enqueue hc s _ hp
    | exact cl_tryKey hc s _ hp
    | exact cl_acquire hc s _ hp
    | exact cl_cancel hc s _ hp
    | exact cl_cleanupFailed hc s _ hp
    | exact cl_release hc s _ hp
    | exact cl_processCands _ _ _ _ _ _ _ _ (hc s _ hp)
    | exact cl_processCands _ _ _ _ _ _ _ _ (cl_release hc s _ hp)
    | exact cl_gotGuard _ _ _ _ (cl_enqueue hc s _ hp)
    | exact cl_gotGuard _ _ _ _ (cl_tryKey hc s _ hp)
    | exact cl_gotGuard _ _ _ _ (cl_acquire hc s _ hp)
    | exact cl_advance hc t _ _ _ _ (cl_enqueue hc s _ hp)
    | exact cl_advance hc t _ _ _ _ (cl_cancel hc s _ hp)
    | exact cl_advance hc t _ _ _ _ (cl_cleanupFailed hc s _ hp)
    | exact cl_advance hc t _ _ _ _ (cl_release hc s _ hp)
    | exact cl_advance hc t _ _ _ _ (cl_count hc s hp)
    | exact cl_advance hc t _ _ _ _ (cl_keys hc s hp)
    | exact cl_advance hc t _ _ _ _ (hc s _ hp)
    | exact cl_advance hc t _ _ _ _ (cl_spollRun hc _ _ _ _ (cl_release hc s _ hp))
    | exact cl_spollRun hc _ _ _ _ (cl_release hc s _ hp)
    | exact cl_advance hc t _ _ _ _ (cl_itemGot hc _ _ _ _ (cl_enqueue hc s _ hp))
    | exact cl_itemGot hc _ _ _ _ (cl_enqueue hc s _ hp)
    | exact cl_advance hc t _ _ _ _ (cl_spollRun hc _ _ _ _ (cl_enqueue hc s _ hp))
    | exact cl_spollRun hc _ _ _ _ (cl_enqueue hc s _ hp)

theorem cl_schedStep (sc : Sched) (t : Nat) (hp : P sc.s) : P (sc.step t).1.s := by
  unfold Sched.step
  split
  · exact hp
  · split
    · exact cl_stepThread hc sc.s t _ hp
    · exact hp

end

/-- reachability by atomic actions -/
def Reach (s0 s : State) : Prop := ∃ as, s = run s0 as

theorem reach_closed (s0 : State) : StepClosed (Reach s0) := by
  intro s a ⟨as, e⟩
  refine ⟨as ++ [a], ?_⟩
  subst e
  simp [run, List.foldl_append]

/-- **Every state of the sequential API layer is a state of Theorem A's runs.** -/
theorem api_reachable (kind : Kind) (cs : List Call) :
    ∃ as, (cs.foldl (fun a c => (a.exec c).1) (Api.init kind)).s = run (State.init kind) as :=
  cl_execs (reach_closed (State.init kind)) cs (Api.init kind) ⟨[], rfl⟩

/-- **Every state of the scheduled interpreter is a state of Theorem A's runs**, whatever the programs and the schedule. -/
theorem sched_reachable (sc : Sched) (sched : List Nat) :
    ∃ as, (sched.foldl (fun sc t => (sc.step t).1) sc).s = run sc.s as := by
  have : ∀ (l : List Nat) (c : Sched), Reach sc.s c.s → Reach sc.s (l.foldl (fun sc t => (sc.step t).1) c).s := by
    intro l
    induction l with
    | nil => intro c hcr; exact hcr
    | cons t ts ih => intro c hcr; exact ih _ (cl_schedStep (reach_closed sc.s) c t hcr)
  exact this sched sc ⟨[], rfl⟩

end Lockable

namespace Lockable

/-- transfer principle: whatever is proved for all runs of atomic actions holds after every sequence of public API calls … -/
theorem api_transfer (kind : Kind) (Q : State → Prop) (hQ : ∀ as, Q (run (State.init kind) as)) (cs : List Call) :
    Q (cs.foldl (fun a c => (a.exec c).1) (Api.init kind)).s := by
  obtain ⟨as, e⟩ := api_reachable kind cs
  rw [e]; exact hQ as

/-- … and in every state of every schedule of every set of thread programs -/
theorem sched_transfer (kind : Kind) (Q : State → Prop) (hQ : ∀ as, Q (run (State.init kind) as))
    (threads : List Thread) (sched : List Nat) :
    Q (sched.foldl (fun sc t => (sc.step t).1) ({ s := State.init kind, threads := threads } : Sched)).s := by
  obtain ⟨as, e⟩ := sched_reachable ({ s := State.init kind, threads := threads } : Sched) sched
  rw [e]; exact hQ as

end Lockable
