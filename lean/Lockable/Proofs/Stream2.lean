import Lockable.Proofs.Stream
set_option linter.unusedSimpArgs false
set_option linter.unusedVariables false
namespace Lockable

/-! ### the life of one stream: its unresolved items only ever shrink; what is yielded was an item and is none afterwards -/

def itemsAt (a : Api) (sid : Nat) : Option (List Nat) := (a.streams.lookup sid).map (·.items)

theorem lookup_shape (ss : List (Nat × StreamSt)) (sid : Nat) : (shape ss).lookup sid = (ss.lookup sid).map (·.items) := by
  induction ss with
  | nil => rfl
  | cons p ps ih =>
    obtain ⟨i, x⟩ := p
    simp only [shape, List.map_cons, List.lookup_cons]
    split
    · rfl
    · exact ih

theorem lookup_replaceS (ss : List (Nat × StreamSt)) (sid : Nat) (f : StreamSt → StreamSt) (sid' : Nat) :
    (replaceS ss sid f).lookup sid' = if sid' = sid then (ss.lookup sid').map f else ss.lookup sid' := by
  induction ss with
  | nil => simp [replaceS]
  | cons p ps ih =>
    obtain ⟨i, x⟩ := p
    unfold replaceS at ih ⊢
    simp only [List.map_cons]
    by_cases hi : i = sid
    · simp only [hi, ↓reduceIte, List.lookup_cons]
      by_cases hs : sid' = sid
      · simp [hs]
      · have : (sid' == sid) = false := by simpa using hs
        simp only [this, hs, ↓reduceIte]
        rw [ih]; simp [hs]
    · simp only [hi, ↓reduceIte, List.lookup_cons]
      cases hb : sid' == i with
      | true =>
        have : sid' = i := by simpa using hb
        subst this; simp [hi]
      | false => simp only []; exact ih

/-- every stream of `a'` is a stream of `a` with no more unresolved items -/
def Sub (a a' : Api) : Prop :=
  ∀ sid its', itemsAt a' sid = some its' → ∃ its, itemsAt a sid = some its ∧ ∀ w ∈ its', w ∈ its

theorem Sub.refl (a : Api) : Sub a a := fun _ its' h => ⟨its', h, fun _ hw => hw⟩
theorem Sub.trans {a b c : Api} (h1 : Sub a b) (h2 : Sub b c) : Sub a c := by
  intro sid its' h
  obtain ⟨its1, e1, s1⟩ := h2 sid its' h
  obtain ⟨its0, e0, s0⟩ := h1 sid its1 e1
  exact ⟨its0, e0, fun w hw => s0 w (s1 w hw)⟩

theorem keeps_itemsAt {a a' : Api} (h : Keeps a a') (sid : Nat) : itemsAt a' sid = itemsAt a sid := by
  unfold itemsAt; rw [← lookup_shape, ← lookup_shape, h.2.1]

theorem Keeps.sub {a a' : Api} (h : Keeps a a') : Sub a a' := by
  intro sid its' e; rw [keeps_itemsAt h] at e; exact ⟨its', e, fun _ hw => hw⟩

theorem sub_replace (a : Api) (s1 : State) (sid : Nat) (st : StreamSt) (f : StreamSt → StreamSt) (su : List (Nat × Susp))
    (hl : a.streams.lookup sid = some st) (hsub : ∀ w ∈ (f st).items, w ∈ st.items) :
    Sub a ⟨s1, replaceS a.streams sid f, su⟩ := by
  intro sid' its' h
  unfold itemsAt at h ⊢
  simp only [lookup_replaceS] at h
  by_cases hs : sid' = sid
  · subst hs
    simp only [↓reduceIte, hl, Option.map_some, Option.some.injEq] at h ⊢
    subst h
    exact ⟨st.items, rfl, hsub⟩
  · simp only [hs, ↓reduceIte] at h
    exact ⟨its', h, fun _ hw => hw⟩

theorem spoll_iter_sub (a : Api) (sid : Nat) (st : StreamSt) (w : Nat) (rest : List Nat) (hi : AInv a)
    (hl : a.streams.lookup sid = some st) (hr : st.ready = w :: rest) (s1 : State) :
    Sub a ⟨s1, replaceS (replaceS a.streams sid fun st => { st with ready := rest }) sid
        (fun st => { st with items := st.items.erase w }), a.susp⟩ ∧
    Sub a ⟨s1, replaceS (replaceS a.streams sid fun st => { st with ready := rest }) sid
        (fun st => { st with items := w :: st.items.erase w }), a.susp⟩ := by
  have hw_in : w ∈ st.items := (hi.sok.each _ (lookup_mem _ _ _ hl)).readySub w (by rw [hr]; simp)
  constructor
  · rw [replaceS_replaceS]
    exact sub_replace a _ sid st _ _ hl (fun x hx => List.mem_of_mem_erase hx)
  · rw [replaceS_replaceS]
    refine sub_replace a _ sid st _ _ hl (fun x hx => ?_)
    rcases List.mem_cons.1 hx with e | e
    · rw [e]; exact hw_in
    · exact List.mem_of_mem_erase e

theorem spollLoop_sub (sid : Nat) : ∀ (fuel : Nat) (a : Api), AInv a → Sub a (a.spollLoop sid fuel).1 := by
  intro fuel
  induction fuel with
  | zero => intro a hi; exact Sub.refl a
  | succ fuel ih =>
    intro a hi
    cases hl : a.streams.lookup sid with
    | none => rw [Api.spollLoop]; simp only [hl]; exact Sub.refl a
    | some st =>
      cases hr : st.ready with
      | nil => rw [Api.spollLoop]; simp only [hl, hr]; exact Sub.refl a
      | cons w rest =>
        rw [spollLoop_succ a sid fuel st w rest hl hr]
        simp only []
        obtain ⟨hY, hP, hB⟩ := spoll_iter a sid st w rest hi hl hr
        obtain ⟨sY, sP⟩ := spoll_iter_sub a sid st w rest hi hl hr (itemPoll a.s w).1
        cases hr2 : (itemPoll a.s w).2 with
        | yielded => exact sY
        | valueless =>
          have hk := keeps_dropGuard _ w (hY (Or.inr hr2))
          exact sY.trans (hk.sub.trans (ih _ hk.1))
        | pending => exact sP.trans (ih _ (hP hr2))
        | bad => exact absurd hr2 hB

theorem keeps_cancelAll (l : List Nat) : ∀ (b : Api), AInv b → (∀ h ∈ l, h ∉ itemsOfSS b.streams) →
    Keeps b (l.foldl (fun a h => (a.cancelHandle h).1) b) := by
  induction l with
  | nil => intro b hb _; exact Keeps.refl hb
  | cons x xs ih =>
    intro b hb hnot
    have hk := keeps_cancelHandle b x hb (hnot x (by simp))
    simp only [List.foldl_cons]
    refine hk.trans (ih _ hk.1 ?_)
    intro h hh
    rw [hk.items]; exact hnot h (List.mem_cons_of_mem _ hh)

theorem lookup_filter_key (ss : List (Nat × StreamSt)) (sid sid' : Nat) (f : Nat × StreamSt → Bool)
    (hf : ∀ p, f p = decide (p.1 ≠ sid)) :
    (ss.filter f).lookup sid' = if sid' = sid then none else ss.lookup sid' := by
  induction ss with
  | nil => simp
  | cons p ps ih =>
    obtain ⟨i, x⟩ := p
    simp only [List.filter_cons, hf]
    by_cases hi : i = sid
    · subst hi
      simp only [ne_eq, not_true_eq_false, decide_false, Bool.false_eq_true, ↓reduceIte, ih, List.lookup_cons]
      by_cases hs : sid' = i
      · simp [hs]
      · have : (sid' == i) = false := by simpa using hs
        simp [hs, this]
    · simp only [ne_eq, hi, not_false_eq_true, decide_true, ↓reduceIte, List.lookup_cons, ih]
      cases hb : sid' == i with
      | true =>
        have : sid' = i := by simpa using hb
        subst this; simp [hi]
      | false => simp

/-- **The unresolved items of a stream only ever shrink**: whatever API call is made, every stream that exists afterwards
existed before with at least these items — except the stream that this very call created (`lockAll`). An item that was yielded,
dropped as valueless or cancelled never comes back; nothing is ever added to a snapshot. -/
theorem exec_sub (a : Api) (c : Call) (hi : AInv a) (sid' : Nat) (its' : List Nat) (h : itemsAt (a.exec c).1 sid' = some its') :
    (∃ its, itemsAt a sid' = some its ∧ ∀ w ∈ its', w ∈ its) ∨ (itemsAt a sid' = none ∧ ∃ h0, c = .lockAll sid' h0) := by
  have viaK : ∀ a', Keeps a a' → itemsAt a' sid' = some its' → ∃ its, itemsAt a sid' = some its ∧ ∀ w ∈ its', w ∈ its :=
    fun a' hk e => hk.sub sid' its' e
  cases c with
  | lock v h' k limit h0 => exact Or.inl (viaK _ (keeps_lock a v h' k limit h0 hi) h)
  | poll h' =>
    left
    simp only [Api.exec] at h
    split at h; · exact viaK _ (Keeps.refl hi) h
    rename_i hno
    have hnot := not_owned_not_item a h' (by simpa using hno)
    split at h
    · exact viaK _ (keeps_resume a h' _ hi) h
    · exact viaK _ (keeps_own a (.acquire h') h' hi hnot rfl rfl rfl) h
  | cancel h' =>
    left
    simp only [Api.exec] at h
    split at h; · exact viaK _ (Keeps.refl hi) h
    rename_i hno
    have hnot := not_owned_not_item a h' (by simpa using hno)
    split at h
    · exact viaK _ (keeps_abandon a h' _ hi) h
    · exact viaK _ (keeps_cancelHandle a h' hi hnot) h
  | op h' g =>
    left
    simp only [Api.exec] at h
    split at h
    · exact viaK _ (Keeps.refl hi) h
    · exact viaK _ (keeps_gop_ a h' g hi) h
  | drop h' =>
    left
    simp only [Api.exec] at h
    split at h
    · exact viaK _ (Keeps.refl hi) h
    · exact viaK _ (keeps_dropGuard a h' hi) h
  | count => exact Or.inl (viaK _ (Keeps.refl hi) h)
  | keys => exact Or.inl (viaK _ (Keeps.refl hi) h)
  | adv d =>
    exact Or.inl (viaK _ (keeps_plain a (.tick d) hi (fun w _ => ⟨by simp [Act.actor], by simp [Act.fresh]⟩) rfl) h)
  | expire d h0 =>
    left
    simp only [Api.exec] at h
    have := keeps_expire a (cutoffOf a.s d) (List.range' h0 supplyLen) hi
    split at h <;> exact viaK _ this h
  | lockAll sid h0 =>
    simp only [Api.exec] at h
    split at h
    · exact Or.inl (viaK _ (Keeps.refl hi) h)
    · rename_i hno
      have hl : a.streams.lookup sid = none := by
        cases hq : a.streams.lookup sid with
        | none => rfl
        | some x => rw [hq] at hno; simp at hno
      split at h
      · rename_i hs heq
        by_cases hs' : sid' = sid
        · subst hs'
          right
          exact ⟨by unfold itemsAt; rw [hl]; rfl, h0, rfl⟩
        · left
          have hk := keeps_snapshot a (List.range' h0 supplyLen) hi
          apply viaK _ hk
          unfold itemsAt at h ⊢
          simp only [List.lookup_cons] at h
          have : (sid' == sid) = false := by simpa using hs'
          rw [this] at h
          exact h
      · exact Or.inl (viaK _ (keeps_snapshot a _ hi) h)
  | spoll sid => exact Or.inl (spollLoop_sub sid _ a hi sid' its' h)
  | sdrop sid =>
    left
    simp only [Api.exec] at h
    split at h
    · rename_i st hl
      have hmem := lookup_mem _ _ _ hl
      have hk := keeps_cancelAll st.items ⟨a.s, a.streams.filter (fun p => decide (p.1 ≠ sid)), a.susp⟩
        ⟨hi.inv, sok_filter _ _ _ hi.sok⟩ (by
          intro h' hh hin
          obtain ⟨q, hq, hw⟩ := (mem_itemsOfSS _ h').1 hin
          obtain ⟨hq1, hq2⟩ := List.mem_filter.1 hq
          have := hi.sok.disj _ hmem q hq1 h' hh hw
          simp at hq2 this
          exact hq2 this.symm)
      have hfe : (a.streams.filter fun (p : Nat × StreamSt) => match p with | (i, _) => decide (i ≠ sid))
          = a.streams.filter (fun p => decide (p.1 ≠ sid)) := by
        apply List.filter_congr
        intro p _; obtain ⟨i, x⟩ := p; rfl
      have h' : itemsAt (st.items.foldl (fun a h => (a.cancelHandle h).1)
          ⟨a.s, a.streams.filter (fun p => decide (p.1 ≠ sid)), a.susp⟩) sid' = some its' := by
        rw [← hfe]; exact h
      rw [keeps_itemsAt hk] at h'
      unfold itemsAt at h' ⊢
      simp only [lookup_filter_key a.streams sid sid' _ (fun _ => rfl)] at h'
      split at h'
      · cases h'
      · exact ⟨its', h', fun _ hw => hw⟩
    · exact viaK _ (Keeps.refl hi) h
  | into => exact Or.inl (viaK _ (Keeps.refl hi) h)
  | reorder perm =>
    left
    simp only [Api.exec] at h
    exact viaK _ (keeps_plain a (.reorder perm) hi (fun w _ => ⟨by simp [Act.actor], by simp [Act.fresh]⟩) rfl) h

/-! ### what is yielded -/

theorem itemPoll_yielded (s : State) (w : Nat) (h : (itemPoll s w).2 = .yielded) :
    ∃ v, (gop (itemPoll s w).1 w .value).2 = .optVal (some v) := by
  unfold itemPoll at h ⊢
  cases hh : s.hs w with
  | none => simp [hh] at h
  | some hd =>
    simp only [hh] at h ⊢
    generalize (if hd.st = .replica then enqueue s w else acquire s w) = r at h ⊢
    split at h
    · split at h
      · rename_i v hv; exact ⟨v, by simpa using hv⟩
      · cases h
    · cases h
    · cases h

theorem itemPoll_key (s : State) (w : Nat) : hkey ((itemPoll s w).1.hs w) = hkey (s.hs w) := by
  unfold itemPoll
  cases hh : s.hs w with
  | none => simp [hh]
  | some hd =>
    simp only []
    have h1 : hkey ((enqueue s w).1.hs w) = some hd.key := by
      unfold enqueue; simp only [hh]
      repeat' split
      all_goals simp [State.setSt, State.setEnt, upd, hh]
    have h2 : hkey ((acquire s w).1.hs w) = some hd.key := by
      unfold acquire; simp only [hh]
      repeat' split
      all_goals simp [State.setSt, State.setEnt, upd, hh]
    by_cases hst : hd.st = .replica
    · simp only [hst, ↓reduceIte]
      repeat' split
      all_goals simpa using h1
    · simp only [hst, ↓reduceIte]
      repeat' split
      all_goals simpa using h2

theorem gop_value_some (s : State) (w v : Nat) (h : (gop s w .value).2 = .optVal (some v)) :
    ∃ hd, s.hs w = some hd ∧ hd.st = .holding ∧ absVal s hd.key = some v := by
  unfold gop at h
  cases hh : s.hs w with
  | none => simp [hh] at h
  | some hd =>
    simp only [hh] at h
    by_cases hst : hd.st = .holding
    · simp only [hst, ↓reduceIte] at h
      cases hm : s.entryOf hd with
      | none => simp [hm] at h
      | some m =>
        simp only [hm] at h
        obtain ⟨hm1, _⟩ := entryOf_some hm
        refine ⟨hd, rfl, hst, ?_⟩
        unfold absVal valOf; rw [hm1]
        simpa using h
    · simp [hst] at h

/-- **What `poll_next` yields**: an acquisition that was an unresolved item of this stream before the call, is none afterwards,
and is now a guard for its key, which has a value. -/
theorem spollLoop_item (sid : Nat) : ∀ (fuel : Nat) (a : Api), AInv a → ∀ w k, (a.spollLoop sid fuel).2 = .item w k →
    (∃ its, itemsAt a sid = some its ∧ w ∈ its) ∧
    (∃ its', itemsAt (a.spollLoop sid fuel).1 sid = some its' ∧ w ∉ its') ∧
    (∃ hd v, (a.spollLoop sid fuel).1.s.hs w = some hd ∧ hd.st = .holding ∧ hd.key = k ∧
      absVal (a.spollLoop sid fuel).1.s k = some v) := by
  intro fuel
  induction fuel with
  | zero => intro a hi w k h; simp [Api.spollLoop] at h
  | succ fuel ih =>
    intro a hi w0 k
    cases hl : a.streams.lookup sid with
    | none => rw [Api.spollLoop]; simp [hl]
    | some st =>
      cases hr : st.ready with
      | nil => rw [Api.spollLoop]; simp only [hl, hr]; intro h; split at h <;> cases h
      | cons w rest =>
        rw [spollLoop_succ a sid fuel st w rest hl hr]
        simp only []
        obtain ⟨hY, hP, hB⟩ := spoll_iter a sid st w rest hi hl hr
        obtain ⟨sY, sP⟩ := spoll_iter_sub a sid st w rest hi hl hr (itemPoll a.s w).1
        have hmem := lookup_mem _ _ _ hl
        have hw_in : w ∈ st.items := (hi.sok.each _ hmem).readySub w (by rw [hr]; simp)
        have hitn : st.items.Nodup := hi.sok.nodup _ hmem
        have lift : ∀ a' : Api, Sub a a' → (∃ its, itemsAt a' sid = some its ∧ w0 ∈ its) →
            ∃ its, itemsAt a sid = some its ∧ w0 ∈ its := by
          rintro a' hs ⟨its1, e1, m1⟩
          obtain ⟨its, e, hsub⟩ := hs sid its1 e1
          exact ⟨its, e, hsub w0 m1⟩
        cases hr2 : (itemPoll a.s w).2 with
        | yielded =>
          simp only []
          intro h
          have e1 : w0 = w := by cases h; rfl
          have e2 : k = keyOf a.s w := by cases h; rfl
          subst e1
          refine ⟨⟨st.items, by unfold itemsAt; rw [hl]; rfl, hw_in⟩, ⟨st.items.erase w0, ?_, ?_⟩, ?_⟩
          · unfold itemsAt
            simp only [replaceS_replaceS, lookup_replaceS, ↓reduceIte, hl]; rfl
          · intro e; exact ((List.Nodup.mem_erase_iff hitn).1 e).1 rfl
          · obtain ⟨v, hv⟩ := itemPoll_yielded a.s w0 hr2
            obtain ⟨hd, h1, h2, h3⟩ := gop_value_some _ w0 v hv
            have hk : hd.key = k := by
              have := itemPoll_key a.s w0
              rw [h1] at this
              rw [e2]; unfold keyOf
              cases hq : a.s.hs w0 with
              | none => rw [hq] at this; simp at this
              | some hd0 => rw [hq] at this; simp at this; simp [this]
            exact ⟨hd, v, h1, h2, hk, by rw [← hk]; exact h3⟩
        | valueless =>
          simp only []
          intro h
          have hk := keeps_dropGuard _ w (hY (Or.inr hr2))
          obtain ⟨r1, r2, r3⟩ := ih _ hk.1 w0 k h
          exact ⟨lift _ (sY.trans hk.sub) r1, r2, r3⟩
        | pending =>
          simp only []
          intro h
          obtain ⟨r1, r2, r3⟩ := ih _ (hP hr2) w0 k h
          exact ⟨lift _ sP r1, r2, r3⟩
        | bad => exact absurd hr2 hB

/-! ### the fuel of `spoll` suffices: the model never answers its artificial `bad` for an existing stream -/

/-- the unresolved items of one stream are for pairwise different keys (one item per entry of the snapshot) -/
def KOk (a : Api) : Prop :=
  ∀ p ∈ a.streams, ∀ w ∈ p.2.items, ∀ w' ∈ p.2.items, hkey (a.s.hs w) = hkey (a.s.hs w') → w = w'

theorem shape_mem (ss ss' : List (Nat × StreamSt)) (h : shape ss' = shape ss) (p' : Nat × StreamSt) (hp : p' ∈ ss') :
    ∃ p ∈ ss, p.1 = p'.1 ∧ p.2.items = p'.2.items := by
  have : (p'.1, p'.2.items) ∈ shape ss' := List.mem_map.2 ⟨p', hp, rfl⟩
  rw [h] at this
  obtain ⟨p, hp, e⟩ := List.mem_map.1 this
  simp only [Prod.mk.injEq] at e
  exact ⟨p, hp, e.1, e.2⟩

theorem kok_keeps {a a' : Api} (h : Keeps a a') (hk : KOk a) : KOk a' := by
  intro p' hp' w hw w' hw' e
  obtain ⟨p, hp, _, e2⟩ := shape_mem _ _ h.2.1 p' hp'
  rw [← e2] at hw hw'
  have h1 := h.2.2 w ((mem_itemsOfSS _ w).2 ⟨p, hp, hw⟩)
  have h2 := h.2.2 w' ((mem_itemsOfSS _ w').2 ⟨p, hp, hw'⟩)
  rw [h1, h2] at e
  exact hk p hp w hw w' hw' e

theorem itemPoll_hkey_all (s : State) (w x : Nat) : hkey ((itemPoll s w).1.hs x) = hkey (s.hs x) := by
  by_cases hx : x = w
  · subst hx; exact itemPoll_key s x
  · unfold itemPoll
    cases hh : s.hs w with
    | none => rfl
    | some hd =>
      simp only []
      by_cases hst : hd.st = .replica
      · simp only [hst, ↓reduceIte]
        repeat' split
        all_goals simp only [enqueue_hs_other s w x hx]
      · simp only [hst, ↓reduceIte]
        repeat' split
        all_goals simp only [acquire_hs_other s w x hx]

theorem kok_replace (a : Api) (s1 : State) (sid : Nat) (st : StreamSt) (f : StreamSt → StreamSt) (su : List (Nat × Susp))
    (hk : KOk a) (hids : (a.streams.map Prod.fst).Nodup) (hl : a.streams.lookup sid = some st)
    (hsub : ∀ w ∈ (f st).items, w ∈ st.items) (hkeys : ∀ x, hkey (s1.hs x) = hkey (a.s.hs x)) :
    KOk ⟨s1, replaceS a.streams sid f, su⟩ := by
  intro p' hp' w hw w' hw' e
  simp only [hkeys] at e
  unfold replaceS at hp'
  obtain ⟨p, hp, rfl⟩ := List.mem_map.1 hp'
  by_cases hps : p.1 = sid
  · simp only [hps, ↓reduceIte] at hw hw'
    have hpst := lookup_unique _ _ _ hids hl p hp hps
    rw [hpst] at hw hw'
    exact hk p hp w (by rw [hpst]; exact hsub w hw) w' (by rw [hpst]; exact hsub w' hw') e
  · simp only [hps, ↓reduceIte] at hw hw'
    exact hk p hp w hw w' hw' e

theorem nextWaiter_facts (s : State) (h x : Nat) (hi : Inv s) (hn : nextWaiter s h = some x) :
    hkey (s.hs x) = hkey (s.hs h) ∧ x ≠ h := by
  unfold nextWaiter at hn
  cases hh : s.hs h with
  | none => simp [hh] at hn
  | some hd =>
    simp only [hh] at hn
    cases hm : s.entryOf hd with
    | none => simp [hm] at hn
    | some m =>
      simp only [hm] at hn
      obtain ⟨hm1, _⟩ := entryOf_some hm
      split at hn
      · rename_i hho
        have hin : x ∈ m.queue := head_mem _ _ hn
        obtain ⟨h1, _, h3⟩ := (hi.queue hd.key m hm1 x).1 hin
        refine ⟨by rw [h1]; rfl, ?_⟩
        intro e; subst e; exact h3 hho
      · cases hn

theorem dropGuard_streams (a : Api) (c : Nat) :
    (a.dropGuard c).1.streams = if (stamp a.s c).2 = .unit then wakeAll a.streams (nextWaiter a.s c) else a.streams := by
  unfold Api.dropGuard
  simp only []
  split
  · rename_i e; simp only [e, ↓reduceIte, woken_streams']
  · rename_i e
    have : ¬ (stamp a.s c).2 = .unit := fun e2 => e e2
    simp only [this, ↓reduceIte]

theorem lookup_wakeAll (ss : List (Nat × StreamSt)) (x : Option Nat) (sid : Nat) :
    (wakeAll ss x).lookup sid = (ss.lookup sid).map fun st => wake st x := by
  induction ss with
  | nil => rfl
  | cons p ps ih =>
    obtain ⟨i, y⟩ := p
    unfold wakeAll at ih ⊢
    simp only [List.map_cons, List.lookup_cons]
    split
    · rfl
    · exact ih

theorem wake_ready_other (st : StreamSt) (x : Option Nat) (h : ∀ y, x = some y → y ∉ st.items) : (wake st x).ready = st.ready := by
  unfold wake
  cases x with
  | none => rfl
  | some y =>
    have := h y rfl
    simp [this]

theorem spollLoop_not_bad (sid : Nat) : ∀ (fuel : Nat) (a : Api), AInv a → KOk a → ∀ st, a.streams.lookup sid = some st →
    st.ready.length < fuel → (a.spollLoop sid fuel).2 ≠ .bad := by
  intro fuel
  induction fuel with
  | zero => intro a _ _ st _ h; exact absurd h (Nat.not_lt_zero _)
  | succ fuel ih =>
    intro a hi hk st hl hlen
    cases hr : st.ready with
    | nil => rw [Api.spollLoop]; simp only [hl, hr]; split <;> (intro e; cases e)
    | cons w rest =>
      rw [spollLoop_succ a sid fuel st w rest hl hr]
      simp only []
      obtain ⟨hY, hP, hB⟩ := spoll_iter a sid st w rest hi hl hr
      have hmem := lookup_mem _ _ _ hl
      have hw_in : w ∈ st.items := (hi.sok.each _ hmem).readySub w (by rw [hr]; simp)
      have hrl : rest.length < fuel := by rw [hr] at hlen; simp at hlen; omega
      have hkY : KOk ⟨(itemPoll a.s w).1, replaceS (replaceS a.streams sid fun st => { st with ready := rest }) sid
          (fun st => { st with items := st.items.erase w }), a.susp⟩ := by
        rw [replaceS_replaceS]
        exact kok_replace a _ sid st _ _ hk hi.sok.ids hl (fun x hx => List.mem_of_mem_erase hx) (itemPoll_hkey_all a.s w)
      have hkP : KOk ⟨(itemPoll a.s w).1, replaceS (replaceS a.streams sid fun st => { st with ready := rest }) sid
          (fun st => { st with items := w :: st.items.erase w }), a.susp⟩ := by
        rw [replaceS_replaceS]
        refine kok_replace a _ sid st _ _ hk hi.sok.ids hl (fun x hx => ?_) (itemPoll_hkey_all a.s w)
        rcases List.mem_cons.1 hx with e | e
        · rw [e]; exact hw_in
        · exact List.mem_of_mem_erase e
      cases hr2 : (itemPoll a.s w).2 with
      | yielded => simp only []; intro e; cases e
      | pending =>
        simp only []
        refine ih _ (hP hr2) hkP { st with ready := rest, items := w :: st.items.erase w } ?_ hrl
        simp only [replaceS_replaceS, lookup_replaceS, ↓reduceIte, hl]; rfl
      | valueless =>
        simp only []
        have hAY := hY (Or.inr hr2)
        have hkeep := keeps_dropGuard _ w hAY
        have hl2 : (replaceS (replaceS a.streams sid fun st => { st with ready := rest }) sid
            (fun st => { st with items := st.items.erase w })).lookup sid
            = some { st with ready := rest, items := st.items.erase w } := by
          simp only [replaceS_replaceS, lookup_replaceS, ↓reduceIte, hl]; rfl
        -- the drop of the valueless guard wakes nobody of this stream
        have hnone : ∀ y, nextWaiter (itemPoll a.s w).1 w = some y → y ∉ st.items.erase w := by
          intro y hy hin
          obtain ⟨f1, f2⟩ := nextWaiter_facts _ w y hAY.inv hy
          rw [itemPoll_hkey_all, itemPoll_hkey_all] at f1
          have hy_in : y ∈ st.items := List.mem_of_mem_erase hin
          exact f2 (hk _ hmem y hy_in w hw_in f1)
        refine ih _ hkeep.1 (kok_keeps hkeep hkY) (wake { st with ready := rest, items := st.items.erase w }
          (if (stamp (itemPoll a.s w).1 w).2 = .unit then nextWaiter (itemPoll a.s w).1 w else none)) ?_ ?_
        · rw [dropGuard_streams]
          split
          · simp only [lookup_wakeAll, hl2, Option.map_some]
          · simp only [hl2, wake]
        · rw [wake_ready_other]
          · exact hrl
          · intro y hy
            split at hy
            · exact hnone y hy
            · cases hy
      | bad => exact absurd hr2 hB

theorem kok_spollLoop (sid : Nat) : ∀ (fuel : Nat) (a : Api), AInv a → KOk a → KOk (a.spollLoop sid fuel).1 := by
  intro fuel
  induction fuel with
  | zero => intro a _ hk; exact hk
  | succ fuel ih =>
    intro a hi hk
    cases hl : a.streams.lookup sid with
    | none => rw [Api.spollLoop]; simp only [hl]; exact hk
    | some st =>
      cases hr : st.ready with
      | nil => rw [Api.spollLoop]; simp only [hl, hr]; exact hk
      | cons w rest =>
        rw [spollLoop_succ a sid fuel st w rest hl hr]
        simp only []
        obtain ⟨hY, hP, hB⟩ := spoll_iter a sid st w rest hi hl hr
        have hw_in : w ∈ st.items := (hi.sok.each _ (lookup_mem _ _ _ hl)).readySub w (by rw [hr]; simp)
        have hkY : KOk ⟨(itemPoll a.s w).1, replaceS (replaceS a.streams sid fun st => { st with ready := rest }) sid
            (fun st => { st with items := st.items.erase w }), a.susp⟩ := by
          rw [replaceS_replaceS]
          exact kok_replace a _ sid st _ _ hk hi.sok.ids hl (fun x hx => List.mem_of_mem_erase hx) (itemPoll_hkey_all a.s w)
        have hkP : KOk ⟨(itemPoll a.s w).1, replaceS (replaceS a.streams sid fun st => { st with ready := rest }) sid
            (fun st => { st with items := w :: st.items.erase w }), a.susp⟩ := by
          rw [replaceS_replaceS]
          refine kok_replace a _ sid st _ _ hk hi.sok.ids hl (fun x hx => ?_) (itemPoll_hkey_all a.s w)
          rcases List.mem_cons.1 hx with e | e
          · rw [e]; exact hw_in
          · exact List.mem_of_mem_erase e
        cases hr2 : (itemPoll a.s w).2 with
        | yielded => exact hkY
        | valueless =>
          have hkeep := keeps_dropGuard _ w (hY (Or.inr hr2))
          exact ih _ hkeep.1 (kok_keeps hkeep hkY)
        | pending => exact ih _ (hP hr2) hkP
        | bad => exact absurd hr2 hB

theorem inj_of_map_nodup (f : Nat → Nat) (l : List Nat) (h : (l.map f).Nodup) :
    ∀ x ∈ l, ∀ y ∈ l, f x = f y → x = y := by
  induction l with
  | nil => intro x hx; cases hx
  | cons z zs ih =>
    simp only [List.map_cons, List.nodup_cons] at h
    intro x hx y hy e
    rcases List.mem_cons.1 hx with e1 | e1 <;> rcases List.mem_cons.1 hy with e2 | e2
    · rw [e1, e2]
    · subst e1; exact absurd (List.mem_map.2 ⟨y, e2, e.symm⟩) h.1
    · subst e2; exact absurd (List.mem_map.2 ⟨x, e1, e⟩) h.1
    · exact ih h.2 x e1 y e2 e

theorem snapshot_keys_nodup (s : State) (hids hs : List Nat) (hi : Inv s) (h : (step s (.snapshot hids)).2 = .list hs) :
    (hs.map (keyOfH (step s (.snapshot hids)).1)).Nodup := by
  simp only [step] at h ⊢
  split at h
  · rename_i hc
    have hc' := hc
    simp only [Bool.and_eq_true, decide_eq_true_eq] at hc
    have hf := freshL_of s hids hc.1
    simp only [hc', ↓reduceIte]
    unfold snapshot at h ⊢
    simp only [hi.notWedged, Bool.false_eq_true, ↓reduceIte] at h ⊢
    have hex := snapLoop_exact s.order s hids [] (fun k hk => (hi.keys k).1 hk) hi.nodup hf.2 hc.2
    simp only [List.length_nil, List.take_zero, List.reverse_nil, List.drop_zero, true_and] at hex
    have e : (snapLoop s s.order hids []).2 = hs := by simpa using h
    rw [e] at hex
    rw [hex.1]; exact hi.nodup
  · cases h

theorem kok_filter (a : Api) (f : Nat × StreamSt → Bool) (hk : KOk a) : KOk ⟨a.s, a.streams.filter f, a.susp⟩ := by
  intro p hp; exact hk p (List.mem_filter.1 hp).1

/-- every API call keeps "one item per key" in every stream -/
theorem kok_exec (a : Api) (c : Call) (hi : AInv a) (hk : KOk a) : KOk (a.exec c).1 := by
  cases c with
  | lock v h' k limit h0 => exact kok_keeps (keeps_lock a v h' k limit h0 hi) hk
  | poll h' =>
    simp only [Api.exec]
    split; · exact hk
    rename_i hno
    have hnot := not_owned_not_item a h' (by simpa using hno)
    split
    · exact kok_keeps (keeps_resume a h' _ hi) hk
    · exact kok_keeps (keeps_own a (.acquire h') h' hi hnot rfl rfl rfl) hk
  | cancel h' =>
    simp only [Api.exec]
    split; · exact hk
    rename_i hno
    have hnot := not_owned_not_item a h' (by simpa using hno)
    split
    · exact kok_keeps (keeps_abandon a h' _ hi) hk
    · exact kok_keeps (keeps_cancelHandle a h' hi hnot) hk
  | op h' g =>
    simp only [Api.exec]
    split
    · exact hk
    · exact kok_keeps (keeps_gop_ a h' g hi) hk
  | drop h' =>
    simp only [Api.exec]
    split
    · exact hk
    · exact kok_keeps (keeps_dropGuard a h' hi) hk
  | count => exact hk
  | keys => exact hk
  | adv d => exact kok_keeps (keeps_plain a (.tick d) hi (fun w _ => ⟨by simp [Act.actor], by simp [Act.fresh]⟩) rfl) hk
  | expire d h0 =>
    simp only [Api.exec]
    have := kok_keeps (keeps_expire a (cutoffOf a.s d) (List.range' h0 supplyLen) hi) hk
    split <;> exact this
  | lockAll sid h0 =>
    simp only [Api.exec]
    split
    · exact hk
    · have hks := kok_keeps (keeps_snapshot a (List.range' h0 supplyLen) hi) hk
      split
      · rename_i hs heq
        have hnd := snapshot_keys_nodup a.s _ hs hi.inv heq
        intro p hp w hw w' hw' e
        rcases List.mem_cons.1 hp with e1 | e1
        · subst e1
          simp only [List.mem_reverse] at hw hw'
          apply inj_of_map_nodup _ hs hnd w hw w' hw'
          unfold keyOfH; simp only [] at e; rw [e]
        · exact hks p e1 w hw w' hw' e
      · exact hks
  | spoll sid => exact kok_spollLoop sid _ a hi hk
  | sdrop sid =>
    simp only [Api.exec]
    split
    · rename_i st hl
      have hmem := lookup_mem _ _ _ hl
      have hkk := keeps_cancelAll st.items ⟨a.s, a.streams.filter (fun p => decide (p.1 ≠ sid)), a.susp⟩
        ⟨hi.inv, sok_filter _ _ _ hi.sok⟩ (by
          intro h' hh hin
          obtain ⟨q, hq, hw⟩ := (mem_itemsOfSS _ h').1 hin
          obtain ⟨hq1, hq2⟩ := List.mem_filter.1 hq
          have := hi.sok.disj _ hmem q hq1 h' hh hw
          simp at hq2 this
          exact hq2 this.symm)
      have hfe : (a.streams.filter fun (p : Nat × StreamSt) => match p with | (i, _) => decide (i ≠ sid))
          = a.streams.filter (fun p => decide (p.1 ≠ sid)) := by
        apply List.filter_congr
        intro p _; obtain ⟨i, x⟩ := p; rfl
      have := kok_keeps hkk (kok_filter a _ hk)
      rw [← hfe] at this
      exact this
    · exact hk
  | into => exact hk
  | reorder perm =>
    simp only [Api.exec]
    exact kok_keeps (keeps_plain a (.reorder perm) hi (fun w _ => ⟨by simp [Act.actor], by simp [Act.fresh]⟩) rfl) hk

theorem kok_init (kind : Kind) : KOk (Api.init kind) := by
  intro p hp; simp [Api.init] at hp

theorem reach_execs (cs : List Call) : ∀ (a : Api), AInv a → KOk a →
    AInv (cs.foldl (fun a c => (a.exec c).1) a) ∧ KOk (cs.foldl (fun a c => (a.exec c).1) a) := by
  induction cs with
  | nil => intro a hi hk; exact ⟨hi, hk⟩
  | cons c cs ih => intro a hi hk; exact ih _ (ainv_exec a c hi) (kok_exec a c hi hk)

theorem keyOf_eq_keyOfH (s : State) (h : Nat) : keyOf s h = keyOfH s h := by
  unfold keyOf keyOfH; cases s.hs h <;> rfl

theorem snapshot_keys_order (s : State) (hids hs : List Nat) (hi : Inv s) (h : (step s (.snapshot hids)).2 = .list hs) :
    hs.map (keyOfH (step s (.snapshot hids)).1) = s.order := by
  simp only [step] at h ⊢
  split at h
  · rename_i hc
    have hc' := hc
    simp only [Bool.and_eq_true, decide_eq_true_eq] at hc
    have hf := freshL_of s hids hc.1
    simp only [hc', ↓reduceIte]
    unfold snapshot at h ⊢
    simp only [hi.notWedged, Bool.false_eq_true, ↓reduceIte] at h ⊢
    have hex := snapLoop_exact s.order s hids [] (fun k hk => (hi.keys k).1 hk) hi.nodup hf.2 hc.2
    simp only [List.length_nil, List.take_zero, List.reverse_nil, List.drop_zero, true_and] at hex
    have e : (snapLoop s s.order hids []).2 = hs := by simpa using h
    rw [e] at hex
    exact hex.1
  · cases h

/-- what `lock_all_entries` creates: one item per key of the map, in iteration order -/
theorem lockAll_handles (a : Api) (sid h0 : Nat) (pairs : List (Nat × Nat)) (hi : Inv a.s)
    (h : (a.exec (.lockAll sid h0)).2.res = .handles pairs) :
    pairs.map Prod.snd = a.s.order ∧ itemsAt (a.exec (.lockAll sid h0)).1 sid = some (pairs.map Prod.fst).reverse := by
  simp only [Api.exec] at h ⊢
  split at h
  · cases h
  · rename_i hno
    split at h
    · rename_i hs heq
      simp only [] at h
      have hp : pairs = hs.map fun x => (x, keyOf (step a.s (.snapshot (List.range' h0 supplyLen))).1 x) := by
        cases h; rfl
      have hord := snapshot_keys_order a.s _ hs hi heq
      have hno' : (List.lookup sid a.streams).isSome = false := by
        cases hq : (List.lookup sid a.streams).isSome with
        | false => rfl
        | true => exact absurd hq hno
      simp only [hno', Bool.false_eq_true, ↓reduceIte]
      refine ⟨?_, ?_⟩
      · rw [hp, List.map_map, ← hord]
        apply List.map_congr_left
        intro x _
        simp [keyOf_eq_keyOfH]
      · unfold itemsAt
        simp only [List.lookup_cons, beq_self_eq_true, Option.map_some]
        rw [hp, List.map_map]
        simp [Function.comp_def]
    · cases h

theorem cancelHandle_s (a : Api) (h : Nat) : (a.cancelHandle h).1.s = (cancel a.s h).1 := by
  unfold Api.cancelHandle; simp only []; split
  · simp only [woken_s]
  · rfl

theorem cancelAll_s (l : List Nat) : ∀ (b : Api),
    (l.foldl (fun a h => (a.cancelHandle h).1) b).s = run b.s (l.map Act.cancel) := by
  induction l with
  | nil => intro b; rfl
  | cons x xs ih =>
    intro b
    simp only [List.foldl_cons, List.map_cons]
    rw [ih, cancelHandle_s]
    simp [run, List.foldl, step]

/-- the wake-up a scheduled segment performs is exactly the hand-off of the section at its park point -/
theorem wakeOf_is_handoff (s : State) (p : Park) (w : Nat) (h : wakeOf s p = some w) :
    ∃ act : Act, handedTo s act = some w ∧
      ((∃ x c, p = .gRelease x c ∧ act = .release x) ∨ (∃ x, p = .gCancel x ∧ act = .cancel x) ∨
       (∃ x r, p = .gCancelS x r ∧ act = .cancel x)) := by
  cases p with
  | gRelease x c => exact ⟨.release x, h, Or.inl ⟨x, c, rfl, rfl⟩⟩
  | gCancel x => exact ⟨.cancel x, h, Or.inr (Or.inl ⟨x, rfl, rfl⟩)⟩
  | gCancelS x r => exact ⟨.cancel x, h, Or.inr (Or.inr ⟨x, r, rfl, rfl⟩)⟩
  | _ => simp [wakeOf] at h

end Lockable
