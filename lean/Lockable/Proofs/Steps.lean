/-
Theorem A, per action: every atomic action preserves the invariant.
-/
import Lockable.Proofs.Inv
namespace Lockable

theorem entryOf_some {s : State} {hd : Handle} {m : Entry} (h : s.entryOf hd = some m) :
    s.ent hd.key = some m ∧ m.eid = hd.eid := by
  unfold State.entryOf at h
  split at h
  · split at h <;> simp_all
  · simp at h

syntax "inv_close" : tactic
macro_rules
  | `(tactic| inv_close) => `(tactic|
    (constructor <;>
      (simp only [State.setEnt, State.setSt, State.dropHandle, State.removeKey, State.clone,
                  State.scanLock, State.wedge, upd]; intros) <;>
      grind [Inv, HSt.isGuard, HSt.mayHold]))

theorem inv_touch (s : State) (k : Nat) (hk : k ∈ s.order) (hi : Inv s) : Inv (s.touch k) := by
  unfold State.touch
  split
  · exact { hi with nodup := nodup_promote _ _ hi.nodup, keys := fun x => by simp only [mem_promote k x _ hk]; exact hi.keys x }
  · exact hi

theorem inv_lookup (s : State) (h k : Nat) (hi : Inv s) : Inv (lookup s h k).1 := by
  unfold lookup
  split
  · exact hi
  · split
    · exact hi
    · rename_i hfresh
      have hfresh' : s.hs h = none := by simpa using hfresh
      split
      · rename_i m hm
        apply inv_touch
        · simp only [State.clone]; exact (hi.keys k).2 (by simp [hm])
        · inv_close
      · rename_i hm
        constructor <;> (simp only [upd]; intros) <;> grind [Inv, HSt.isGuard, HSt.mayHold]

theorem inv_tryKey (s : State) (h : Nat) (hi : Inv s) : Inv (tryKey s h).1 := by
  unfold tryKey
  split <;> try exact hi
  split <;> try exact hi
  split <;> try exact hi
  rename_i hd hhd hst _ m hm
  have ⟨hm1, hm2⟩ := entryOf_some hm
  split
  · rename_i hfree
    have hfree' : m.holder = none := by simpa using hfree
    inv_close
  · inv_close

theorem inv_trySpurious (s : State) (h : Nat) (hi : Inv s) : Inv (trySpurious s h).1 := by
  unfold trySpurious
  split <;> try exact hi
  split <;> try exact hi
  inv_close

theorem inv_enqueue (s : State) (h : Nat) (hi : Inv s) : Inv (enqueue s h).1 := by
  unfold enqueue
  split <;> try exact hi
  split <;> try exact hi
  split <;> try exact hi
  rename_i hd hhd hst _ m hm
  have ⟨hm1, hm2⟩ := entryOf_some hm
  split
  · rename_i hfree
    have hfree' : m.holder = none := by simpa using hfree
    inv_close
  · rename_i hheld
    have hheld' : m.holder ≠ none := by simpa using hheld
    inv_close

theorem inv_enqueueLate (s : State) (h : Nat) (hi : Inv s) : Inv (enqueueLate s h).1 := by
  unfold enqueueLate
  split <;> try exact hi
  split <;> try exact hi
  split <;> try exact hi
  rename_i hd hhd hst _ m hm
  have ⟨hm1, hm2⟩ := entryOf_some hm
  split
  · rename_i hfree
    have hfree' : m.holder = none := by simpa using hfree
    inv_close
  · rename_i hheld
    have hheld' : m.holder ≠ none := by simpa using hheld
    inv_close

theorem inv_acquire (s : State) (h : Nat) (hi : Inv s) : Inv (acquire s h).1 := by
  unfold acquire
  split <;> try exact hi
  split <;> try exact hi
  split <;> try exact hi
  rename_i hd hhd hst _ m hm
  have ⟨hm1, hm2⟩ := entryOf_some hm
  split <;> try exact hi
  inv_close



theorem inv_gop (s : State) (h : Nat) (op : GOp) (hi : Inv s) : Inv (gop s h op).1 := by
  unfold gop
  split <;> try exact hi
  split <;> try exact hi
  split <;> try exact hi
  rename_i hd hhd hst _ m hm
  have ⟨hm1, hm2⟩ := entryOf_some hm
  have hh : m.holder = some h := hi.guardHolds h hd hhd (by simp [hst, HSt.isGuard]) m hm1
  have hr : h ∈ m.refs := (hi.refs _ m hm1 h).2 (by simp [hhd])
  have hr' : m.refs ≠ [] := by intro e; simp [e] at hr
  split <;> try exact hi
  all_goals (try split) <;> try exact hi
  all_goals inv_close

theorem inv_stamp (s : State) (h : Nat) (hi : Inv s) : Inv (stamp s h).1 := by
  unfold stamp
  split <;> try exact hi
  split <;> try exact hi
  split <;> try exact hi
  rename_i hd hhd hst _ m hm
  have ⟨hm1, hm2⟩ := entryOf_some hm
  have hh : m.holder = some h := hi.guardHolds h hd hhd (by simp [hst, HSt.isGuard]) m hm1
  simp only []
  split
  · inv_close
  · inv_close


theorem inv_release (s : State) (h : Nat) (hi : Inv s) : Inv (release s h).1 := by
  unfold release
  split <;> try exact hi
  split <;> try exact hi
  split <;> try exact hi
  split <;> try exact hi
  rename_i _ hd hhd _ hv hst _ m hm
  have ⟨hm1, hm2⟩ := entryOf_some hm
  have hh : m.holder = some h := hi.guardHolds h hd hhd (by simp [hst, HSt.isGuard]) m hm1
  have hr : h ∈ m.refs := (hi.refs _ m hm1 h).2 (by simp [hhd])
  have hnd := hi.refsNodup _ m hm1
  have hqnd := hi.queueNodup _ m hm1
  have ⟨hq1, hq2, hq3, hq4, hq5⟩ := queue_facts m.queue hqnd
  have hnq : h ∉ m.queue := fun hx => ((hi.queue _ m hm1 h).1 hx).2.2 hh
  have hre : ∀ x, x ∈ m.refs.erase h ↔ x ≠ h ∧ x ∈ m.refs := fun x => List.Nodup.mem_erase_iff hnd
  have hrend : (m.refs.erase h).Nodup := hnd.erase h
  have hko : hd.key ∈ s.order := (hi.keys _).2 (by simp [hm1])
  have hv' := hi.stampedOk h hd hv hhd hst m hm1
  simp only []
  split
  · rename_i hvt
    subst hvt
    constructor <;>
      (simp only [State.setEnt, State.dropHandle, handoff, upd]; intros) <;>
      grind [Inv, HSt.isGuard, HSt.mayHold]
  · split
    · rename_i hr0
      rw [touch_removeKey _ _ (by exact hi.nodup)]
      have hr0' : m.refs.erase h = [] := by simpa [handoff] using hr0
      have hre0 : ∀ x, x ∈ m.refs → x = h := by
        intro x hx; by_cases hxh : x = h
        · exact hxh
        · have := (hre x).2 ⟨hxh, hx⟩; simp [hr0'] at this
      have honly : ∀ x hdx, s.hs x = some hdx → hdx.key = hd.key → x = h := by
        intro x hdx hx hk; exact hre0 x ((hi.refs _ m hm1 x).2 (by simp [hx, hk]))
      constructor <;>
        (simp only [State.setEnt, State.dropHandle, State.removeKey, handoff, upd]; intros) <;>
        grind [Inv, HSt.isGuard, HSt.mayHold]
    · rename_i hr0
      have hr0' : m.refs.erase h ≠ [] := by simpa [handoff] using hr0
      refine inv_touch ((s.setEnt hd.key (handoff m h)).dropHandle h) hd.key hko ?_
      constructor <;>
        (simp only [State.setEnt, State.dropHandle, handoff, upd]; intros) <;>
        grind [Inv, HSt.isGuard, HSt.mayHold]


theorem inv_cleanupFailed (s : State) (h : Nat) (hi : Inv s) : Inv (cleanupFailed s h).1 := by
  unfold cleanupFailed
  split <;> try exact hi
  split <;> try exact hi
  split <;> try exact hi
  split <;> try exact hi
  rename_i hd hhd hst _ m hm
  have ⟨hm1, hm2⟩ := entryOf_some hm
  have hr : h ∈ m.refs := (hi.refs _ m hm1 h).2 (by simp [hhd])
  have hnd := hi.refsNodup _ m hm1
  have hre : ∀ x, x ∈ m.refs.erase h ↔ x ≠ h ∧ x ∈ m.refs := fun x => List.Nodup.mem_erase_iff hnd
  have hrend : (m.refs.erase h).Nodup := hnd.erase h
  have hnh : m.holder ≠ some h := by
    intro e
    have := (hi.holderLive _ m h hm1 e).2
    simp [hhd, hst, HSt.mayHold] at this
  have hnq : h ∉ m.queue := fun hx => by
    have := ((hi.queue _ m hm1 h).1 hx).2.1
    simp [hhd, hst] at this
  simp only []
  split
  · rename_i hlen
    have hre0 : ∀ x, x ∈ m.refs → x = h := by
      intro x hx
      match hrf : m.refs, hlen, hr, hx with
      | [a], _, hr, hx => simp at hr hx; rw [hx, hr]
    have honly : ∀ x hdx, s.hs x = some hdx → hdx.key = hd.key → x = h := by
      intro x hdx hx hk; exact hre0 x ((hi.refs _ m hm1 x).2 (by simp [hx, hk]))
    have hfree : m.holder = none := by
      cases hh : m.holder with
      | none => rfl
      | some x =>
        have hl := hi.holderLive _ m x hm1 hh
        have hxr : x ∈ m.refs := (hi.refs _ m hm1 x).2 hl.1
        have := hre0 x hxr
        subst this
        exact absurd hh hnh
    split
    · rename_i hsome; simp [hfree] at hsome
    · split
      · constructor <;>
          (simp only [State.setEnt, State.dropHandle, State.removeKey, upd]; intros) <;>
          grind [Inv, HSt.isGuard, HSt.mayHold]
      · rename_i hval
        have hval' : m.value ≠ none := by simpa using hval
        constructor <;>
          (simp only [State.setEnt, State.dropHandle, upd]; intros) <;>
          grind [Inv, HSt.isGuard, HSt.mayHold]
  · rename_i hlen
    have hne : m.refs.erase h ≠ [] := by
      intro e
      match hrf : m.refs, hr, hlen, e with
      | [a], hr, hlen, e => simp at hlen
      | a :: b :: t, hr, hlen, e =>
        by_cases hah : a = h
        · subst hah; simp at e
        · have : (a :: b :: t).erase h = a :: (b :: t).erase h := by
            simp [List.erase_cons, hah]
          rw [this] at e; simp at e
    constructor <;>
      (simp only [State.setEnt, State.dropHandle, upd]; intros) <;>
      grind [Inv, HSt.isGuard, HSt.mayHold]

end Lockable
