import Lockable.Proofs.Fuel
namespace Lockable

def Res.isGuard : Res → Bool
  | .guard => true
  | _ => false

/-- the eviction loop itself never answers `guard` (that is decided after it) -/
theorem lockPrelude_not_guard (h k : Nat) : ∀ (fuel : Nat) (a : Api) (limit : Limit) (h0 : Nat) (tr : List RoundTrace),
    (a.lockPrelude h k limit h0 fuel tr).2.2.isGuard = false := by
  intro fuel
  induction fuel with
  | zero => intro a limit h0 tr; simp [Api.lockPrelude, Res.isGuard]
  | succ fuel ih =>
    intro a limit h0 tr
    unfold Api.lockPrelude
    cases limit with
    | none =>
      simp only []
      split <;> simp [Res.isGuard]
    | soft n script =>
      simp only []
      split
      · simp [Res.isGuard]
      · split
        · simp [Res.isGuard]
        · simp [Res.isGuard]
        · simp [Res.isGuard]
        · split
          · simp [Res.isGuard]
          · split
            · simp [Res.isGuard]
            · exact ih _ _ _ _
      · simp [Res.isGuard]

/-- **A lock call that answers with a guard has locked the requested key**: the caller's handle is a guard (`holding`) for `k`,
for every variant, with or without limit, whatever the callback did. -/
theorem lock_guard_holds (a : Api) (v : Variant) (h k : Nat) (limit : Limit) (h0 : Nat) (hi : Inv a.s) (hfr : a.s.hs h = none) :
    (match (a.lock v h k limit h0).2.res with
     | .guard => ∃ hd, (a.lock v h k limit h0).1.s.hs h = some hd ∧ hd.key = k ∧ hd.st = .holding
     | _ => True) := by
  cases limit with
  | none =>
    have hlooked := lockPrelude_ok_looked h k (0 + a.s.order.length + 2) a .none h0 [] hi hfr
    unfold Api.lock
    simp only []
    have hng := lockPrelude_not_guard h k (0 + a.s.order.length + 2) a .none h0 []
    generalize a.lockPrelude h k .none h0 (0 + a.s.order.length + 2) [] = r at hlooked hng
    obtain ⟨a1, tr, res⟩ := r
    cases res with
    | ok =>
      simp only [] at hlooked ⊢
      obtain ⟨hd, m, e1, e2, e3, e4⟩ := hlooked trivial
      simp only [e1]
      by_cases hst : hd.st = .holding
      · simp only [hst, ↓reduceIte]
        exact ⟨hd, e1, e2, hst⟩
      · have hrep : hd.st = .replica := by rcases e4 with e | e; exact absurd e hst; exact e
        simp only [hst, ↓reduceIte]
        cases v with
        | wait =>
          simp only []
          by_cases hfree : m.holder.isNone = true
          · simp [enqueue, e1, hrep, e3, hfree, State.setSt, State.setEnt, upd, e2]
          · simp [enqueue, e1, hrep, e3, hfree]
        | «try» =>
          simp only []
          by_cases hfree : m.holder.isNone = true
          · simp [tryKey, e1, hrep, e3, hfree, State.setSt, State.setEnt, upd, e2]
          · simp only [tryKey, e1, hrep, e3, hfree, ↓reduceIte]
            simp only [Bool.false_eq_true, ↓reduceIte]
            generalize (cleanupFailed (a1.s.setSt h hd HSt.failedTry) h).2 = o
            cases o <;> trivial
    | suspended cands => trivial
    | guard => simp [Res.isGuard] at hng
    | _ => trivial
  | soft n script =>
    have hlooked := lockPrelude_ok_looked h k (script.length + a.s.order.length + 2) a (.soft n script) h0 [] hi hfr
    unfold Api.lock
    simp only []
    have hng := lockPrelude_not_guard h k (script.length + a.s.order.length + 2) a (.soft n script) h0 []
    generalize a.lockPrelude h k (.soft n script) h0 (script.length + a.s.order.length + 2) [] = r at hlooked hng
    obtain ⟨a1, tr, res⟩ := r
    cases res with
    | ok =>
      simp only [] at hlooked ⊢
      obtain ⟨hd, m, e1, e2, e3, e4⟩ := hlooked trivial
      simp only [e1]
      by_cases hst : hd.st = .holding
      · simp only [hst, ↓reduceIte]
        exact ⟨hd, e1, e2, hst⟩
      · have hrep : hd.st = .replica := by rcases e4 with e | e; exact absurd e hst; exact e
        simp only [hst, ↓reduceIte]
        cases v with
        | wait =>
          simp only []
          by_cases hfree : m.holder.isNone = true
          · simp [enqueue, e1, hrep, e3, hfree, State.setSt, State.setEnt, upd, e2]
          · simp [enqueue, e1, hrep, e3, hfree]
        | «try» =>
          simp only []
          by_cases hfree : m.holder.isNone = true
          · simp [tryKey, e1, hrep, e3, hfree, State.setSt, State.setEnt, upd, e2]
          · simp only [tryKey, e1, hrep, e3, hfree, ↓reduceIte]
            simp only [Bool.false_eq_true, ↓reduceIte]
            generalize (cleanupFailed (a1.s.setSt h hd HSt.failedTry) h).2 = o
            cases o <;> trivial
    | suspended cands => trivial
    | guard => simp [Res.isGuard] at hng
    | _ => trivial

end Lockable
