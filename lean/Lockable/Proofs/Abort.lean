/-
A callback that fails or panics ends the lock call with that error / panic (not only "if the call aborted, then …"), and
the guards of a panicking round are released.
-/
import Lockable.Proofs.Fuel
namespace Lockable

/-- dropping a list of guards: invariant, no value changed, every one of them gone -/
theorem unwind_facts (cands : List Nat) : ∀ (a : Api), Inv a.s →
    (∀ c ∈ cands, ∃ hd, a.s.hs c = some hd ∧ hd.st = .holding) → cands.Nodup →
    Inv (a.dropAll cands).s ∧ (∀ k, absVal (a.dropAll cands).s k = absVal a.s k) ∧
    (∀ c ∈ cands, (a.dropAll cands).s.hs c = none) := by
  induction cands with
  | nil => intro a hi _ _; exact ⟨hi, fun _ => rfl, fun c hc => by cases hc⟩
  | cons c cs ih =>
    intro a hi hall hnd
    have ⟨hn1, hn2⟩ := List.nodup_cons.1 hnd
    obtain ⟨hd, hh, hst⟩ := hall c (by simp)
    have hi1 := inv_dropGuard a c hi
    have hall1 : ∀ x ∈ cs, ∃ hd, (a.dropGuard c).1.s.hs x = some hd ∧ hd.st = .holding := by
      intro x hx
      rw [dropGuard_hs_other a c x (fun e => hn1 (e ▸ hx))]
      exact hall x (List.mem_cons_of_mem _ hx)
    obtain ⟨r1, r2, r3⟩ := ih (a.dropGuard c).1 hi1 hall1 hn2
    have hda : a.dropAll (c :: cs) = (a.dropGuard c).1.dropAll cs := by simp [Api.dropAll]
    rw [hda]
    refine ⟨r1, fun k => by rw [r2 k, absVal_dropGuard a c k hi], fun x hx => ?_⟩
    rcases List.mem_cons.1 hx with e | hx
    · subst e
      rw [dropAll_hs_other cs x hn1]
      exact dropGuard_gone a x hd hi hh hst
    · exact r3 x hx


/-- how the first eviction round of a lock call ends, if there is one -/
theorem lock_first_round (a : Api) (v : Variant) (h k n : Nat) (script : List Round) (h0 : Nat) (cands : List Nat)
    (hr : (step a.s (.limitLookup h k n (List.range' h0 supplyLen))).2 = .list cands) :
    let fin := (script.head?.getD defaultRound).fin
    (fin = .err → (a.lock v h k (.soft n script) h0).2.res matches .err) ∧
    (fin = .panic → (a.lock v h k (.soft n script) h0).2.res matches .userPanic) ∧
    (fin = .latePanic → (a.lock v h k (.soft n script) h0).2.res matches .userPanic) ∧
    (fin = .panic → (a.lock v h k (.soft n script) h0).1.s =
      (Api.dropAll { a with s := (step a.s (.limitLookup h k n (List.range' h0 supplyLen))).1 } cands).s) := by
  intro fin
  have hfuel : script.length + a.s.order.length + 2 = (script.length + a.s.order.length + 1) + 1 := by omega
  refine ⟨?_, ?_, ?_, ?_⟩
  all_goals
    intro hf
    unfold Api.lock
    simp only [hfuel]
    unfold Api.lockPrelude
    simp only [hr]
    have hf' : (script.head?.getD defaultRound).fin = _ := hf
    simp [hf']

/-- **A callback that panics on entry**: the lock call answers with the panic, every guard that was handed to the callback is
released (its handle is gone), no stored value changed, the handle of the requested key was never created, and the full
invariant holds. -/
theorem lock_panic_round_releases (a : Api) (v : Variant) (h k n : Nat) (script : List Round) (h0 : Nat) (c : Nat) (cs : List Nat)
    (hn : 1 ≤ n) (hi : Inv a.s) (hfr : a.s.hs h = none) (hlt : h < h0) (hfree : ∀ x, h0 ≤ x → a.s.hs x = none)
    (hlen : a.s.order.length ≤ supplyLen)
    (hr : (step a.s (.limitLookup h k n (List.range' h0 supplyLen))).2 = .list (c :: cs))
    (hfin : (script.head?.getD defaultRound).fin = .panic) :
    let r := a.lock v h k (.soft n script) h0
    (r.2.res matches .userPanic) ∧ Inv r.1.s ∧ (∀ x ∈ c :: cs, r.1.s.hs x = none) ∧ (∀ x, absVal r.1.s x = absVal a.s x) ∧
      r.1.s.hs h = none := by
  intro r
  obtain ⟨_, hp, _, hst⟩ := lock_first_round a v h k n script h0 (c :: cs) hr
  have hfl := range'_fresh a.s h h0 supplyLen hfr hlt hfree
  have hf0 := freshL_of a.s _ hfl
  have hf : FreshL a.s (List.range' h0 supplyLen) :=
    ⟨fun x hx => hf0.1 x (List.mem_cons_of_mem _ hx), (List.nodup_cons.1 hf0.2).2⟩
  have hstep : step a.s (.limitLookup h k n (List.range' h0 supplyLen)) = limitLookup a.s h k n (List.range' h0 supplyLen) := by
    simp [step, hfl, hlen, hn]
  rw [hstep] at hr
  rcases limitLookup_out a.s h k n _ hi hfr hf with e | ⟨c', cs', e1, e2, e3⟩
  · rw [e] at hr; cases hr
  · rw [e1] at hr; cases hr
    have hs1 : Inv (limitLookup a.s h k n (List.range' h0 supplyLen)).1 := (inv_limitLookup a.s h k n _ hi hf).1
    have hhold := evictLoop_holding a.s.order a.s (List.range' h0 supplyLen) (a.s.order.length - (n - 1)) [] hf.2 (by simp) (by simp)
    have hcn : (c :: cs).Nodup := by
      have := evictLoop_nodup a.s.order a.s (List.range' h0 supplyLen) (a.s.order.length - (n - 1)) [] hf.2 (by simp) List.nodup_nil
      rw [e2] at this; exact this
    have hids := fun x => evictLoop_ids_lt a.s h0 supplyLen (a.s.order.length - (n - 1)) x
    rw [e2] at hhold hids
    rw [← e3] at hhold
    have hall : ∀ x ∈ c :: cs, ∃ hd, (limitLookup a.s h k n (List.range' h0 supplyLen)).1.hs x = some hd ∧ hd.st = .holding := by
      intro x hx
      obtain ⟨hd, e1', e2'⟩ := hst_inv (hhold x hx)
      exact ⟨hd, e1', e2'⟩
    obtain ⟨u1, u2, u3⟩ := unwind_facts (c :: cs) { a with s := (limitLookup a.s h k n (List.range' h0 supplyLen)).1 } hs1 hall hcn
    have hstate : r.1.s = (Api.dropAll { a with s := (limitLookup a.s h k n (List.range' h0 supplyLen)).1 } (c :: cs)).s := by
      have := hst hfin
      rw [hstep] at this
      exact this
    refine ⟨hp hfin, by rw [hstate]; exact u1, fun x hx => by rw [hstate]; exact u3 x hx, ?_, ?_⟩
    · intro x
      rw [hstate, u2 x]
      have := absVal_step a.s (.limitLookup h k n (List.range' h0 supplyLen)) x hi (by intro h' op e; cases e)
      rw [hstep] at this
      exact this
    · rw [hstate]
      have hnc : h ∉ c :: cs := fun e => by have := (hids h e).1; omega
      rw [dropAll_hs_other (c :: cs) h hnc]
      simp only []
      rw [e3]
      have hnot : h ∉ List.range' h0 supplyLen := (List.nodup_cons.1 hf0.2).1
      rw [evictLoop_hs_other a.s.order h a.s _ _ [] hnot]
      exact hfr

end Lockable
