/-
The inductive invariant of the core model and list lemmas used to maintain it.
-/
import Lockable.Model.Core
namespace Lockable

/-- a handle that owns the tokio mutex as a `Guard` -/
def HSt.isGuard : HSt → Bool
  | .holding => true
  | .stamped _ => true
  | _ => false

/-- a handle that may own the tokio mutex: a guard, or a waiter that was handed the lock -/
def HSt.mayHold : HSt → Bool
  | .holding => true
  | .stamped _ => true
  | .queued => true
  | _ => false

/-- key / state of an optional handle (existential-free phrasing of "there is a live handle such that…") -/
def hkey : Option Handle → Option Nat
  | some hd => some hd.key
  | none => none
def hst : Option Handle → Option HSt
  | some hd => some hd.st
  | none => none
def eeid : Option Entry → Option Nat
  | some m => some m.eid
  | none => none

@[simp, grind =] theorem hkey_some (hd : Handle) : hkey (some hd) = some hd.key := rfl
@[simp, grind =] theorem hkey_none : hkey none = none := rfl
@[simp, grind =] theorem hst_some (hd : Handle) : hst (some hd) = some hd.st := rfl
@[simp, grind =] theorem hst_none : hst none = none := rfl
@[simp, grind =] theorem eeid_some (m : Entry) : eeid (some m) = some m.eid := rfl
@[simp, grind =] theorem eeid_none : eeid none = none := rfl

@[grind →] theorem hkey_inv {o : Option Handle} {k : Nat} (h : hkey o = some k) : ∃ hd, o = some hd ∧ hd.key = k := by
  cases o <;> simp_all
@[grind →] theorem hst_inv {o : Option Handle} {st : HSt} (h : hst o = some st) : ∃ hd, o = some hd ∧ hd.st = st := by
  cases o <;> simp_all
@[grind →] theorem eeid_inv {o : Option Entry} {e : Nat} (h : eeid o = some e) : ∃ m, o = some m ∧ m.eid = e := by
  cases o <;> simp_all

structure Inv (s : State) : Prop where
  /-- I0: the iteration order lists exactly the keys of the map, once each -/
  nodup : s.order.Nodup
  keys : ∀ k, k ∈ s.order ↔ s.ent k ≠ none
  /-- I1 no orphan: every live handle refers to the mutex the map holds for its key -/
  live : ∀ h hd, s.hs h = some hd → eeid (s.ent hd.key) = some hd.eid
  /-- `num_replicas` counts exactly the live handles of the key -/
  refs : ∀ k m, s.ent k = some m → ∀ h, h ∈ m.refs ↔ hkey (s.hs h) = some k
  refsNodup : ∀ k m, s.ent k = some m → m.refs.Nodup
  /-- I2 = "invariant 2" of the code: a valueless entry is referenced by somebody -/
  inv2 : ∀ k m, s.ent k = some m → m.value = none → m.refs ≠ []
  /-- I3: the tokio mutex and the handle states agree -/
  holderLive : ∀ k m h, s.ent k = some m → m.holder = some h →
    hkey (s.hs h) = some k ∧ ∃ st, hst (s.hs h) = some st ∧ st.mayHold = true
  guardHolds : ∀ h hd, s.hs h = some hd → hd.st.isGuard = true →
    ∀ m, s.ent hd.key = some m → m.holder = some h
  queue : ∀ k m, s.ent k = some m → ∀ h, h ∈ m.queue ↔
    (hkey (s.hs h) = some k ∧ hst (s.hs h) = some .queued ∧ m.holder ≠ some h)
  queueNodup : ∀ k m, s.ent k = some m → m.queue.Nodup
  freeNoQueue : ∀ k m, s.ent k = some m → m.holder = none → m.queue = []
  stampedOk : ∀ h hd b, s.hs h = some hd → hd.st = .stamped b →
    ∀ m, s.ent hd.key = some m → b = m.value.isSome
  /-- I5 -/
  notWedged : s.wedged = false

theorem inv_init (kind : Kind) : Inv (State.init kind) := by
  constructor <;> simp [State.init]

@[simp] theorem upd_same {α : Type} (f : Nat → Option α) (k : Nat) (v : Option α) : upd f k v k = v := by
  simp [upd]
theorem upd_other {α : Type} (f : Nat → Option α) (k k' : Nat) (v : Option α) (h : k' ≠ k) : upd f k v k' = f k' := by
  simp [upd, h]

theorem mem_promote (k x : Nat) (l : List Nat) (hk : k ∈ l) : x ∈ promote k l ↔ x ∈ l := by
  unfold promote
  by_cases hx : x = k
  · subst hx; simp [hk]
  · simp [hx, List.mem_erase_of_ne hx]

theorem nodup_promote (k : Nat) (l : List Nat) (h : l.Nodup) : (promote k l).Nodup := by
  unfold promote
  rw [List.nodup_append]
  refine ⟨h.erase k, by simp, ?_⟩
  intro a ha b hb
  simp at hb; subst hb
  intro hab; subst hab
  exact (List.Nodup.mem_erase_iff h).1 ha |>.1 rfl

theorem mem_tail_nodup (l : List Nat) (x : Nat) (h : l.Nodup) : x ∈ l.tail ↔ (x ∈ l ∧ l.head? ≠ some x) := by
  cases l with
  | nil => simp
  | cons a t =>
    simp at h ⊢
    constructor
    · intro hx; exact ⟨Or.inr hx, fun e => h.1 (e ▸ hx)⟩
    · rintro ⟨hx | hx, hne⟩
      · exact absurd hx.symm hne
      · exact hx


theorem nodup_tail (l : List Nat) (h : l.Nodup) : l.tail.Nodup := by
  cases l <;> simp_all

theorem head_mem (l : List Nat) (x : Nat) (h : l.head? = some x) : x ∈ l := by
  cases l <;> simp_all


theorem erase_promote (k : Nat) (l : List Nat) (h : l.Nodup) : (promote k l).erase k = l.erase k := by
  unfold promote
  have hk : k ∉ l.erase k := fun hm => ((List.Nodup.mem_erase_iff h).1 hm).1 rfl
  rw [List.erase_append_right _ hk]
  simp

theorem touch_removeKey (s : State) (k : Nat) (h : s.order.Nodup) : (s.touch k).removeKey k = s.removeKey k := by
  unfold State.touch State.removeKey
  split
  · simp [erase_promote k _ h]
  · rfl


/-- everything the hand-off needs to know about `head?` / `tail` of a duplicate-free queue -/
theorem queue_facts (q : List Nat) (h : q.Nodup) :
    (∀ x, q.head? = some x → x ∈ q ∧ x ∉ q.tail) ∧ (q.head? = none → q.tail = []) ∧
    (∀ x, x ∈ q.tail → x ∈ q) ∧ (∀ x, x ∈ q → q.head? = some x ∨ x ∈ q.tail) ∧ q.tail.Nodup := by
  cases q with
  | nil => simp
  | cons a t =>
    simp only [List.nodup_cons, List.head?_cons, Option.some.injEq, List.tail_cons, List.mem_cons, reduceCtorEq, false_implies, true_and] at h ⊢
    refine ⟨fun x hx => ⟨Or.inl hx.symm, hx ▸ h.1⟩, fun x hx => Or.inr hx, fun x hx => ?_, h.2⟩
    rcases hx with hx | hx
    · exact Or.inl hx.symm
    · exact Or.inr hx


theorem nodup_reverse' (l : List Nat) (h : l.Nodup) : l.reverse.Nodup := by
  unfold List.Nodup at *
  rw [List.pairwise_reverse]
  exact h.imp (fun hab => Ne.symm hab)

end Lockable
