/-
Sequential API layer: each public call of the containers as the composition of atomic
actions of `Core.lean` that the code performs (single caller; pending async acquisitions
and `lock_all_entries` streams are the only other "parties").
-/
import Lockable.Model.Core
namespace Lockable

/-- the eight acquisition variants are two composites -/
inductive Variant where
  | wait | try
deriving DecidableEq, Repr

/-- what an eviction callback script does with the i-th guard it is given -/
inductive CandAct where
  | rm | keep | set (v : Nat) | stash
deriving DecidableEq, Repr

inductive RoundEnd where
  | ok | err | panic
  /-- the callback panics after it has processed its guards -/
  | latePanic
  /-- async callbacks only: the future returned by the callback is pending when it is first polled (it owns the guards);
  when it is polled again it processes the guards and completes with `Ok` / `Err` -/
  | pendOk | pendErr
deriving DecidableEq, Repr

/-- one invocation of `on_evict`. `panic`: raised on entry, all guards are dropped by unwinding.
`ok`/`err`: the guards are processed in order (default `rm`), then, if `recount`, the callback
calls `num_entries_or_locked` and `keys_with_entries_or_locked` on the container, then it returns.
`latePanic`: the guards are processed (methods called, stashed ones moved out), then the callback panics and the
unwinding drops the guards that are left; for the library that is the `err` round with a panic as its outcome
(`Guard::drop` is the same code on both paths; which operations of distinct keys come first does not matter). -/
structure Round where
  acts : List CandAct
  recount : Bool
  fin : RoundEnd
deriving Repr

inductive Limit where
  | none
  | soft (maxN : Nat) (script : List Round)
deriving Repr

inductive Call where
  | lock (v : Variant) (h k : Nat) (limit : Limit) (h0 : Nat)
  | poll (h : Nat) | cancel (h : Nat) | op (h : Nat) (g : GOp) | drop (h : Nat)
  | count | keys | adv (d : Nat) | expire (d : Nat) (h0 : Nat)
  | lockAll (sid : Nat) (h0 : Nat) | spoll (sid : Nat) | sdrop (sid : Nat)
  | into | reorder (perm : List Nat)
deriving Repr

/-- trace of one callback invocation: the guards offered (handle, key) and what a re-entrant count/keys saw -/
structure RoundTrace where
  cands : List (Nat × Nat)
  seen : Option (Out × Out)
deriving Repr

inductive Res where
  | guard | none | pending | err | userPanic | ok | bad | ended
  /-- the lock call is suspended in its eviction loop: the callback's future is pending and owns these guards -/
  | suspended (cands : List (Nat × Nat))
  | out (o : Out)
  | item (h k : Nat)
  | handles (l : List (Nat × Nat))
deriving Repr

structure Resp where
  rounds : List RoundTrace
  res : Res
deriving Repr

structure StreamSt where
  /-- unresolved items in the order in which a dropped `FuturesUnordered` releases them: its list of all
  tasks from the head; a task is linked at the head when it is pushed and again whenever a poll of it returns Pending -/
  items : List Nat
  /-- ready-to-run queue of the `FuturesUnordered` -/
  ready : List Nat
deriving Repr

/-- a lock call suspended at the await point of its eviction callback -/
structure Susp where
  v : Variant
  k : Nat
  n : Nat
  /-- the script from the pending round on -/
  script : List Round
  /-- first handle id for the candidates of later rounds -/
  h0 : Nat
  cands : List (Nat × Nat)
deriving Repr

structure Api where
  s : State
  streams : List (Nat × StreamSt)
  /-- suspended lock calls by the handle id of the requested key -/
  susp : List (Nat × Susp)

def Api.init (kind : Kind) : Api := { s := State.init kind, streams := [], susp := [] }

/-- how many fresh handle ids a call may use, starting at its `h0` -/
def supplyLen : Nat := 48

def keyOf (s : State) (h : Nat) : Nat := match s.hs h with | some hd => hd.key | none => 0

/-- a waiter that was handed the lock: if it is a stream item its future is woken and re-enters the ready queue -/
def Api.woken (a : Api) (w : Option Nat) : Api :=
  match w with
  | none => a
  | some w => { a with streams := a.streams.map fun (sid, st) =>
      if st.items.contains w then (sid, { st with ready := st.ready ++ [w] }) else (sid, st) }

/-- the waiter that a release of `h` hands the lock to -/
def nextWaiter (s : State) (h : Nat) : Option Nat :=
  match s.hs h with
  | some hd =>
    match s.entryOf hd with
    | some m => if m.holder = some h then m.queue.head? else none
    | none => none
  | none => none

/-- `drop(guard)`: `stamp` then `release` -/
def Api.dropGuard (a : Api) (h : Nat) : Api × Out :=
  let w := nextWaiter a.s h
  let (s1, o1) := stamp a.s h
  match o1 with
  | .unit =>
    let (s2, o2) := release s1 h
    (({ a with s := s2 }).woken w, o2)
  | o => ({ a with s := s1 }, o)

def Api.cancelHandle (a : Api) (h : Nat) : Api × Out :=
  let w := nextWaiter a.s h
  let (s1, o1) := cancel a.s h
  match o1 with
  | .unit => (({ a with s := s1 }).woken w, o1)
  | o => ({ a with s := s1 }, o)

/-- apply a guard method and ignore its result (inside callback scripts) -/
def Api.gop_ (a : Api) (h : Nat) (g : GOp) : Api := { a with s := (gop a.s h g).1 }

/-- process the guards of one callback round in order -/
def Api.runActs (a : Api) (cands : List Nat) (acts : List CandAct) : Api :=
  match cands with
  | [] => a
  | c :: cs =>
    let act := acts.head?.getD .rm
    let a' := match act with
      | .rm => ((a.gop_ c .remove).dropGuard c).1
      | .keep => (a.dropGuard c).1
      | .set v => ((a.gop_ c (.insert v)).dropGuard c).1
      | .stash => a
    Api.runActs a' cs acts.tail

def Api.dropAll (a : Api) (hs : List Nat) : Api :=
  hs.foldl (fun a h => (a.dropGuard h).1) a

def defaultRound : Round := { acts := [], recount := false, fin := .ok }

/-- the eviction loop of `_load_or_insert_mutex_for_key_*`; returns after the lookup section (`Out.unit`),
or with the callback's error / panic, or with a library failure -/
def Api.lockPrelude (a : Api) (h k : Nat) (limit : Limit) (h0 : Nat) : Nat → List RoundTrace → Api × List RoundTrace × Res
  | 0, tr => (a, tr.reverse, .bad)
  | fuel + 1, tr =>
    match limit with
    | .none =>
      let (s1, o) := lookup a.s h k
      ({ a with s := s1 }, tr.reverse, match o with | .unit => .ok | o => .out o)
    | .soft n script =>
      let (s1, o) := step a.s (.limitLookup h k n (List.range' h0 supplyLen))
      let a1 := { a with s := s1 }
      match o with
      | .unit => (a1, tr.reverse, .ok)
      | .list cands =>
        let round := script.head?.getD defaultRound
        let candKeys := cands.map fun c => (c, keyOf s1 c)
        match round.fin with
        | .panic =>
          (a1.dropAll cands, (⟨candKeys, none⟩ :: tr).reverse, .userPanic)
        | .pendOk | .pendErr => (a1, tr.reverse, .suspended candKeys)
        | fin =>
          let a2 := a1.runActs cands round.acts
          let seen := if round.recount then some ((count a2.s).2, (keys a2.s).2) else none
          let tr' := ⟨candKeys, seen⟩ :: tr
          if fin = .err then (a2, tr'.reverse, .err)
          else if fin = .latePanic then (a2, tr'.reverse, .userPanic)
          else Api.lockPrelude a2 h k (.soft n script.tail) (h0 + cands.length) fuel tr'
      | o => (a1, tr.reverse, .out o)

def Api.lock (a : Api) (v : Variant) (h k : Nat) (limit : Limit) (h0 : Nat) : Api × Resp :=
  let scriptLen := match limit with | .none => 0 | .soft _ sc => sc.length
  let (a1, tr, r) := a.lockPrelude h k limit h0 (scriptLen + a.s.order.length + 2) []
  match r with
  | .ok =>
    match a1.s.hs h with
    | some hd =>
      if hd.st = .holding then (a1, ⟨tr, .guard⟩) else
      match v with
      | .wait =>
        let (s2, o) := enqueue a1.s h
        ({ a1 with s := s2 }, ⟨tr, match o with | .bool true => .guard | .bool false => .pending | o => .out o⟩)
      | .try =>
        let (s2, o) := tryKey a1.s h
        match o with
        | .bool true => ({ a1 with s := s2 }, ⟨tr, .guard⟩)
        | .bool false =>
          let (s3, o3) := cleanupFailed s2 h
          ({ a1 with s := s3 }, ⟨tr, match o3 with | .unit => .none | o => .out o⟩)
        | o => ({ a1 with s := s2 }, ⟨tr, .out o⟩)
    | none => (a1, ⟨tr, .bad⟩)
  | .suspended cands =>
    match limit with
    | .soft n script =>
      let used := (tr.map fun r => r.cands.length).sum + cands.length
      ({ a1 with susp := (h, ⟨v, k, n, script.drop tr.length, h0 + used, cands⟩) :: a1.susp }, ⟨tr, .suspended cands⟩)
    | .none => (a1, ⟨tr, .bad⟩)
  | r => (a1, ⟨tr, r⟩)

/-- the pending callback future of a suspended lock call is polled again: it processes its guards and completes;
the eviction loop of the call goes on with the rest of the script -/
def Api.resume (a : Api) (h : Nat) (su : Susp) : Api × Resp :=
  let a0 := { a with susp := a.susp.filter fun (i, _) => i ≠ h }
  let round := su.script.head?.getD defaultRound
  let a2 := a0.runActs (su.cands.map Prod.fst) round.acts
  let seen := if round.recount then some ((count a2.s).2, (keys a2.s).2) else none
  let tr0 : List RoundTrace := [⟨su.cands, seen⟩]
  match round.fin with
  | .err | .pendErr => (a2, ⟨tr0, .err⟩)
  | .latePanic => (a2, ⟨tr0, .userPanic⟩)
  | _ =>
    let r := a2.lock su.v h su.k (.soft su.n su.script.tail) su.h0
    (r.1, ⟨tr0 ++ r.2.rounds, r.2.res⟩)

/-- the future of a suspended lock call is dropped: the callback's future is dropped with it and releases its guards -/
def Api.abandon (a : Api) (h : Nat) (su : Susp) : Api :=
  { a with susp := a.susp.filter fun (i, _) => i ≠ h }.dropAll (su.cands.map Prod.fst)

inductive ItemRes where
  /-- the item obtained its lock and the entry has a value: the stream yields the guard -/
  | yielded
  /-- the item obtained its lock but the entry has no value: the guard is dropped, nothing is yielded -/
  | valueless
  /-- the key is held by somebody else: the item is (still) queued -/
  | pending
  | bad
deriving DecidableEq, Repr

/-- one poll of the future of a `lock_all_entries` item: `pending.lock().await`, then `guard.value().is_some()` -/
def itemPoll (s : State) (w : Nat) : State × ItemRes :=
  match s.hs w with
  | some hd =>
    let r := if hd.st = .replica then enqueue s w else acquire s w
    match r.2 with
    | .bool true =>
      match (gop r.1 w .value).2 with
      | .optVal (some _) => (r.1, .yielded)
      | _ => (r.1, .valueless)
    | .bool false => (r.1, .pending)
    | _ => (r.1, .bad)
  | none => (s, .bad)

/-- poll the ready futures of a stream in queue order until one yields a guard with a value -/
def Api.spollLoop (a : Api) (sid : Nat) : Nat → Api × Res
  | 0 => (a, .bad)
  | fuel + 1 =>
    match a.streams.lookup sid with
    | none => (a, .bad)
    | some st =>
      match st.ready with
      | [] => (a, if st.items.isEmpty then .ended else .pending)
      | w :: rest =>
        let setSt (a : Api) (f : StreamSt → StreamSt) : Api :=
          { a with streams := a.streams.map fun (i, x) => if i = sid then (i, f x) else (i, x) }
        let a0 := setSt a fun st => { st with ready := rest }
        let k := keyOf a0.s w
        let (s1, r) := itemPoll a0.s w
        let a1 := { a0 with s := s1 }
        match r with
        | .yielded => (setSt a1 fun st => { st with items := st.items.erase w }, .item w k)
        | .valueless =>
          Api.spollLoop ((setSt a1 fun st => { st with items := st.items.erase w }).dropGuard w).1 sid fuel
        | .pending => Api.spollLoop (setSt a1 fun st => { st with items := w :: st.items.erase w }) sid fuel
        | .bad => (a1, .bad)

/-- the guard is owned by the pending future of an eviction callback: the client has no access to it -/
def Api.ownedBySusp (a : Api) (h : Nat) : Bool :=
  a.susp.any fun (_, su) => su.cands.any fun c => c.1 == h

@[simp] theorem Api.ownedBySusp_nil (s : State) (st : List (Nat × StreamSt)) (h : Nat) :
    (Api.mk s st []).ownedBySusp h = false := rfl

/-- the pending acquisition is an unresolved item of a `lock_all_entries` stream: only the stream can poll or drop it -/
def Api.ownedByStream (a : Api) (h : Nat) : Bool :=
  a.streams.any fun (_, st) => st.items.contains h

@[simp] theorem Api.ownedByStream_nil (s : State) (su : List (Nat × Susp)) (h : Nat) :
    (Api.mk s [] su).ownedByStream h = false := rfl

def Api.exec (a : Api) (c : Call) : Api × Resp :=
  match c with
  | .lock v h k limit h0 => a.lock v h k limit h0
  | .poll h =>
    if a.ownedByStream h then (a, ⟨[], .bad⟩) else
    match a.susp.lookup h with
    | some su => a.resume h su
    | none =>
      let (s1, o) := acquire a.s h
      ({ a with s := s1 }, ⟨[], match o with | .bool true => .guard | .bool false => .pending | o => .out o⟩)
  | .cancel h =>
    if a.ownedByStream h then (a, ⟨[], .bad⟩) else
    match a.susp.lookup h with
    | some su => (a.abandon h su, ⟨[], .ok⟩)
    | none =>
      let (a1, o) := a.cancelHandle h
      (a1, ⟨[], match o with | .unit => .ok | o => .out o⟩)
  | .op h g =>
    if a.ownedBySusp h then (a, ⟨[], .bad⟩) else
    let (s1, o) := gop a.s h g
    ({ a with s := s1 }, ⟨[], .out o⟩)
  | .drop h =>
    if a.ownedBySusp h then (a, ⟨[], .bad⟩) else
    let (a1, o) := a.dropGuard h
    (a1, ⟨[], match o with | .unit => .ok | o => .out o⟩)
  | .count => (a, ⟨[], .out (count a.s).2⟩)
  | .keys => (a, ⟨[], .out (keys a.s).2⟩)
  | .adv d => ({ a with s := (tick a.s d).1 }, ⟨[], .ok⟩)
  | .expire d h0 =>
    let (s1, o) := step a.s (.expire (cutoffOf a.s d) (List.range' h0 supplyLen))
    match o with
    | .list hs => ({ a with s := s1 }, ⟨[], .handles (hs.map fun h => (h, keyOf s1 h))⟩)
    | o => ({ a with s := s1 }, ⟨[], .out o⟩)
  | .lockAll sid h0 =>
    if (a.streams.lookup sid).isSome then (a, ⟨[], .bad⟩) else
    let (s1, o) := step a.s (.snapshot (List.range' h0 supplyLen))
    match o with
    | .list hs => ({ a with s := s1, streams := (sid, ⟨hs.reverse, hs⟩) :: a.streams }, ⟨[], .handles (hs.map fun h => (h, keyOf s1 h))⟩)
    | o => ({ a with s := s1 }, ⟨[], .out o⟩)
  | .spoll sid =>
    let n := match a.streams.lookup sid with | some st => st.ready.length + 1 | none => 1
    let (a1, r) := a.spollLoop sid n
    (a1, ⟨[], r⟩)
  | .sdrop sid =>
    match a.streams.lookup sid with
    | some st =>
      let a0 := { a with streams := a.streams.filter fun (i, _) => i ≠ sid }
      let a1 := st.items.foldl (fun a h => (a.cancelHandle h).1) a0
      (a1, ⟨[], .ok⟩)
    | none => (a, ⟨[], .bad⟩)
  | .into => (a, ⟨[], .out (intoEntries a.s).2⟩)
  | .reorder perm =>
    let (s1, o) := reorder a.s perm
    ({ a with s := s1 }, ⟨[], match o with | .unit => .ok | o => .out o⟩)

end Lockable
