/-
Scheduled mode: several threads, each running a small program of API calls, advanced one
segment at a time. A segment = the atomic action at the thread's park point (a hook point
of `verif_hooks`) followed by the hook-free work up to the next park point. This is the
model side of the thread-level correspondence check (PROTOCOL.md, "Scheduled mode").
-/
import Lockable.Model.Api
namespace Lockable

inductive Stmt where
  | lock (v : Variant) (k : Nat) (limit : Option Nat)
  /-- `async_lock` polled once by hand; the pending future stays in the slot -/
  | alock (k : Nat)
  | apoll (slot : Nat)
  | acancel (slot : Nat)
  | op (slot : Nat) (g : GOp)
  | drop (slot : Nat)
  | count | keys
deriving Repr

/-- what happens after a `release` section of a thread -/
inductive Cont where
  | prog
  /-- inside the cooperative eviction callback: remaining candidates, then the prelude of the lock call again -/
  | evict (rest : List Nat) (slot : Nat) (v : Variant) (k n : Nat)
deriving Repr

inductive Park where
  | start
  | gLookup (slot : Nat) (v : Variant) (k : Nat) (limit : Option Nat)
  | gLookupPoll (slot : Nat) (k : Nat)
  | key (slot : Nat) (v : Variant)
  /-- after the lookup of an `alock` -/
  | keyPoll (slot : Nat)
  | blocked (slot : Nat)
  | gCancel (h : Nat)
  | gCleanup (slot : Nat)
  | gRelease (h : Nat) (c : Cont)
  | gCount | gKeys
  | done
deriving Repr

inductive Event where
  | lock (slot : Nat) (got : Bool)
  | lockPending (slot : Nat)
  | poll (slot : Nat) (got : Bool)
  | op (slot : Nat) (o : Out)
  | count (o : Out) | keys (o : Out)
  | ev (cands : List (Nat × Nat))
  | skip
  | fail (o : Out)
deriving Repr

structure Thread where
  prog : List Stmt
  park : Park
  nslot : Nat
  /-- slots currently holding a guard -/
  got : List Nat
  ncand : Nat
  /-- slots holding a pending (manually polled) acquisition -/
  pend : List Nat := []
deriving Repr

structure Sched where
  s : State
  threads : List Thread

def hidOf (t slot : Nat) : Nat := 1000 * (t + 1) + slot
def candBase (t : Nat) (ncand : Nat) : Nat := 1000 * (t + 1) + 500 + ncand

def Sched.init (kind : Kind) (n : Nat) : Sched :=
  { s := State.init kind, threads := List.replicate n ⟨[], .start, 0, [], 0, []⟩ }

def insertSlot (x : Nat) : List Nat → List Nat
  | [] => [x]
  | y :: ys => if x ≤ y then x :: y :: ys else y :: insertSlot x ys

/-- run the hook-free statements of the program up to the next park point -/
def advance (s : State) (t : Nat) (th : Thread) (evs : List Event) : Nat → State × Thread × List Event
  | 0 => (s, th, evs)
  | fuel + 1 =>
    match th.prog with
    | [] =>
      -- implicit release of the slots still in use, ascending slot order: guards are dropped, pending futures cancelled
      match th.got, th.pend with
      | [], [] => (s, { th with park := .done }, evs)
      | g :: grest, p :: prest =>
        if g < p then
          let h := hidOf t g
          let (s1, _) := stamp s h
          (s1, { th with got := grest, park := .gRelease h .prog }, evs)
        else (s, { th with pend := prest, park := .gCancel (hidOf t p) }, evs)
      | g :: grest, [] =>
        let h := hidOf t g
        let (s1, _) := stamp s h
        (s1, { th with got := grest, park := .gRelease h .prog }, evs)
      | [], p :: prest => (s, { th with pend := prest, park := .gCancel (hidOf t p) }, evs)
    | st :: rest =>
      match st with
      | .lock v k limit =>
        (s, { th with prog := rest, park := .gLookup th.nslot v k limit, nslot := th.nslot + 1 }, evs)
      | .op slot g =>
        if th.got.contains slot then
          let (s1, o) := gop s (hidOf t slot) g
          advance s1 t { th with prog := rest } (evs ++ [.op slot o]) fuel
        else advance s t { th with prog := rest } (evs ++ [.skip]) fuel
      | .drop slot =>
        if th.got.contains slot then
          let h := hidOf t slot
          let (s1, _) := stamp s h
          (s1, { th with prog := rest, got := th.got.erase slot, park := .gRelease h .prog }, evs)
        else advance s t { th with prog := rest } (evs ++ [.skip]) fuel
      | .alock k =>
        (s, { th with prog := rest, park := .gLookupPoll th.nslot k, nslot := th.nslot + 1 }, evs)
      | .apoll slot =>
        if th.pend.contains slot then
          let (s1, o) := acquire s (hidOf t slot)
          match o with
          | .bool true =>
            advance s1 t { th with prog := rest, pend := th.pend.erase slot, got := insertSlot slot th.got }
              (evs ++ [.poll slot true]) fuel
          | _ => advance s1 t { th with prog := rest } (evs ++ [.poll slot false]) fuel
        else advance s t { th with prog := rest } (evs ++ [.skip]) fuel
      | .acancel slot =>
        if th.pend.contains slot then
          (s, { th with prog := rest, pend := th.pend.erase slot, park := .gCancel (hidOf t slot) }, evs)
        else advance s t { th with prog := rest } (evs ++ [.skip]) fuel
      | .count => (s, { th with prog := rest, park := .gCount }, evs)
      | .keys => (s, { th with prog := rest, park := .gKeys }, evs)

def gotGuard (s : State) (t : Nat) (th : Thread) (slot : Nat) (evs : List Event) : State × Thread × List Event :=
  advance s t { th with got := insertSlot slot th.got } (evs ++ [.lock slot true]) (th.prog.length + th.got.length + th.pend.length + 3)

/-- inside the cooperative callback: `remove()` and start dropping the next candidate -/
def processCands (s : State) (th : Thread) (cands : List Nat) (slot : Nat) (v : Variant) (k n : Nat)
    (evs : List Event) : State × Thread × List Event :=
  match cands with
  | [] => (s, { th with park := .gLookup slot v k (some n) }, evs)
  | c :: rest =>
    let (s1, _) := gop s c .remove
    let (s2, _) := stamp s1 c
    (s2, { th with park := .gRelease c (.evict rest slot v k n) }, evs)

def isFail : Out → Bool
  | .panic _ => true
  | .poisoned => true
  | .bad => true
  | _ => false

def stepThread (s : State) (t : Nat) (th : Thread) : State × Thread × List Event :=
  let fuelOf (th : Thread) := th.prog.length + th.got.length + th.pend.length + 3
  match th.park with
  | .start => advance s t th [] (fuelOf th)
  | .gLookup slot v k limit =>
    let h := hidOf t slot
    match limit with
    | none =>
      let (s1, o) := lookup s h k
      if isFail o then (s1, { th with park := .done }, [.fail o]) else (s1, { th with park := .key slot v }, [])
    | some n =>
      let (s1, o) := step s (.limitLookup h k n (List.range' (candBase t th.ncand) supplyLen))
      match o with
      | .list cands =>
        let evs := [Event.ev (cands.map fun c => (c, keyOf s1 c))]
        processCands s1 { th with ncand := th.ncand + cands.length } cands slot v k n evs
      | .unit => (s1, { th with park := .key slot v }, [])
      | o => (s1, { th with park := .done }, [.fail o])
  | .gLookupPoll slot k =>
    let (s1, o) := lookup s (hidOf t slot) k
    if isFail o then (s1, { th with park := .done }, [.fail o]) else (s1, { th with park := .keyPoll slot }, [])
  | .keyPoll slot =>
    let h := hidOf t slot
    match s.hs h with
    | some hd =>
      if hd.st = .holding then gotGuard s t th slot [] else
      let (s1, o) := enqueue s h
      match o with
      | .bool true => gotGuard s1 t th slot []
      | .bool false =>
        advance s1 t { th with pend := insertSlot slot th.pend } [.lockPending slot] (fuelOf th)
      | o => (s1, { th with park := .done }, [.fail o])
    | none => (s, { th with park := .done }, [.fail .bad])
  | .gCancel h =>
    let (s1, o) := cancel s h
    if isFail o then (s1, { th with park := .done }, [.fail o]) else advance s1 t th [] (fuelOf th)
  | .key slot v =>
    let h := hidOf t slot
    match s.hs h with
    | some hd =>
      if hd.st = .holding then gotGuard s t th slot [] else
      match v with
      | .wait =>
        let (s1, o) := enqueue s h
        match o with
        | .bool true => gotGuard s1 t th slot []
        | .bool false => (s1, { th with park := .blocked slot }, [])
        | o => (s1, { th with park := .done }, [.fail o])
      | .try =>
        let (s1, o) := tryKey s h
        match o with
        | .bool true => gotGuard s1 t th slot []
        | .bool false => (s1, { th with park := .gCleanup slot }, [])
        | o => (s1, { th with park := .done }, [.fail o])
    | none => (s, { th with park := .done }, [.fail .bad])
  | .blocked slot =>
    let (s1, o) := acquire s (hidOf t slot)
    match o with
    | .bool true => gotGuard s1 t th slot []
    | _ => (s1, th, [])
  | .gCleanup slot =>
    let (s1, o) := cleanupFailed s (hidOf t slot)
    if isFail o then (s1, { th with park := .done }, [.fail o]) else
    advance s1 t th [.lock slot false] (fuelOf th)
  | .gRelease h c =>
    let (s1, o) := release s h
    if isFail o then (s1, { th with park := .done }, [.fail o]) else
    match c with
    | .prog => advance s1 t th [] (fuelOf th)
    | .evict rest slot v k n => processCands s1 th rest slot v k n []
  | .gCount =>
    let (s1, o) := count s
    advance s1 t th [.count o] (fuelOf th)
  | .gKeys =>
    let (s1, o) := keys s
    advance s1 t th [.keys o] (fuelOf th)
  | .done => (s, th, [])

def runnable (s : State) (t : Nat) (th : Thread) : Bool :=
  match th.park with
  | .done => false
  | .blocked slot =>
    match s.hs (hidOf t slot) with
    | some hd => match s.entryOf hd with
      | some m => m.holder = some (hidOf t slot)
      | none => false
    | none => false
  | _ => true

def statusChar (s : State) (t : Nat) (th : Thread) : String :=
  match th.park with
  | .start => "S"
  | .gLookup .. | .gLookupPoll .. | .gCancel _ | .gCleanup _ | .gRelease .. | .gCount | .gKeys => "G"
  | .key .. | .keyPoll _ => "K"
  | .blocked _ => if runnable s t th then "W" else "B"
  | .done => "D"

def Sched.step (sc : Sched) (t : Nat) : Sched × Option (List Event) :=
  match sc.threads[t]? with
  | none => (sc, none)
  | some th =>
    if runnable sc.s t th then
      let (s1, th1, evs) := stepThread sc.s t th
      ({ s := s1, threads := sc.threads.set t th1 }, some evs)
    else (sc, none)

end Lockable
