/-
Scheduled mode: several threads, each running a small program of API calls, advanced one
segment at a time. A segment = the atomic action at the thread's park point (a hook point
of `verif_hooks`) followed by the hook-free work up to the next park point. This is the
model side of the thread-level correspondence check (PROTOCOL.md, "Scheduled mode").
-/
import Lockable.Model.Api
namespace Lockable

inductive Stmt where
  | lock (v : Variant) (k : Nat) (limit : Option Nat)
  /-- `async_lock` polled once by hand; the pending future stays in the slot -/
  | alock (k : Nat)
  | apoll (slot : Nat)
  | acancel (slot : Nat)
  | op (slot : Nat) (g : GOp)
  | drop (slot : Nat)
  | count | keys
  /-- lru: `lock_entries_unlocked_for_at_least(0)`; the guards are dropped again at once, in order -/
  | expire
deriving Repr

/-- what happens after a `release` section of a thread -/
inductive Cont where
  | prog
  /-- inside the cooperative eviction callback: remaining candidates, then the prelude of the lock call again -/
  | evict (rest : List Nat) (slot : Nat) (v : Variant) (k n : Nat)
  /-- dropping the guards an expiry call returned: the remaining ones, then the program goes on -/
  | expired (rest : List Nat)
deriving Repr

inductive Park where
  | start
  | gLookup (slot : Nat) (v : Variant) (k : Nat) (limit : Option Nat)
  | gLookupPoll (slot : Nat) (k : Nat)
  | key (slot : Nat) (v : Variant)
  /-- after the lookup of an `alock` -/
  | keyPoll (slot : Nat)
  | blocked (slot : Nat)
  | gCancel (h : Nat)
  | gCleanup (slot : Nat)
  | gRelease (h : Nat) (c : Cont)
  | gCount | gKeys
  /-- the scan of an expiry call; the cut-off was computed when the clock was read, before the park -/
  | gExpire (cutoff : Option Nat)
  | done
deriving Repr

inductive Event where
  | lock (slot : Nat) (got : Bool)
  | lockPending (slot : Nat)
  | poll (slot : Nat) (got : Bool)
  | op (slot : Nat) (o : Out)
  | count (o : Out) | keys (o : Out)
  | ev (cands : List (Nat × Nat))
  | exp (guards : List (Nat × Nat))
  | skip
  | fail (o : Out)
deriving Repr

structure Thread where
  prog : List Stmt
  park : Park
  nslot : Nat
  /-- slots currently holding a guard -/
  got : List Nat
  ncand : Nat
  /-- slots holding a pending (manually polled) acquisition -/
  pend : List Nat := []
deriving Repr

structure Sched where
  s : State
  threads : List Thread

def hidOf (t slot : Nat) : Nat := 1000 * (t + 1) + slot
def candBase (t : Nat) (ncand : Nat) : Nat := 1000 * (t + 1) + 500 + ncand

def Sched.init (kind : Kind) (n : Nat) : Sched :=
  { s := State.init kind, threads := List.replicate n ⟨[], .start, 0, [], 0, []⟩ }

def insertSlot (x : Nat) : List Nat → List Nat
  | [] => [x]
  | y :: ys => if x ≤ y then x :: y :: ys else y :: insertSlot x ys

/-- run the hook-free statements of the program up to the next park point -/
def advance (s : State) (t : Nat) (th : Thread) (evs : List Event) : Nat → State × Thread × List Event
  | 0 => (s, th, evs)
  | fuel + 1 =>
    match th.prog with
    | [] =>
      -- implicit release of the slots still in use, ascending slot order: guards are dropped, pending futures cancelled
      match th.got, th.pend with
      | [], [] => (s, { th with park := .done }, evs)
      | g :: grest, p :: prest =>
        if g < p then
          let h := hidOf t g
          ((stamp s h).1, { th with got := grest, park := .gRelease h .prog }, evs)
        else (s, { th with pend := prest, park := .gCancel (hidOf t p) }, evs)
      | g :: grest, [] =>
        let h := hidOf t g
        ((stamp s h).1, { th with got := grest, park := .gRelease h .prog }, evs)
      | [], p :: prest => (s, { th with pend := prest, park := .gCancel (hidOf t p) }, evs)
    | st :: rest =>
      match st with
      | .lock v k limit =>
        (s, { th with prog := rest, park := .gLookup th.nslot v k limit, nslot := th.nslot + 1 }, evs)
      | .op slot g =>
        if th.got.contains slot then
          advance (gop s (hidOf t slot) g).1 t { th with prog := rest } (evs ++ [.op slot (gop s (hidOf t slot) g).2]) fuel
        else advance s t { th with prog := rest } (evs ++ [.skip]) fuel
      | .drop slot =>
        if th.got.contains slot then
          let h := hidOf t slot
          ((stamp s h).1, { th with prog := rest, got := th.got.erase slot, park := .gRelease h .prog }, evs)
        else advance s t { th with prog := rest } (evs ++ [.skip]) fuel
      | .alock k =>
        (s, { th with prog := rest, park := .gLookupPoll th.nslot k, nslot := th.nslot + 1 }, evs)
      | .apoll slot =>
        if th.pend.contains slot then
          match (acquire s (hidOf t slot)).2 with
          | .bool true =>
            advance (acquire s (hidOf t slot)).1 t { th with prog := rest, pend := th.pend.erase slot, got := insertSlot slot th.got }
              (evs ++ [.poll slot true]) fuel
          | _ => advance (acquire s (hidOf t slot)).1 t { th with prog := rest } (evs ++ [.poll slot false]) fuel
        else advance s t { th with prog := rest } (evs ++ [.skip]) fuel
      | .acancel slot =>
        if th.pend.contains slot then
          (s, { th with prog := rest, pend := th.pend.erase slot, park := .gCancel (hidOf t slot) }, evs)
        else advance s t { th with prog := rest } (evs ++ [.skip]) fuel
      | .count => (s, { th with prog := rest, park := .gCount }, evs)
      | .keys => (s, { th with prog := rest, park := .gKeys }, evs)
      | .expire => (s, { th with prog := rest, park := .gExpire (cutoffOf s 0) }, evs)

def gotGuard (s : State) (t : Nat) (th : Thread) (slot : Nat) (evs : List Event) : State × Thread × List Event :=
  advance s t { th with got := insertSlot slot th.got } (evs ++ [.lock slot true]) (th.prog.length + th.got.length + th.pend.length + 3)

/-- inside the cooperative callback: `remove()` and start dropping the next candidate -/
def processCands (s : State) (th : Thread) (cands : List Nat) (slot : Nat) (v : Variant) (k n : Nat)
    (evs : List Event) : State × Thread × List Event :=
  match cands with
  | [] => (s, { th with park := .gLookup slot v k (some n) }, evs)
  | c :: rest =>
    ((stamp (gop s c .remove).1 c).1, { th with park := .gRelease c (.evict rest slot v k n) }, evs)

/-- the guards of an expiry call are dropped one after the other; then the program goes on -/
def processExpired (s : State) (t : Nat) (th : Thread) (gs : List Nat) (evs : List Event) : State × Thread × List Event :=
  match gs with
  | [] => advance s t th evs (th.prog.length + th.got.length + th.pend.length + 3)
  | c :: rest => ((stamp s c).1, { th with park := .gRelease c (.expired rest) }, evs)

def isFail : Out → Bool
  | .panic _ => true
  | .poisoned => true
  | .bad => true
  | _ => false

def stepThread (s : State) (t : Nat) (th : Thread) : State × Thread × List Event :=
  let fuelOf (th : Thread) := th.prog.length + th.got.length + th.pend.length + 3
  match th.park with
  | .start => advance s t th [] (fuelOf th)
  | .gLookup slot v k limit =>
    let h := hidOf t slot
    match limit with
    | none =>
      let r := lookup s h k
      if isFail r.2 then (r.1, { th with park := .done }, [.fail r.2]) else (r.1, { th with park := .key slot v }, [])
    | some n =>
      let r := step s (.limitLookup h k n (List.range' (candBase t th.ncand) supplyLen))
      match r.2 with
      | .list cands =>
        let evs := [Event.ev (cands.map fun c => (c, keyOf r.1 c))]
        processCands r.1 { th with ncand := th.ncand + cands.length } cands slot v k n evs
      | .unit => (r.1, { th with park := .key slot v }, [])
      | o => (r.1, { th with park := .done }, [.fail o])
  | .gLookupPoll slot k =>
    let r := lookup s (hidOf t slot) k
    if isFail r.2 then (r.1, { th with park := .done }, [.fail r.2]) else (r.1, { th with park := .keyPoll slot }, [])
  | .keyPoll slot =>
    let h := hidOf t slot
    match s.hs h with
    | some hd =>
      if hd.st = .holding then gotGuard s t th slot [] else
      let r := enqueue s h
      match r.2 with
      | .bool true => gotGuard r.1 t th slot []
      | .bool false =>
        advance r.1 t { th with pend := insertSlot slot th.pend } [.lockPending slot] (fuelOf th)
      | o => (r.1, { th with park := .done }, [.fail o])
    | none => (s, { th with park := .done }, [.fail .bad])
  | .gCancel h =>
    let r := cancel s h
    if isFail r.2 then (r.1, { th with park := .done }, [.fail r.2]) else advance r.1 t th [] (fuelOf th)
  | .key slot v =>
    let h := hidOf t slot
    match s.hs h with
    | some hd =>
      if hd.st = .holding then gotGuard s t th slot [] else
      match v with
      | .wait =>
        let r := enqueue s h
        match r.2 with
        | .bool true => gotGuard r.1 t th slot []
        | .bool false => (r.1, { th with park := .blocked slot }, [])
        | o => (r.1, { th with park := .done }, [.fail o])
      | .try =>
        let r := tryKey s h
        match r.2 with
        | .bool true => gotGuard r.1 t th slot []
        | .bool false => (r.1, { th with park := .gCleanup slot }, [])
        | o => (r.1, { th with park := .done }, [.fail o])
    | none => (s, { th with park := .done }, [.fail .bad])
  | .blocked slot =>
    let r := acquire s (hidOf t slot)
    match r.2 with
    | .bool true => gotGuard r.1 t th slot []
    | _ => (r.1, th, [])
  | .gCleanup slot =>
    let r := cleanupFailed s (hidOf t slot)
    if isFail r.2 then (r.1, { th with park := .done }, [.fail r.2]) else
    advance r.1 t th [.lock slot false] (fuelOf th)
  | .gRelease h c =>
    let r := release s h
    if isFail r.2 then (r.1, { th with park := .done }, [.fail r.2]) else
    match c with
    | .prog => advance r.1 t th [] (fuelOf th)
    | .evict rest slot v k n => processCands r.1 th rest slot v k n []
    | .expired rest => processExpired r.1 t th rest []
  | .gExpire cutoff =>
    let r := step s (.expire cutoff (List.range' (candBase t th.ncand) supplyLen))
    match r.2 with
    | .list gs =>
      processExpired r.1 t { th with ncand := th.ncand + gs.length } gs [Event.exp (gs.map fun c => (c, keyOf r.1 c))]
    | o => (r.1, { th with park := .done }, [.fail o])
  | .gCount => advance (count s).1 t th [.count (count s).2] (fuelOf th)
  | .gKeys => advance (keys s).1 t th [.keys (keys s).2] (fuelOf th)
  | .done => (s, th, [])

def runnable (s : State) (t : Nat) (th : Thread) : Bool :=
  match th.park with
  | .done => false
  | .blocked slot =>
    match s.hs (hidOf t slot) with
    | some hd => match s.entryOf hd with
      | some m => m.holder = some (hidOf t slot)
      | none => false
    | none => false
  | _ => true

def statusChar (s : State) (t : Nat) (th : Thread) : String :=
  match th.park with
  | .start => "S"
  | .gLookup .. | .gLookupPoll .. | .gCancel _ | .gCleanup _ | .gRelease .. | .gCount | .gKeys | .gExpire _ => "G"
  | .key .. | .keyPoll _ => "K"
  | .blocked _ => if runnable s t th then "W" else "B"
  | .done => "D"

def Sched.step (sc : Sched) (t : Nat) : Sched × Option (List Event) :=
  match sc.threads[t]? with
  | none => (sc, none)
  | some th =>
    if runnable sc.s t th then
      let r := stepThread sc.s t th
      ({ s := r.1, threads := sc.threads.set t r.2.1 }, some r.2.2)
    else (sc, none)

end Lockable
