/-
Scheduled mode: several threads, each running a small program of API calls, advanced one
segment at a time. A segment = the atomic action at the thread's park point (a hook point
of `verif_hooks`) followed by the hook-free work up to the next park point. This is the
model side of the thread-level correspondence check (PROTOCOL.md, "Scheduled mode").
-/
import Lockable.Model.Api
namespace Lockable

inductive Stmt where
  | lock (v : Variant) (k : Nat) (limit : Option Nat)
  /-- `async_lock` polled once by hand; the pending future stays in the slot -/
  | alock (k : Nat)
  | apoll (slot : Nat)
  | acancel (slot : Nat)
  | op (slot : Nat) (g : GOp)
  | drop (slot : Nat)
  | count | keys
  /-- lru: `lock_entries_unlocked_for_at_least(0)`; the guards are dropped again at once, in order -/
  | expire
  /-- `lock_all_entries()`: first poll of the future (the snapshot section); the stream is kept by the thread -/
  | sopen
  /-- one `poll_next` of the thread's stream by hand: a yielded guard is kept in the thread's list of stream guards -/
  | snext
  /-- drop the oldest guard the stream has yielded -/
  | sdropg
  /-- drop the stream: its unresolved items are cancelled one after the other -/
  | sclose
deriving Repr

/-- what happens after a `release` section of a thread -/
inductive Cont where
  | prog
  /-- inside the cooperative eviction callback: remaining candidates, then the prelude of the lock call again -/
  | evict (rest : List Nat) (slot : Nat) (v : Variant) (k n : Nat)
  /-- dropping the guards an expiry call returned: the remaining ones, then the program goes on -/
  | expired (rest : List Nat)
  /-- a stream item found its entry valueless and dropped the guard: the `poll_next` loop goes on -/
  | stream
deriving Repr

inductive Park where
  | start
  | gLookup (slot : Nat) (v : Variant) (k : Nat) (limit : Option Nat)
  | gLookupPoll (slot : Nat) (k : Nat)
  | key (slot : Nat) (v : Variant)
  /-- after the lookup of an `alock` -/
  | keyPoll (slot : Nat)
  | blocked (slot : Nat)
  | gCancel (h : Nat)
  | gCleanup (slot : Nat)
  | gRelease (h : Nat) (c : Cont)
  | gCount | gKeys
  /-- the scan of an expiry call; the cut-off was computed when the clock was read, before the park -/
  | gExpire (cutoff : Option Nat)
  /-- the snapshot section of `lock_all_entries` -/
  | gSnap
  /-- first poll of the stream item at the head of the ready queue: its `Site::Key` hook -/
  | sKey
  /-- the stream is being dropped: cancel item `h`, then the remaining ones -/
  | gCancelS (h : Nat) (rest : List Nat)
  | done
deriving Repr

inductive Event where
  | lock (slot : Nat) (got : Bool)
  | lockPending (slot : Nat)
  | poll (slot : Nat) (got : Bool)
  | op (slot : Nat) (o : Out)
  | count (o : Out) | keys (o : Out)
  | ev (cands : List (Nat × Nat))
  | exp (guards : List (Nat × Nat))
  | sopen
  /-- `poll_next` yielded a guard for this key -/
  | item (k : Nat)
  | snext (ended : Bool)
  /-- the drop of the stream is complete -/
  | sclosed
  | skip
  | fail (o : Out)
deriving Repr

structure Thread where
  prog : List Stmt
  park : Park
  nslot : Nat
  /-- slots currently holding a guard -/
  got : List Nat
  ncand : Nat
  /-- slots holding a pending (manually polled) acquisition -/
  pend : List Nat := []
  /-- the thread owns a `lock_all_entries` stream -/
  sopen : Bool := false
  /-- its unresolved items, in the order in which a dropped `FuturesUnordered` releases them -/
  sitems : List Nat := []
  /-- its ready-to-run queue -/
  sready : List Nat := []
  /-- guards the stream has yielded and the thread still holds, oldest first -/
  sgot : List Nat := []
deriving Repr

structure Sched where
  s : State
  threads : List Thread

def hidOf (t slot : Nat) : Nat := 1000 * (t + 1) + slot
def candBase (t : Nat) (ncand : Nat) : Nat := 1000 * (t + 1) + 500 + ncand

def Sched.init (kind : Kind) (n : Nat) : Sched :=
  { s := State.init kind, threads := List.replicate n { prog := [], park := .start, nslot := 0, got := [], ncand := 0 } }

def insertSlot (x : Nat) : List Nat → List Nat
  | [] => [x]
  | y :: ys => if x ≤ y then x :: y :: ys else y :: insertSlot x ys

/-- the per-key part of a stream item's poll has given it the lock: yield the guard if the entry has a value,
otherwise drop it (result `true`: the `poll_next` call is complete) -/
def itemGot (s : State) (th : Thread) (w : Nat) (evs : List Event) : State × Thread × List Event × Bool :=
  let th1 := { th with sitems := th.sitems.erase w }
  match (gop s w .value).2 with
  | .optVal (some _) => (s, { th1 with sgot := th1.sgot ++ [w] }, evs ++ [.item (keyOf s w)], true)
  | _ => ((stamp s w).1, { th1 with park := .gRelease w .stream }, evs, false)

/-- the `poll_next` loop over the ready queue up to its next park point (result `false`) or its end (`true`) -/
def spollRun (s : State) (th : Thread) (evs : List Event) : Nat → State × Thread × List Event × Bool
  | 0 => (s, { th with park := .done }, evs ++ [.fail .bad], false)
  | fuel + 1 =>
    match th.sready with
    | [] => (s, th, evs ++ [.snext th.sitems.isEmpty], true)
    | w :: rest =>
      match s.hs w with
      | some hd =>
        if hd.st = .replica then (s, { th with park := .sKey }, evs, false) else
        -- woken item: its future resumes behind the hook
        let r := acquire s w
        let th1 := { th with sready := rest }
        match r.2 with
        | .bool true => itemGot r.1 th1 w evs
        | .bool false => spollRun r.1 { th1 with sitems := w :: th1.sitems.erase w } evs fuel
        | o => (r.1, { th1 with park := .done }, evs ++ [.fail o], false)
      | none => (s, { th with park := .done }, evs ++ [.fail .bad], false)

/-- run the hook-free statements of the program up to the next park point -/
def advance (s : State) (t : Nat) (th : Thread) (evs : List Event) : Nat → State × Thread × List Event
  | 0 => (s, th, evs)
  | fuel + 1 =>
    match th.prog with
    | [] =>
      -- implicit release of the slots still in use, ascending slot order: guards are dropped, pending futures cancelled
      match th.got, th.pend with
      | [], [] =>
        -- then the guards the stream yielded, oldest first, then the stream itself
        match th.sgot with
        | g :: grest => ((stamp s g).1, { th with sgot := grest, park := .gRelease g .prog }, evs)
        | [] =>
          if th.sopen then
            match th.sitems with
            | w :: ws => (s, { th with sopen := false, sitems := [], sready := [], park := .gCancelS w ws }, evs)
            | [] => (s, { th with sopen := false, sready := [], park := .done }, evs ++ [.sclosed])
          else (s, { th with park := .done }, evs)
      | g :: grest, p :: prest =>
        if g < p then
          let h := hidOf t g
          ((stamp s h).1, { th with got := grest, park := .gRelease h .prog }, evs)
        else (s, { th with pend := prest, park := .gCancel (hidOf t p) }, evs)
      | g :: grest, [] =>
        let h := hidOf t g
        ((stamp s h).1, { th with got := grest, park := .gRelease h .prog }, evs)
      | [], p :: prest => (s, { th with pend := prest, park := .gCancel (hidOf t p) }, evs)
    | st :: rest =>
      match st with
      | .lock v k limit =>
        (s, { th with prog := rest, park := .gLookup th.nslot v k limit, nslot := th.nslot + 1 }, evs)
      | .op slot g =>
        if th.got.contains slot then
          advance (gop s (hidOf t slot) g).1 t { th with prog := rest } (evs ++ [.op slot (gop s (hidOf t slot) g).2]) fuel
        else advance s t { th with prog := rest } (evs ++ [.skip]) fuel
      | .drop slot =>
        if th.got.contains slot then
          let h := hidOf t slot
          ((stamp s h).1, { th with prog := rest, got := th.got.erase slot, park := .gRelease h .prog }, evs)
        else advance s t { th with prog := rest } (evs ++ [.skip]) fuel
      | .alock k =>
        (s, { th with prog := rest, park := .gLookupPoll th.nslot k, nslot := th.nslot + 1 }, evs)
      | .apoll slot =>
        if th.pend.contains slot then
          match (acquire s (hidOf t slot)).2 with
          | .bool true =>
            advance (acquire s (hidOf t slot)).1 t { th with prog := rest, pend := th.pend.erase slot, got := insertSlot slot th.got }
              (evs ++ [.poll slot true]) fuel
          | _ => advance (acquire s (hidOf t slot)).1 t { th with prog := rest } (evs ++ [.poll slot false]) fuel
        else advance s t { th with prog := rest } (evs ++ [.skip]) fuel
      | .acancel slot =>
        if th.pend.contains slot then
          (s, { th with prog := rest, pend := th.pend.erase slot, park := .gCancel (hidOf t slot) }, evs)
        else advance s t { th with prog := rest } (evs ++ [.skip]) fuel
      | .count => (s, { th with prog := rest, park := .gCount }, evs)
      | .keys => (s, { th with prog := rest, park := .gKeys }, evs)
      | .expire => (s, { th with prog := rest, park := .gExpire (cutoffOf s 0) }, evs)
      | .sopen =>
        if th.sopen then advance s t { th with prog := rest } (evs ++ [.skip]) fuel
        else (s, { th with prog := rest, park := .gSnap }, evs)
      | .snext =>
        if th.sopen then
          let r := spollRun s { th with prog := rest } evs (th.sready.length + 1)
          if r.2.2.2 then advance r.1 t r.2.1 r.2.2.1 fuel else (r.1, r.2.1, r.2.2.1)
        else advance s t { th with prog := rest } (evs ++ [.skip]) fuel
      | .sdropg =>
        match th.sgot with
        | g :: grest => ((stamp s g).1, { th with prog := rest, sgot := grest, park := .gRelease g .prog }, evs)
        | [] => advance s t { th with prog := rest } (evs ++ [.skip]) fuel
      | .sclose =>
        if th.sopen then
          match th.sitems with
          | w :: ws => (s, { th with prog := rest, sopen := false, sitems := [], sready := [], park := .gCancelS w ws }, evs)
          | [] => advance s t { th with prog := rest, sopen := false, sready := [] } (evs ++ [.sclosed]) fuel
        else advance s t { th with prog := rest } (evs ++ [.skip]) fuel

def gotGuard (s : State) (t : Nat) (th : Thread) (slot : Nat) (evs : List Event) : State × Thread × List Event :=
  advance s t { th with got := insertSlot slot th.got } (evs ++ [.lock slot true]) (th.prog.length + th.got.length + th.pend.length + 3)

/-- inside the cooperative callback: `remove()` and start dropping the next candidate -/
def processCands (s : State) (th : Thread) (cands : List Nat) (slot : Nat) (v : Variant) (k n : Nat)
    (evs : List Event) : State × Thread × List Event :=
  match cands with
  | [] => (s, { th with park := .gLookup slot v k (some n) }, evs)
  | c :: rest =>
    ((stamp (gop s c .remove).1 c).1, { th with park := .gRelease c (.evict rest slot v k n) }, evs)

/-- the guards of an expiry call are dropped one after the other; then the program goes on -/
def processExpired (s : State) (t : Nat) (th : Thread) (gs : List Nat) (evs : List Event) : State × Thread × List Event :=
  match gs with
  | [] => advance s t th evs (th.prog.length + th.got.length + th.pend.length + 3)
  | c :: rest => ((stamp s c).1, { th with park := .gRelease c (.expired rest) }, evs)

def isFail : Out → Bool
  | .panic _ => true
  | .poisoned => true
  | .bad => true
  | _ => false

def stepThread (s : State) (t : Nat) (th : Thread) : State × Thread × List Event :=
  let fuelOf (th : Thread) := th.prog.length + th.got.length + th.pend.length + 3
  match th.park with
  | .start => advance s t th [] (fuelOf th)
  | .gLookup slot v k limit =>
    let h := hidOf t slot
    match limit with
    | none =>
      let r := lookup s h k
      if isFail r.2 then (r.1, { th with park := .done }, [.fail r.2]) else (r.1, { th with park := .key slot v }, [])
    | some n =>
      let r := step s (.limitLookup h k n (List.range' (candBase t th.ncand) supplyLen))
      match r.2 with
      | .list cands =>
        let evs := [Event.ev (cands.map fun c => (c, keyOf r.1 c))]
        processCands r.1 { th with ncand := th.ncand + cands.length } cands slot v k n evs
      | .unit => (r.1, { th with park := .key slot v }, [])
      | o => (r.1, { th with park := .done }, [.fail o])
  | .gLookupPoll slot k =>
    let r := lookup s (hidOf t slot) k
    if isFail r.2 then (r.1, { th with park := .done }, [.fail r.2]) else (r.1, { th with park := .keyPoll slot }, [])
  | .keyPoll slot =>
    let h := hidOf t slot
    match s.hs h with
    | some hd =>
      if hd.st = .holding then gotGuard s t th slot [] else
      let r := enqueue s h
      match r.2 with
      | .bool true => gotGuard r.1 t th slot []
      | .bool false =>
        advance r.1 t { th with pend := insertSlot slot th.pend } [.lockPending slot] (fuelOf th)
      | o => (r.1, { th with park := .done }, [.fail o])
    | none => (s, { th with park := .done }, [.fail .bad])
  | .gCancel h =>
    let r := cancel s h
    if isFail r.2 then (r.1, { th with park := .done }, [.fail r.2]) else advance r.1 t th [] (fuelOf th)
  | .key slot v =>
    let h := hidOf t slot
    match s.hs h with
    | some hd =>
      if hd.st = .holding then gotGuard s t th slot [] else
      match v with
      | .wait =>
        let r := enqueue s h
        match r.2 with
        | .bool true => gotGuard r.1 t th slot []
        | .bool false => (r.1, { th with park := .blocked slot }, [])
        | o => (r.1, { th with park := .done }, [.fail o])
      | .try =>
        let r := tryKey s h
        match r.2 with
        | .bool true => gotGuard r.1 t th slot []
        | .bool false => (r.1, { th with park := .gCleanup slot }, [])
        | o => (r.1, { th with park := .done }, [.fail o])
    | none => (s, { th with park := .done }, [.fail .bad])
  | .blocked slot =>
    let r := acquire s (hidOf t slot)
    match r.2 with
    | .bool true => gotGuard r.1 t th slot []
    | _ => (r.1, th, [])
  | .gCleanup slot =>
    let r := cleanupFailed s (hidOf t slot)
    if isFail r.2 then (r.1, { th with park := .done }, [.fail r.2]) else
    advance r.1 t th [.lock slot false] (fuelOf th)
  | .gRelease h c =>
    let r := release s h
    if isFail r.2 then (r.1, { th with park := .done }, [.fail r.2]) else
    match c with
    | .prog => advance r.1 t th [] (fuelOf th)
    | .evict rest slot v k n => processCands r.1 th rest slot v k n []
    | .expired rest => processExpired r.1 t th rest []
    | .stream =>
      let q := spollRun r.1 th [] (th.sready.length + 1)
      if q.2.2.2 then advance q.1 t q.2.1 q.2.2.1 (fuelOf q.2.1) else (q.1, q.2.1, q.2.2.1)
  | .gExpire cutoff =>
    let r := step s (.expire cutoff (List.range' (candBase t th.ncand) supplyLen))
    match r.2 with
    | .list gs =>
      processExpired r.1 t { th with ncand := th.ncand + gs.length } gs [Event.exp (gs.map fun c => (c, keyOf r.1 c))]
    | o => (r.1, { th with park := .done }, [.fail o])
  | .gSnap =>
    let r := step s (.snapshot (List.range' (candBase t th.ncand) supplyLen))
    match r.2 with
    | .list hs =>
      advance r.1 t { th with ncand := th.ncand + hs.length, sopen := true, sitems := hs.reverse, sready := hs } [.sopen] (fuelOf th)
    | o => (r.1, { th with park := .done }, [.fail o])
  | .sKey =>
    match th.sready with
    | w :: rest =>
      let r := enqueue s w
      let th1 := { th with sready := rest }
      let q := match r.2 with
        | .bool true => itemGot r.1 th1 w []
        | .bool false => spollRun r.1 { th1 with sitems := w :: th1.sitems.erase w } [] (rest.length + 1)
        | o => (r.1, { th1 with park := .done }, [.fail o], false)
      if q.2.2.2 then advance q.1 t q.2.1 q.2.2.1 (fuelOf q.2.1) else (q.1, q.2.1, q.2.2.1)
    | [] => (s, { th with park := .done }, [.fail .bad])
  | .gCancelS h rest =>
    let r := cancel s h
    if isFail r.2 then (r.1, { th with park := .done }, [.fail r.2]) else
    match rest with
    | h' :: rest' => (r.1, { th with park := .gCancelS h' rest' }, [])
    | [] => advance r.1 t th [.sclosed] (fuelOf th)
  | .gCount => advance (count s).1 t th [.count (count s).2] (fuelOf th)
  | .gKeys => advance (keys s).1 t th [.keys (keys s).2] (fuelOf th)
  | .done => (s, th, [])

def runnable (s : State) (t : Nat) (th : Thread) : Bool :=
  match th.park with
  | .done => false
  | .blocked slot =>
    match s.hs (hidOf t slot) with
    | some hd => match s.entryOf hd with
      | some m => m.holder = some (hidOf t slot)
      | none => false
    | none => false
  | _ => true

def statusChar (s : State) (t : Nat) (th : Thread) : String :=
  match th.park with
  | .start => "S"
  | .gLookup .. | .gLookupPoll .. | .gCancel _ | .gCleanup _ | .gRelease .. | .gCount | .gKeys | .gExpire _
  | .gSnap | .gCancelS .. => "G"
  | .key .. | .keyPoll _ | .sKey => "K"
  | .blocked _ => if runnable s t th then "W" else "B"
  | .done => "D"

/-- the waiter whose wake-up the section at the thread's park point performs: the one the released (or cancelled, already
assigned) mutex is handed to -/
def wakeOf (s : State) (p : Park) : Option Nat :=
  match p with
  | .gRelease h _ => if (release s h).2 = .unit then nextWaiter s h else none
  | .gCancel h => if (cancel s h).2 = .unit then nextWaiter s h else none
  | .gCancelS h _ => if (cancel s h).2 = .unit then nextWaiter s h else none
  | _ => none

/-- a woken stream item re-enters the ready queue of the stream (of whichever thread) that owns it -/
def wakeThread (th : Thread) (w : Option Nat) : Thread :=
  match w with
  | some w => if th.sitems.contains w then { th with sready := th.sready ++ [w] } else th
  | none => th

def Sched.step (sc : Sched) (t : Nat) : Sched × Option (List Event) :=
  match sc.threads[t]? with
  | none => (sc, none)
  | some th =>
    if runnable sc.s t th then
      let w := wakeOf sc.s th.park
      -- the wake-up is part of the section at the park point: it precedes the rest of the segment
      let r := stepThread sc.s t (wakeThread th w)
      ({ s := r.1, threads := (sc.threads.set t r.2.1).mapIdx fun i x => if i = t then x else wakeThread x w }, some r.2.2)
    else (sc, none)

end Lockable
