/-
Line protocol of the correspondence check: parsing of request lines into `Call`s and
canonical printing of results and state snapshots. See /verif/PROTOCOL.md.
-/
import Lockable.Model.Api
import Lockable.Model.Sched
namespace Lockable

def joinWith (sep : String) (l : List String) : String := sep.intercalate l

def listStr (l : List Nat) : String := if l.isEmpty then "-" else joinWith "," (l.map toString)

def insertSorted (x : Nat) : List Nat → List Nat
  | [] => [x]
  | y :: ys => if x ≤ y then x :: y :: ys else y :: insertSorted x ys
def sortNat (l : List Nat) : List Nat := l.foldr insertSorted []

def insertPair (x : Nat × Nat) : List (Nat × Nat) → List (Nat × Nat)
  | [] => [x]
  | y :: ys => if x.1 ≤ y.1 then x :: y :: ys else y :: insertPair x ys
def sortPairs (l : List (Nat × Nat)) : List (Nat × Nat) := l.foldr insertPair []

def siteStr : Site → String
  | .s124 => "s124" | .s551 => "s551" | .s581 => "s581" | .s599 => "s599" | .s613 => "s613"
  | .s614 => "s614" | .s643 => "s643" | .s654 => "s654" | .cancelTry => "s581"
  | .inv713 => "inv713" | .inv716 => "inv716"

/-- `sorted`: the container is a hash map, whose iteration order is not compared -/
def outStr (sorted : Bool) : Out → String
  | .unit => "ok"
  | .bad => "bad"
  | .panic s => "panic:" ++ siteStr s
  | .poisoned => "poisoned"
  | .userPanic => "upanic"
  | .optVal (some v) => "some " ++ toString v
  | .optVal none => "nil"
  | .bool b => if b then "true" else "false"
  | .nat n => toString n
  | .list l => listStr (if sorted then sortNat l else l)
  | .pairs l => if l.isEmpty then "-" else joinWith "," ((sortPairs l).map fun (k, v) => toString k ++ "=" ++ toString v)

def pairsStr (l : List (Nat × Nat)) : String :=
  if l.isEmpty then "-" else joinWith "," (l.map fun (h, k) => toString h ++ ":" ++ toString k)

def roundStr (sorted : Bool) (r : RoundTrace) : String :=
  "ev(" ++ pairsStr r.cands ++
    (match r.seen with
     | some (c, k) => ";c=" ++ outStr sorted c ++ ";k=" ++ outStr sorted k
     | none => "") ++ ")"

def resStr (sorted : Bool) : Res → String
  | .guard => "guard" | .none => "none" | .pending => "pending" | .err => "err"
  | .userPanic => "upanic" | .ok => "ok" | .bad => "bad" | .ended => "end"
  | .out o => outStr sorted o
  | .suspended cands => "susp(" ++ pairsStr cands ++ ") pending"
  | .item h k => "item " ++ toString h ++ ":" ++ toString k
  | .handles l => "hs " ++ pairsStr l

def respStr (sorted : Bool) (r : Resp) : String :=
  joinWith " " (r.rounds.map (roundStr sorted) ++ [resStr sorted r.res])

def entryStr (k : Nat) (m : Entry) : String :=
  let v := if m.holder.isSome then "?" else
    match m.value with
    | some st => toString st.val ++ "@" ++ toString st.stamp
    | none => "-"
  toString k ++ ":" ++ v ++ ":" ++ (if m.holder.isSome then "L" else "U") ++ ":" ++ toString m.refs.length

def snapStr (s : State) : String :=
  if s.wedged then "[poisoned]" else
  let ks := if s.kind = .lru then s.order else sortNat s.order
  let es := ks.map fun k => match s.ent k with | some m => entryStr k m | none => toString k ++ ":!"
  let slow := match slowCheck s with | some site => " slow=" ++ siteStr site | none => ""
  "[" ++ joinWith " " es ++ "] now=" ++ toString s.now ++ slow

/-! parsing -/
def nat? (s : String) : Option Nat := s.toNat?

def parseNats (l : List String) : Option (List Nat) := l.mapM nat?

def parseVariant : String → Option Variant
  | "b" | "bo" | "a" | "ao" => some .wait
  | "t" | "to" | "ta" | "tao" => some .try
  | _ => none

def parseRound (s : String) : Option Round :=
  let toks := s.splitOn ","
  let rec go (toks : List String) (acts : List CandAct) (recount : Bool) : Option Round :=
    match toks with
    | [] => none
    | ["ok"] => some ⟨acts.reverse, recount, .ok⟩
    | ["err"] => some ⟨acts.reverse, recount, .err⟩
    | ["panic"] => some ⟨acts.reverse, recount, .panic⟩
    | ["lpanic"] => if recount then none else some ⟨acts.reverse, false, .latePanic⟩
    | ["pend", "ok"] => some ⟨acts.reverse, recount, .pendOk⟩
    | ["pend", "err"] => some ⟨acts.reverse, recount, .pendErr⟩
    | "rm" :: r => go r (.rm :: acts) recount
    | "keep" :: r => go r (.keep :: acts) recount
    | "stash" :: r => go r (.stash :: acts) recount
    | "recount" :: r => go r acts true
    | t :: r =>
      match t.splitOn ":" with
      | ["set", v] => match nat? v with | some v => go r (.set v :: acts) recount | none => none
      | _ => none
  go toks [] false

def parseScript (s : String) : Option (List Round) :=
  if s = "-" then some [] else (s.splitOn ";").mapM parseRound

def parseGOp : List String → Option GOp
  | ["value"] => some .value
  | ["vmut", v] => (nat? v).map .valueMut
  | ["insert", v] => (nat? v).map .insert
  | ["tinsert", v] => (nat? v).map .tryInsert
  | ["voi", v] => (nat? v).map .valueOrInsert
  | ["voiw", v] => (nat? v).map .valueOrInsertWith
  | ["voiwp"] => some .valueOrInsertWithPanic
  | ["remove"] => some .remove
  | ["key"] => some .key
  | _ => none

def parseCall (toks : List String) : Option Call :=
  match toks with
  | ["lock", v, h, k, h0, "none"] => do
    some (.lock (← parseVariant v) (← nat? h) (← nat? k) .none (← nat? h0))
  | ["lock", v, h, k, h0, "soft", n, sc] => do
    let n ← nat? n
    if n = 0 then none else
    let script ← parseScript sc
    -- only the callback of an async variant returns a future that can be pending
    if script.any (fun r => r.fin = .pendOk || r.fin = .pendErr) && !(["a", "ao", "ta", "tao"].contains v) then none else
    some (.lock (← parseVariant v) (← nat? h) (← nat? k) (.soft n script) (← nat? h0))
  | ["poll", h] => (nat? h).map .poll
  | ["cancel", h] => (nat? h).map .cancel
  | ["drop", h] => (nat? h).map .drop
  | "op" :: h :: rest => do some (.op (← nat? h) (← parseGOp rest))
  | ["count"] => some .count
  | ["keys"] => some .keys
  | ["adv", d] => (nat? d).map .adv
  | ["expire", d, h0] => do some (.expire (← nat? d) (← nat? h0))
  | ["lockall", s, h0] => do some (.lockAll (← nat? s) (← nat? h0))
  | ["spoll", s] => (nat? s).map .spoll
  | ["sdrop", s] => (nat? s).map .sdrop
  | ["into"] => some .into
  | "reorder" :: ks => (parseNats ks).map .reorder
  | _ => none

def parseKind : String → Option Kind
  | "hashmap" => some .hashMap
  | "lru" => some .lru
  | "pool" => some .pool
  | _ => none

/-! scheduled mode -/
def parseStmt (toks : List String) : Option Stmt :=
  match toks with
  | ["lock", v, k] => do some (.lock (← parseVariant v) (← nat? k) none)
  | ["lock", v, k, "soft", n] => do
    let n ← nat? n
    if n = 0 then none else some (.lock (← parseVariant v) (← nat? k) (some n))
  | "op" :: slot :: rest => do some (.op (← nat? slot) (← parseGOp rest))
  | ["drop", slot] => (nat? slot).map .drop
  | ["alock", v, k] => if v = "a" ∨ v = "ao" then (nat? k).map .alock else none
  | ["apoll", slot] => (nat? slot).map .apoll
  | ["acancel", slot] => (nat? slot).map .acancel
  | ["count"] => some .count
  | ["keys"] => some .keys
  | ["expire"] => some .expire
  | ["sopen"] => some .sopen
  | ["sopeno"] => some .sopen
  | ["snext"] => some .snext
  | ["sdropg"] => some .sdropg
  | ["sclose"] => some .sclose
  | _ => none

def parseProg (s : String) : Option (List Stmt) :=
  (s.splitOn ";").mapM fun st => parseStmt ((st.splitOn " ").filter (· ≠ ""))

def eventStr (sorted : Bool) : Event → String
  | .lock slot got => "lock" ++ toString slot ++ "=" ++ (if got then "guard" else "none")
  | .lockPending slot => "lock" ++ toString slot ++ "=pending"
  | .poll slot got => "poll" ++ toString slot ++ "=" ++ (if got then "guard" else "pending")
  | .op slot o => "op" ++ toString slot ++ "=" ++ outStr sorted o
  | .count o => "count=" ++ outStr sorted o
  | .keys o => "keys=" ++ outStr sorted o
  | .ev cands => "ev=" ++ pairsStr cands
  | .exp gs => "exp=" ++ pairsStr gs
  | .sopen => "sopen"
  | .item k => "item=" ++ toString k
  | .snext ended => if ended then "snext=end" else "snext=pending"
  | .sclosed => "sclosed"
  | .skip => "skip"
  | .fail o => outStr sorted o

def statusesStr (sc : Sched) : String :=
  joinWith " " ((List.range sc.threads.length).map fun t =>
    match sc.threads[t]? with
    | some th => toString t ++ ":" ++ statusChar sc.s t th
    | none => "?")

inductive DState where
  | seq (a : Api)
  | sched (sc : Sched)
  /-- `into_entries_unordered` has consumed the container: nothing can be asked of it any more -/
  | consumed

def handleSched (sc : Sched) (toks : List String) (line : String) : Sched × String :=
  let sorted := sc.s.kind ≠ .lru
  match toks with
  | "prog" :: t :: _ =>
    match nat? t with
    | some t =>
      -- the program text is everything after "prog <t> "
      let rest := joinWith " " (toks.drop 2)
      match parseProg rest, sc.threads[t]? with
      | some p, some th => ({ sc with threads := sc.threads.set t { th with prog := p } }, "ok | " ++ snapStr sc.s)
      | _, _ => (sc, "bad-op")
    | none => (sc, "bad-op")
  | ["step", t] =>
    match nat? t with
    | some t =>
      match sc.step t with
      | (sc', some evs) =>
        let e := if evs.isEmpty then "-" else joinWith "," (evs.map (eventStr sorted))
        (sc', e ++ " ; " ++ statusesStr sc' ++ " | " ++ snapStr sc'.s)
      | (sc', none) => (sc', "notrunnable ; " ++ statusesStr sc' ++ " | " ++ snapStr sc'.s)
    | none => (sc, "bad-op")
  | "reorder" :: ks =>
    match parseNats ks with
    | some perm =>
      let (s1, o) := reorder sc.s perm
      ({ sc with s := s1 }, (match o with | .unit => "ok" | o => outStr sorted o) ++ " | " ++ snapStr s1)
    | none => (sc, "bad-op")
  | ["adv", d] =>
    match nat? d with
    | some d => let s1 := (tick sc.s d).1; ({ sc with s := s1 }, "ok | " ++ snapStr s1)
    | none => (sc, "bad-op")
  | _ => let _ := line; (sc, "bad-op")

/-- one request line → new state and reply line -/
def handleLine (d : DState) (line : String) : DState × String :=
  let toks := (line.trimAscii.toString.splitOn " ").filter (· ≠ "")
  match toks with
  | ["init", k] =>
    match parseKind k with
    | some kind => let a' := Api.init kind; (.seq a', "ok | " ++ snapStr a'.s)
    | none => (d, "bad-op")
  | ["sinit", k, n] =>
    match parseKind k, nat? n with
    | some kind, some n => let sc := Sched.init kind n; (.sched sc, "ok | " ++ snapStr sc.s)
    | _, _ => (d, "bad-op")
  | _ =>
    match d with
    | .seq a =>
      match parseCall toks with
      | some c =>
        let (a', r) := a.exec c
        let reply := respStr (a.s.kind ≠ .lru) r ++ " | " ++ snapStr a'.s
        match c, r.res with
        | .into, .out (.pairs _) => (.consumed, reply)
        | _, _ => (.seq a', reply)
      | none => (d, "bad-op")
    | .sched sc =>
      let (sc', r) := handleSched sc toks line
      (.sched sc', r)
    | .consumed => (d, "bad | [] now=0")

end Lockable
