/-
Core model of `LockableMapImpl` (src/lockable_map_impl.rs) at the granularity of
  * one critical section of the global lock `entries`  ([G] actions), and
  * one operation on a per-key tokio mutex             (per-key actions).

Import-free on purpose: the driver `Main.lean` is compiled to a native executable.

Keys, values, times, handle ids and entry ids are natural numbers.
A *handle* is one `ReplicaArc` / `ReplicaOwnedMutexGuard` / `Guard` / `PendingLock`
(a pending `lock_owned()` future), i.e. one unit of `Arc::strong_count - 1`.
-/
namespace Lockable

/-- function update -/
def upd {α : Type} (f : Nat → Option α) (k : Nat) (v : Option α) : Nat → Option α :=
  fun x => if x = k then v else f x

/-- `C::WrappedV<V>`: the value and (lru only, otherwise 0) its `last_unlocked` stamp -/
structure Stored where
  val : Nat
  stamp : Nat
deriving DecidableEq, Repr

/-- One map entry: `PrimaryArc<tokio::sync::Mutex<EntryValue>>` together with the state of
its tokio mutex (FIFO queue, direct hand-off) and the handles that reference it. -/
structure Entry where
  /-- identity of the Arc: a key that is deleted and inserted again gets a new one -/
  eid : Nat
  value : Option Stored
  /-- handle owning the mutex: a guard, or a waiter the lock was handed to but that was not polled since -/
  holder : Option Nat
  /-- waiters, oldest first (none of them is the holder) -/
  queue : List Nat
  /-- live handles on this mutex; `num_replicas() = refs.length` -/
  refs : List Nat
deriving Repr

inductive HSt where
  /-- a `ReplicaArc` whose owner has not yet operated on the mutex -/
  | replica
  /-- a `ReplicaArc` whose `try_lock_owned` failed, before the clean-up section -/
  | failedTry
  /-- a pending `lock_owned()` / `blocking_lock_owned()` (queued, or already assigned the lock) -/
  | queued
  /-- a `Guard` -/
  | holding
  /-- a `Guard` in `_unlock` after `on_unlock`, before the global lock is taken -/
  | stamped (hadValue : Bool)
deriving DecidableEq, Repr

structure Handle where
  key : Nat
  eid : Nat
  st : HSt
deriving DecidableEq, Repr

inductive Kind where
  | hashMap | lru | pool
deriving DecidableEq, Repr

/-- `expect` / `assert!` / `panic!` sites of the library (line numbers of the pinned commit 43fa2b2 where they existed there) -/
inductive Site where
  | s124 | s551 | s581 | s599 | s613 | s614 | s643 | s654
  | cancelTry      -- `_delete_if_none_and_no_replicas`: "Locking can't fail"
  | inv713 | inv716 -- slow_assertions: assert_invariant
deriving DecidableEq, Repr

inductive Out where
  | unit
  /-- the action's own precondition (typestate of the acting handle, fresh ids) is not met; not an implementation behaviour -/
  | bad
  | panic (site : Site)
  /-- the global lock is poisoned / its owner hangs: the panic at l.124 -/
  | poisoned
  /-- a panic raised by user code (closure of `value_or_insert_with`) -/
  | userPanic
  | optVal (v : Option Nat)
  | bool (b : Bool)
  | nat (n : Nat)
  | list (l : List Nat)
  | pairs (l : List (Nat × Nat))
deriving DecidableEq, Repr

structure State where
  kind : Kind
  /-- iteration order of the map = its key set. lru: least recently used first -/
  order : List Nat
  ent : Nat → Option Entry
  hs : Nat → Option Handle
  nextE : Nat
  now : Nat
  /-- a library panic happened while the global lock was held (poisoned, or the thread hangs in unwinding) -/
  wedged : Bool

def State.init (kind : Kind) : State :=
  { kind := kind, order := [], ent := fun _ => none, hs := fun _ => none, nextE := 0, now := 0, wedged := false }

/-- `lru::LruCache::get` / `get_or_insert`: move to the most recently used end -/
def promote (k : Nat) (l : List Nat) : List Nat := l.erase k ++ [k]

def State.touch (s : State) (k : Nat) : State :=
  match s.kind with
  | .lru => { s with order := promote k s.order }
  | _ => s

/-- The live map entry a handle refers to (`none`: the handle is an orphan; never the case in reachable states) -/
def State.entryOf (s : State) (hd : Handle) : Option Entry :=
  match s.ent hd.key with
  | some m => if m.eid = hd.eid then some m else none
  | none => none

def State.setEnt (s : State) (k : Nat) (m : Entry) : State := { s with ent := upd s.ent k (some m) }
def State.setSt (s : State) (h : Nat) (hd : Handle) (st : HSt) : State :=
  { s with hs := upd s.hs h (some { hd with st := st }) }
def State.dropHandle (s : State) (h : Nat) : State := { s with hs := upd s.hs h none }
def State.removeKey (s : State) (k : Nat) : State :=
  { s with ent := upd s.ent k none, order := s.order.erase k }
def State.wedge (s : State) : State := { s with wedged := true }

/-- `PrimaryArc::clone` under the global lock: a new `ReplicaArc` `h` for key `k` -/
def State.clone (s : State) (h k : Nat) (m : Entry) : State :=
  { s with ent := upd s.ent k (some { m with refs := h :: m.refs }),
           hs := upd s.hs h (some ⟨k, m.eid, .replica⟩) }

/-- `PrimaryArc::clone(mutex).try_lock_owned()` succeeding inside a scan: a new guard `h` for key `k` -/
def State.scanLock (s : State) (h k : Nat) (m : Entry) : State :=
  { s with ent := upd s.ent k (some { m with refs := h :: m.refs, holder := some h }),
           hs := upd s.hs h (some ⟨k, m.eid, .holding⟩) }

/-! ### [G] lookup: `_load_or_insert_mutex_for_key_*` with `NoLimit`, `get_or_insert_none` -/
def lookup (s : State) (h k : Nat) : State × Out :=
  if s.wedged then (s, .poisoned) else
  if (s.hs h).isSome then (s, .bad) else
  match s.ent k with
  | some m => ((s.clone h k m).touch k, .unit)
  | none =>
    ({ s with ent := upd s.ent k (some ⟨s.nextE, none, some h, [], [h]⟩),
              hs := upd s.hs h (some ⟨k, s.nextE, .holding⟩),
              order := s.order ++ [k], nextE := s.nextE + 1 }, .unit)

/-! ### eviction scan: `_lock_up_to_n_first_unlocked_entries` -/
def evictLoop (s : State) (keys hids : List Nat) (n : Nat) (acc : List Nat) : State × List Nat × Option Site :=
  match keys with
  | [] => (s, acc.reverse, none)
  | k :: ks =>
    if acc.length ≥ n then (s, acc.reverse, none) else
    match s.ent k with
    | none => evictLoop s ks hids n acc
    | some m =>
      if m.holder.isNone then
        if m.value.isSome then
          match hids with
          | h :: hs' => evictLoop (s.scanLock h k m) ks hs' n (h :: acc)
          | [] => (s, acc.reverse, none)
        else if m.refs.length ≥ 1 then evictLoop s ks hids n acc
        else (s.wedge, acc.reverse, some .s643)
      else if m.refs.length ≥ 1 then evictLoop s ks hids n acc
      else (s.wedge, acc.reverse, some .s654)

/-- [G] one round of the `SoftLimit` loop (l.150-194 / 240-283) followed, when it breaks out, by the lookup (l.199 / 288).
Output `list cands` (non-empty): the candidates were locked, the global lock is released, `on_evict` is to be called
and the round repeated. Otherwise the output of `lookup`. -/
def limitLookup (s : State) (h k maxN : Nat) (hids : List Nat) : State × Out :=
  if s.wedged then (s, .poisoned) else
  if (s.hs h).isSome then (s, .bad) else
  let excess := s.order.length - (maxN - 1)
  if excess = 0 then lookup s h k else
  match evictLoop s s.order hids excess [] with
  | (s', _, some site) => (s', .panic site)
  | (_, [], none) => lookup s h k
  | (s', c :: cs, none) => (s', .list (c :: cs))

/-! ### per-key operations -/
def tryKey (s : State) (h : Nat) : State × Out :=
  match s.hs h with
  | some hd =>
    if hd.st = .replica then
      match s.entryOf hd with
      | some m =>
        if m.holder.isNone then (((s.setEnt hd.key { m with holder := some h }).setSt h hd .holding), .bool true)
        else (s.setSt h hd .failedTry, .bool false)
      | none => (s, .bad)
    else (s, .bad)
  | none => (s, .bad)

/-- a `try_lock_owned` that fails although no guard exists, because a scan of another thread holds the mutex transiently -/
def trySpurious (s : State) (h : Nat) : State × Out :=
  match s.hs h with
  | some hd => if hd.st = .replica then (s.setSt h hd .failedTry, .bool false) else (s, .bad)
  | none => (s, .bad)

/-- first poll of `lock_owned()` / entry into `blocking_lock_owned()` -/
def enqueue (s : State) (h : Nat) : State × Out :=
  match s.hs h with
  | some hd =>
    if hd.st = .replica then
      match s.entryOf hd with
      | some m =>
        if m.holder.isNone then (((s.setEnt hd.key { m with holder := some h }).setSt h hd .holding), .bool true)
        else (((s.setEnt hd.key { m with queue := m.queue ++ [h] }).setSt h hd .queued), .bool false)
      | none => (s, .bad)
    else (s, .bad)
  | none => (s, .bad)

/-- an enqueue on a free mutex that completes one poll later (transient hold by a scan of another thread) -/
def enqueueLate (s : State) (h : Nat) : State × Out :=
  match s.hs h with
  | some hd =>
    if hd.st = .replica then
      match s.entryOf hd with
      | some m =>
        if m.holder.isNone then (((s.setEnt hd.key { m with holder := some h }).setSt h hd .queued), .bool false)
        else (((s.setEnt hd.key { m with queue := m.queue ++ [h] }).setSt h hd .queued), .bool false)
      | none => (s, .bad)
    else (s, .bad)
  | none => (s, .bad)

/-- a later poll / wake-up of a waiter: it becomes a guard iff the lock was handed to it -/
def acquire (s : State) (h : Nat) : State × Out :=
  match s.hs h with
  | some hd =>
    if hd.st = .queued then
      match s.entryOf hd with
      | some m => if m.holder = some h then (s.setSt h hd .holding, .bool true) else (s, .bool false)
      | none => (s, .bad)
    else (s, .bad)
  | none => (s, .bad)

/-- releasing the tokio mutex: direct hand-off to the oldest waiter; the releasing handle goes away -/
def handoff (m : Entry) (h : Nat) : Entry :=
  { m with holder := m.queue.head?, queue := m.queue.tail, refs := m.refs.erase h }

/-! ### [G] sections that drop a handle -/

/-- `_unlock` l.528-542 with `_delete_if_unlocked_and_nobody_waiting_for_lock` -/
def release (s : State) (h : Nat) : State × Out :=
  if s.wedged then (s, .poisoned) else
  match s.hs h with
  | some hd =>
    match hd.st with
    | .stamped hv =>
      match s.entryOf hd with
      | some m =>
        let m' := handoff m h
        let s1 := (s.setEnt hd.key m').dropHandle h
        if hv then (s1, .unit) else
        let s2 := s1.touch hd.key
        if m'.refs.length = 0 then (s2.removeKey hd.key, .unit) else (s2, .unit)
      | none => (s, .bad)
    | _ => (s, .bad)
  | none => (s, .bad)

/-- `try_lock` / `try_lock_async` l.384-389 with `_delete_if_unlocked_none_and_nobody_waiting_for_lock` -/
def cleanupFailed (s : State) (h : Nat) : State × Out :=
  if s.wedged then (s, .poisoned) else
  match s.hs h with
  | some hd =>
    if hd.st = .failedTry then
      match s.entryOf hd with
      | some m =>
        let s1 := (s.setEnt hd.key { m with refs := m.refs.erase h }).dropHandle h
        if m.refs.length = 1 then
          if m.holder.isSome then (s.wedge, .panic .s581)
          else if m.value.isNone then (s1.removeKey hd.key, .unit) else (s1, .unit)
        else (s1, .unit)
      | none => (s, .bad)
    else (s, .bad)
  | none => (s, .bad)

/-- `impl Drop for PendingLock`: a pending acquisition (queued, assigned but not polled again, or a
never polled `lock_all_entries` item) is dropped. The clean-up looks the entry up with `peek`: no recency update. -/
def cancel (s : State) (h : Nat) : State × Out :=
  if s.wedged then (s, .poisoned) else
  match s.hs h with
  | some hd =>
    if hd.st = .replica ∨ hd.st = .queued then
      match s.entryOf hd with
      | some m =>
        let m' := if m.holder = some h then handoff m h
                  else { m with queue := m.queue.erase h, refs := m.refs.erase h }
        let s1 := (s.setEnt hd.key m').dropHandle h
        if m'.refs.length = 0 then
          if m'.holder.isSome then (s.wedge, .panic .cancelTry)
          else if m'.value.isNone then (s1.removeKey hd.key, .unit) else (s1, .unit)
        else (s1, .unit)
      | none => (s, .bad)
    else (s, .bad)
  | none => (s, .bad)

/-! ### guard methods (src/guard.rs) -/
inductive GOp where
  | value | valueMut (v : Nat) | insert (v : Nat) | tryInsert (v : Nat)
  | valueOrInsert (v : Nat) | valueOrInsertWith (v : Nat) | valueOrInsertWithPanic
  | remove | key
deriving DecidableEq, Repr

/-- `wrap_value`: lru stamps a freshly inserted value with the current time -/
def State.wrap (s : State) (v : Nat) : Stored :=
  match s.kind with
  | .lru => ⟨v, s.now⟩
  | _ => ⟨v, 0⟩

def gop (s : State) (h : Nat) (op : GOp) : State × Out :=
  match s.hs h with
  | some hd =>
    if hd.st = .holding then
      match s.entryOf hd with
      | some m =>
        match op with
        | .value => (s, .optVal (m.value.map (·.val)))
        | .valueMut v =>
          match m.value with
          | some st => (s.setEnt hd.key { m with value := some { st with val := v } }, .bool true)
          | none => (s, .bool false)
        | .insert v => (s.setEnt hd.key { m with value := some (s.wrap v) }, .optVal (m.value.map (·.val)))
        | .tryInsert v =>
          match m.value with
          | some _ => (s, .bool false)
          | none => (s.setEnt hd.key { m with value := some (s.wrap v) }, .bool true)
        | .valueOrInsert v | .valueOrInsertWith v =>
          match m.value with
          | some st => (s, .nat st.val)
          | none => (s.setEnt hd.key { m with value := some (s.wrap v) }, .nat v)
        | .valueOrInsertWithPanic =>
          match m.value with
          | some st => (s, .nat st.val)
          | none => (s, .userPanic)
        | .remove => (s.setEnt hd.key { m with value := none }, .optVal (m.value.map (·.val)))
        | .key => (s, .nat hd.key)
      | none => (s, .bad)
    else (s, .bad)
  | none => (s, .bad)

/-- `Guard::drop`, first half: `on_unlock` (l.524) and `entry_carries_a_value` (l.525), before the global lock -/
def stamp (s : State) (h : Nat) : State × Out :=
  match s.hs h with
  | some hd =>
    if hd.st = .holding then
      match s.entryOf hd with
      | some m =>
        let m' : Entry := match s.kind, m.value with
          | .lru, some st => { m with value := some { st with stamp := s.now } }
          | _, _ => m
        ((s.setEnt hd.key m').setSt h hd (.stamped m.value.isSome), .unit)
      | none => (s, .bad)
    else (s, .bad)
  | none => (s, .bad)

/-! ### [G] bulk sections -/

/-- `lock_all_entries` l.492-514: one `PendingLock` per entry, in iteration order -/
def snapLoop (s : State) (keys hids : List Nat) (acc : List Nat) : State × List Nat :=
  match keys, hids with
  | k :: ks, h :: hs' =>
    match s.ent k with
    | some m => snapLoop (s.clone h k m) ks hs' (h :: acc)
    | none => snapLoop s ks (h :: hs') acc
  | _, _ => (s, acc.reverse)

def snapshot (s : State) (hids : List Nat) : State × Out :=
  if s.wedged then (s, .poisoned) else
  let r := snapLoop s s.order hids []
  (r.1, .list r.2)

/-- `lock_all_unlocked` with the condition `last_unlocked <= cutoff` -/
def expireLoop (s : State) (keys hids : List Nat) (cutoff : Nat) (acc : List Nat) : State × List Nat :=
  match keys with
  | [] => (s, acc.reverse)
  | k :: ks =>
    match s.ent k with
    | none => expireLoop s ks hids cutoff acc
    | some m =>
      match m.holder, m.value, hids with
      | none, some st, h :: hs' =>
        if st.stamp ≤ cutoff then expireLoop (s.scanLock h k m) ks hs' cutoff (h :: acc)
        else expireLoop s ks hids cutoff acc
      | _, _, _ => expireLoop s ks hids cutoff acc

/-- the cut-off of `lock_entries_unlocked_for_at_least(d)`: `now.checked_sub(d)`, computed from a clock read that happens
*before* the global lock is taken (the clock is an argument of the scan) -/
def cutoffOf (s : State) (d : Nat) : Option Nat := if d > s.now then none else some (s.now - d)

/-- [G] the scan of `lock_entries_unlocked_for_at_least` with the cut-off computed earlier (`none`: the duration reaches back
before the clock's origin, nothing is that old) -/
def expireAt (s : State) (cutoff : Option Nat) (hids : List Nat) : State × Out :=
  if s.wedged then (s, .poisoned) else
  match cutoff with
  | none => (s, .list [])
  | some c =>
    let r := expireLoop s s.order hids c []
    (r.1, .list r.2)

/-- `lock_entries_unlocked_for_at_least(d)` with nothing happening between its clock read and its scan (a single caller) -/
def expire (s : State) (d : Nat) (hids : List Nat) : State × Out := expireAt s (cutoffOf s d) hids

def count (s : State) : State × Out :=
  if s.wedged then (s, .poisoned) else (s, .nat s.order.length)

def keys (s : State) : State × Out :=
  if s.wedged then (s, .poisoned) else (s, .list s.order)

def intoLoop (s : State) (keys : List Nat) (acc : List (Nat × Nat)) : Out :=
  match keys with
  | [] => .pairs acc.reverse
  | k :: ks =>
    match s.ent k with
    | none => .bad
    | some m =>
      if m.refs.length ≠ 0 then .panic .s613 else
      match m.value with
      | some st => intoLoop s ks ((k, st.val) :: acc)
      | none => .panic .s614

/-- `into_entries_unordered` (the harness may call it only when no guard, future or stream is alive: Rust ownership) -/
def intoEntries (s : State) : State × Out :=
  if s.wedged then (s, .panic .s599) else (s, intoLoop s s.order [])

def tick (s : State) (d : Nat) : State × Out := ({ s with now := s.now + d }, .unit)

/-- the iteration order of a `HashMap` is unspecified: any permutation, at any time -/
def reorder (s : State) (perm : List Nat) : State × Out :=
  if s.kind ≠ .lru ∧ perm.isPerm s.order then ({ s with order := perm }, .unit) else (s, .bad)

/-- what `assert_invariant` (slow_assertions, l.709-721) checks at every acquisition and release of the global lock -/
def slowCheck (s : State) : Option Site :=
  s.order.findSome? fun k =>
    match s.ent k with
    | some m =>
      if m.refs.length = 0 then
        if m.holder.isSome then some Site.inv713
        else if m.value.isNone then some Site.inv716 else none
      else none
    | none => none

inductive Act where
  | lookup (h k : Nat)
  | limitLookup (h k maxN : Nat) (hids : List Nat)
  | tryKey (h : Nat) | trySpurious (h : Nat)
  | enqueue (h : Nat) | enqueueLate (h : Nat) | acquire (h : Nat)
  | cancel (h : Nat) | cleanupFailed (h : Nat)
  | gop (h : Nat) (op : GOp) | stamp (h : Nat) | release (h : Nat)
  | snapshot (hids : List Nat) | expire (cutoff : Option Nat) (hids : List Nat)
  | count | keys | intoEntries | tick (d : Nat) | reorder (perm : List Nat)
deriving Repr

/-- hids given to a scan must be fresh and pairwise distinct; otherwise the action is `bad` -/
def State.freshList (s : State) (hids : List Nat) : Bool :=
  hids.all (fun h => (s.hs h).isNone) && decide hids.Nodup

def step (s : State) (a : Act) : State × Out :=
  match a with
  | .lookup h k => lookup s h k
  | .limitLookup h k n hids =>
    if s.freshList (h :: hids) && decide (s.order.length ≤ hids.length) && decide (1 ≤ n) then limitLookup s h k n hids else (s, .bad)
  | .tryKey h => tryKey s h
  | .trySpurious h => trySpurious s h
  | .enqueue h => enqueue s h
  | .enqueueLate h => enqueueLate s h
  | .acquire h => acquire s h
  | .cancel h => cancel s h
  | .cleanupFailed h => cleanupFailed s h
  | .gop h op => gop s h op
  | .stamp h => stamp s h
  | .release h => release s h
  | .snapshot hids =>
    if s.freshList hids && decide (s.order.length ≤ hids.length) then snapshot s hids else (s, .bad)
  | .expire cutoff hids =>
    if s.freshList hids && decide (s.order.length ≤ hids.length) then expireAt s cutoff hids else (s, .bad)
  | .count => count s
  | .keys => keys s
  | .intoEntries => intoEntries s
  | .tick d => tick s d
  | .reorder perm => reorder s perm

def run (s : State) (as : List Act) : State := as.foldl (fun s a => (step s a).1) s

end Lockable
