/-
C02 — a guard sees exactly what the previous guard for that key left.
-/
import Lockable.Proofs.Frame
import Lockable.Proofs.SpecTrace2
import Lockable.Proofs.Usable
namespace Lockable

/-- **Frame**: in every reachable state, no atomic action other than a guard method executed on a guard
for key `k` changes the value stored for `k` — not unlocking, waiting, failing, cancelling, evicting
(scans), clean-up deletions, recency updates, clock ticks, on the same or on other keys. -/
theorem C02_frame (kind : Kind) (as : List Act) (a : Act) (k : Nat)
    (hne : ∀ h op, a = .gop h op → hkey ((run (State.init kind) as).hs h) ≠ some k) :
    absVal (step (run (State.init kind) as) a).1 k = absVal (run (State.init kind) as) k :=
  absVal_step _ a k (inv_reachable kind as) hne

/-- no action of the schedule `as`, run from `s`, is a guard method on a handle of key `k` -/
def NoGopOn (k : Nat) : State → List Act → Prop
  | _, [] => True
  | s, a :: as => (∀ h op, a = .gop h op → hkey (s.hs h) ≠ some k) ∧ NoGopOn k (step s a).1 as

/-- the same over whole schedules: across any sequence of actions none of which is a guard method on a
handle of key `k`, the value of `k` is unchanged — the next guard sees what the previous one left. -/
theorem C02_frame_run (as : List Act) (k : Nat) : ∀ (s : State), Inv s → NoGopOn k s as →
    absVal (run s as) k = absVal s k := by
  induction as with
  | nil => intro s _ _; rfl
  | cons a as ih =>
    intro s hi hne
    have h1 : absVal (step s a).1 k = absVal s k := absVal_step s a k hi hne.1
    have h2 := ih (step s a).1 (inv_step s a hi) hne.2
    simp only [run, List.foldl] at h2 ⊢
    rw [h2, h1]

/-- **View**: what a guard reads is the stored value of its key. -/
theorem C02_view (s : State) (h : Nat) (hd : Handle) (m : Entry) :
    s.hs h = some hd → hd.st = .holding → s.entryOf hd = some m →
    (gop s h .value).2 = .optVal (absVal s hd.key) ∧ (gop s h .value).1 = s := by
  intro hh hst hm
  have := (entryOf_some hm).1
  simp [gop, hh, hst, hm, absVal, valOf, this]

/-- **Guard methods act as plain-map operations** on the value of the guard's key. -/
theorem C02_gop (s : State) (h : Nat) (hd : Handle) (m : Entry) (op : GOp) :
    s.hs h = some hd → hd.st = .holding → s.entryOf hd = some m →
    let old := absVal s hd.key
    let r := gop s h op
    match op with
    | .value => r.2 = .optVal old ∧ absVal r.1 hd.key = old
    | .valueMut v => (old = none → r.2 = .bool false ∧ absVal r.1 hd.key = none) ∧
                     (old ≠ none → r.2 = .bool true ∧ absVal r.1 hd.key = some v)
    | .insert v => r.2 = .optVal old ∧ absVal r.1 hd.key = some v
    | .tryInsert v => (old = none → r.2 = .bool true ∧ absVal r.1 hd.key = some v) ∧
                      (old ≠ none → r.2 = .bool false ∧ absVal r.1 hd.key = old)
    | .valueOrInsert v | .valueOrInsertWith v =>
        (old = none → r.2 = .nat v ∧ absVal r.1 hd.key = some v) ∧
        (∀ w, old = some w → r.2 = .nat w ∧ absVal r.1 hd.key = old)
    | .valueOrInsertWithPanic =>
        (old = none → r.2 = .userPanic ∧ r.1 = s) ∧ (∀ w, old = some w → r.2 = .nat w ∧ r.1 = s)
    | .remove => r.2 = .optVal old ∧ absVal r.1 hd.key = none
    | .key => r.2 = .nat hd.key ∧ r.1 = s := by
  intro hh hst hm
  have hm1 := (entryOf_some hm).1
  cases op <;> cases hv : m.value <;>
    simp [gop, hh, hst, hm, absVal, valOf, hm1, hv, State.setEnt, upd]

/-- non-vacuity: insert through one guard, unlock, a waiter that was queued meanwhile sees the value -/
example :
    let s := run (State.init .lru) [.lookup 1 7, .gop 1 (.insert 5), .lookup 2 7, .enqueue 2, .stamp 1, .release 1, .acquire 2]
    (gop s 2 .value).2 = .optVal (some 5) ∧ absVal s 7 = some 5 := by decide

/-- History form (Theorem C + `history_value_preserved`): in the abstract history of every run of the core model, whatever
happens between the release of a guard of `k` and the next event that makes a guard of `k` — waiting, failing, cancelling,
unlocking, evicting, scanning, anything on other keys — the value the next guard finds is the value the previous guard left. -/
theorem C02_history_value (kind : Kind) (as : List Act) (k h₁ : Nat) (pre mid post : List SEv) (e₂ : SEv)
    (hdec : evsRun (State.init kind) as = pre ++ SEv.release h₁ k :: (mid ++ e₂ :: post))
    (hmid : ∀ e ∈ mid, e.makesGuard k = none) :
    ∃ spR spG, applyEvs Spec.init (pre ++ [SEv.release h₁ k]) = some spR ∧ applyEvs spR mid = some spG ∧
      (applyEv spG e₂).isSome ∧ spG.vals k = spR.vals k := by
  have := lin_reachable kind as
  rw [hdec] at this
  exact history_value_preserved k h₁ pre mid post e₂ _ _ this hmid

/-- non-vacuity of `C02_history_value`: guard 1 stores 5 and releases; 2 fails a try and cleans up, 3 waits and is granted the key -/
example :
    evsRun (State.init .hashMap)
      [.lookup 1 7, .gop 1 (.insert 5), .lookup 3 7, .enqueue 3, .lookup 2 7, .tryKey 2, .stamp 1, .release 1, .cleanupFailed 2, .acquire 3] =
      [.acquire 1 7, .write 1 7 (some 5), .wait 3 7] ++ SEv.release 1 7 :: ([] ++ SEv.grant 3 7 :: []) := by decide

/-- … and in every run the stored value of a key changes only in a step whose abstract event is a write by the guard of
that key ("nothing except an operation on a guard for that key ever changes, drops or resurrects a value"). -/
theorem C02_history_only_guard_writes (k : Nat) (e : SEv) (sp sp₁ : Spec) (he : applyEv sp e = some sp₁)
    (hne : sp₁.vals k ≠ sp.vals k) : ∃ h v, e = .write h k v ∧ sp.held k = some h :=
  vals_change_only_by_guard_write k e sp sp₁ he hne

/-- **The guard a lock call returns sees the value the map holds** — at the level of the public calls, in every state reachable by any
sequence of API calls: when a plain `blocking_lock`/`async_lock`/`try_lock` (either variant `v`) answers with a guard, `guard.value()`
answers exactly the value the atomic specification's plain map has for the key before the call (what the last guard of that key
stored, `C02_history_value`), and the call itself changes no stored value of any key (`lock_plain_vals`).
Hypotheses: the handle id is unused (not in `hs`, not among the guards owned by a suspended callback). -/
theorem C02_plain_lock_reads_current (kind : Kind) (cs : List Call) (v : Variant) (h k h0 : Nat) :
    let a := cs.foldl (fun a c => (a.exec c).1) (Api.init kind)
    a.s.hs h = none → a.ownedBySusp h = false → (a.exec (.lock v h k .none h0)).2.res.isGuard = true →
    ((a.exec (.lock v h k .none h0)).1.exec (.op h .value)).2.res = .out (.optVal ((absSpec a.s).vals k)) ∧
    ∀ k', absVal (a.exec (.lock v h k .none h0)).1.s k' = absVal a.s k' := by
  intro a hf hs hg
  exact ⟨lock_plain_reads a (ainv_execs cs _ (ainv_init kind)).inv v h k h0 hf hs hg, fun k' => lock_plain_vals a v h k h0 k'⟩

/-- non-vacuity: guard 1 stores 10 under key 1 and is dropped; the next lock of key 1 returns a guard, which reads `some 10` -/
example :
    let a := ((((Api.init .lru).exec (.lock .wait 1 1 .none 100)).1.exec (.op 1 (.insert 10))).1.exec (.drop 1)).1
    a.s.hs 2 = none ∧ a.ownedBySusp 2 = false ∧ (a.exec (.lock .try 2 1 .none 100)).2.res.isGuard = true ∧
    (absSpec a.s).vals 1 = some 10 := by decide

/-- **A guard method is the plain map's method on its own key** — public-call level, every reachable API state (streams open,
waiters queued on this and other keys, suspended calls): `value`/`value_mut`/`insert`/`try_insert`/`remove`/`value_or_insert` through
a client's guard `h` answers what the atomic specification's plain map answers for the guard's key, leaves under that key exactly what the
plain map would hold, and changes the value of no other key. With `C02_plain_lock_reads_current` (the next guard reads the map's value)
this is "the next guard sees exactly what the previous guard left" at the level of the public calls. -/
theorem C02_guard_op_is_map_op (kind : Kind) (cs : List Call) (h : Nat) (hd : Handle) (g : GOp) :
    let a := cs.foldl (fun a c => (a.exec c).1) (Api.init kind)
    a.s.hs h = some hd → hd.st = .holding → a.ownedBySusp h = false →
    (a.exec (.op h g)).2.res = .out (match g with | .key => Out.nat hd.key | _ => (specOp ((absSpec a.s).vals hd.key) g).2) ∧
    absVal (a.exec (.op h g)).1.s hd.key = (specOp ((absSpec a.s).vals hd.key) g).1 ∧
    ∀ k', k' ≠ hd.key → absVal (a.exec (.op h g)).1.s k' = absVal a.s k' := by
  intro a hh hst1 hos
  exact op_plain a (ainv_execs cs _ (ainv_init kind)).inv h hd g hh hst1 hos

/-- non-vacuity: guard 1 on key 1 with waiter 2 queued behind it and a stream open; the guard is a client's guard -/
example :
    let a := ((((Api.init .lru).exec (.lock .wait 1 1 .none 100)).1.exec (.lock .wait 2 1 .none 100)).1.exec (.lockAll 1 200)).1
    hst (a.s.hs 1) = some .holding ∧ a.ownedBySusp 1 = false ∧
    absVal (a.exec (.op 1 (.insert 5))).1.s 1 = some 5 := by decide

end Lockable
