/-
C15 — a panicking user callback cannot corrupt or wedge the container.
User code is modelled as a script: an eviction round that panics on entry (all its guards are dropped by
unwinding, in Vec order), or the closure of `value_or_insert_with` panicking.
-/
import Lockable.Proofs.ApiLemmas
import Lockable.Props.C08
import Lockable.Proofs.Abort
namespace Lockable

/-- **Panicking eviction callback**: the lock call propagates the panic (`userPanic`); the handle of the
requested key was never created; the container satisfies the full invariant afterwards — not poisoned
(I5), counts exact (C04), every later operation behaves (Theorem A from this state). -/
theorem C15_evict_panic (a : Api) (v : Variant) (h k n : Nat) (script : List Round) (h0 : Nat) :
    Inv a.s → a.s.hs h = none →
    (a.lock v h k (.soft n script) h0).2.res.isAbort = true →
    let a' := (a.lock v h k (.soft n script) h0).1
    a'.s.hs h = none ∧ Inv a'.s ∧ a'.s.wedged = false ∧ slowCheck a'.s = none := by
  intro hi hf hab a'
  have := C08_error a v h k n script h0 hi hf hab
  exact ⟨this.1, this.2, this.2.notWedged, slowCheck_ok _ this.2⟩

/-- the unwinding of the panicking round: every guard given to the callback is released (its handle is gone),
no stored value changes (the values are exactly those committed before the panic), the invariant holds -/
theorem C15_unwind (cands : List Nat) : ∀ (a : Api), Inv a.s →
    (∀ c ∈ cands, ∃ hd, a.s.hs c = some hd ∧ hd.st = .holding) → cands.Nodup →
    Inv (a.dropAll cands).s ∧ (∀ k, absVal (a.dropAll cands).s k = absVal a.s k) ∧
    (∀ c ∈ cands, (a.dropAll cands).s.hs c = none) :=
  unwind_facts cands

/-- **Panicking `value_or_insert_with` closure**: evaluated before the stored option is touched — on an absent
key the panic reaches the caller and the state is unchanged (the guard stays usable and is released by the
caller's unwinding like any guard); on a present key the closure is not called. -/
theorem C15_closure_panic (s : State) (h : Nat) (hd : Handle) (m : Entry) :
    s.hs h = some hd → hd.st = .holding → s.entryOf hd = some m →
    (gop s h .valueOrInsertWithPanic).1 = s ∧
    (m.value = none → (gop s h .valueOrInsertWithPanic).2 = .userPanic) ∧
    (∀ st, m.value = some st → (gop s h .valueOrInsertWithPanic).2 = .nat st.val) := by
  intro hh hst hm
  cases hv : m.value <;> simp [gop, hh, hst, hm, hv]

/-- non-vacuity: two evictable entries, the callback removes the first and keeps the second in round one and panics
in round two (limit 1): the panic reaches the caller, value 2 is still there, nothing is locked, nothing leaked -/
example :
    let a0 : Api := Api.init .lru
    let a1 := ((a0.exec (.lock .wait 1 1 .none 100)).1.exec (.op 1 (.insert 10))).1
    let a2 := ((a1.exec (.lock .wait 2 2 .none 100)).1.exec (.op 2 (.insert 20))).1
    let a3 := ((a2.exec (.drop 1)).1.exec (.drop 2)).1
    let r := a3.exec (.lock .try 3 9 (.soft 1 [⟨[.rm, .keep], false, .ok⟩, ⟨[], false, .panic⟩]) 200)
    r.2.res.isAbort = true ∧ r.1.s.order = [2] ∧ absVal r.1.s 2 = some 20 ∧ r.1.s.hs 3 = none ∧ r.1.s.hs 202 = none := by
  decide

/-- non-vacuity for a callback that panics *after* it has worked on its guards (`latePanic`; `C15_evict_panic` quantifies over
all scripts): it removes the value of the first candidate, replaces the second, then panics — the panic reaches the caller,
the emptied entry is gone and not left behind as a placeholder, the replacement is committed, nothing stays locked -/
example :
    let a0 : Api := Api.init .hashMap
    let a1 := ((a0.exec (.lock .wait 1 1 .none 100)).1.exec (.op 1 (.insert 10))).1
    let a2 := ((a1.exec (.lock .wait 2 2 .none 100)).1.exec (.op 2 (.insert 20))).1
    let a3 := ((a2.exec (.drop 1)).1.exec (.drop 2)).1
    let r := a3.exec (.lock .wait 3 9 (.soft 1 [⟨[.rm, .set 21], false, .latePanic⟩]) 200)
    r.2.res.isAbort = true ∧ r.1.s.order = [2] ∧ absVal r.1.s 2 = some 21 ∧ r.1.s.hs 3 = none ∧
      r.1.s.hs 200 = none ∧ r.1.s.hs 201 = none := by
  decide

/-- **The panic reaches the caller** (not only "if the call aborted …"): whenever the first eviction round of a lock call hands
guards to a callback that panics — on entry, or after having worked on its guards — the call answers with that panic. -/
theorem C15_panic_propagates (a : Api) (v : Variant) (h k n : Nat) (script : List Round) (h0 : Nat) (cands : List Nat)
    (hr : (step a.s (.limitLookup h k n (List.range' h0 supplyLen))).2 = .list cands)
    (hfin : (script.head?.getD defaultRound).fin = .panic ∨ (script.head?.getD defaultRound).fin = .latePanic) :
    (a.lock v h k (.soft n script) h0).2.res matches .userPanic := by
  obtain ⟨_, h1, h2, _⟩ := lock_first_round a v h k n script h0 cands hr
  rcases hfin with e | e
  · exact h1 e
  · exact h2 e

/-- **Every guard involved is released, the stored values are those committed before**: for the callback that panics on
entry, after the lock call every guard it was given is gone, no value changed, the requested key's handle was never created
and the full invariant holds (not poisoned, counts exact). -/
theorem C15_panic_round_releases (a : Api) (v : Variant) (h k n : Nat) (script : List Round) (h0 : Nat) (c : Nat) (cs : List Nat)
    (hn : 1 ≤ n) (hi : Inv a.s) (hfr : a.s.hs h = none) (hlt : h < h0) (hfree : ∀ x, h0 ≤ x → a.s.hs x = none)
    (hlen : a.s.order.length ≤ supplyLen)
    (hr : (step a.s (.limitLookup h k n (List.range' h0 supplyLen))).2 = .list (c :: cs))
    (hfin : (script.head?.getD defaultRound).fin = .panic) :
    let r := a.lock v h k (.soft n script) h0
    (r.2.res matches .userPanic) ∧ Inv r.1.s ∧ (∀ x ∈ c :: cs, r.1.s.hs x = none) ∧ (∀ x, absVal r.1.s x = absVal a.s x) ∧
      r.1.s.hs h = none :=
  lock_panic_round_releases a v h k n script h0 c cs hn hi hfr hlt hfree hlen hr hfin

end Lockable
