/-
C01 — per-key mutual exclusion, also for keys without a value.
Statements only (plus non-vacuity examples); helper lemmas live in `Lockable/Proofs`.
-/
import Lockable.Proofs.Steps3
import Lockable.Proofs.Layers
import Lockable.Proofs.Transient
import Lockable.Proofs.SpecTrace
namespace Lockable

/-- `h` is a guard for key `k`: a live handle in state `holding` or `stamped`, however it was created
(lookup of an absent key, `tryKey`, `enqueue`, `acquire`, eviction candidate, expiry result, stream item). -/
def IsGuard (s : State) (h k : Nat) : Prop :=
  ∃ hd, s.hs h = some hd ∧ hd.key = k ∧ hd.st.isGuard = true

/-- At most one guard per key in every reachable state: any container kind, any number of
threads/tasks/handles/keys, any interleaving of atomic actions (incl. the spurious ones), any history. -/
theorem C01_exclusive (kind : Kind) (as : List Act) (h₁ h₂ k : Nat) :
    IsGuard (run (State.init kind) as) h₁ k → IsGuard (run (State.init kind) as) h₂ k → h₁ = h₂ := by
  intro ⟨hd1, e1, k1, g1⟩ ⟨hd2, e2, k2, g2⟩
  have hi := inv_reachable kind as
  have ⟨m, hm, _⟩ := eeid_inv (hi.live h₁ hd1 e1)
  have a1 := hi.guardHolds h₁ hd1 e1 g1 m hm
  have a2 := hi.guardHolds h₂ hd2 e2 g2 m (by rw [k2, ← k1]; exact hm)
  rw [a1] at a2; exact Option.some.inj a2

/-- While a guard for the key exists a second acquirer does not get one: `try_lock_owned` fails and
`lock_owned` queues. -/
theorem C01_second_waits (kind : Kind) (as : List Act) (g h : Nat) (hd : Handle) :
    let s := run (State.init kind) as
    IsGuard s g hd.key → s.hs h = some hd → hd.st = .replica →
    (tryKey s h).2 = .bool false ∧ (enqueue s h).2 = .bool false ∧ (enqueueLate s h).2 = .bool false ∧
    ¬ IsGuard (tryKey s h).1 h hd.key ∧ ¬ IsGuard (enqueue s h).1 h hd.key := by
  intro s ⟨gd, e1, k1, g1⟩ hh hst
  have hi : Inv s := inv_reachable kind as
  have ⟨m, hm, hme⟩ := eeid_inv (hi.live h hd hh)
  have hm' : s.ent gd.key = some m := by rw [k1]; exact hm
  have a1 := hi.guardHolds g gd e1 g1 m hm'
  have heo : s.entryOf hd = some m := by simp [State.entryOf, hm, hme]
  simp [tryKey, enqueue, enqueueLate, hh, hst, heo, a1, IsGuard, State.setSt, State.setEnt, upd, HSt.isGuard]

/-- A waiter only turns into a guard when the lock has been handed to it, i.e. (by `C01_exclusive`)
after the previous guard was dropped. -/
theorem C01_acquire_needs_handoff (s : State) (h : Nat) (hd : Handle) (m : Entry) :
    s.hs h = some hd → s.entryOf hd = some m → m.holder ≠ some h → (acquire s h).1 = s := by
  intro hh hm hne
  unfold acquire
  simp only [hh, hm]
  split <;> simp_all

theorem guards_exclusive_of_inv (s : State) (hi : Inv s) (h₁ h₂ k : Nat) :
    IsGuard s h₁ k → IsGuard s h₂ k → h₁ = h₂ := by
  intro ⟨hd1, e1, k1, g1⟩ ⟨hd2, e2, k2, g2⟩
  have ⟨m, hm, _⟩ := eeid_inv (hi.live h₁ hd1 e1)
  have a1 := hi.guardHolds h₁ hd1 e1 g1 m hm
  have a2 := hi.guardHolds h₂ hd2 e2 g2 m (by rw [k2, ← k1]; exact hm)
  rw [a1] at a2; exact Option.some.inj a2

/-- the same for everything the sequential API layer can do: any sequence of public calls — all acquisition
variants with or without soft limit and any callback script (removing, keeping, replacing, stashing guards,
re-entering, failing, panicking), polls and cancellations, guard methods, drops in any order, expiry calls,
`lock_all_entries` streams polled and dropped at any point — never produces two guards for one key. -/
theorem C01_exclusive_api (kind : Kind) (cs : List Call) (h₁ h₂ k : Nat) :
    let a := cs.foldl (fun a c => (a.exec c).1) (Api.init kind)
    IsGuard a.s h₁ k → IsGuard a.s h₂ k → h₁ = h₂ := by
  intro a
  exact guards_exclusive_of_inv a.s (inv_execs cs (Api.init kind) (inv_init kind)) h₁ h₂ k

/-- … and for every schedule of every set of thread programs of the scheduled interpreter (the model side of the
thread-level correspondence): `sched` is any list of thread indices. -/
theorem C01_exclusive_sched (sc : Sched) (hi : Inv sc.s) (sched : List Nat) (h₁ h₂ k : Nat) :
    let sc' := sched.foldl (fun sc t => (sc.step t).1) sc
    IsGuard sc'.s h₁ k → IsGuard sc'.s h₂ k → h₁ = h₂ := by
  intro sc'
  have : ∀ (l : List Nat) (c : Sched), Inv c.s → Inv (l.foldl (fun sc t => (sc.step t).1) c).s := by
    intro l
    induction l with
    | nil => intro c hc; exact hc
    | cons t ts ih => intro c hc; exact ih _ (inv_schedStep c t hc)
  exact guards_exclusive_of_inv sc'.s (this sched sc hi) h₁ h₂ k

/-- The model runs critical sections atomically; the only thing a per-key operation can observe of a section in progress is a
scan's transient lock-then-release of the same mutex. What it then sees is exactly one of the two spurious actions over
which `C01_exclusive` (Theorem A) quantifies: the fine-grained execution equals the atomic one. -/
theorem C01_transient_window (s : State) (c h k : Nat) (m : Entry) (hd : Handle)
    (hm : s.ent k = some m) (hfree : m.holder = none) (hq : m.queue = []) (hc : s.hs c = none) (hch : c ≠ h)
    (hh : s.hs h = some hd) (hst : hd.st = .replica) (hk : hd.key = k) (he : m.eid = hd.eid) (hcr : c ∉ m.refs) :
    transientDrop (tryKey (s.scanLock c k m) h).1 c k = (trySpurious s h).1 ∧
    transientDrop (enqueue (s.scanLock c k m) h).1 c k = (enqueueLate s h).1 :=
  ⟨(transient_try_is_spurious s c h k m hd hm hfree hq hc hch hh hst hk he hcr).1,
   (transient_enqueue_is_late s c h k m hd hm hfree hq hc hch hh hst hk he hcr).1⟩

/-- non-vacuity: a reachable state with a guard on a key without value, a queued waiter and a failed try -/
example :
    let s := run (State.init .hashMap) [.lookup 1 7, .lookup 2 7, .enqueue 2, .lookup 3 7, .tryKey 3]
    IsGuard s 1 7 ∧ s.hs 2 = some ⟨7, 0, .queued⟩ ∧ s.hs 3 = some ⟨7, 0, .failedTry⟩ := by
  refine ⟨⟨⟨7, 0, .holding⟩, by decide, rfl, rfl⟩, by decide, by decide⟩


/-- History form (Theorem C + `history_exclusive`): in the abstract history of every run of the core model — any
container kind, any interleaving of atomic sections of any number of threads — between two events that make a
guard for the same key (whichever way: locking an absent key, a successful try, an uncontended or a granted wait,
an eviction or expiry scan), the first guard is released. Guard lifetimes on one key never overlap. -/
theorem C01_history_exclusive (kind : Kind) (as : List Act) (k h₁ h₂ : Nat) (pre mid post : List SEv) (e₁ e₂ : SEv)
    (hdec : evsRun (State.init kind) as = pre ++ e₁ :: (mid ++ e₂ :: post))
    (hm₁ : e₁.makesGuard k = some h₁) (hm₂ : e₂.makesGuard k = some h₂) : SEv.release h₁ k ∈ mid := by
  have := lin_reachable kind as
  rw [hdec] at this
  exact history_exclusive k h₁ h₂ pre mid post e₁ e₂ _ _ this hm₁ hm₂

/-- … and the guard of the abstraction is exactly the guard of the model (`IsGuard`). -/
theorem C01_abstract_guard (kind : Kind) (as : List Act) (h k : Nat) :
    (absSpec (run (State.init kind) as)).held k = some h ↔ IsGuard (run (State.init kind) as) h k :=
  held_iff_guard _ (inv_reachable kind as) h k

/-- non-vacuity of `C01_history_exclusive`: two successive guards of key 7, the second one granted to a waiter -/
example :
    evsRun (State.init .hashMap) [.lookup 1 7, .lookup 2 7, .enqueue 2, .stamp 1, .release 1, .acquire 2] =
      [] ++ SEv.acquire 1 7 :: ([.wait 2 7, .release 1 7] ++ SEv.grant 2 7 :: []) := by decide

end Lockable
