/-
C03 — progress: no lost wake-up, no library-made deadlock, keys independent.
Safety-shaped lemmas that together give the statement (eventual acquisition additionally needs a fair
scheduler and clients that release their guards; DESIGN.md §9 C03 / §7).
Structural part: every [G] section is one atomic, total, non-waiting action (no wait happens while the
global lock is held), and every action only touches the per-key mutex of its own handle's key.
-/
import Lockable.Proofs.NoPanic
import Lockable.Props.C01
import Lockable.Proofs.Commute
import Lockable.Proofs.SpecTrace
import Lockable.Proofs.SpecTrace3
import Lockable.Proofs.Own
import Lockable.Proofs.Deadlock
import Lockable.Proofs.Stream
import Lockable.Proofs.Usable
namespace Lockable

/-- No lost wake-up, state form: in every reachable state a free per-key mutex has no sleeping waiter —
whenever a key is not held, nobody is queued on it (the oldest waiter was handed the lock in the same step). -/
theorem C03_no_sleeper_on_free_key (kind : Kind) (as : List Act) (k : Nat) (m : Entry) :
    let s := run (State.init kind) as
    s.ent k = some m → m.holder = none → m.queue = [] :=
  fun hm hf => (inv_reachable kind as).freeNoQueue k m hm hf

/-- A lock call for a key nobody holds or waits for returns without waiting: after the lookup the caller
either already owns the fresh placeholder, or its first `enqueue` (first poll of `lock_owned`) succeeds. -/
theorem C03_free_no_wait (kind : Kind) (as : List Act) (h k : Nat) :
    let s := run (State.init kind) as
    s.hs h = none →
    (∀ m, s.ent k = some m → m.holder = none) →
    let s1 := (lookup s h k).1
    IsGuard s1 h k ∨ ((enqueue s1 h).2 = .bool true ∧ IsGuard (enqueue s1 h).1 h k ∧
                      (tryKey s1 h).2 = .bool true) := by
  intro s hf hfree s1
  have hi : Inv s := inv_reachable kind as
  cases hm : s.ent k with
  | none =>
    left
    have hs1 : s1.hs h = some ⟨k, s.nextE, .holding⟩ := by
      show (lookup s h k).1.hs h = _
      simp [lookup, hi.notWedged, hf, hm, upd]
    exact ⟨⟨k, s.nextE, .holding⟩, hs1, rfl, rfl⟩
  | some m =>
    right
    have hfr := hfree m hm
    have hs1 : s1 = (s.clone h k m).touch k := by
      show (lookup s h k).1 = _
      simp [lookup, hi.notWedged, hf, hm]
    have hhs : s1.hs h = some ⟨k, m.eid, .replica⟩ := by
      rw [hs1, touch_hs]; simp [State.clone, upd]
    have hent : s1.ent k = some { m with refs := h :: m.refs } := by
      rw [hs1, touch_ent]; simp [State.clone, upd]
    have heo : s1.entryOf ⟨k, m.eid, .replica⟩ = some { m with refs := h :: m.refs } := by
      simp [State.entryOf, hent]
    simp [enqueue, tryKey, hhs, heo, hfr, IsGuard, State.setSt, State.setEnt, upd, HSt.isGuard]

/-- try variants never wait: `tryKey` leaves its handle either a guard or a failed try, never queued -/
theorem C03_try_never_queues (s : State) (h : Nat) (hd : Handle) :
    (tryKey s h).1.hs h = some hd → hd.st = .queued → s.hs h = some hd := by
  unfold tryKey
  split
  · rename_i hd0 hh
    split
    · split
      · split
        · intro e; simp [State.setSt, State.setEnt, upd] at e; intro q; rw [← e] at q; simp at q
        · intro e; simp [State.setSt, upd] at e; intro q; rw [← e] at q; simp at q
      · intro e _; exact e
    · intro e _; exact e
  · intro e _; exact e

/-- Hand-off: when the holder releases (guard drop) and waiters are queued, the oldest waiter owns the
lock in the very same step — a waiter acquires the key once the guard it waits for has been dropped. -/
theorem C03_handoff (kind : Kind) (as : List Act) (h w : Nat) (hd : Handle) (m : Entry) (b : Bool) :
    let s := run (State.init kind) as
    s.hs h = some hd → hd.st = .stamped b → s.ent hd.key = some m → m.queue.head? = some w →
    ∃ m', (release s h).1.ent hd.key = some m' ∧ m'.holder = some w ∧ (acquire (release s h).1 w).2 = .bool true := by
  intro s hh hst hm hq
  have hi : Inv s := inv_reachable kind as
  have he : m.eid = hd.eid := by
    obtain ⟨m', hm', e⟩ := eeid_inv (hi.live h hd hh); rw [hm] at hm'; cases hm'; exact e
  have heo : s.entryOf hd = some m := by simp [State.entryOf, hm, he]
  have hwq : w ∈ m.queue := head_mem _ _ hq
  have hwl := (hi.queue _ m hm w).1 hwq
  obtain ⟨wd, hw1, hw2⟩ := hkey_inv hwl.1
  obtain ⟨wd', hw1', hw3⟩ := hst_inv hwl.2.1
  rw [hw1] at hw1'; cases hw1'
  have hwh : w ≠ h := by
    intro e; subst e
    have := hi.guardHolds w hd hh (by simp [hst, HSt.isGuard]) m hm
    exact hwl.2.2 this
  have hwr : w ∈ m.refs := (hi.refs _ m hm w).2 hwl.1
  have hne : (handoff m h).refs.length ≠ 0 := by
    have : w ∈ (handoff m h).refs := by
      simp only [handoff]; exact (List.Nodup.mem_erase_iff (hi.refsNodup _ m hm)).2 ⟨hwh, hwr⟩
    intro e; rw [List.length_eq_zero_iff] at e; rw [e] at this; simp at this
  have hrel : (release s h).1.ent hd.key = some (handoff m h) ∧ (release s h).1.hs w = some wd := by
    unfold release
    simp only [hi.notWedged, Bool.false_eq_true, ↓reduceIte, hh, hst, heo, hne]
    cases b
    · simp only [Bool.false_eq_true, ↓reduceIte]
      rw [touch_ent, touch_hs]
      simp [State.setEnt, State.dropHandle, upd, hwh, hw1]
    · simp [State.setEnt, State.dropHandle, upd, hwh, hw1]
  refine ⟨handoff m h, hrel.1, by simp [handoff, hq], ?_⟩
  have heo' : (release s h).1.entryOf wd = some (handoff m h) := by
    simp only [State.entryOf, hw2, hrel.1]
    have : (handoff m h).eid = wd.eid := by
      obtain ⟨m', hm', e⟩ := eeid_inv (hi.live w wd hw1); rw [hw2, hm] at hm'; cases hm'; exact e
    simp [this]
  simp [acquire, hrel.2, hw3, heo', handoff, hq]

/-- A sleeping waiter always waits for a live handle of somebody else on the same key that owns the lock
and is itself not waiting for the global lock or for another party on this key: it is a guard (its owner
can use and drop it) or a waiter that was already handed the lock (its next poll succeeds). Together
with `Theorem A` (the mutex a waiter sleeps on stays in the map: I1) this is "no library-made deadlock":
the only thing a waiter ever waits for is the release of the guard in front of it. -/
theorem C03_waits_only_for_holder (kind : Kind) (as : List Act) (w : Nat) (wd : Handle) (m : Entry) :
    let s := run (State.init kind) as
    s.hs w = some wd → wd.st = .queued → s.ent wd.key = some m → m.holder ≠ some w →
    ∃ g gd, m.holder = some g ∧ g ≠ w ∧ s.hs g = some gd ∧ gd.key = wd.key ∧
      (gd.st.isGuard = true ∨ (gd.st = .queued ∧ (acquire s g).2 = .bool true)) := by
  intro s hw hst hm hne
  have hi : Inv s := inv_reachable kind as
  have hwq : w ∈ m.queue := (hi.queue _ m hm w).2 ⟨by simp [hw], by simp [hw, hst], hne⟩
  cases hh : m.holder with
  | none => have := hi.freeNoQueue _ m hm hh; rw [this] at hwq; cases hwq
  | some g =>
    obtain ⟨hk, st, hs1, hs2⟩ := hi.holderLive _ m g hm hh
    obtain ⟨gd, e1, e2⟩ := hkey_inv hk
    obtain ⟨gd', e1', e2'⟩ := hst_inv hs1
    rw [e1] at e1'; cases e1'
    refine ⟨g, gd, rfl, fun e => hne (e ▸ hh), e1, e2, ?_⟩
    cases hgs : gd.st with
    | holding => left; rfl
    | stamped b => left; rfl
    | queued =>
      right; refine ⟨rfl, ?_⟩
      have he : m.eid = gd.eid := by
        obtain ⟨m', hm', e⟩ := eeid_inv (hi.live g gd e1); rw [e2, hm] at hm'; cases hm'; exact e
      have heo : s.entryOf gd = some m := by simp [State.entryOf, e2, hm, he]
      simp [acquire, e1, hgs, heo, hh]
    | replica => rw [← e2', hgs] at hs2; simp [HSt.mayHold] at hs2
    | failedTry => rw [← e2', hgs] at hs2; simp [HSt.mayHold] at hs2

/-- Three list facts behind "queue positions only move forward": a hand-off takes the head off the queue, the cancellation of
another waiter does not move `w` backwards, an arrival is appended behind `w`. (A statement about lists only; that the queue of
the model evolves by exactly these operations is in the action definitions, and the order of service over whole runs is
`C03_history_fifo`.) -/
theorem C03_rank (q : List Nat) (h w : Nat) (i : Nat) (hw : q[i]? = some w) (hne : w ≠ h) :
    (∀ m : Entry, (handoff m h).queue = m.queue.tail) ∧
    (∃ j, j ≤ i ∧ (q.erase h)[j]? = some w) ∧ ((q ++ [h])[i]? = some w) := by
  refine ⟨fun _ => rfl, ?_, ?_⟩
  · induction q generalizing i with
    | nil => simp at hw
    | cons a t ih =>
      by_cases e : a = h
      · subst e
        cases i with
        | zero => simp at hw; exact absurd hw.symm hne
        | succ i => exact ⟨i, by omega, by simpa using hw⟩
      · cases i with
        | zero => exact ⟨0, by omega, by simpa [List.erase_cons, e] using hw⟩
        | succ i =>
          obtain ⟨j, hj, hj'⟩ := ih i (by simpa using hw)
          exact ⟨j + 1, by omega, by simpa [List.erase_cons, e] using hj'⟩
  · rw [List.getElem?_append_left]
    · exact hw
    · exact (List.getElem?_eq_some_iff.1 hw).1

/-- Keys are independent: an action performed through a handle of key `k'` leaves the per-key mutex,
queue and value of every other key exactly as they were. -/
theorem C03_keys_independent (s : State) (h : Nat) (hd : Handle) (k : Nat) (hh : s.hs h = some hd) (hk : k ≠ hd.key) :
    (tryKey s h).1.ent k = s.ent k ∧ (enqueue s h).1.ent k = s.ent k ∧ (acquire s h).1.ent k = s.ent k ∧
    (release s h).1.ent k = s.ent k ∧ (cancel s h).1.ent k = s.ent k ∧ (cleanupFailed s h).1.ent k = s.ent k ∧
    (stamp s h).1.ent k = s.ent k ∧ ∀ op, (gop s h op).1.ent k = s.ent k := by
  refine ⟨?_, ?_, ?_, ?_, ?_, ?_, ?_, ?_⟩
  all_goals try intro op
  all_goals
    first
    | (unfold tryKey; simp only [hh])
    | (unfold enqueue; simp only [hh])
    | (unfold acquire; simp only [hh])
    | (unfold release; simp only [hh])
    | (unfold cancel; simp only [hh])
    | (unfold cleanupFailed; simp only [hh])
    | (unfold stamp; simp only [hh])
    | (unfold gop; simp only [hh])
  all_goals repeat' split
  all_goals (try simp only [])
  all_goals repeat' split
  all_goals simp [State.setEnt, State.setSt, State.dropHandle, State.removeKey, State.wedge, touch_ent, upd, hk]

/-- a handle that sleeps: queued on a per-key mutex that has not been handed to it -/
def Sleeping (s : State) (h : Nat) : Prop :=
  ∃ hd m, s.hs h = some hd ∧ hd.st = .queued ∧ s.ent hd.key = some m ∧ m.holder ≠ some h

/-- **No library-made deadlock, global form**: in every reachable state in which some handle is alive, some live
handle is NOT sleeping — it is a guard (its owner can use and drop it), a waiter that already owns the lock
(its next poll completes), or a handle whose next step needs no other party (`replica`, `failedTry`): the
library never produces a state in which everybody waits for somebody else. With clients that follow a
deadlock-free discipline (so that the owner of a non-sleeping handle is not itself blocked in another call
forever) and a fair scheduler, every waiter is eventually served (FIFO: `C03_rank`, hand-off: `C03_handoff`). -/
theorem C03_never_all_sleeping (kind : Kind) (as : List Act) (h : Nat) (hd : Handle) :
    let s := run (State.init kind) as
    s.hs h = some hd → ∃ g, (∃ gd, s.hs g = some gd) ∧ ¬ Sleeping s g := by
  intro s hh
  have hi : Inv s := inv_reachable kind as
  by_cases hs : Sleeping s h
  · obtain ⟨hd', m, e1, e2, e3, e4⟩ := hs
    obtain ⟨g, gd, a1, a2, a3, a4, a5⟩ := C03_waits_only_for_holder kind as h hd' m e1 e2 e3 e4
    refine ⟨g, ⟨gd, a3⟩, ?_⟩
    rintro ⟨gd', m', b1, b2, b3, b4⟩
    have hgd : gd' = gd := by
      have : (run (State.init kind) as).hs g = some gd := a3
      rw [this] at b1; exact (Option.some.inj b1).symm
    subst hgd
    have hm' : m' = m := by rw [a4, e3] at b3; exact (Option.some.inj b3).symm
    subst hm'
    exact b4 a1
  · exact ⟨h, ⟨hd, hh⟩, hs⟩

/-- **Keys are independent, operationally**: per-key operations (try, enqueue, acquire, every guard method, the unlock stamp) of two
handles on DIFFERENT keys commute — same resulting state whichever runs first, and each answers the same as if the other had
not happened. Holding, waiting for or operating on one key neither delays nor influences operations on another key. -/
theorem C03_per_key_ops_commute (o₁ o₂ : KeyOp) (h₁ k₁ h₂ k₂ : Nat) (hh : h₁ ≠ h₂) (hk : k₁ ≠ k₂) (s : State)
    (hs1 : hkey (s.hs h₁) = some k₁) (hs2 : hkey (s.hs h₂) = some k₂) :
    (step (step s (o₂.act h₂)).1 (o₁.act h₁)).1 = (step (step s (o₁.act h₁)).1 (o₂.act h₂)).1 ∧
    (step (step s (o₂.act h₂)).1 (o₁.act h₁)).2 = (step s (o₁.act h₁)).2 :=
  ⟨keyOps_commute o₁ o₂ h₁ k₁ h₂ k₂ hh hk s hs1 hs2, keyOps_out_indep o₁ o₂ h₁ k₁ h₂ k₂ hh hk s hs1 hs2⟩

/-- non-vacuity: two waiters behind a holder are served in arrival order -/
example :
    let s := run (State.init .hashMap) [.lookup 1 7, .lookup 2 7, .enqueue 2, .lookup 3 7, .enqueue 3, .stamp 1, .release 1]
    (acquire s 2).2 = .bool true ∧ (acquire s 3).2 = .bool false ∧
    (acquire (run s [.acquire 2, .stamp 2, .release 2]) 3).2 = .bool true := by decide


/-- History form of first come, first served (Theorem C + `history_fifo`): in the abstract history of every run of the core
model, a waiter `h₂` that started to wait for `k` while `h₁` was already waiting for it is not granted the lock
before `h₁` was granted it or gave up (was cancelled). -/
theorem C03_history_fifo (kind : Kind) (as : List Act) (k h₁ h₂ : Nat) (hne : h₁ ≠ h₂)
    (pre mid post : List SEv) (sp₁ : Spec)
    (hdec : evsRun (State.init kind) as = pre ++ SEv.wait h₂ k :: (mid ++ SEv.grant h₂ k :: post))
    (hpre : applyEvs Spec.init pre = some sp₁) (hin : h₁ ∈ sp₁.waiting k) :
    SEv.grant h₁ k ∈ mid ∨ SEv.leave h₁ k ∈ mid := by
  have hrun := lin_reachable kind as
  rw [hdec] at hrun
  obtain ⟨sp1', h1, h2⟩ := applyEvs_split pre _ _ _ hrun
  rw [hpre] at h1; cases h1
  simp only [applyEvs] at h2
  cases he : applyEv sp₁ (SEv.wait h₂ k) with
  | none => rw [he] at h2; cases h2
  | some sp2 =>
    rw [he] at h2
    have hnd := waiting_nodup pre Spec.init sp₁ hpre (by intro x; simp [Spec.init]) k
    exact history_fifo k h₁ h₂ hne _ sp2 _ h2 (ahead_after_wait k h₁ h₂ sp₁ sp2 hnd hin he) mid post rfl

/-- non-vacuity of `C03_history_fifo`: 2 and 3 wait for key 7 in this order and are granted it in this order -/
example :
    evsRun (State.init .hashMap)
      [.lookup 1 7, .lookup 2 7, .enqueue 2, .lookup 3 7, .enqueue 3, .stamp 1, .release 1, .acquire 2, .stamp 2, .release 2, .acquire 3] =
      [.acquire 1 7, .wait 2 7] ++ SEv.wait 3 7 :: ([.release 1 7, .grant 2 7, .release 2 7] ++ SEv.grant 3 7 :: []) ∧
    (∃ sp, applyEvs Spec.init [.acquire 1 7, .wait 2 7] = some sp ∧ 2 ∈ sp.waiting 7) := by
  refine ⟨by decide, _, rfl, by decide⟩

/-- Whenever somebody waits for a key, the specification enables either the release by the key's guard or the grant to the first
waiter. This is a property of every value of the specification's state type (a case split on `held k`), instantiated at the
abstraction of reachable states: it says that the specification has no per-key dead end, not that clients make progress. The
statements about the model are `C03_waits_only_for_holder` and `C03_handoff`; a thread-level theorem "programs that lock one key
at a time or in ascending order never end with every thread blocked" is **not proved** — that clause is covered by the scheduled
correspondence only (the oracle reports threads blocked forever under deadlock-free programs). -/
theorem C03_spec_never_stuck (kind : Kind) (as : List Act) (k : Nat)
    (hw : (absSpec (run (State.init kind) as)).waiting k ≠ []) :
    let sp := absSpec (run (State.init kind) as)
    (∃ h, sp.held k = some h ∧ (applyEv sp (.release h k)).isSome) ∨
    (∃ h, (sp.waiting k).head? = some h ∧ (applyEv sp (.grant h k)).isSome) :=
  spec_never_stuck _ k hw

/-- **A grant cannot be revoked** (every interleaving; the core model has no wakers — that the *notification* of a stream item is not
lost is `C11_item_ready_iff_obtainable`): once the mutex of its key has been handed to a pending acquisition
`w` (`hold`: the tokio mutex names `w` as its owner), no action performed for another handle — a lookup, a scan of the whole map,
an eviction, a failing `try_lock`, another waiter's cancellation, any guard method, a release on any key — changes `w`'s record or
takes the ownership away again: it stays `w`'s until `w` itself is polled or dropped. `a.actor ≠ some w ∧ w ∉ a.fresh` says
precisely "the action is not `w`'s own and does not (re)create `w`". -/
theorem C03_grant_stable (kind : Kind) (as : List Act) (a : Act) (w : Nat) (wd : Handle) :
    let s := run (State.init kind) as
    s.hs w = some wd → hold s w wd.key = true → a.actor ≠ some w → w ∉ a.fresh →
    (step s a).1.hs w = some wd ∧ hold (step s a).1 w wd.key = true := by
  intro s hw hh ha hf
  refine ⟨by rw [hs_step_other s a w ha hf, hw], ?_⟩
  rw [hold_step_other s a w wd (inv_reachable kind as) hw ha hf, hh, Bool.true_or]

theorem grant_stable_run (as : List Act) : ∀ (s : State), Inv s → ∀ (w : Nat) (wd : Handle), s.hs w = some wd →
    hold s w wd.key = true → (∀ a ∈ as, a.actor ≠ some w ∧ w ∉ a.fresh) →
    (run s as).hs w = some wd ∧ hold (run s as) w wd.key = true := by
  induction as with
  | nil => intro s _ w wd h1 h2 _; exact ⟨h1, h2⟩
  | cons a as ih =>
    intro s hi w wd h1 h2 hall
    have ha := hall a (by simp)
    have e1 : (step s a).1.hs w = some wd := by rw [hs_step_other s a w ha.1 ha.2, h1]
    have e2 : hold (step s a).1 w wd.key = true := by
      rw [hold_step_other s a w wd hi h1 ha.1 ha.2, h2, Bool.true_or]
    have := ih (step s a).1 (inv_step s a hi) w wd e1 e2 (fun b hb => hall b (List.mem_cons_of_mem _ hb))
    simpa [run, List.foldl] using this

/-- **… for as long as the others run**: the grant survives every finite run of other parties' actions, in any interleaving — it
ends only by an action of `w` itself (its poll, which makes it the guard, or its cancellation, which hands the mutex on). -/
theorem C03_grant_stable_run (kind : Kind) (pre as : List Act) (w : Nat) (wd : Handle) :
    let s := run (State.init kind) pre
    s.hs w = some wd → hold s w wd.key = true → (∀ a ∈ as, a.actor ≠ some w ∧ w ∉ a.fresh) →
    (run s as).hs w = some wd ∧ hold (run s as) w wd.key = true :=
  fun h1 h2 hall => grant_stable_run as _ (inv_reachable kind pre) w wd h1 h2 hall

/-- **Ownership arrives by hand-off only**: if the mutex of `w`'s key is `w`'s after somebody else's action and was not before, that
action was the release of the key's guard (or the clean-up of a cancelled owner-to-be) that completed normally, and `w` was the oldest
waiter of that key. Together with `C03_handoff` (the release *does* hand over) and `C03_grant_stable` this is "a waiter acquires the
key once the guard it waits for has been dropped" for every schedule of the other parties. -/
theorem C03_only_handoff_grants (kind : Kind) (as : List Act) (a : Act) (w : Nat) (wd : Handle) :
    let s := run (State.init kind) as
    s.hs w = some wd → a.actor ≠ some w → w ∉ a.fresh →
    hold s w wd.key = false → hold (step s a).1 w wd.key = true → handedTo s a = some w := by
  intro s hw ha hf h0 h1
  rw [hold_step_other s a w wd (inv_reachable kind as) hw ha hf, h0, Bool.false_or] at h1
  simpa using h1

/-- non-vacuity: 2 waits behind 1 for key 7; 1's release hands the mutex to 2; then a third party's lookup, failed try and clean-up
on the same key, and a scan of the whole map, leave it with 2 -/
example :
    let s := run (State.init .hashMap) [.lookup 1 7, .gop 1 (.insert 5), .lookup 2 7, .enqueue 2, .stamp 1]
    hold s 2 7 = false ∧ handedTo s (.release 1) = some 2 ∧
    hold (run s [.release 1]) 2 7 = true ∧
    hold (run s [.release 1, .lookup 3 7, .tryKey 3, .cleanupFailed 3, .snapshot [10, 11]]) 2 7 = true := by
  decide

/-- **"A client whose own lock order is deadlock-free never deadlocks inside the library"** — state form, every reachable state of every
interleaving, every grouping `owner` of handles into clients (threads, tasks, one client holding many guards, …): if the clients follow
ordered acquisition (`Ordered`: whoever sleeps on key `k` owns mutexes of smaller keys only; "one key at a time" is the special case)
and anybody sleeps, then some key with sleepers is owned by a handle whose client sleeps nowhere. So the set of clients is never
entirely asleep through the library's doing: that client can go on, and its release hands the mutex to the oldest sleeper (`C03_handoff`),
who keeps it (`C03_grant_stable`). Eventual progress additionally needs a fair scheduler and clients that do release — not a theorem.
Scope: `Ordered` is a hypothesis on the state, for a grouping the reader supplies; no theorem derives it from program texts. It counts
every ownership the library assigns, also a waiter or stream item that was handed a mutex and not polled since — so the consumer of a
`lock_all_entries` stream that keeps yielded guards while other items are queued is *not* `Ordered` as one client (items are locked
in map order, not key order); for streams the corresponding statement is `C11_pending_means_blocked`: the stream itself never
sleeps, it answers `Pending` exactly when every remaining item is queued behind somebody else. -/
theorem C03_ordered_no_deadlock (kind : Kind) (as : List Act) (owner : Nat → Nat) (w : Nat) :
    let s := run (State.init kind) as
    Ordered s owner → blockedOn s w →
    ∃ h hd, s.hs h = some hd ∧ hold s h hd.key = true ∧ hasWaiter s hd.key = true ∧ ¬ ClientBlocked s owner (owner h) :=
  fun hord hb => ordered_no_deadlock _ (inv_reachable kind as) owner hord w hb

/-- non-vacuity: client 0 owns guard 1 (key 5) and sleeps with acquisition 3 on key 9, which client 1 owns with guard 2: ordered
(5 < 9), client 0 sleeps, client 1 does not -/
example :
    let s := run (State.init .hashMap) [.lookup 1 5, .lookup 2 9, .lookup 3 9, .enqueue 3]
    let owner : Nat → Nat := fun h => if h = 2 then 1 else 0
    Ordered s owner ∧ blockedOn s 3 ∧ ClientBlocked s owner 0 ∧ ¬ ClientBlocked s owner 1 := by
  intro s owner
  have hs : ∀ w, s.hs w = if w = 3 then some ⟨9, 1, .queued⟩ else if w = 2 then some ⟨9, 1, .holding⟩
      else if w = 1 then some ⟨5, 0, .holding⟩ else none := by
    intro w
    by_cases h3 : w = 3
    · subst h3; decide
    · by_cases h2 : w = 2
      · subst h2; decide
      · by_cases h1 : w = 1
        · subst h1; decide
        · simp only [h3, h2, h1, ↓reduceIte]
          simp [s, run, step, lookup, enqueue, State.init, upd, State.clone, State.touch, State.setSt, State.setEnt, State.entryOf, h1, h2, h3]
  have hb3 : blockedOn s 3 := ⟨⟨9, 1, .queued⟩, by decide, rfl, by decide⟩
  refine ⟨?_, hb3, ⟨3, rfl, hb3⟩, ?_⟩
  · intro w wd h1 h2 h3 h hd ho h4 h5
    have hw : w = 3 := by
      rw [hs w] at h1
      by_cases e3 : w = 3
      · exact e3
      · simp only [e3, ↓reduceIte] at h1
        split at h1
        · cases h1; cases h2
        · split at h1
          · cases h1; cases h2
          · cases h1
    subst hw
    have hwd : wd = ⟨9, 1, .queued⟩ := by
      have := hs 3; simp only [↓reduceIte] at this; rw [this] at h1; cases h1; rfl
    subst hwd
    have hne2 : h ≠ 2 := by
      intro e; subst e; simp [owner] at ho
    rw [hs h] at h4
    by_cases e3 : h = 3
    · subst e3; simp only [↓reduceIte] at h4; cases h4
      have : hold s 3 9 = false := by decide
      simp only [] at h5; rw [this] at h5; cases h5
    · simp only [e3, hne2, ↓reduceIte] at h4
      split at h4
      · cases h4; decide
      · cases h4
  · rintro ⟨w, ho, wd, b1, b2, b3⟩
    have hw : w = 2 := by
      by_cases e : w = 2
      · exact e
      · simp [owner, e] at ho
    subst hw
    have := hs 2; simp only [] at this
    rw [this] at b1; simp at b1; rw [← b1] at b2; cases b2

/-- **A plain lock call looks at its own key only** — in every state reachable by any sequence of API calls (other keys held,
awaited, pinned by stream items or by suspended calls in any way): `blocking_lock`/`async_lock` without a limit gets its guard at
once exactly when *its* key is free in the atomic specification, and waits (first poll `Pending`) exactly when it is not; `try_lock`
returns a guard under the same condition. What is pending on other keys never enters the answer. -/
theorem C03_plain_lock_only_own_key (kind : Kind) (cs : List Call) (h k h0 : Nat) :
    let a := cs.foldl (fun a c => (a.exec c).1) (Api.init kind)
    a.s.hs h = none →
    ((a.exec (.lock .wait h k .none h0)).2.res.isGuard = true ↔ (absSpec a.s).free k = true) ∧
    ((match (a.exec (.lock .wait h k .none h0)).2.res with | .pending => True | _ => False) ↔ (absSpec a.s).free k = false) ∧
    ((a.exec (.lock .try h k .none h0)).2.res.isGuard = true ↔ (absSpec a.s).free k = true) := by
  intro a hf
  have hi := (ainv_execs cs _ (ainv_init kind)).inv
  exact ⟨(lock_wait_plain a hi h k h0 hf).1, (lock_wait_plain a hi h k h0 hf).2, lock_try_plain a hi h k h0 hf⟩

/-- non-vacuity: key 1 held by guard 1 with waiter 2 queued; a wait on key 1 is pending, a wait on key 2 gets its guard -/
example :
    let a0 : Api := Api.init .hashMap
    let a1 := ((a0.exec (.lock .wait 1 1 .none 100)).1.exec (.lock .wait 2 1 .none 100)).1
    (a1.exec (.lock .wait 3 1 .none 100)).2.res.isGuard = false ∧ (a1.exec (.lock .wait 3 2 .none 100)).2.res.isGuard = true ∧
    (absSpec a1.s).free 1 = false ∧ (absSpec a1.s).free 2 = true := by decide

/-- **A pending acquisition is served exactly in its turn** — public-call level, every state reachable by any sequence of API
calls: polling a client's pending `async_lock` (handle `h` queued on its key; not an item of a stream, no suspended call under that
id) completes with the guard **exactly when** the atomic specification has no guard for the key and `h` first in its FIFO, and answers
`Pending` in every other case — never an error, never out of turn, whatever is going on on other keys. -/
theorem C03_poll_served_in_turn (kind : Kind) (cs : List Call) (h : Nat) (hd : Handle) :
    let a := cs.foldl (fun a c => (a.exec c).1) (Api.init kind)
    a.s.hs h = some hd → hd.st = .queued → a.ownedByStream h = false → a.susp.lookup h = none →
    ((a.exec (.poll h)).2.res.isGuard = true ↔
      ((absSpec a.s).held hd.key = none ∧ ((absSpec a.s).waiting hd.key).head? = some h)) ∧
    ((match (a.exec (.poll h)).2.res with | .pending => True | _ => False) ↔
      ¬ ((absSpec a.s).held hd.key = none ∧ ((absSpec a.s).waiting hd.key).head? = some h)) := by
  intro a hh hq hos hsu
  exact poll_plain a (ainv_execs cs _ (ainv_init kind)).inv h hd hh hq hos hsu

/-- non-vacuity: guard 1 on key 7, waiters 2 then 3; after guard 1 is dropped, polling 3 is `Pending`, polling 2 gets the guard -/
example :
    let a0 : Api := Api.init .hashMap
    let a := ((((a0.exec (.lock .wait 1 7 .none 100)).1.exec (.lock .wait 2 7 .none 100)).1.exec (.lock .wait 3 7 .none 100)).1.exec (.drop 1)).1
    hst (a.s.hs 3) = some .queued ∧ a.ownedByStream 3 = false ∧ a.susp.lookup 3 = none ∧
    (a.exec (.poll 3)).2.res.isGuard = false ∧ (a.exec (.poll 2)).2.res.isGuard = true := by decide

/-- **Dropping a guard frees the key for exactly the next in line** — public-call level, every reachable API state: when `drop(guard)`
of a client's guard `h` for key `k` answers `ok`, the specification had `h` as the guard of `k`, and afterwards has no guard for `k`, the
same FIFO of waiters for `k`, and everything else (all values, all other keys' guards and waiters) unchanged. With
`C03_poll_served_in_turn`: the first waiter's next poll gets the guard, nobody else's does — no wake-up is lost at this level. -/
theorem C03_drop_frees_for_next (kind : Kind) (cs : List Call) (h : Nat) (hd : Handle) :
    let a := cs.foldl (fun a c => (a.exec c).1) (Api.init kind)
    a.s.hs h = some hd → hd.st = .holding → a.ownedBySusp h = false →
    (match (a.exec (.drop h)).2.res with | .ok => True | _ => False) →
    absSpec (a.exec (.drop h)).1.s = { absSpec a.s with held := upd (absSpec a.s).held hd.key none } ∧
    (absSpec a.s).held hd.key = some h := by
  intro a hh hst1 hos hok
  exact drop_releases a (ainv_execs cs _ (ainv_init kind)).inv h hd hh hst1 hos hok

/-- non-vacuity: guard 1 on key 7 with waiter 2 queued; the drop answers `ok` -/
example :
    let a := (((Api.init .hashMap).exec (.lock .wait 1 7 .none 100)).1.exec (.lock .wait 2 7 .none 100)).1
    hst (a.s.hs 1) = some .holding ∧ a.ownedBySusp 1 = false ∧
    (match (a.exec (.drop 1)).2.res with | .ok => true | _ => false) = true := by decide

end Lockable
