/-
C14 — LockPool: exclusive keyed locks with exact locked-key reporting.
`LockPool<K>` is `LockableHashMap<K, ()>` without limit; its API (blocking_lock, async_lock, try_lock,
guard drop, cancellation, num_locked, locked_keys) uses every atomic action except guard methods,
eviction scans, expiry and streams.
-/
import Lockable.Props.C01
import Lockable.Props.C04
namespace Lockable

/-- the atomic actions the LockPool API can perform -/
def PoolAct : Act → Prop
  | .lookup _ _ | .tryKey _ | .trySpurious _ | .enqueue _ | .enqueueLate _ | .acquire _
  | .cancel _ | .cleanupFailed _ | .stamp _ | .release _ | .count | .keys | .reorder _ => True
  | _ => False

theorem pool_no_values (as : List Act) (k : Nat) : ∀ (s : State), Inv s → (∀ a ∈ as, PoolAct a) →
    absVal (run s as) k = absVal s k := by
  induction as with
  | nil => intro s _ _; rfl
  | cons a as ih =>
    intro s hi hp
    have h1 : absVal (step s a).1 k = absVal s k :=
      absVal_step s a k hi (fun h op e => by have := hp a (by simp); rw [e] at this; exact absurd this (by simp [PoolAct]))
    have h2 := ih (step s a).1 (inv_step s a hi) (fun b hb => hp b (List.mem_cons_of_mem _ hb))
    simp only [run, List.foldl] at h2 ⊢
    rw [h2, h1]

/-- at most one guard per key at a time (instance of C01) -/
theorem C14_exclusive (as : List Act) (h₁ h₂ k : Nat) :
    IsGuard (run (State.init .pool) as) h₁ k → IsGuard (run (State.init .pool) as) h₂ k → h₁ = h₂ :=
  C01_exclusive .pool as h₁ h₂ k

/-- `num_locked()` / `locked_keys()` = exactly the keys that are held or in the middle of being acquired or released -/
theorem C14_keys (as : List Act) (hp : ∀ a ∈ as, PoolAct a) (k : Nat) :
    let s := run (State.init .pool) as
    k ∈ s.order ↔ Referenced s k := by
  intro s
  have h := C04_keys_exact .pool as k
  have hv : absVal s k = none := by
    have := pool_no_values as k (State.init .pool) (inv_init .pool) hp
    rw [this]; rfl
  simp only [] at h
  rw [h]
  constructor
  · rintro (h | h)
    · exact absurd hv h
    · exact h
  · exact Or.inr

/-- both are empty whenever no guard or pending call exists -/
theorem C14_quiescent_empty (as : List Act) (hp : ∀ a ∈ as, PoolAct a) :
    let s := run (State.init .pool) as
    (∀ h, s.hs h = none) → s.order = [] ∧ (count s).2 = .nat 0 := by
  intro s hq
  have he : s.order = [] := by
    apply List.eq_nil_iff_forall_not_mem.2
    intro k hk
    obtain ⟨h, hh⟩ := (C14_keys as hp k).1 hk
    have e : (run (State.init .pool) as).hs h = none := hq h
    rw [e] at hh; simp at hh
  have hi : Inv s := inv_reachable .pool as
  simp [he, count, hi.notWedged]

/-- `try_lock` returns a guard when the key is neither held nor awaited (no guard and no waiter on it),
and `None` when it is held -/
theorem C14_try (as : List Act) (h : Nat) (hd : Handle) :
    let s := run (State.init .pool) as
    s.hs h = some hd → hd.st = .replica →
    ((∀ x, ¬ IsGuard s x hd.key) ∧ (∀ x, ¬ (hkey (s.hs x) = some hd.key ∧ hst (s.hs x) = some .queued)) →
      (tryKey s h).2 = .bool true ∧ IsGuard (tryKey s h).1 h hd.key) ∧
    ((∃ x, IsGuard s x hd.key) → (tryKey s h).2 = .bool false) := by
  intro s hh hst
  have hi : Inv s := inv_reachable .pool as
  obtain ⟨m, hm, he⟩ := eeid_inv (hi.live h hd hh)
  have heo : s.entryOf hd = some m := by simp [State.entryOf, hm, he]
  constructor
  · intro ⟨hng, hnq⟩
    have hfree : m.holder = none := by
      cases hho : m.holder with
      | none => rfl
      | some x =>
        obtain ⟨hk, st, hs1, hs2⟩ := hi.holderLive _ m x hm hho
        obtain ⟨xd, e1, e2⟩ := hkey_inv hk
        obtain ⟨xd', e1', e2'⟩ := hst_inv hs1
        rw [e1] at e1'; cases e1'
        cases hxs : xd.st with
        | queued => exact absurd ⟨hk, by simp [e1, hxs]⟩ (hnq x)
        | holding => exact absurd ⟨xd, e1, e2, by simp [hxs, HSt.isGuard]⟩ (hng x)
        | stamped b => exact absurd ⟨xd, e1, e2, by simp [hxs, HSt.isGuard]⟩ (hng x)
        | replica => rw [← e2', hxs] at hs2; simp [HSt.mayHold] at hs2
        | failedTry => rw [← e2', hxs] at hs2; simp [HSt.mayHold] at hs2
    simp [tryKey, hh, hst, heo, hfree, IsGuard, State.setSt, State.setEnt, upd, HSt.isGuard]
  · intro ⟨x, hx⟩
    exact (C01_second_waits .pool as x h hd hx hh hst).1

/-- non-vacuity: lock, queue a waiter, unlock: the key stays reported until the waiter is done -/
example :
    let s := run (State.init .pool) [.lookup 1 3, .lookup 2 3, .enqueue 2, .stamp 1, .release 1]
    s.order = [3] ∧ (run s [.acquire 2, .stamp 2, .release 2]).order = [] := by decide

end Lockable
