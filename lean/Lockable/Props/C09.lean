/-
C09 — the LRU cache offers least-recently-used entries for eviction first.
Ghost `last k` = index of the last action that moved `k` to the most-recently-used end.
-/
import Lockable.Proofs.Recency
import Lockable.Props.C07
namespace Lockable

/-- For every history of an lru container, the iteration order (= the order in which the eviction scan looks
at entries) is strictly sorted by the time of the last touch. Which values the entries hold and how often
they were used before does not matter: the statement quantifies over all histories. -/
theorem C09_order_sorted (as : List Act) :
    let g := runG (GState.init .lru) as
    g.s.order.Pairwise (fun a b => g.last a < g.last b) := by
  intro g
  exact (sorted_runG as (GState.init .lru) rfl (inv_init .lru) ⟨by simp [GState.init, State.init], fun _ => Nat.le_refl _⟩).1

/-- **A key is touched only at the begin or at the end of a use of that key**: by the lookup of a lock call for it
(any of the eight variants; also when the call then fails, waits or is cancelled), or by the release of a
guard for it that leaves no value. Guards handed out by `lock_all_entries`, by the expiry call or to an
eviction callback do not go through a lookup and do not refresh recency; neither does a cancellation. -/
theorem C09_touch_in_use (s : State) (a : Act) (k : Nat) (ht : touchedBy s a = some k) :
    (∃ h, a = .lookup h k) ∨ (∃ h n hids, a = .limitLookup h k n hids) ∨
    (∃ h hd, a = .release h ∧ s.hs h = some hd ∧ hd.key = k ∧ hd.st = .stamped false) := by
  cases a <;> simp only [touchedBy] at ht
  case lookup h k' => split at ht <;> simp at ht; subst ht; exact Or.inl ⟨h, rfl⟩
  case limitLookup h k' n hids => split at ht <;> simp at ht; subst ht; exact Or.inr (Or.inl ⟨h, n, hids, rfl⟩)
  case release h =>
    split at ht; · cases ht
    split at ht
    · rename_i hd hh
      split at ht
      · rename_i hc; simp at ht; subst ht; exact Or.inr (Or.inr ⟨h, hd, rfl, hh, rfl, hc.1⟩)
      · cases ht
    · cases ht
  all_goals cases ht

/-- **Least recently used first**: the guards offered to the eviction callback are the first evictable entries
in last-touch order; if A and B are both evictable, A was touched before B and B is offered, then A is offered too — an
unlocked entry is never passed over in favour of one that was touched later — and the offered keys come in last-touch order.
(The step from the property's "every use of A ended before the last use of B began" to "A was touched before B" is
`C09_touch_in_use` — touches happen only at the lookup of a lock call and at the release of a valueless guard — plus the reading
that guards obtained in bulk (stream, expiry, callback) are not uses that refresh recency; it is not a theorem of its own.) -/
theorem C09_lru_first (as : List Act) (h k n : Nat) (hids cands : List Nat) (A B : Nat) :
    let g := runG (GState.init .lru) as
    g.s.freshList (h :: hids) = true → g.s.order.length ≤ hids.length → 1 ≤ n →
    (limitLookup g.s h k n hids).2 = .list cands →
    let offered := cands.map (keyOfH (limitLookup g.s h k n hids).1)
    offered.Pairwise (fun a b => g.last a < g.last b) ∧
    (A ∈ g.s.order → eligB g.s A = true → g.last A < g.last B → B ∈ offered → A ∈ offered) := by
  intro g hf hlen hn hout offered
  have hs := C09_order_sorted as
  have hgs : g.s = run (State.init .lru) as := runG_s as (GState.init .lru)
  have hc := C07_candidates .lru as h k n hids cands
  simp only [] at hc hs
  rw [← hgs] at hc
  obtain ⟨_, hmap, _, _⟩ := hc hf hlen hn hout
  have hoff : offered = (g.s.order.filter (eligB g.s)).take (g.s.order.length - (n - 1)) := hmap
  rw [hoff]
  constructor
  · exact (hs.sublist List.filter_sublist).sublist (List.take_sublist _ _)
  · intro hA hel hlt hB
    exact take_filter_closed g.s.order g.last (eligB g.s) _ hs A B hA hel hlt hB

/-- non-vacuity: 1,2,3 inserted in this order, then 1 is used again: with limit 2 the callback gets 2 then 3
(not 1), although 1 was inserted first -/
example :
    let ins (h k : Nat) : List Act := [.lookup h k, .gop h (.insert 7), .stamp h, .release h]
    let g := runG (GState.init .lru) (ins 1 1 ++ ins 2 2 ++ ins 3 3 ++ [.lookup 4 1, .stamp 4, .release 4])
    g.s.order = [2, 3, 1] ∧ (limitLookup g.s 9 5 2 [100, 101, 102]).2 = .list [100, 101] ∧
    keyOfH (limitLookup g.s 9 5 2 [100, 101, 102]).1 100 = 2 ∧ g.last 2 < g.last 3 ∧ g.last 3 < g.last 1 := by decide

end Lockable
