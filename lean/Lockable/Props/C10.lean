/-
C10 — idle-time expiry is exact and free of side effects.
`expire d` = `lock_entries_unlocked_for_at_least(d)`; time is the mock clock; the stamp of an entry is
written by `stamp` (`on_unlock`, every guard drop) and by a guard method that stores a fresh value.
-/
import Lockable.Proofs.Expire
namespace Lockable

/-- unlocked, valued, and the last guard was dropped at least `d` ago -/
def Idle (s : State) (d k : Nat) : Prop :=
  ∃ m st, s.ent k = some m ∧ m.holder = none ∧ m.value = some st ∧ st.stamp + d ≤ s.now

/-- **Exact** (clock read and scan with nothing in between, e.g. a single caller): in every reachable state, for every
duration `d` (0, anything, larger than the age of the clock = `Duration::MAX`), the call returns a guard for exactly the idle
entries — none younger, none missing, none locked, none without value, each once. -/
theorem C10_exact (kind : Kind) (as : List Act) (d : Nat) (hids : List Nat) :
    let s := run (State.init kind) as
    s.freshList hids = true → s.order.length ≤ hids.length →
    ∃ hs, (expire s d hids).2 = .list hs ∧ hs.Nodup ∧
      (∀ h ∈ hs, ∃ k, Idle s d k ∧ hkey ((expire s d hids).1.hs h) = some k ∧ hst ((expire s d hids).1.hs h) = some .holding) ∧
      (∀ k, Idle s d k → ∃ h ∈ hs, hkey ((expire s d hids).1.hs h) = some k) := by
  intro s hf hlen
  have hi : Inv s := inv_reachable kind as
  have hfl := freshL_of s hids hf
  unfold expire expireAt cutoffOf
  simp only [hi.notWedged, Bool.false_eq_true, ↓reduceIte]
  by_cases hgt : d > s.now
  · simp only [hgt, ↓reduceIte]
    refine ⟨[], rfl, List.nodup_nil, by simp, ?_⟩
    intro k ⟨m, st, _, _, _, hle⟩; omega
  · simp only [hgt, ↓reduceIte]
    have hle := hgt
    have hle' : d ≤ s.now := by omega
    have := expireLoop_exact s.order s hids (s.now - d) [] hi.nodup hfl.2 hlen (by simp)
    obtain ⟨a1, a2, _⟩ := this
    have hconv : ∀ k, Elig s (s.now - d) k ↔ Idle s d k := by
      intro k; unfold Elig Idle
      constructor
      · rintro ⟨m, st, e1, e2, e3, e4⟩; exact ⟨m, st, e1, e2, e3, by omega⟩
      · rintro ⟨m, st, e1, e2, e3, e4⟩; exact ⟨m, st, e1, e2, e3, by omega⟩
    refine ⟨_, rfl, ?_, ?_, ?_⟩
    · -- distinct handles: all come from the duplicate-free supply, each with its own key
      have hsub : ∀ h ∈ (expireLoop s s.order hids (s.now - d) []).2, h ∈ hids := by
        intro h hh; rcases a1 h hh with l | r
        · cases l
        · exact r.1
      exact expireLoop_nodup s.order s hids (s.now - d) [] hfl.2 (by simp) List.nodup_nil
    · intro h hh
      rcases a1 h hh with l | ⟨_, k, _, e1, e2, e3⟩
      · cases l
      · exact ⟨k, (hconv k).1 e1, e2, e3⟩
    · intro k hk
      have hko : k ∈ s.order := by
        obtain ⟨m, _, e, _⟩ := hk; exact (hi.keys k).2 (by simp [e])
      obtain ⟨h, hh, _, e⟩ := a2 k hko ((hconv k).2 hk)
      exact ⟨h, hh, e⟩

/-- **Exact under concurrency**: the library reads the clock *before* it takes the global lock for the scan, so other
threads may act in between. Whatever they did: in the state in which the scan runs, it returns a guard for exactly the
entries that are unlocked, have a value and whose last guard was dropped at or before the cut-off computed from that
earlier clock read — each once, none locked, none without value. -/
theorem C10_exact_at (kind : Kind) (as : List Act) (c : Nat) (hids : List Nat) :
    let s := run (State.init kind) as
    s.freshList hids = true → s.order.length ≤ hids.length →
    ∃ hs, (expireAt s (some c) hids).2 = .list hs ∧ hs.Nodup ∧
      (∀ h ∈ hs, ∃ k, Elig s c k ∧ hkey ((expireAt s (some c) hids).1.hs h) = some k ∧
        hst ((expireAt s (some c) hids).1.hs h) = some .holding) ∧
      (∀ k, Elig s c k → ∃ h ∈ hs, hkey ((expireAt s (some c) hids).1.hs h) = some k) := by
  intro s hf hlen
  have hi : Inv s := inv_reachable kind as
  have hfl := freshL_of s hids hf
  unfold expireAt
  simp only [hi.notWedged, Bool.false_eq_true, ↓reduceIte]
  obtain ⟨a1, a2, _⟩ := expireLoop_exact s.order s hids c [] hi.nodup hfl.2 hlen (by simp)
  refine ⟨_, rfl, expireLoop_nodup s.order s hids c [] hfl.2 (by simp) List.nodup_nil, ?_, ?_⟩
  · intro h hh
    rcases a1 h hh with l | ⟨_, k, _, e1, e2, e3⟩
    · cases l
    · exact ⟨k, e1, e2, e3⟩
  · intro k hk
    have hko : k ∈ s.order := by
      obtain ⟨m, _, e, _⟩ := hk; exact (hi.keys k).2 (by simp [e])
    obtain ⟨h, hh, _, e⟩ := a2 k hko hk
    exact ⟨h, hh, e⟩

/-- … and a duration that reaches back before the clock's origin (`checked_sub` fails: `Duration::MAX`) returns nothing
and changes nothing. -/
theorem C10_before_origin (s : State) (hids : List Nat) (hw : s.wedged = false) : expireAt s none hids = (s, .list []) := by
  simp [expireAt, hw]

/-- What the earlier clock read means at scan time: if the clock was read at `t₀ ≤ now` and `d ≤ t₀`, every entry the scan
returns has been idle for at least `d` *now* (none younger), and every entry idle for at least `d` plus the time that passed
since the clock read is returned (the only entries "missing" are those that became old enough after the clock was read). -/
theorem C10_read_then_scan (s : State) (t₀ d : Nat) (h₀ : t₀ ≤ s.now) (hd : d ≤ t₀) :
    (∀ k, Elig s (t₀ - d) k → Idle s d k) ∧ (∀ k, Idle s (d + (s.now - t₀)) k → Elig s (t₀ - d) k) := by
  constructor
  · rintro k ⟨m, st, e1, e2, e3, e4⟩; exact ⟨m, st, e1, e2, e3, by omega⟩
  · rintro k ⟨m, st, e1, e2, e3, e4⟩; exact ⟨m, st, e1, e2, e3, by omega⟩

/-- **No side effects**: the call changes no stored value, no stamp (the idle age of every entry it
does not return keeps counting), not the iteration order and not the clock. -/
theorem C10_no_side_effect (s : State) (d : Nat) (hids : List Nat) (k : Nat) :
    absSt (expire s d hids).1 k = absSt s k ∧ (expire s d hids).1.order = s.order ∧ (expire s d hids).1.now = s.now := by
  unfold expire expireAt
  split
  · exact ⟨rfl, rfl, rfl⟩
  · split
    · exact ⟨rfl, rfl, rfl⟩
    · exact ⟨absSt_expireLoop _ k _ _ _ _, expireLoop_order _ _ _ _ _, expireLoop_now _ _ _ _ _⟩

/-- no guard method and no unlock stamp on a guard *of key `k`* along the run (anything may happen to other keys) -/
def NoTouchOn (k : Nat) : State → List Act → Prop
  | _, [] => True
  | s, a :: as =>
    ((∀ h op, a = .gop h op → hkey (s.hs h) ≠ some k) ∧ (∀ h, a = .stamp h → hkey (s.hs h) ≠ some k)) ∧
      NoTouchOn k (step s a).1 as

/-- The stamp of an entry only changes when a guard *for that key* is dropped (`stamp`) or stores a value: the idle age of an
entry nobody locks keeps counting — across any schedule of other actions, including guard methods and unlocks on every other
key, clock ticks and expiry calls — so a later expiry call finds it (`C10_exact_at` at the later state). -/
theorem C10_age_keeps_counting (as : List Act) (k : Nat) : ∀ (s : State), Inv s → NoTouchOn k s as →
    absSt (run s as) k = absSt s k := by
  induction as with
  | nil => intro s _ _; rfl
  | cons a as ih =>
    intro s hi hne
    have h1 := absSt_step s a k hi hne.1.1 hne.1.2
    have h2 := ih (step s a).1 (inv_step s a hi) hne.2
    simp only [run, List.foldl] at h2 ⊢
    rw [h2, h1]

/-- every guard drop on an lru entry with a value records the current time -/
theorem C10_stamp_on_unlock (s : State) (h : Nat) (hd : Handle) (m : Entry) (st : Stored) :
    s.kind = .lru → s.hs h = some hd → hd.st = .holding → s.entryOf hd = some m → m.value = some st →
    absSt (stamp s h).1 hd.key = some { st with stamp := s.now } := by
  intro hk hh hst hm hv
  have hm1 := (entryOf_some hm).1
  simp [stamp, hh, hst, hm, hk, hv, absSt, stOf, State.setEnt, State.setSt, upd]

/-- non-vacuity, the defect D2/D4 scenario: lock A, lock B, drop B, +10, drop A, +1; expire(5) returns
exactly B, and asking again does not change A's stamp -/
example :
    let s := run (State.init .lru)
      [.lookup 1 1, .gop 1 (.insert 10), .lookup 2 2, .gop 2 (.insert 20), .stamp 2, .release 2, .tick 10,
       .stamp 1, .release 1, .tick 1]
    (expire s 5 [100, 101]).2 = .list [100] ∧ hkey ((expire s 5 [100, 101]).1.hs 100) = some 2 ∧
    absSt (expire s 5 [100, 101]).1 1 = some ⟨10, 10⟩ := by decide

end Lockable
