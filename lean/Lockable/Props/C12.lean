/-
C12 — into_entries_unordered returns every value exactly once.
-/
import Lockable.Proofs.NoPanic
namespace Lockable

/-- After every history that ends with no guard, future or stream alive (including histories with failed
try_locks, evictions, cancelled acquisitions and dropped streams — they are all action sequences),
consuming the container yields exactly the valued pairs, in iteration order, and does not panic. -/
theorem C12_exact (kind : Kind) (as : List Act) :
    let s := run (State.init kind) as
    (∀ h, s.hs h = none) → (intoEntries s).2 = .pairs (valuedPairs s s.order) := by
  intro s hq
  have hi : Inv s := inv_reachable kind as
  simp only [intoEntries, hi.notWedged, Bool.false_eq_true, ↓reduceIte]
  rw [intoLoop_exact s hi hq s.order [] (fun k hk => hk)]
  rfl

/-- each key with a value occurs, with its current value -/
theorem C12_complete (s : State) (ks : List Nat) (k v : Nat) :
    k ∈ ks → absVal s k = some v → (k, v) ∈ valuedPairs s ks := by
  induction ks with
  | nil => intro h; cases h
  | cons a t ih =>
    intro hk hv
    unfold valuedPairs
    by_cases e : k = a
    · subst e; simp [hv]
    · have hkt : k ∈ t := by rcases List.mem_cons.1 hk with h | h; exact absurd h e; exact h
      have := ih hkt hv
      split <;> simp [this]

/-- nothing else occurs -/
theorem C12_sound (s : State) (ks : List Nat) (k v : Nat) :
    (k, v) ∈ valuedPairs s ks → k ∈ ks ∧ absVal s k = some v := by
  induction ks with
  | nil => intro h; cases h
  | cons a t ih =>
    unfold valuedPairs
    split
    · rename_i w hw
      intro h
      rcases List.mem_cons.1 h with e | h
      · cases e; exact ⟨by simp, hw⟩
      · have := ih h; exact ⟨by simp [this.1], this.2⟩
    · intro h; have := ih h; exact ⟨by simp [this.1], this.2⟩

/-- every key exactly once (the iteration order has no duplicates) -/
theorem C12_once (s : State) (ks : List Nat) (hn : ks.Nodup) : ((valuedPairs s ks).map (·.1)).Nodup := by
  induction ks with
  | nil => simp [valuedPairs]
  | cons a t ih =>
    have ⟨h1, h2⟩ := List.nodup_cons.1 hn
    unfold valuedPairs
    split
    · simp only [List.map_cons, List.nodup_cons]
      refine ⟨?_, ih h2⟩
      intro hm
      obtain ⟨⟨k, v⟩, hp, e⟩ := List.mem_map.1 hm
      simp at e; subst e
      exact h1 (C12_sound s t k v hp).1
    · exact ih h2

/-- non-vacuity: a history with a failed try, a cancelled waiter and a removed value -/
example :
    let s := run (State.init .hashMap)
      [.lookup 1 7, .gop 1 (.insert 5), .lookup 2 7, .tryKey 2, .cleanupFailed 2, .lookup 3 7, .enqueue 3,
       .lookup 4 8, .gop 4 (.insert 6), .gop 4 .remove, .cancel 3, .stamp 4, .release 4, .stamp 1, .release 1]
    (intoEntries s).2 = .pairs [(7, 5)] := by decide

end Lockable
