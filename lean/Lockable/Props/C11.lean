/-
C11 — lock_all_entries yields each live entry of the snapshot exactly once.
"When the call was made" = the first poll of the `lock_all_entries()` future, i.e. the `snapshot` section
(checked on the real code: DESIGN.md §9 C11).
-/
import Lockable.Proofs.Snap
import Lockable.Proofs.Stream
import Lockable.Proofs.Stream2
import Lockable.Proofs.Usable
import Lockable.Props.C01
namespace Lockable

/-- **Snapshot**: one pending acquisition for every key that has a value or is locked when the call is made —
exactly the keys of the map, once each, in iteration order; a key that appears only later is not among them.
Nothing else changes (values, order). (That other keys and the counting calls stay usable while items are pending is not
part of this statement: in the model every action is total and touches only its own key, `C03_keys_independent`; on the
code it is what the correspondence and the stress scenario "many held keys" check.) -/
theorem C11_snapshot (kind : Kind) (as : List Act) (hids : List Nat) :
    let s := run (State.init kind) as
    s.freshList hids = true → s.order.length ≤ hids.length →
    ∃ hs, (snapshot s hids).2 = .list hs ∧ hs.map (keyOfH (snapshot s hids).1) = s.order ∧
      (∀ h ∈ hs, hst ((snapshot s hids).1.hs h) = some .replica) ∧
      (snapshot s hids).1.order = s.order ∧ (∀ k, absVal (snapshot s hids).1 k = absVal s k) := by
  intro s hf hlen
  have hi : Inv s := inv_reachable kind as
  have hfl := freshL_of s hids hf
  unfold snapshot
  simp only [hi.notWedged, Bool.false_eq_true, ↓reduceIte]
  have := snapLoop_exact s.order s hids [] (fun k hk => (hi.keys k).1 hk) hi.nodup hfl.2 hlen
  simp only [List.length_nil, List.take_zero, List.reverse_nil, List.drop_zero, true_and] at this
  exact ⟨_, rfl, this.1, fun h hh => (this.2 h hh).1, snapLoop_order _ _ _ _, fun k => absVal_snapLoop _ k _ _ _⟩

/-- **Valued only**: a poll of a stream item yields only when the item has just obtained its lock and the
entry has a value at that moment; the yielded handle is then a guard for its key (the only one: C01).
**Never a guard without a value**: a valueless entry ends as `valueless` (the guard is dropped, not yielded). -/
theorem C11_yield_valued (kind : Kind) (as : List Act) (w : Nat) (hd : Handle) :
    let s := run (State.init kind) as
    s.hs w = some hd → (hd.st = .replica ∨ hd.st = .queued) →
    ((itemPoll s w).2 = .yielded → IsGuard (itemPoll s w).1 w hd.key ∧ absVal (itemPoll s w).1 hd.key ≠ none) ∧
    ((itemPoll s w).2 = .valueless → IsGuard (itemPoll s w).1 w hd.key ∧ absVal (itemPoll s w).1 hd.key = none) ∧
    ((itemPoll s w).2 = .pending → ¬ IsGuard (itemPoll s w).1 w hd.key) ∧
    (itemPoll s w).2 ≠ .bad := by
  intro s hh hst
  have hi : Inv s := inv_reachable kind as
  obtain ⟨m, hm, he⟩ := eeid_inv (hi.live w hd hh)
  have heo : s.entryOf hd = some m := by simp [State.entryOf, hm, he]
  unfold itemPoll
  simp only [hh]
  rcases hst with hst | hst
  · -- first poll: enqueue
    simp only [hst, ↓reduceIte, enqueue, hh, heo]
    cases hho : m.holder with
    | some x => simp [IsGuard, State.setSt, State.setEnt, upd, HSt.isGuard]
    | none =>
      cases hv : m.value with
      | none =>
        simp [gop, State.setSt, State.setEnt, State.entryOf, upd, he, IsGuard, HSt.isGuard, absVal, valOf]
      | some st =>
        simp [gop, State.setSt, State.setEnt, State.entryOf, upd, he, IsGuard, HSt.isGuard, absVal, valOf]
  · -- a later poll: acquire
    simp only [↓reduceIte, acquire, hh, hst, heo]
    by_cases hho : m.holder = some w
    · cases hv : m.value with
      | none =>
        simp [hho, gop, State.setSt, State.entryOf, upd, hm, he, hv, IsGuard, HSt.isGuard, absVal, valOf]
      | some st =>
        simp [hho, gop, State.setSt, State.entryOf, upd, hm, he, hv, IsGuard, HSt.isGuard, absVal, valOf]
    · simp [hho, IsGuard, hh, hst, HSt.isGuard]

theorem itemPoll_holding_bad (s : State) (w : Nat) (hd' : Handle) (h1 : s.hs w = some hd') (h2 : hd'.st = .holding) :
    (itemPoll s w).2 = .bad := by
  unfold itemPoll; simp [h1, h2, acquire]

/-- **Exactly once**: an item that was resolved (yielded, or dropped because valueless) is no longer a pending
acquisition, so a further poll of it is impossible (`bad`): each snapshot key is resolved at most once. -/
theorem C11_once (s : State) (w : Nat) :
    ((itemPoll s w).2 = .yielded ∨ (itemPoll s w).2 = .valueless) → (itemPoll (itemPoll s w).1 w).2 = .bad := by
  intro hres
  have hhold : ∃ hd', (itemPoll s w).1.hs w = some hd' ∧ hd'.st = .holding := by
    unfold itemPoll at hres ⊢
    cases hh : s.hs w with
    | none => simp [hh] at hres
    | some hd =>
      simp only [hh] at hres ⊢
      have key : ∀ r : State × Out, r.2 = .bool true →
          (r = enqueue s w ∨ r = acquire s w) → ∃ hd', r.1.hs w = some hd' ∧ hd'.st = .holding := by
        intro r hr hcase
        rcases hcase with e | e
        · subst e
          unfold enqueue at hr ⊢
          simp only [hh] at hr ⊢
          repeat' split at hr
          all_goals first
            | (simp at hr; done)
            | (simp_all [State.setSt, State.setEnt, upd])
        · subst e
          unfold acquire at hr ⊢
          simp only [hh] at hr ⊢
          repeat' split at hr
          all_goals first
            | (simp at hr; done)
            | (simp_all [State.setSt, upd])
      generalize hr : (if hd.st = .replica then enqueue s w else acquire s w) = r at hres ⊢
      have hcase : r = enqueue s w ∨ r = acquire s w := by
        rw [← hr]; split
        · exact Or.inl rfl
        · exact Or.inr rfl
      cases ho : r.2 with
      | bool b =>
        cases b with
        | true =>
          have := key r ho hcase
          simp only [ho] at hres ⊢
          split <;> exact this
        | false => simp [ho] at hres
      | _ => simp [ho] at hres
  obtain ⟨hd', h1, h2⟩ := hhold
  exact itemPoll_holding_bad _ w hd' h1 h2

/-- the stream ends exactly when no unresolved item is left; it is pending while some are -/
theorem C11_end (a : Api) (sid fuel : Nat) (st : StreamSt) :
    a.streams.lookup sid = some st → st.ready = [] →
    (a.spollLoop sid (fuel + 1)).2 = (if st.items.isEmpty then .ended else .pending) ∧ (a.spollLoop sid (fuel + 1)).1 = a := by
  intro h1 h2
  simp [Api.spollLoop, h1, h2]

/-- non-vacuity: snapshot of {1 valued & held, 2 valued}; item for 2 is yielded at once; the item for 1 waits,
the holder removes the value and unlocks, the item obtains the lock, finds no value, is dropped: stream ends -/
example :
    let a0 : Api := Api.init .lru
    let a1 := (((a0.exec (.lock .wait 1 1 .none 100)).1.exec (.op 1 (.insert 10))).1.exec (.lock .wait 2 2 .none 100)).1
    let a2 := (((a1.exec (.op 2 (.insert 20))).1.exec (.drop 2)).1.exec (.lockAll 1 200)).1
    let r1 := a2.exec (.spoll 1)
    let r2 := r1.1.exec (.spoll 1)
    let a3 := ((r2.1.exec (.op 1 .remove)).1.exec (.drop 1)).1
    let r3 := a3.exec (.spoll 1)
    (match r1.2.res with | .item 201 2 => true | _ => false) = true ∧
    (match r2.2.res with | .pending => true | _ => false) = true ∧
    (match r3.2.res with | .ended => true | _ => false) = true ∧ r3.1.s.order = [2] := by decide

/-! ### the stream as a whole: its `FuturesUnordered` bookkeeping, for every history of API calls -/

/-- **No wake-up of a stream item is lost, none is polled in vain** — in every state reachable by any sequence of API calls
(locks with and without limits and callbacks, suspended and abandoned calls, guard methods, drops, cancellations, expiry scans,
several streams polled and dropped in any order): stream ids are unique, an acquisition is an unresolved item of at most one stream,
the ready queue holds no duplicates and only unresolved items, and every unresolved item `w` is a pending acquisition that
* has never been polled — then it is in the ready queue —, or
* is queued on its key's mutex — then it is in the ready queue **exactly when** the mutex has been handed to it.
(`AInv` = the core invariant `Inv` + `SOk`; `ItemOk` is the per-item clause.) -/
theorem C11_bookkeeping_exact (kind : Kind) (cs : List Call) :
    AInv (cs.foldl (fun a c => (a.exec c).1) (Api.init kind)) :=
  ainv_execs cs _ (ainv_init kind)

/-- the per-item clause spelled out for a reachable state -/
theorem C11_item_ready_iff_obtainable (kind : Kind) (cs : List Call) (sid : Nat) (st : StreamSt) (w : Nat) :
    let a := cs.foldl (fun a c => (a.exec c).1) (Api.init kind)
    (sid, st) ∈ a.streams → w ∈ st.items →
    ∃ wd, a.s.hs w = some wd ∧
      ((wd.st = .replica ∧ w ∈ st.ready) ∨ (wd.st = .queued ∧ (w ∈ st.ready ↔ hold a.s w wd.key = true))) := by
  intro a hm hw
  exact ((C11_bookkeeping_exact kind cs).sok.each _ hm).item w hw

/-- **What the stream's answers mean**, after any history: when `poll_next` answers `Pending`, items are left and every one of them is
queued behind somebody else's ownership of its key — nothing the stream could have obtained was left unpolled; when it answers
`None` (end of stream), no unresolved item is left. ("It ends after the last such key.")
Not modelled: inside a tokio task whose cooperative budget (128 operations) is used up, tokio's `Acquire::poll` answers `Pending`
with a self-wake even for a free key, so there a `Pending` may also mean "budget exhausted, poll again" (no wake-up is lost); the
harness polls outside a tokio runtime, where the budget is unconstrained. -/
theorem C11_pending_means_blocked (kind : Kind) (cs : List Call) (sid : Nat) :
    let a := cs.foldl (fun a c => (a.exec c).1) (Api.init kind)
    let r := a.exec (.spoll sid)
    ((match r.2.res with | .pending => True | _ => False) →
      ∃ st, r.1.streams.lookup sid = some st ∧ st.items ≠ [] ∧
        ∀ w ∈ st.items, ∃ wd, r.1.s.hs w = some wd ∧ wd.st = .queued ∧ hold r.1.s w wd.key = false) ∧
    ((match r.2.res with | .ended => True | _ => False) →
      ∃ st, r.1.streams.lookup sid = some st ∧ st.items = []) := by
  intro a r
  have hi := C11_bookkeeping_exact kind cs
  have := spollLoop_answer sid (match a.streams.lookup sid with | some st => st.ready.length + 1 | none => 1) a hi
  constructor
  · intro h
    apply this.1
    show (a.spollLoop sid _).2 = .pending
    have : r.2.res = (a.spollLoop sid (match a.streams.lookup sid with | some st => st.ready.length + 1 | none => 1)).2 := rfl
    rw [← this]
    cases hr : r.2.res <;> rw [hr] at h <;> first | rfl | cases h
  · intro h
    apply this.2
    show (a.spollLoop sid _).2 = .ended
    have : r.2.res = (a.spollLoop sid (match a.streams.lookup sid with | some st => st.ready.length + 1 | none => 1)).2 := rfl
    rw [← this]
    cases hr : r.2.res <;> rw [hr] at h <;> first | rfl | cases h

/-- non-vacuity: the stream over {1 held by guard 1, 2 free} yields 2, then answers `Pending` with item 201 queued behind guard 1
and not in the ready queue; the drop of guard 1 hands the mutex over and puts 201 into the ready queue -/
example :
    let a0 : Api := Api.init .lru
    let a1 := (((a0.exec (.lock .wait 1 1 .none 100)).1.exec (.op 1 (.insert 10))).1.exec (.lock .wait 2 2 .none 100)).1
    let a2 := (((a1.exec (.op 2 (.insert 20))).1.exec (.drop 2)).1.exec (.lockAll 1 200)).1
    let a3 := ((a2.exec (.spoll 1)).1.exec (.spoll 1)).1
    let a4 := (a3.exec (.drop 1)).1
    (a3.streams.map fun p => (p.2.items, p.2.ready)) = [([200], [])] ∧ hold a3.s 200 1 = false ∧
    (a4.streams.map fun p => (p.2.items, p.2.ready)) = [([200], [200])] ∧ hold a4.s 200 1 = true := by decide

/-- **Nothing is ever added to a snapshot; what left it never comes back**: across any API call, every stream that exists afterwards
existed before with at least the same unresolved items — unless this very call created it. So a key that appears only after
`lock_all_entries` was called is never yielded, and an item that was yielded, dropped as valueless or cancelled is never polled again. -/
theorem C11_items_only_shrink (kind : Kind) (cs : List Call) (c : Call) (sid : Nat) (its' : List Nat) :
    let a := cs.foldl (fun a c => (a.exec c).1) (Api.init kind)
    itemsAt (a.exec c).1 sid = some its' →
    (∃ its, itemsAt a sid = some its ∧ ∀ w ∈ its', w ∈ its) ∨ (itemsAt a sid = none ∧ ∃ h0, c = .lockAll sid h0) := by
  intro a h
  exact exec_sub a c (C11_bookkeeping_exact kind cs) sid its' h

/-- **Exactly once, valued only — for the stream as a whole**, after any history: when `poll_next` yields `(w, k)`, the acquisition
`w` was an unresolved item of this stream before the call and is none afterwards (with `C11_items_only_shrink`: never again), it is
now a guard for `k`, and `k` has a value. -/
theorem C11_yield_was_item_once (kind : Kind) (cs : List Call) (sid w k : Nat) :
    let a := cs.foldl (fun a c => (a.exec c).1) (Api.init kind)
    let r := a.exec (.spoll sid)
    r.2.res = .item w k →
    (∃ its, itemsAt a sid = some its ∧ w ∈ its) ∧ (∃ its', itemsAt r.1 sid = some its' ∧ w ∉ its') ∧
    (∃ hd v, r.1.s.hs w = some hd ∧ hd.st = .holding ∧ hd.key = k ∧ absVal r.1.s k = some v) := by
  intro a r h
  exact spollLoop_item sid _ a (C11_bookkeeping_exact kind cs) w k h

/-- **The poll loop of the model is total**: for a stream that exists, `spoll` never gives the model's artificial `bad` (out of fuel
or an unpollable item) — the fuel `ready.length + 1` suffices because dropping a valueless guard can wake no other item of the
same stream (one item per key). -/
theorem C11_spoll_never_out_of_fuel (kind : Kind) (cs : List Call) (sid : Nat) (st : StreamSt) :
    let a := cs.foldl (fun a c => (a.exec c).1) (Api.init kind)
    a.streams.lookup sid = some st → (a.exec (.spoll sid)).2.res ≠ .bad := by
  intro a hl
  obtain ⟨hi, hk⟩ := reach_execs cs _ (ainv_init kind) (kok_init kind)
  have := spollLoop_not_bad sid (st.ready.length + 1) a hi hk st hl (Nat.lt_succ_self _)
  show (a.spollLoop sid (match a.streams.lookup sid with | some st => st.ready.length + 1 | none => 1)).2 ≠ .bad
  rw [hl]; exact this

/-- **One item per key**: in every reachable API state the unresolved items of one stream are for pairwise different keys. With
`C11_items_only_shrink` (stated over acquisition ids) and the constancy of an acquisition's key (`hs_step_other`) this turns "once
per item" into "once per key" for the life of one stream id. -/
theorem C11_one_item_per_key (kind : Kind) (cs : List Call) :
    KOk (cs.foldl (fun a c => (a.exec c).1) (Api.init kind)) :=
  (reach_execs cs _ (ainv_init kind) (kok_init kind)).2

/-- **What the call creates**, at the API level and for every reachable state: when `lock_all_entries` answers with its items, they
are one per key of the map at that moment, in iteration order — exactly the keys that have a value or are locked (`C04_keys_exact_api`),
none that appears later — and they are the stream's unresolved items (in the reverse order, the one a dropped `FuturesUnordered`
releases them in). The call answers `bad` instead (no stream) when the map has more than 48 entries or the id block `h0 … h0+47` is
in use: the whole-stream theorems say nothing about larger maps. -/
theorem C11_snapshot_api (kind : Kind) (cs : List Call) (sid h0 : Nat) (pairs : List (Nat × Nat)) :
    let a := cs.foldl (fun a c => (a.exec c).1) (Api.init kind)
    (a.exec (.lockAll sid h0)).2.res = .handles pairs →
    pairs.map Prod.snd = a.s.order ∧ itemsAt (a.exec (.lockAll sid h0)).1 sid = some (pairs.map Prod.fst).reverse := by
  intro a h
  exact lockAll_handles a sid h0 pairs (C11_bookkeeping_exact kind cs).inv h

/-- **Thread level: the wake-up a segment performs is the hand-off of its section** — in the scheduled model a stream item enters
the ready queue of its stream (`Sched.step`: `wakeThread … (wakeOf …)`) exactly when the release / cancellation at the stepping
thread's park point hands the mutex to it; by `C03_only_handoff_grants` there is no other way for an item to become the owner, by
`C03_grant_stable` it stays the owner until its stream polls it. (The full bookkeeping invariant `AInv` is proved for the sequential
API layer; for the scheduled model it is tied to the code by the scheduled correspondence, not proved.) -/
theorem C11_sched_wake_is_handoff (s : State) (p : Park) (w : Nat) (h : wakeOf s p = some w) :
    ∃ act : Act, handedTo s act = some w ∧
      ((∃ x c, p = .gRelease x c ∧ act = .release x) ∨ (∃ x, p = .gCancel x ∧ act = .cancel x) ∨
       (∃ x r, p = .gCancelS x r ∧ act = .cancel x)) :=
  wakeOf_is_handoff s p w h

/-- an unresolved item pins its key: the key is in the map (reported by `keys_with_entries_or_locked`, counted by
`num_entries_or_locked` and by the soft limit) for as long as the item is unresolved — also when the key has no value and nobody
else refers to it (the placeholder that only a never-polled stream item keeps alive) -/
theorem C11_item_key_counted (kind : Kind) (cs : List Call) (sid : Nat) (st : StreamSt) (w : Nat) :
    let a := cs.foldl (fun a c => (a.exec c).1) (Api.init kind)
    (sid, st) ∈ a.streams → w ∈ st.items → keyOf a.s w ∈ a.s.order ∧ (keys a.s).2 = .list a.s.order := by
  intro a hm hw
  have hi := C11_bookkeeping_exact kind cs
  obtain ⟨wd, hwd, _⟩ := (hi.sok.each _ hm).item w hw
  refine ⟨?_, ?_⟩
  · have := hi.inv.live w wd hwd
    unfold keyOf; rw [hwd]
    apply (hi.inv.keys wd.key).2
    intro e; rw [e] at this; simp at this
  · have hw' : a.s.wedged = false := hi.inv.notWedged
    unfold keys; rw [hw']; rfl

/-- **Other keys and the counting calls stay usable while items are pending** — as one statement, for every state reachable by
any sequence of API calls (so with any number of streams open, items unpolled, queued or ready, suspended calls, waiters): a plain
`try_lock` call on *any* key `k` returns a guard **exactly when** `k` itself is free in the atomic specification (no guard for `k`, nobody
queued on `k`) — nothing pending on other keys enters; an item of a stream queued on `k` itself counts as a waiter, as on the code —
and `num_entries_or_locked`/`keys_with_entries_or_locked` answer from the map (never "poisoned", never blocked) and change nothing.
(Blocking/async plain locks: `enqueue_iff_free`; the scheduled interpreter runs them as the same core actions.) -/
theorem C11_other_keys_usable (kind : Kind) (cs : List Call) (h k h0 : Nat) :
    let a := cs.foldl (fun a c => (a.exec c).1) (Api.init kind)
    a.s.hs h = none →
    ((a.exec (.lock .try h k .none h0)).2.res.isGuard = true ↔ (absSpec a.s).free k = true) ∧
    (match (a.exec .count).2.res with | .out (.nat n) => n = a.s.order.length | _ => False) ∧
    (match (a.exec .keys).2.res with | .out (.list l) => l = a.s.order | _ => False) ∧
    (a.exec .count).1 = a ∧ (a.exec .keys).1 = a := by
  intro a hf
  have hi := (C11_bookkeeping_exact kind cs).inv
  exact ⟨lock_try_plain a hi h k h0 hf, count_keys_plain a hi⟩

/-- non-vacuity: with the stream's item 200 queued behind guard 1 on key 1 (stream answered `Pending`), a try on key 2 and on the
absent key 3 gets a guard, a try on key 1 does not, and the count is 2 -/
example :
    let a0 : Api := Api.init .lru
    let a1 := (((a0.exec (.lock .wait 1 1 .none 100)).1.exec (.op 1 (.insert 10))).1.exec (.lock .wait 2 2 .none 100)).1
    let a2 := (((a1.exec (.op 2 (.insert 20))).1.exec (.drop 2)).1.exec (.lockAll 1 200)).1
    let a3 := ((a2.exec (.spoll 1)).1.exec (.drop 201)).1
    let a4 := (a3.exec (.spoll 1)).1
    (a4.streams.map fun p => (p.2.items, p.2.ready)) = [([200], [])] ∧
    (a4.exec (.lock .try 300 2 .none 400)).2.res.isGuard = true ∧ (a4.exec (.lock .try 300 3 .none 400)).2.res.isGuard = true ∧
    (a4.exec (.lock .try 300 1 .none 400)).2.res.isGuard = false ∧
    (match (a4.exec .count).2.res with | .out (.nat n) => n | _ => 0) = 2 := by decide

end Lockable
