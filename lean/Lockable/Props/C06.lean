/-
C06 — cancelling a pending async acquisition leaves no trace.
`cancel h` is `impl Drop for PendingLock`: a pending `async_lock` / `async_lock_owned` future or an
unresolved `lock_all_entries` item is dropped — never polled (`replica`), queued behind a holder, or
already handed the lock but not polled again (`queued` and holder). A `try_lock_async` future has no
await point between its lookup and its clean-up, so it has nothing to cancel (DESIGN.md §9 C06).
-/
import Lockable.Proofs.Stream2
import Lockable.Proofs.NoPanic
import Lockable.Proofs.Erasure
import Lockable.Props.C15
import Lockable.Proofs.Stream
import Lockable.Proofs.Usable
namespace Lockable

/-- a handle whose owner is a pending future that can be dropped -/
def Cancellable (s : State) (h : Nat) : Prop :=
  ∃ hd, s.hs h = some hd ∧ (hd.st = .replica ∨ hd.st = .queued)

theorem cancel_ok (s : State) (h : Nat) (hi : Inv s) (hc : Cancellable s h) : (cancel s h).2 = .unit := by
  obtain ⟨hd, hh, hst⟩ := hc
  obtain ⟨m, hm, he⟩ := eeid_inv (hi.live h hd hh)
  have heo : s.entryOf hd = some m := by simp [State.entryOf, hm, he]
  have hnf := cancel_noFail s h hi
  unfold cancel at hnf ⊢
  simp only [hi.notWedged, Bool.false_eq_true, ↓reduceIte, hh, hst, heo] at hnf ⊢
  repeat' split
  all_goals first | rfl | (simp_all [Out.isFailure])

/-- Dropping a pending acquisition at ANY reachable point of ANY interleaving: it succeeds without
panic, the handle is gone, the key is neither locked by it nor reserved for it, no other key is touched,
no stored value changes, and the resulting state again satisfies the full invariant — in particular no
valueless unreferenced entry is left (I2), so counts are exact (C04) and every later operation behaves
(Theorem A, C12, C13 apply to the state after the cancel). -/
theorem C06_cancel_clean (kind : Kind) (as : List Act) (h : Nat) :
    let s := run (State.init kind) as
    Cancellable s h →
    let s' := (cancel s h).1
    (cancel s h).2 = .unit ∧ s'.hs h = none ∧ Inv s' ∧
    (∀ k m, s'.ent k = some m → m.holder ≠ some h ∧ h ∉ m.queue ∧ h ∉ m.refs) ∧
    (∀ k, absVal s' k = absVal s k) ∧
    (∀ x, x ≠ h → s'.hs x = s.hs x) := by
  intro s hc s'
  have hi : Inv s := inv_reachable kind as
  have hi' : Inv s' := inv_cancel s h hi
  have hgone : s'.hs h = none := by
    obtain ⟨hd, hh, hst⟩ := hc
    obtain ⟨m, hm, he⟩ := eeid_inv (hi.live h hd hh)
    have heo : s.entryOf hd = some m := by simp [State.entryOf, hm, he]
    show (cancel s h).1.hs h = none
    unfold cancel
    simp only [hi.notWedged, Bool.false_eq_true, ↓reduceIte, hh, hst, heo]
    have hw := (inv_cancel s h hi).notWedged
    unfold cancel at hw
    simp only [hi.notWedged, Bool.false_eq_true, ↓reduceIte, hh, hst, heo] at hw
    repeat' split
    all_goals first
      | (simp [State.removeKey, State.dropHandle, State.setEnt, upd]; done)
      | (simp_all [State.wedge])
  refine ⟨cancel_ok s h hi hc, hgone, hi', ?_, fun k => absVal_cancel s h k, ?_⟩
  · intro k m hm
    have hk : hkey (s'.hs h) ≠ some k := by rw [hgone]; simp
    refine ⟨?_, ?_, ?_⟩
    · intro e; exact hk (hi'.holderLive k m h hm e).1
    · intro e; exact hk ((hi'.queue k m hm h).1 e).1
    · intro e; exact hk ((hi'.refs k m hm h).1 e)
  · intro x hx
    exact cancel_hs_other s h x hx

/-- the counts after the cancel are what values and live handles justify (C04 at the state after the cancel) -/
theorem C06_counts_exact (kind : Kind) (as : List Act) (h k : Nat) :
    let s' := run (State.init kind) (as ++ [.cancel h])
    k ∈ s'.order ↔ (absVal s' k ≠ none ∨ ∃ x, hkey (s'.hs x) = some k) := by
  intro s'
  have hi : Inv s' := inv_reachable kind _
  rw [hi.keys k]
  constructor
  · intro hk
    cases hm : s'.ent k with
    | none => exact absurd hm hk
    | some m =>
      cases hv : m.value with
      | some st => left; simp [absVal, valOf, hm, hv]
      | none =>
        right
        cases hr : m.refs with
        | nil => exact absurd hr (hi.inv2 k m hm hv)
        | cons a t => exact ⟨a, (hi.refs k m hm a).1 (by simp [hr])⟩
  · rintro (hv | ⟨x, hh⟩)
    · intro e; simp [absVal, valOf, e] at hv
    · obtain ⟨hd, e1, e2⟩ := hkey_inv hh
      have := hi.live x hd e1
      intro e; rw [e2] at this; simp [e] at this

/-- a dropped stream = cancel of each of its unresolved items, in any order: the invariant holds afterwards and no value
changed (for any list of handles; that the items themselves are gone is `C06_stream_drop_gone`) -/
theorem C06_stream_drop (items : List Nat) : ∀ (s : State), Inv s →
    Inv (run s (items.map Act.cancel)) ∧ ∀ k, absVal (run s (items.map Act.cancel)) k = absVal s k := by
  induction items with
  | nil => intro s hi; exact ⟨hi, fun _ => rfl⟩
  | cons a t ih =>
    intro s hi
    have := ih (cancel s a).1 (inv_cancel s a hi)
    simp only [List.map_cons, run, List.foldl, step] at this ⊢
    exact ⟨this.1, fun k => by rw [this.2 k]; exact absVal_cancel s a k⟩

theorem cancel_gone (s : State) (hi : Inv s) (h : Nat) (hc : Cancellable s h) : (cancel s h).1.hs h = none := by
  obtain ⟨hd, hh, hst⟩ := hc
  obtain ⟨m, hm, he⟩ := eeid_inv (hi.live h hd hh)
  have heo : s.entryOf hd = some m := by simp [State.entryOf, hm, he]
  exact (cancel_ent_k' s hi h hd m hh hst hm heo).2.1

/-- … and afterwards none of the items is left: if the unresolved items of the stream are pending acquisitions (never polled,
queued, or handed the lock) — which is what a stream holds — every one of them is gone after the drop, in whatever order they
are released, also when the release of one hands the lock to the next. -/
theorem C06_stream_drop_gone (items : List Nat) : ∀ (s : State), Inv s → (∀ h ∈ items, Cancellable s h) → items.Nodup →
    ∀ h ∈ items, (run s (items.map Act.cancel)).hs h = none := by
  induction items with
  | nil => intro s _ _ _ h hh; cases hh
  | cons a t ih =>
    intro s hi hall hnd h hh
    have ⟨hn1, hn2⟩ := List.nodup_cons.1 hnd
    have hi1 := inv_cancel s a hi
    have hall1 : ∀ x ∈ t, Cancellable (cancel s a).1 x := by
      intro x hx
      obtain ⟨hd, e1, e2⟩ := hall x (List.mem_cons_of_mem _ hx)
      exact ⟨hd, by rw [cancel_hs_other s a x (fun e => hn1 (e ▸ hx))]; exact e1, e2⟩
    have hrun : run s ((a :: t).map Act.cancel) = run (cancel s a).1 (t.map Act.cancel) := by
      simp [run, List.foldl, step]
    rw [hrun]
    rcases List.mem_cons.1 hh with e | hh
    · subst e
      -- the later cancels do not touch this handle
      have : ∀ (l : List Nat) (s' : State), h ∉ l → (run s' (l.map Act.cancel)).hs h = s'.hs h := by
        intro l
        induction l with
        | nil => intro s' _; rfl
        | cons b l ih2 =>
          intro s' hb
          have hb1 : h ≠ b := fun e => hb (by rw [e]; simp)
          have hb2 : h ∉ l := fun e => hb (List.mem_cons_of_mem _ e)
          have : run s' ((b :: l).map Act.cancel) = run (cancel s' b).1 (l.map Act.cancel) := by simp [run, List.foldl, step]
          rw [this, ih2 _ hb2, cancel_hs_other s' b h hb1]
      rw [this t _ hn1]
      exact cancel_gone s hi h (hall h (by simp))
    · exact ih (cancel s a).1 hi1 hall1 hn2 h hh

/-- non-vacuity, the defect D1 scenario: a waiter that was handed the lock on a valueless key is dropped
without being polled again: nothing remains -/
example :
    let s := run (State.init .hashMap) [.lookup 1 7, .lookup 2 7, .enqueue 2, .stamp 1, .release 1]
    Cancellable s 2 ∧ s.order = [7] ∧ (run s [.cancel 2]).order = [] := by
  refine ⟨⟨⟨7, 0, .queued⟩, by decide, Or.inr rfl⟩, by decide, by decide⟩

/-- **Same lasting effect as never having made the call** — a waiting acquisition of a key that somebody holds, cancelled
while it is queued: the state after lookup, enqueue and cancellation *is* the state before the call, except for the
recency refresh of the lookup in an lru cache (the one residual effect, DESIGN §9 C06). Every later operation therefore
behaves as if the call had not been made. -/
theorem C06_cancelled_wait_erased (kind : Kind) (as : List Act) (h k : Nat) (m : Entry) (w : Nat)
    (hf : (run (State.init kind) as).hs h = none) (hm : (run (State.init kind) as).ent k = some m) (hho : m.holder = some w) :
    let s := run (State.init kind) as
    (cancel (enqueue (lookup s h k).1 h).1 h).1 = s.touch k ∧ (cancel (enqueue (lookup s h k).1 h).1 h).2 = .unit :=
  cancel_erases_wait _ (inv_reachable kind as) h k m w hf hm hho

/-- … and a try variant that fails (the future of `try_lock_async` has no await point between the lookup and the clean-up,
so this is also what dropping it amounts to): lookup, failed try and clean-up section lead back to the state before. -/
theorem C06_failed_try_erased (kind : Kind) (as : List Act) (h k : Nat) (m : Entry) (w : Nat)
    (hf : (run (State.init kind) as).hs h = none) (hm : (run (State.init kind) as).ent k = some m) (hho : m.holder = some w) :
    let s := run (State.init kind) as
    (tryKey (lookup s h k).1 h).2 = .bool false ∧
    (cleanupFailed (tryKey (lookup s h k).1 h).1 h).1 = s.touch k ∧ (cleanupFailed (tryKey (lookup s h k).1 h).1 h).2 = .unit :=
  failed_try_erased _ (inv_reachable kind as) h k m w hf hm hho

/-- in the atomic specification, waiting and giving up is the identity -/
theorem C06_spec_wait_leave (sp sp₁ : Spec) (h k : Nat) (he : applyEv sp (.wait h k) = some sp₁) :
    applyEv sp₁ (.leave h k) = some sp := spec_wait_leave_id sp sp₁ h k he

/-- non-vacuity: key 7 is held by 1 (no value yet); 2 queues and is cancelled: the state is the one before, in a hash map exactly -/
example :
    let s := run (State.init .hashMap) [.lookup 1 7]
    (∃ m, s.ent 7 = some m ∧ m.holder = some 1) ∧ s.hs 2 = none ∧ s.touch 7 = s := by
  refine ⟨⟨_, rfl, rfl⟩, by decide, rfl⟩

/-- **A lock call abandoned while its (async) eviction callback is pending**: the callback's future is dropped with the call
and releases the guards it was given, untouched — every one of them is gone, no stored value changed, the handle of the
requested key was never created, and the full invariant holds (so counts are exact and every later operation works). -/
theorem C06_abandon_suspended (a : Api) (h : Nat) (su : Susp) (hi : Inv a.s)
    (hall : ∀ c ∈ su.cands.map Prod.fst, ∃ hd, a.s.hs c = some hd ∧ hd.st = .holding)
    (hnd : (su.cands.map Prod.fst).Nodup) (hnot : h ∉ su.cands.map Prod.fst) :
    Inv (a.abandon h su).s ∧ (∀ k, absVal (a.abandon h su).s k = absVal a.s k) ∧
    (∀ c ∈ su.cands.map Prod.fst, (a.abandon h su).s.hs c = none) ∧ (a.abandon h su).s.hs h = a.s.hs h ∧
    (a.abandon h su).susp.lookup h = none := by
  unfold Api.abandon
  obtain ⟨r1, r2, r3⟩ := C15_unwind (su.cands.map Prod.fst) { a with susp := a.susp.filter fun (i, _) => i ≠ h } hi hall hnd
  refine ⟨r1, r2, r3, dropAll_hs_other _ h hnot _, ?_⟩
  have : ∀ (l : List Nat) (b : Api), (b.dropAll l).susp = b.susp := by
    intro l
    induction l with
    | nil => intro b; rfl
    | cons x xs ih =>
      intro b
      simp only [Api.dropAll, List.foldl] at ih ⊢
      rw [ih]
      have hw : ∀ (c : Api) (w : Option Nat), (c.woken w).susp = c.susp := by
        intro c w; unfold Api.woken; split <;> rfl
      unfold Api.dropGuard
      simp only []
      split
      · rw [hw]
      · rfl
  rw [this]
  simp only []
  induction a.susp with
  | nil => rfl
  | cons x xs ih =>
    simp only [List.filter]
    split
    · rename_i hx
      simp only [List.lookup]
      have : (h == x.1) = false := by
        simp only [decide_eq_true_eq] at hx
        simp [Ne.symm hx]
      rw [this]; exact ih
    · exact ih

/-- non-vacuity: an `async_lock` at the limit whose callback future is pending holds the guard of key 1; it is abandoned: key 1
is unlocked again with its value, nothing else remains; polled instead, the callback removes the entry and the call gets key 9 -/
example :
    let a0 : Api := Api.init .lru
    let a1 := ((a0.exec (.lock .wait 1 1 .none 100)).1.exec (.op 1 (.insert 10))).1
    let a2 := (a1.exec (.drop 1)).1
    let r := a2.exec (.lock .wait 3 9 (.soft 1 [⟨[.rm], false, .pendOk⟩]) 200)
    let a3 := (r.1.exec (.cancel 3)).1
    let a4 := (r.1.exec (.poll 3)).1
    (r.1.susp.lookup 3).isSome = true ∧ r.1.s.hs 200 = some ⟨1, 0, .holding⟩ ∧
      a3.s.order = [1] ∧ absVal a3.s 1 = some 10 ∧ a3.s.hs 200 = none ∧ a3.susp.isEmpty = true ∧
      a4.s.order = [9] ∧ a4.s.hs 3 = some ⟨9, 1, .holding⟩ ∧ a4.susp.isEmpty = true := by
  decide

/-- **Dropping a stream half-way, after any history**: every unresolved item is gone (never polled, queued, or already handed a
lock — also when the release of one hands the lock to the next), the stream is gone, no stored value changed, and the API-level
invariant holds afterwards (so the counts are exact again and every other stream's bookkeeping is intact). -/
theorem C06_stream_drop_api (kind : Kind) (cs : List Call) (sid : Nat) (st : StreamSt) :
    let a := cs.foldl (fun a c => (a.exec c).1) (Api.init kind)
    a.streams.lookup sid = some st →
    let a' := (a.exec (.sdrop sid)).1
    (∀ w ∈ st.items, a'.s.hs w = none) ∧ itemsAt a' sid = none ∧ (∀ k, absVal a'.s k = absVal a.s k) ∧ AInv a' := by
  intro a hl a'
  have hi : AInv a := ainv_execs cs _ (ainv_init kind)
  have hmem := lookup_mem _ _ _ hl
  have hsto := hi.sok.each _ hmem
  have hcanc : ∀ h ∈ st.items, Cancellable a.s h := by
    intro h hh
    obtain ⟨wd, e1, hc⟩ := hsto.item h hh
    rcases hc with ⟨c, _⟩ | ⟨c, _⟩
    · exact ⟨wd, e1, Or.inl c⟩
    · exact ⟨wd, e1, Or.inr c⟩
  have hnd : st.items.Nodup := hi.sok.nodup _ hmem
  have hs' : a'.s = run a.s (st.items.map Act.cancel) := by
    show (a.exec (.sdrop sid)).1.s = _
    simp only [Api.exec, hl]
    rw [cancelAll_s]
  refine ⟨?_, ?_, ?_, ainv_exec a (.sdrop sid) hi⟩
  · intro w hw
    rw [hs']
    exact C06_stream_drop_gone st.items a.s hi.inv hcanc hnd w hw
  · cases hq : itemsAt a' sid with
    | none => rfl
    | some its' =>
      rcases exec_sub a (.sdrop sid) hi sid its' hq with ⟨its, e, _⟩ | ⟨_, h0, e⟩
      · -- the stream cannot survive its own drop: look it up in the filtered list
        exfalso
        have hq' := hq
        show False
        simp only [a', Api.exec, hl] at hq'
        have hk := keeps_cancelAll st.items ⟨a.s, a.streams.filter (fun p => decide (p.1 ≠ sid)), a.susp⟩
          ⟨hi.inv, sok_filter _ _ _ hi.sok⟩ (by
            intro h' hh hin
            obtain ⟨q, hq1, hw⟩ := (mem_itemsOfSS _ h').1 hin
            obtain ⟨hq2, hq3⟩ := List.mem_filter.1 hq1
            have := hi.sok.disj _ hmem q hq2 h' hh hw
            simp at hq3 this
            exact hq3 this.symm)
        have hfe : (a.streams.filter fun (p : Nat × StreamSt) => match p with | (i, _) => decide (i ≠ sid))
            = a.streams.filter (fun p => decide (p.1 ≠ sid)) := by
          apply List.filter_congr
          intro p _; obtain ⟨i, x⟩ := p; rfl
        rw [hfe, keeps_itemsAt hk] at hq'
        unfold itemsAt at hq'
        simp only [lookup_filter_key a.streams sid sid _ (fun _ => rfl), ↓reduceIte] at hq'
        cases hq'
      · cases e
  · intro k
    rw [hs']
    exact (C06_stream_drop st.items a.s hi.inv).2 k

/-- non-vacuity: a stream over {1 held by guard 1, 2 free} has yielded 2 and is dropped while its item for key 1 is queued behind
guard 1: the item is gone, key 1 keeps only its guard, the values are untouched -/
example :
    let a0 : Api := Api.init .lru
    let a1 := (((a0.exec (.lock .wait 1 1 .none 100)).1.exec (.op 1 (.insert 10))).1.exec (.lock .wait 2 2 .none 100)).1
    let a2 := (((a1.exec (.op 2 (.insert 20))).1.exec (.drop 2)).1.exec (.lockAll 1 200)).1
    let a3 := ((a2.exec (.spoll 1)).1.exec (.spoll 1)).1
    let a4 := (a3.exec (.sdrop 1)).1
    (a3.streams.map fun p => p.2.items) = [[200]] ∧ (a3.s.hs 200).isSome = true ∧
    a4.streams.isEmpty = true ∧ a4.s.hs 200 = none ∧ absVal a4.s 1 = some 10 ∧ absVal a4.s 2 = some 20 := by decide

/-- **A `try_lock` call that fails has no lasting effect — at the level of the public call, in every reachable state**: after any
sequence of API calls (streams, suspended calls, waiters anywhere), a plain `try_lock`/`try_lock_async` on a key that is not free
answers `None` and leaves the *whole* API state — entries, values, queues, handles, stream bookkeeping, suspended calls — exactly
as it was, up to the recency refresh of its lookup (`touch`, the identity for hash map and pool; a lasting effect the lru code has). -/
theorem C06_failed_try_call_erased (kind : Kind) (cs : List Call) (h k h0 : Nat) :
    let a := cs.foldl (fun a c => (a.exec c).1) (Api.init kind)
    a.s.hs h = none → (a.exec (.lock .try h k .none h0)).2.res.isGuard = false →
    (a.exec (.lock .try h k .none h0)).1 = { a with s := a.s.touch k } ∧
    (match (a.exec (.lock .try h k .none h0)).2.res with | .none => True | _ => False) := by
  intro a hf hfail
  exact lock_try_failed_erased a (ainv_execs cs _ (ainv_init kind)).inv h k h0 hf hfail

/-- non-vacuity: key 1 held by guard 1; a try on it fails, and in a hash map the state afterwards is the state before -/
example :
    let a := ((Api.init .hashMap).exec (.lock .wait 1 1 .none 100)).1
    (a.exec (.lock .try 2 1 .none 100)).2.res.isGuard = false ∧ a.s.hs 2 = none ∧ a.s.touch 1 = a.s := by
  refine ⟨by decide, by decide, rfl⟩

/-- **Dropping the future of a waiting lock call has no lasting effect — at the level of the public calls, in every reachable
state**: after any sequence of API calls, `async_lock` (first poll: queued behind the owner `w` of the key) followed by the drop of
that future leaves the *whole* API state — entries, values, queues (the waiter is out of the FIFO again), handles, every stream's
items and ready queue, suspended calls — exactly as it was, up to the recency refresh of the lookup (`touch`; identity for hash map
and pool). Hypotheses: the handle id is unused — `hs h = none`, and no suspended call is registered under it (a separate condition of the
protocol's id discipline: while a call is suspended in its callback its handle is not in `hs` yet). -/
theorem C06_wait_cancel_call_erased (kind : Kind) (cs : List Call) (h k h0 : Nat) (m : Entry) (w : Nat) :
    let a := cs.foldl (fun a c => (a.exec c).1) (Api.init kind)
    a.s.hs h = none → a.susp.lookup h = none → a.s.ent k = some m → m.holder = some w →
    (((a.exec (.lock .wait h k .none h0)).1).exec (.cancel h)).1 = { a with s := a.s.touch k } := by
  intro a hf hsu hm hho
  exact lock_wait_cancel_erased a (ainv_execs cs _ (ainv_init kind)) h k h0 m w hf hsu hm hho

/-- non-vacuity: key 1 held by guard 1, a stream open with its item queued behind it; handle 2 is unused, waits, is cancelled -/
example :
    let a := ((((Api.init .hashMap).exec (.lock .wait 1 1 .none 100)).1.exec (.lockAll 1 200)).1.exec (.spoll 1)).1
    a.s.hs 2 = none ∧ a.susp.lookup 2 = none ∧ (∃ m, a.s.ent 1 = some m ∧ m.holder = some 1) ∧
    (a.streams.map fun p => (p.2.items, p.2.ready)) = [([200], [])] := by
  refine ⟨by decide, by decide, ⟨_, rfl, rfl⟩, by decide⟩

end Lockable
