/-
C13 — valid use never panics, poisons or hangs the container.
Every `expect` / `assert!` / `panic!` site of the library is an explicit outcome of the action containing it
(`Out.panic site`, plus `wedged := true` when it fires while the global lock is held); the checker of
`slow_assertions` is `slowCheck`.
-/
import Lockable.Proofs.NoPanic
namespace Lockable

/-- In every reachable state — any interleaving, history, argument values (limits ≥ 1, any duration) —
the global lock is neither poisoned nor held by a hung thread. -/
theorem C13_no_wedge (kind : Kind) (as : List Act) : (run (State.init kind) as).wedged = false :=
  (inv_reachable kind as).notWedged

/-- ... and the next action, whatever it is, neither panics at a library site nor finds the lock poisoned. -/
theorem C13_no_panic (kind : Kind) (as : List Act) (a : Act) (hna : a ≠ .intoEntries) :
    (step (run (State.init kind) as) a).2.isFailure = false :=
  step_noFail _ a (inv_reachable kind as) hna

/-- `into_entries_unordered` (callable only when no guard, future or stream exists) does not panic either. -/
theorem C13_into_no_panic (kind : Kind) (as : List Act) :
    let s := run (State.init kind) as
    (∀ h, s.hs h = none) → (intoEntries s).2.isFailure = false := by
  intro s hq
  have hi : Inv s := inv_reachable kind as
  simp only [intoEntries, hi.notWedged, Bool.false_eq_true, ↓reduceIte]
  rw [intoLoop_exact s hi hq s.order [] (fun k hk => hk)]
  rfl

/-- the invariant checker enabled by `slow_assertions` never fires, at any scheduling point -/
theorem C13_slow_assertions (kind : Kind) (as : List Act) : slowCheck (run (State.init kind) as) = none :=
  slowCheck_ok _ (inv_reachable kind as)

/-- non-vacuity of the modelled sites: in a state violating the invariant (a leaked placeholder, as the
unrepaired code produced it) the eviction scan does reach its assertion and wedges the container -/
example :
    let leaked : State := { State.init .hashMap with order := [7], ent := upd (fun _ => none) 7 (some ⟨0, none, none, [], []⟩), nextE := 1 }
    (step leaked (.limitLookup 1 8 1 [10, 11])).2 = .panic .s643 ∧ slowCheck leaked = some .inv716 := by decide

end Lockable
