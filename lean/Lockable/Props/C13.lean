/-
C13 — valid use never panics, poisons or hangs the container.
Every `expect` / `assert!` / `panic!` site of the library is an explicit outcome of the action containing it
(`Out.panic site`, plus `wedged := true` when it fires while the global lock is held); the checker of
`slow_assertions` is `slowCheck`.
-/
import Lockable.Proofs.NoPanic
import Lockable.Proofs.Layers
namespace Lockable

/-- In every reachable state — any interleaving, history, argument values (limits ≥ 1, any duration) —
the global lock is neither poisoned nor held by a hung thread. -/
theorem C13_no_wedge (kind : Kind) (as : List Act) : (run (State.init kind) as).wedged = false :=
  (inv_reachable kind as).notWedged

/-- ... and the next action, whatever it is, neither panics at a library site nor finds the lock poisoned. -/
theorem C13_no_panic (kind : Kind) (as : List Act) (a : Act) (hna : a ≠ .intoEntries) :
    (step (run (State.init kind) as) a).2.isFailure = false :=
  step_noFail _ a (inv_reachable kind as) hna

/-- `into_entries_unordered` (callable only when no guard, future or stream exists) does not panic either. -/
theorem C13_into_no_panic (kind : Kind) (as : List Act) :
    let s := run (State.init kind) as
    (∀ h, s.hs h = none) → (intoEntries s).2.isFailure = false := by
  intro s hq
  have hi : Inv s := inv_reachable kind as
  simp only [intoEntries, hi.notWedged, Bool.false_eq_true, ↓reduceIte]
  rw [intoLoop_exact s hi hq s.order [] (fun k hk => hk)]
  rfl

/-- the invariant checker enabled by `slow_assertions` never fires, at any scheduling point -/
theorem C13_slow_assertions (kind : Kind) (as : List Act) : slowCheck (run (State.init kind) as) = none :=
  slowCheck_ok _ (inv_reachable kind as)

/-- the same for every sequence of public API calls of the sequential layer (all variants, limits, callback scripts,
streams, expiry, cancellations) and for every schedule of the scheduled interpreter: never wedged, and the
`slow_assertions` checker would never fire -/
theorem C13_no_wedge_api (kind : Kind) (cs : List Call) :
    let a := cs.foldl (fun a c => (a.exec c).1) (Api.init kind)
    a.s.wedged = false ∧ slowCheck a.s = none := by
  intro a
  have hi := inv_execs cs (Api.init kind) (inv_init kind)
  exact ⟨hi.notWedged, slowCheck_ok _ hi⟩

theorem C13_no_wedge_sched (kind : Kind) (n : Nat) (progs : List (Nat × List Stmt)) (sched : List Nat) :
    let sc0 : Sched := progs.foldl (fun sc (p : Nat × List Stmt) =>
      match sc.threads[p.1]? with
      | some th => { sc with threads := sc.threads.set p.1 { th with prog := p.2 } }
      | none => sc) (Sched.init kind n)
    let sc' := sched.foldl (fun sc t => (sc.step t).1) sc0
    sc'.s.wedged = false ∧ slowCheck sc'.s = none := by
  intro sc0 sc'
  have h0 : sc0.s = State.init kind := by
    have : ∀ (l : List (Nat × List Stmt)) (c : Sched), (l.foldl (fun sc (p : Nat × List Stmt) =>
        match sc.threads[p.1]? with
        | some th => { sc with threads := sc.threads.set p.1 { th with prog := p.2 } }
        | none => sc) c).s = c.s := by
      intro l
      induction l with
      | nil => intro c; rfl
      | cons p ps ih => intro c; simp only [List.foldl]; rw [ih]; split <;> rfl
    exact this progs (Sched.init kind n)
  have hi0 : Inv sc0.s := by rw [h0]; exact inv_init kind
  have : ∀ (l : List Nat) (c : Sched), Inv c.s → Inv (l.foldl (fun sc t => (sc.step t).1) c).s := by
    intro l
    induction l with
    | nil => intro c hc; exact hc
    | cons t ts ih => intro c hc; exact ih _ (inv_schedStep c t hc)
  have hi := this sched sc0 hi0
  exact ⟨hi.notWedged, slowCheck_ok _ hi⟩

/-- non-vacuity of the modelled sites: in a state violating the invariant (a leaked placeholder, as the
unrepaired code produced it) the eviction scan does reach its assertion and wedges the container -/
example :
    let leaked : State := { State.init .hashMap with order := [7], ent := upd (fun _ => none) 7 (some ⟨0, none, none, [], []⟩), nextE := 1 }
    (step leaked (.limitLookup 1 8 1 [10, 11])).2 = .panic .s643 ∧ slowCheck leaked = some .inv716 := by decide

end Lockable
