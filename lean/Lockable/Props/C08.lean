/-
C08 — soft limit never waits for space, never deadlocks, propagates callback errors.
-/
import Lockable.Proofs.ApiLemmas
import Lockable.Props.C07
import Lockable.Proofs.Fuel
import Lockable.Proofs.Abort
namespace Lockable

/-- **Never waits for space**: if no entry is evictable (every entry is locked, awaited, or a placeholder)
the lookup is performed in the very same critical section, over the limit, and no callback is invoked. -/
theorem C08_all_locked_proceeds (kind : Kind) (as : List Act) (h k n : Nat) (hids : List Nat) :
    let s := run (State.init kind) as
    s.freshList (h :: hids) = true → s.order.length ≤ hids.length →
    (∀ x ∈ s.order, eligB s x = false) →
    limitLookup s h k n hids = lookup s h k := by
  intro s hf hlen hne
  have hi : Inv s := inv_reachable kind as
  have hfl0 := freshL_of s (h :: hids) hf
  have hfl : FreshL s hids := ⟨fun x hx => hfl0.1 x (List.mem_cons_of_mem _ hx), (List.nodup_cons.1 hfl0.2).2⟩
  have hfresh : s.hs h = none := hfl0.1 h (by simp)
  unfold limitLookup
  simp only [hi.notWedged, Bool.false_eq_true, ↓reduceIte, hfresh, Option.isSome_none]
  split
  · rfl
  · have hx := evictLoop_exact s.order s hids (s.order.length - (n - 1)) [] hi hi.nodup hfl hlen (by simp)
    simp only [List.length_nil, List.take_zero, List.reverse_nil, List.drop_zero, Nat.sub_zero, true_and] at hx
    have hnil : s.order.filter (eligB s) = [] := by
      apply List.filter_eq_nil_iff.2; intro x hx; simp [hne x hx]
    have hno := (inv_evictLoop s.order s hids (s.order.length - (n - 1)) [] hi hfl).2
    split
    · rename_i site e; rw [e] at hno; cases hno
    · rfl
    · rename_i s' c cs e
      rw [e, hnil] at hx; simp at hx

/-- **Every round of the loop is one section that returns at once**: its outcome is either the lookup done (`unit`) or a
non-empty list of candidates handed to the callback — never an empty callback invocation, never a wait. This is all the
statement says. That no internal lock is held while the callback runs is structural in the model (the callback's own actions are
ordinary actions between two sections) and is checked on the code by the correspondence with re-entrant (`recount`) and
eagerly working callbacks; that several limited lockers at once all complete is a fairness statement and is not proved
(`C08_eviction_loop_ends` bounds the loop of one call with nobody else acting). -/
theorem C08_round_total (kind : Kind) (as : List Act) (h k n : Nat) (hids : List Nat) :
    let s := run (State.init kind) as
    s.freshList (h :: hids) = true → s.order.length ≤ hids.length →
    (limitLookup s h k n hids).2 = .unit ∨ ∃ c cs, (limitLookup s h k n hids).2 = .list (c :: cs) := by
  intro s hf hlen
  have hi : Inv s := inv_reachable kind as
  have hfl0 := freshL_of s (h :: hids) hf
  have hfl : FreshL s hids := ⟨fun x hx => hfl0.1 x (List.mem_cons_of_mem _ hx), (List.nodup_cons.1 hfl0.2).2⟩
  have hfresh : s.hs h = none := hfl0.1 h (by simp)
  have hlk : (lookup s h k).2 = .unit := by
    simp only [lookup, hi.notWedged, Bool.false_eq_true, ↓reduceIte, hfresh, Option.isSome_none]
    split <;> rfl
  have hno := (inv_evictLoop s.order s hids (s.order.length - (n - 1)) [] hi hfl).2
  unfold limitLookup
  simp only [hi.notWedged, Bool.false_eq_true, ↓reduceIte, hfresh, Option.isSome_none]
  split
  · exact Or.inl hlk
  · split
    · rename_i site e; rw [e] at hno; cases hno
    · exact Or.inl hlk
    · rename_i s' c cs e; exact Or.inr ⟨c, cs, rfl⟩

/-- **Errors propagate**: if the callback returns an error in some round, the lock call returns that error;
the handle of the requested key was never created (the key is not locked by the call), and the state
satisfies the full invariant — nothing is left behind (no leaked placeholder, counts exact by C04). -/
theorem C08_error (a : Api) (v : Variant) (h k n : Nat) (script : List Round) (h0 : Nat) :
    Inv a.s → a.s.hs h = none →
    (a.lock v h k (.soft n script) h0).2.res.isAbort = true →
    (a.lock v h k (.soft n script) h0).1.s.hs h = none ∧ Inv (a.lock v h k (.soft n script) h0).1.s := by
  intro hi hf hab
  have hp := lockPrelude_spec h k (script.length + a.s.order.length + 2) a (.soft n script) h0 [] hi hf
  unfold Api.lock at hab ⊢
  simp only [] at hab ⊢
  generalize hr : a.lockPrelude h k (.soft n script) h0 (script.length + a.s.order.length + 2) [] = r at hp hab ⊢
  obtain ⟨a1, tr, res⟩ := r
  simp only [] at hp hab ⊢
  cases res with
  | err => exact ⟨hp.2 rfl, hp.1⟩
  | userPanic => exact ⟨hp.2 rfl, hp.1⟩
  | ok =>
    exfalso
    simp only [] at hab
    repeat' split at hab
    all_goals simp [Res.isAbort] at hab
  | _ => simp [Res.isAbort] at hab

/-- non-vacuity: limit 1, one evictable entry; the callback keeps it and fails: the call answers `err`,
key 9 is not locked, the entry is still there -/
example :
    let a0 : Api := Api.init .hashMap
    let a1 := (a0.exec (.lock .wait 1 5 .none 100)).1
    let a2 := (a1.exec (.op 1 (.insert 7))).1
    let a3 := (a2.exec (.drop 1)).1
    let r := a3.exec (.lock .wait 2 9 (.soft 1 [⟨[.keep], false, .err⟩]) 200)
    r.2.res.isAbort = true ∧ r.1.s.order = [5] ∧ absVal r.1.s 5 = some 7 := by decide

/-- **The eviction loop of a lock call ends, whatever the callback does** (keep, replace, stash, remove, in any mix, for any
number of scripted rounds): after the rounds of the script the callback is the cooperative one, every further round strictly
decreases the number of evictable entries, and no round increases it. The loop therefore needs at most
(rounds of the script) + (evictable entries) + 1 iterations — the call never spins for space. -/
theorem C08_eviction_loop_ends (h k n : Nat) (hn : 1 ≤ n) (fuel : Nat) (a : Api) (script : List Round) (h0 : Nat)
    (tr : List RoundTrace) (hi : Inv a.s) (hfr : a.s.hs h = none) (hlt : h < h0) (hfree : ∀ x, h0 ≤ x → a.s.hs x = none)
    (hlen : a.s.order.length ≤ supplyLen) (hfuel : script.length + eligCount a.s < fuel) :
    (match (a.lockPrelude h k (.soft n script) h0 fuel tr).2.2 with | .bad => False | _ => True) :=
  lockPrelude_fuel h k n hn fuel a script h0 tr hi hfr hlt hfree hlen hfuel

/-- … so the API layer's soft-limited lock call always comes back with a proper answer (guard, `None`, pending, the callback's
error or panic, or suspended in an async callback): the model's "out of fuel" outcome is not a behaviour. -/
theorem C08_lock_never_out_of_fuel (a : Api) (v : Variant) (h k n : Nat) (script : List Round) (h0 : Nat) (hn : 1 ≤ n)
    (hi : Inv a.s) (hfr : a.s.hs h = none) (hlt : h < h0) (hfree : ∀ x, h0 ≤ x → a.s.hs x = none)
    (hlen : a.s.order.length ≤ supplyLen) :
    (match (a.lock v h k (.soft n script) h0).2.res with | .bad => False | _ => True) :=
  lock_never_bad a v h k n script h0 hn hi hfr hlt hfree hlen

/-- non-vacuity: limit 1, one evictable entry, a callback that keeps its guard three times: the fourth round is the
cooperative one, the call then gets its key -/
example :
    let a0 : Api := Api.init .hashMap
    let a1 := ((a0.exec (.lock .wait 1 5 .none 100)).1.exec (.op 1 (.insert 7))).1
    let a2 := (a1.exec (.drop 1)).1
    let r := a2.exec (.lock .wait 2 9 (.soft 1 [⟨[.keep], false, .ok⟩, ⟨[.keep], false, .ok⟩, ⟨[.keep], false, .ok⟩]) 200)
    r.2.rounds.length = 4 ∧ r.1.s.order = [9] ∧ r.1.s.hs 2 = some ⟨9, 1, .holding⟩ := by decide

/-- **The error is returned** (not only "if the call aborted …"): whenever the first eviction round of a lock call hands guards
to a callback that returns an error, the call returns that error (and by `C08_error` the requested key is not locked and
nothing is left behind). Later rounds are first rounds of the loop's next iteration. -/
theorem C08_err_propagates (a : Api) (v : Variant) (h k n : Nat) (script : List Round) (h0 : Nat) (cands : List Nat)
    (hr : (step a.s (.limitLookup h k n (List.range' h0 supplyLen))).2 = .list cands)
    (hfin : (script.head?.getD defaultRound).fin = .err) :
    (a.lock v h k (.soft n script) h0).2.res matches .err :=
  (lock_first_round a v h k n script h0 cands hr).1 hfin

end Lockable
