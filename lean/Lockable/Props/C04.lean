/-
C04 — exact accounting: no ghost keys, no leaked placeholders.
-/
import Lockable.Proofs.Frame
import Lockable.Proofs.Closed
import Lockable.Proofs.Stream
import Lockable.Proofs.Usable
namespace Lockable

/-- some live handle (guard, pending acquisition, failed try before its clean-up, unpolled stream item) refers to key `k` -/
def Referenced (s : State) (k : Nat) : Prop := ∃ h, hkey (s.hs h) = some k

/-- In every reachable state (every scheduling point of every interleaving) the key list is exactly:
keys that have a value, plus keys that are locked or in the middle of a lock/unlock call. -/
theorem C04_keys_exact (kind : Kind) (as : List Act) (k : Nat) :
    let s := run (State.init kind) as
    k ∈ s.order ↔ (absVal s k ≠ none ∨ Referenced s k) := by
  intro s
  have hi : Inv s := inv_reachable kind as
  rw [hi.keys k]
  constructor
  · intro hk
    cases hm : s.ent k with
    | none => exact absurd hm hk
    | some m =>
      cases hv : m.value with
      | some st => left; simp [absVal, valOf, hm, hv]
      | none =>
        right
        have := hi.inv2 k m hm hv
        cases hr : m.refs with
        | nil => exact absurd hr this
        | cons a t => exact ⟨a, (hi.refs k m hm a).1 (by simp [hr])⟩
  · rintro (hv | ⟨h, hh⟩)
    · intro e; simp [absVal, valOf, e] at hv
    · obtain ⟨hd, e1, e2⟩ := hkey_inv hh
      have := hi.live h hd e1
      intro e; rw [e2] at this; simp [e] at this

/-- the key list has no duplicates, and the two observation calls report exactly that list / its length -/
theorem C04_consistent (kind : Kind) (as : List Act) :
    let s := run (State.init kind) as
    s.order.Nodup ∧ (count s).2 = .nat s.order.length ∧ (keys s).2 = .list s.order := by
  intro s
  have hi : Inv s := inv_reachable kind as
  simp [count, keys, hi.notWedged, hi.nodup]

/-- whenever no guard, pending call or stream item exists, exactly the keys with a value are reported:
the bookkeeping for locking an absent key never outlives its last user. -/
theorem C04_quiescent (kind : Kind) (as : List Act) (k : Nat) :
    let s := run (State.init kind) as
    (∀ h, s.hs h = none) → (k ∈ s.order ↔ absVal s k ≠ none) := by
  intro s hq
  have := C04_keys_exact kind as k
  simp only [] at this
  rw [this]
  constructor
  · rintro (h | ⟨h, hh⟩)
    · exact h
    · have e : (run (State.init kind) as).hs h = none := hq h
      rw [e] at hh; simp at hh
  · exact Or.inl

/-- `num_replicas` of an entry = the live handles of its key (what the deletion conditions test) -/
theorem C04_refs_exact (kind : Kind) (as : List Act) (k h : Nat) (m : Entry) :
    let s := run (State.init kind) as
    s.ent k = some m → (h ∈ m.refs ↔ hkey (s.hs h) = some k) := by
  intro s hm
  exact (inv_reachable kind as).refs k m hm h

/-- C04 at the level of public API calls (transfer of `C04_keys_exact` through `api_reachable`) -/
theorem C04_keys_exact_api (kind : Kind) (cs : List Call) (k : Nat) :
    let a := cs.foldl (fun a c => (a.exec c).1) (Api.init kind)
    k ∈ a.s.order ↔ (absVal a.s k ≠ none ∨ Referenced a.s k) :=
  api_transfer kind (fun s => k ∈ s.order ↔ (absVal s k ≠ none ∨ Referenced s k)) (fun as => C04_keys_exact kind as k) cs

/-- non-vacuity: a failed try on a held, valueless key; after the clean-up and the unlock nothing is left -/
example :
    let acts := [Act.lookup 1 7, .lookup 2 7, .tryKey 2, .stamp 1, .release 1]
    (run (State.init .hashMap) acts).order = [7] ∧
    (run (State.init .hashMap) (acts ++ [.cleanupFailed 2])).order = [] := by decide

/-- **A failed `try_lock` leaves the accounting exactly as it was** — public-call level, every reachable API state: after a plain
`try_lock` call that returned no guard, `num_entries_or_locked` is the same number, `keys_with_entries_or_locked` the same set of keys
(in an lru cache the requested key has moved to the most-recent end, nothing else), the map has the same entries with the same
mutex state, and no handle is left behind — no ghost key, no leaked placeholder from the attempt. -/
theorem C04_failed_try_leaves_counts (kind : Kind) (cs : List Call) (h k h0 : Nat) :
    let a := cs.foldl (fun a c => (a.exec c).1) (Api.init kind)
    a.s.hs h = none → (a.exec (.lock .try h k .none h0)).2.res.isGuard = false →
    let a' := (a.exec (.lock .try h k .none h0)).1
    a'.s.order.length = a.s.order.length ∧ (∀ x, x ∈ a'.s.order ↔ x ∈ a.s.order) ∧ a'.s.ent = a.s.ent ∧ a'.s.hs = a.s.hs := by
  intro a hf hfail
  exact lock_try_failed_counts a (ainv_execs cs _ (ainv_init kind)).inv h k h0 hf hfail

/-- non-vacuity: lru cache with keys 1 (held) and 2; a try on key 1 fails -/
example :
    let a := ((((Api.init .lru).exec (.lock .wait 1 1 .none 100)).1.exec (.op 1 (.insert 10))).1.exec (.lock .wait 2 2 .none 100)).1
    a.s.hs 3 = none ∧ (a.exec (.lock .try 3 1 .none 100)).2.res.isGuard = false ∧ a.s.order = [1, 2] ∧
    (a.exec (.lock .try 3 1 .none 100)).1.s.order = [2, 1] := by decide

end Lockable
