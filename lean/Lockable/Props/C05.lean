/-
C05 — sequentially, the containers refine a plain map plus a set of locked keys.
Observable behaviour of every call of the sequential API layer (`Api.exec`) is characterised by the
abstract state only: the plain map `absVal`, the set of guards (`IsGuard`) and the pending acquisitions.
Guard methods: `C02_gop` (re-exported below). Counting/listing: `C04`. `into`: `C12`.
The eight acquisition variants are two composites in the model (`Variant.wait`, `Variant.try`); that the
eight real methods behave as these two is what the correspondence runs establish (every history is
executed with randomly assigned variants of both classes, borrowed and owned, sync and async).
-/
import Lockable.Proofs.ApiLemmas
import Lockable.Proofs.Refine
import Lockable.Props.C01
import Lockable.Props.C02
import Lockable.Props.C04
import Lockable.Proofs.SpecTrace
import Lockable.Proofs.Closed
import Lockable.Proofs.LinearOut
namespace Lockable

/-- the key is neither locked nor awaited: no guard for it, and no pending acquisition was handed or is queued for it -/
def KeyFree (s : State) (k : Nat) : Prop :=
  ∀ x hd, s.hs x = some hd → hd.key = k → hd.st.mayHold = false

theorem keyFree_iff (s : State) (hi : Inv s) (k : Nat) (m : Entry) (hm : s.ent k = some m) :
    KeyFree s k ↔ m.holder = none := by
  constructor
  · intro hf
    cases hh : m.holder with
    | none => rfl
    | some x =>
      obtain ⟨hk, st, hs1, hs2⟩ := hi.holderLive k m x hm hh
      obtain ⟨xd, e1, e2⟩ := hkey_inv hk
      obtain ⟨xd', e1', e2'⟩ := hst_inv hs1
      rw [e1] at e1'; cases e1'
      have := hf x xd e1 e2
      rw [e2'] at this; rw [this] at hs2; cases hs2
  · intro hfree x hd hx hk
    cases hst : hd.st with
    | holding =>
      have := hi.guardHolds x hd hx (by simp [hst, HSt.isGuard]) m (by rw [hk]; exact hm)
      rw [hfree] at this; cases this
    | stamped b =>
      have := hi.guardHolds x hd hx (by simp [hst, HSt.isGuard]) m (by rw [hk]; exact hm)
      rw [hfree] at this; cases this
    | queued =>
      -- a queued handle is the holder or in the queue; the queue of a free mutex is empty
      have hq := hi.freeNoQueue k m hm hfree
      have := (hi.queue k m hm x).2 ⟨by simp [hx, hk], by simp [hx, hst], by simp [hfree]⟩
      rw [hq] at this; cases this
    | replica => rfl
    | failedTry => rfl

/-- **try variants**: in any state reached by any history, a `try` acquisition (no limit) returns a guard iff the key
is neither locked nor awaited, and `none` otherwise; in the `none` case no handle is left and no value changed. -/
theorem C05_try (kind : Kind) (as : List Act) (h k h0 : Nat) :
    let s := run (State.init kind) as
    let a : Api := { s := s, streams := [], susp := [] }
    s.hs h = none →
    (KeyFree s k → (match (a.lock .try h k .none h0).2.res with | .guard => True | _ => False) ∧
        IsGuard (a.lock .try h k .none h0).1.s h k) ∧
    (¬ KeyFree s k → (match (a.lock .try h k .none h0).2.res with | .none => True | _ => False) ∧
        (a.lock .try h k .none h0).1.s.hs h = none ∧
        ∀ k', absVal (a.lock .try h k .none h0).1.s k' = absVal s k') := by
  intro s a hf
  have hi : Inv s := inv_reachable kind as
  have hlk : (lookup s h k).2 = .unit := by
    simp only [lookup, hi.notWedged, Bool.false_eq_true, ↓reduceIte, hf, Option.isSome_none]; split <;> rfl
  cases hm : s.ent k with
  | none =>
    have hfree : KeyFree s k := by
      intro x hd hx hk
      have := hi.live x hd hx; rw [hk, hm] at this; simp at this
    refine ⟨fun _ => ?_, fun hn => absurd hfree hn⟩
    simp [a, Api.lock, Api.lockPrelude, lookup, hi.notWedged, hf, hm, upd, IsGuard, HSt.isGuard]
  | some m =>
    have hkf := keyFree_iff s hi k m hm
    have hs1 : (lookup s h k).1 = (s.clone h k m).touch k := by
      simp [lookup, hi.notWedged, hf, hm]
    have hhs : ((s.clone h k m).touch k).hs h = some ⟨k, m.eid, .replica⟩ := by
      rw [touch_hs]; simp [State.clone, upd]
    have hent : ((s.clone h k m).touch k).ent k = some { m with refs := h :: m.refs } := by
      rw [touch_ent]; simp [State.clone, upd]
    have heo : ((s.clone h k m).touch k).entryOf ⟨k, m.eid, .replica⟩ = some { m with refs := h :: m.refs } := by
      simp [State.entryOf, hent]
    constructor
    · intro hfree
      have hh := hkf.1 hfree
      simp [a, Api.lock, Api.lockPrelude, hlk, hs1, hhs, tryKey, heo, hh, IsGuard, State.setSt, State.setEnt, upd, HSt.isGuard]
    · intro hn
      have hh : m.holder ≠ none := fun e => hn (hkf.2 e)
      have hsome : m.holder.isNone = false := by cases hx : m.holder <;> simp_all
      -- failed try, then the clean-up section
      have hi1 : Inv ((s.clone h k m).touch k) := by rw [← hs1]; exact inv_lookup s h k hi
      have htk : tryKey ((s.clone h k m).touch k) h = (((s.clone h k m).touch k).setSt h ⟨k, m.eid, .replica⟩ .failedTry, .bool false) := by
        simp [tryKey, hhs, heo, hsome]
      have hi2 : Inv (((s.clone h k m).touch k).setSt h ⟨k, m.eid, .replica⟩ .failedTry) := by
        have := inv_tryKey _ h hi1; rw [htk] at this; exact this
      have heo2 : (((s.clone h k m).touch k).setSt h ⟨k, m.eid, .replica⟩ .failedTry).entryOf ⟨k, m.eid, .failedTry⟩
          = some { m with refs := h :: m.refs } := by
        simp [State.entryOf, State.setSt, hent]
      have hh2 : (((s.clone h k m).touch k).setSt h ⟨k, m.eid, .replica⟩ .failedTry).hs h = some ⟨k, m.eid, .failedTry⟩ := by
        simp [State.setSt, upd]
      have hsp := cleanupFailed_spec _ h ⟨k, m.eid, .failedTry⟩ _ hi2 hh2 rfl heo2
      have hval : ∀ k', absVal (cleanupFailed (((s.clone h k m).touch k).setSt h ⟨k, m.eid, .replica⟩ .failedTry) h).1 k' = absVal s k' := by
        intro k'
        rw [absVal_cleanupFailed]
        show absVal ((s.clone h k m).touch k) k' = _
        rw [absVal_touch, absVal_clone s h k m hm]
      simp only [a, Api.lock, Api.lockPrelude, hlk, hs1, hhs, htk, hsp.1]
      exact ⟨trivial, hsp.2, hval⟩

/-- **waiting variants**: a guard at once iff the key is neither locked nor awaited, otherwise the call is pending (queued). -/
theorem C05_wait (kind : Kind) (as : List Act) (h k h0 : Nat) :
    let s := run (State.init kind) as
    let a : Api := { s := s, streams := [], susp := [] }
    s.hs h = none →
    (KeyFree s k → (match (a.lock .wait h k .none h0).2.res with | .guard => True | _ => False) ∧
        IsGuard (a.lock .wait h k .none h0).1.s h k) ∧
    (¬ KeyFree s k → (match (a.lock .wait h k .none h0).2.res with | .pending => True | _ => False) ∧
        hst ((a.lock .wait h k .none h0).1.s.hs h) = some .queued) := by
  intro s a hf
  have hi : Inv s := inv_reachable kind as
  have hlk : (lookup s h k).2 = .unit := by
    simp only [lookup, hi.notWedged, Bool.false_eq_true, ↓reduceIte, hf, Option.isSome_none]; split <;> rfl
  cases hm : s.ent k with
  | none =>
    have hfree : KeyFree s k := by
      intro x hd hx hk
      have := hi.live x hd hx; rw [hk, hm] at this; simp at this
    refine ⟨fun _ => ?_, fun hn => absurd hfree hn⟩
    simp [a, Api.lock, Api.lockPrelude, lookup, hi.notWedged, hf, hm, upd, IsGuard, HSt.isGuard]
  | some m =>
    have hkf := keyFree_iff s hi k m hm
    have hs1 : (lookup s h k).1 = (s.clone h k m).touch k := by
      simp [lookup, hi.notWedged, hf, hm]
    have hhs : ((s.clone h k m).touch k).hs h = some ⟨k, m.eid, .replica⟩ := by
      rw [touch_hs]; simp [State.clone, upd]
    have hent : ((s.clone h k m).touch k).ent k = some { m with refs := h :: m.refs } := by
      rw [touch_ent]; simp [State.clone, upd]
    have heo : ((s.clone h k m).touch k).entryOf ⟨k, m.eid, .replica⟩ = some { m with refs := h :: m.refs } := by
      simp [State.entryOf, hent]
    constructor
    · intro hfree
      have hh := hkf.1 hfree
      simp [a, Api.lock, Api.lockPrelude, hlk, hs1, hhs, enqueue, heo, hh, IsGuard, State.setSt, State.setEnt, upd, HSt.isGuard]
    · intro hn
      have hh : m.holder ≠ none := fun e => hn (hkf.2 e)
      have hsome : m.holder.isNone = false := by cases hx : m.holder <;> simp_all
      simp [a, Api.lock, Api.lockPrelude, hlk, hs1, hhs, enqueue, heo, hsome, State.setSt, State.setEnt, upd]

/-- **poll** of a pending acquisition: a guard iff the lock was handed to it (the holder in front released), else still pending -/
theorem C05_poll (s : State) (h : Nat) (hd : Handle) (m : Entry) :
    s.hs h = some hd → hd.st = .queued → s.entryOf hd = some m →
    (m.holder = some h → (acquire s h).2 = .bool true ∧ IsGuard (acquire s h).1 h hd.key) ∧
    (m.holder ≠ some h → (acquire s h).2 = .bool false ∧ (acquire s h).1 = s) := by
  intro hh hst hm
  constructor
  · intro e; simp [acquire, hh, hst, hm, e, IsGuard, State.setSt, upd, HSt.isGuard]
  · intro e; simp [acquire, hh, hst, hm, e]

/-- guard methods return and store what the plain map would: the statement is `C02_gop` (Props/C02.lean), restated here
for the handle of a sequential caller; counting/listing: `C04_keys_exact`, `C04_consistent`; `into`: `C12_exact`. -/
theorem C05_guard_value (s : State) (h : Nat) (hd : Handle) (m : Entry) :
    s.hs h = some hd → hd.st = .holding → s.entryOf hd = some m →
    (gop s h .value).2 = .optVal (absVal s hd.key) ∧ (gop s h .value).1 = s := C02_view s h hd m

/-- **Refinement (Theorem B)**: for every finite single-threaded history of acquisitions (waiting or trying, any key),
polls and cancellations of pending acquisitions, guard methods with arbitrary values and guard drops in any
order — from the empty container of any kind — the container's replies are exactly those of the abstract
specification `specExec`: a plain map `vals`, at most one guard per key (`held`), FIFO waiters per key
(`waiting`); a try succeeds iff the key is neither held nor awaited, a pending acquisition completes iff it
is first in line and the key is not held. (`WF`: every call is applied to a handle in the right state,
which Rust's ownership guarantees for a client.) -/
theorem C05_refines (kind : Kind) (cs : List SCall) :
    WF (State.init kind) cs → runApi (State.init kind) cs = runSpec Spec.init cs :=
  refines_run cs (State.init kind) Spec.init (inv_init kind) (rel_init kind)

/-- one call, with the resulting states related again (the induction step of `C05_refines`) -/
theorem C05_refines_step (s : State) (sp : Spec) (hi : Inv s) (hr : Rel s sp) (c : SCall) (hpre : Pre s c) :
    resOut (Api.exec ⟨s, [], []⟩ c.toCall).2.res = (specExec sp c).2 ∧
    Rel (Api.exec ⟨s, [], []⟩ c.toCall).1.s (specExec sp c).1 ∧ Inv (Api.exec ⟨s, [], []⟩ c.toCall).1.s :=
  refines_step s sp hi hr c hpre

/-- what the abstract state says is "present": the key has a value, a guard, or a pending acquisition -/
def Spec.present (sp : Spec) (k : Nat) : Prop := sp.vals k ≠ none ∨ sp.held k ≠ none ∨ sp.waiting k ≠ []

/-- the counting and listing calls agree with the abstract state: `keys_with_entries_or_locked` lists (without
duplicates) exactly the keys that are present in the specification, and `num_entries_or_locked` is its length -/
theorem C05_observations_refine (s : State) (sp : Spec) (hi : Inv s) (hr : Rel s sp) :
    (keys s).2 = .list s.order ∧ (count s).2 = .nat s.order.length ∧ s.order.Nodup ∧
    ∀ k, k ∈ s.order ↔ sp.present k := by
  refine ⟨by simp [keys, hi.notWedged], by simp [count, hi.notWedged], hi.nodup, ?_⟩
  intro k
  rw [hi.keys k]
  unfold Spec.present
  constructor
  · intro hk
    cases hm : s.ent k with
    | none => exact absurd hm hk
    | some m =>
      cases hv : m.value with
      | some st => left; rw [← hr.vals k]; simp [absVal, valOf, hm, hv]
      | none =>
        right
        have hne := hi.inv2 k m hm hv
        cases hrf : m.refs with
        | nil => exact absurd hrf hne
        | cons a t =>
          have hka : hkey (s.hs a) = some k := (hi.refs k m hm a).1 (by simp [hrf])
          obtain ⟨ad, e1, e2⟩ := hkey_inv hka
          rcases hr.seq a ad.st (by simp [e1]) with e | e
          · left
            have := (hr.held k a).2 ⟨hka, by simp [e1, e]⟩
            rw [this]; simp
          · right
            rw [hr.wait k, waitingOf_eq s k m hm]
            -- a queued handle is the assigned holder or in the queue
            by_cases hho : m.holder = some a
            · simp [waitersOf, hho, e1, e]
            · have : a ∈ m.queue := (hi.queue k m hm a).2 ⟨hka, by simp [e1, e], hho⟩
              intro hnil
              have : a ∈ waitersOf s m := by simp [waitersOf, this]
              rw [hnil] at this; cases this
  · rintro (hv | hh | hw)
    · intro e; rw [← hr.vals k] at hv; simp [absVal, valOf, e] at hv
    · cases hx : sp.held k with
      | none => exact absurd hx hh
      | some g =>
        obtain ⟨gk, _⟩ := (hr.held k g).1 hx
        obtain ⟨gd, e1, e2⟩ := hkey_inv gk
        have := hi.live g gd e1
        intro e; rw [e2, e] at this; simp at this
    · intro e
      rw [hr.wait k] at hw; simp [waitingOf, e] at hw

/-- non-vacuity of `C05_refines`: a history with contention, a queue, a cancellation and value changes -/
example :
    let cs : List SCall := [.lockWait 1 7, .op 1 7 (.insert 5), .lockWait 2 7, .lockTry 3 7, .lockWait 4 7, .cancel 2 7,
                            .drop 1 7, .lockTry 5 7, .poll 4 7, .op 4 7 .remove, .drop 4 7, .lockTry 6 7]
    runSpec Spec.init cs = [.guard, .val (.optVal none), .pending, .none, .pending, .ok, .ok, .none, .guard,
                            .val (.optVal (some 5)), .ok, .guard] ∧
    runApi (State.init .lru) cs = runSpec Spec.init cs := by decide

/-- non-vacuity: try on a key that is awaited (handed to a pending waiter but not held by a guard) fails -/
example :
    let a0 : Api := Api.init .hashMap
    let a1 := ((a0.exec (.lock .wait 1 7 .none 100)).1.exec (.lock .wait 2 7 .none 100)).1
    let a2 := (a1.exec (.drop 1)).1
    (match (a2.exec (.lock .try 3 7 .none 100)).2.res with | .none => true | _ => false) = true ∧
    (match ((a2.exec (.poll 2)).1.exec (.lock .try 4 7 .none 100)).2.res with | .none => true | _ => false) = true := by
  decide


/-- **Theorem C (linearisation)**: the abstract history of every run of the core model — all acquisition variants, guard
methods, drops, cancellations, scans, by any number of threads in any interleaving — is an execution of the atomic
specification `Spec` (a plain key → value map, at most one guard per key, FIFO waiters), every event being *enabled*
in the specification when it happens, and ends in the abstraction of the final state. No sequential-client
assumption (contrast `C05_refines`). -/
theorem C05_linearizable (kind : Kind) (as : List Act) :
    applyEvs Spec.init (evsRun (State.init kind) as) = some (absSpec (run (State.init kind) as)) :=
  lin_reachable kind as

/-- … where a try succeeds exactly when the specification says the key is free, -/
theorem C05_try_iff_free (kind : Kind) (as : List Act) (h : Nat) (hd : Handle)
    (hh : (run (State.init kind) as).hs h = some hd) (hst : hd.st = .replica) :
    (tryKey (run (State.init kind) as) h).2 = .bool true ↔ (absSpec (run (State.init kind) as)).free hd.key = true :=
  try_iff_free _ (inv_reachable kind as) h hd hh hst

/-- … and only the guard of a key writes its value or releases it. -/
theorem C05_only_guard_acts (k h : Nat) (e : SEv) (sp sp₁ : Spec) (he : applyEv sp e = some sp₁)
    (hact : e = .release h k ∨ ∃ v, e = .write h k v) : sp.held k = some h :=
  only_guard_acts k h e sp sp₁ he hact

/-- non-vacuity of `C05_linearizable`: an interleaving with an insertion, a failed try, a hand-off and a cancellation -/
example :
    evsRun (State.init .lru)
      [.lookup 1 7, .gop 1 (.insert 5), .lookup 2 7, .tryKey 2, .lookup 3 7, .enqueue 3, .lookup 4 7, .enqueue 4,
       .cleanupFailed 2, .cancel 3, .stamp 1, .release 1, .acquire 4, .gop 4 .remove] =
      [.acquire 1 7, .write 1 7 (some 5), .wait 3 7, .wait 4 7, .leave 3 7, .release 1 7, .grant 4 7, .write 4 7 none] := by
  decide

/-- … at the level of public API calls (any call sequence: all variants, limits with any callback script, streams, expiry):
the state reached is the end of a run `as` of the core model, and the abstract history of *that run* is an execution of the
atomic specification ending in the abstraction of the state reached (so everything `C05_linearizable` and the history
theorems say about runs applies to it). -/
theorem C05_linearizable_api (kind : Kind) (cs : List Call) :
    ∃ as, (cs.foldl (fun a c => (a.exec c).1) (Api.init kind)).s = run (State.init kind) as ∧
      applyEvs Spec.init (evsRun (State.init kind) as) =
        some (absSpec (cs.foldl (fun a c => (a.exec c).1) (Api.init kind)).s) := by
  obtain ⟨as, e⟩ := api_reachable kind cs
  exact ⟨as, e, by rw [e]; exact lin_reachable kind as⟩

/-- … and for every schedule of every set of thread programs of the scheduled interpreter. -/
theorem C05_linearizable_sched (kind : Kind) (threads : List Thread) (sched : List Nat) :
    let final := (sched.foldl (fun sc t => (sc.step t).1) ({ s := State.init kind, threads := threads } : Sched)).s
    ∃ as, final = run (State.init kind) as ∧
      applyEvs Spec.init (evsRun (State.init kind) as) = some (absSpec final) := by
  intro final
  obtain ⟨as, e⟩ := sched_reachable ({ s := State.init kind, threads := threads } : Sched) sched
  exact ⟨as, e, by rw [show final = run (State.init kind) as from e]; exact lin_reachable kind as⟩

/-- **What the calls answer is what the specification answers** (Theorem C, outputs), in every reachable state of the
concurrent core: an uncontended wait gets the key at once iff the key is free in the abstraction (no guard, nobody
waiting) and queues iff it is not; a pending acquisition completes iff the key has no guard and the waiter is first
in line; a guard method returns and stores what the plain map returns and stores. (`C05_try_iff_free` is the try case.) -/
theorem C05_outputs_from_spec (kind : Kind) (as : List Act) (h : Nat) (hd : Handle)
    (hh : (run (State.init kind) as).hs h = some hd) :
    let s := run (State.init kind) as
    (hd.st = .replica →
      ((enqueue s h).2 = .bool true ↔ (absSpec s).free hd.key = true) ∧
      ((enqueue s h).2 = .bool false ↔ (absSpec s).free hd.key = false)) ∧
    (hd.st = .queued →
      ((acquire s h).2 = .bool true ↔ ((absSpec s).held hd.key = none ∧ ((absSpec s).waiting hd.key).head? = some h))) ∧
    (hd.st = .holding → ∀ g,
      (gop s h g).2 = (match g with | .key => Out.nat hd.key | _ => (specOp ((absSpec s).vals hd.key) g).2) ∧
      absVal (gop s h g).1 hd.key = (specOp ((absSpec s).vals hd.key) g).1) := by
  intro s
  have hi := inv_reachable kind as
  exact ⟨fun e => enqueue_iff_free s hi h hd hh e, fun e => acquire_iff_grantable s hi h hd hh e,
    fun e g => gop_out_spec s hi h hd g hh e⟩

end Lockable
