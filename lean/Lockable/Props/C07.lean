/-
C07 — soft limit: when the eviction callback runs, with what, and the resulting bound.
`limitLookup s h k N hids` is one iteration of the `SoftLimit` loop: it either answers `Out.list cands`
(the callback is to be invoked with exactly these guards, then the loop repeats) or performs the lookup.
-/
import Lockable.Proofs.Evict
import Lockable.Proofs.Term
import Lockable.Proofs.Returns
import Lockable.Proofs.Holds
import Lockable.Proofs.Own
namespace Lockable

theorem lookup_not_list (s : State) (h k : Nat) (l : List Nat) : (lookup s h k).2 ≠ .list l := by
  unfold lookup; split <;> (try split) <;> (try split) <;> simp

/-- **When**: the callback is invoked only while the container holds at least N entries-or-locked-keys;
**with what**: the guards are exactly the first `len - (N-1)` eligible (unlocked, value-carrying) entries of
the iteration order — hence pairwise distinct, not held by anybody else before the scan, never more than
needed to make room for one new entry, and as many as possible up to that number. Holds in every
reachable state: all N ≥ 1, all populations, all sets of held keys, requested key present/absent/evictable. -/
theorem C07_candidates (kind : Kind) (as : List Act) (h k n : Nat) (hids cands : List Nat) :
    let s := run (State.init kind) as
    s.freshList (h :: hids) = true → s.order.length ≤ hids.length → 1 ≤ n →
    (limitLookup s h k n hids).2 = .list cands →
    n ≤ s.order.length ∧
    cands.map (keyOfH (limitLookup s h k n hids).1) = (s.order.filter (eligB s)).take (s.order.length - (n - 1)) ∧
    cands.length ≤ s.order.length - (n - 1) ∧ cands ≠ [] := by
  intro s hf hlen hn hout
  have hi : Inv s := inv_reachable kind as
  have hfl0 := freshL_of s (h :: hids) hf
  have hfl : FreshL s hids := ⟨fun x hx => hfl0.1 x (List.mem_cons_of_mem _ hx), (List.nodup_cons.1 hfl0.2).2⟩
  have hfresh : s.hs h = none := hfl0.1 h (by simp)
  unfold limitLookup at hout ⊢
  simp only [hi.notWedged, Bool.false_eq_true, ↓reduceIte, hfresh, Option.isSome_none] at hout ⊢
  split at hout
  · exact absurd hout (lookup_not_list s h k cands)
  · rename_i hex
    have hex' : n ≤ s.order.length := by omega
    simp only [hex, ↓reduceIte]
    have hx := evictLoop_exact s.order s hids (s.order.length - (n - 1)) [] hi hi.nodup hfl hlen (by simp)
    simp only [List.length_nil, List.take_zero, List.reverse_nil, List.drop_zero, Nat.sub_zero, true_and] at hx
    split at hout
    · cases hout
    · exact absurd hout (lookup_not_list s h k cands)
    · rename_i s' c cs heq
      simp only [heq] at hx ⊢
      cases hout
      refine ⟨hex', hx, ?_, by simp⟩
      have := congrArg List.length hx
      rw [List.length_map, List.length_take] at this
      omega

/-- with no limit nothing is ever evicted: the plain lookup never asks for a callback -/
theorem C07_no_limit_no_evict (s : State) (h k : Nat) (l : List Nat) : (lookup s h k).2 ≠ .list l :=
  lookup_not_list s h k l

/-- below the limit nothing is evicted either -/
theorem C07_below_limit (s : State) (h k n : Nat) (hids : List Nat) (hb : s.order.length < n) :
    limitLookup s h k n hids = lookup s h k := by
  unfold limitLookup
  have : s.order.length - (n - 1) = 0 := by omega
  simp only [this, ↓reduceIte]
  unfold lookup
  split <;> (try split) <;> rfl

/-- **Bound**: when the loop ends (the lookup is performed) there is room, or nothing is evictable; so the
call leaves at most `max(N, number of non-evictable entries + 1)` entries — non-evictable = locked,
awaited, or valueless placeholders of lock calls in progress. -/
theorem C07_bound (kind : Kind) (as : List Act) (h k n : Nat) (hids : List Nat) :
    let s := run (State.init kind) as
    s.freshList (h :: hids) = true → s.order.length ≤ hids.length → 1 ≤ n →
    (limitLookup s h k n hids).2 = .unit →
    (limitLookup s h k n hids).1.order.length ≤ max n ((s.order.filter (fun x => !eligB s x)).length + 1) := by
  intro s hf hlen hn hout
  have hi : Inv s := inv_reachable kind as
  have hfl0 := freshL_of s (h :: hids) hf
  have hfl : FreshL s hids := ⟨fun x hx => hfl0.1 x (List.mem_cons_of_mem _ hx), (List.nodup_cons.1 hfl0.2).2⟩
  have hfresh : s.hs h = none := hfl0.1 h (by simp)
  have hlk : (lookup s h k).1.order.length ≤ s.order.length + 1 := by
    unfold lookup
    split; · simp
    split; · simp
    split
    · rename_i m hm
      have : ((s.clone h k m).touch k).order.length = s.order.length := by
        unfold State.touch; split
        · have hk : k ∈ s.order := (hi.keys k).2 (by simp [hm])
          simp [promote, State.clone, List.length_erase_of_mem hk]
          have := List.length_pos_of_mem hk; omega
        · rfl
      show ((s.clone h k m).touch k).order.length ≤ _
      omega
    · simp
  have hcount : s.order.length = (s.order.filter (eligB s)).length + (s.order.filter (fun x => !eligB s x)).length := by
    induction s.order with
    | nil => rfl
    | cons a t ih => by_cases e : eligB s a <;> simp [e] <;> omega
  unfold limitLookup at hout ⊢
  simp only [hi.notWedged, Bool.false_eq_true, ↓reduceIte, hfresh, Option.isSome_none] at hout ⊢
  split
  · rename_i hex
    have : s.order.length ≤ n - 1 := by omega
    omega
  · rename_i hex
    simp only [hex, ↓reduceIte] at hout
    have hx := evictLoop_exact s.order s hids (s.order.length - (n - 1)) [] hi hi.nodup hfl hlen (by simp)
    simp only [List.length_nil, List.take_zero, List.reverse_nil, List.drop_zero, Nat.sub_zero, true_and] at hx
    split at hout
    · cases hout
    · rename_i s' heq
      simp only [heq] at hx ⊢
      have h0 := congrArg List.length hx
      simp only [List.map_nil, List.length_nil, List.length_take] at h0
      have : (s.order.filter (eligB s)).length = 0 := by omega
      omega
    · cases hout

/-- **Progress of a cooperative round**: after the callback removed the value of a candidate and dropped its
guard, that key is no longer evictable (it is gone, or a valueless placeholder of somebody else's lock
call) — so each cooperative round strictly decreases the number of evictable entries and the loop ends. -/
theorem C07_rm_not_eligible (s : State) (c : Nat) (hd : Handle) (m : Entry) (hi : Inv s) :
    s.hs c = some hd → hd.st = .holding → s.entryOf hd = some m →
    let s1 := (gop s c .remove).1
    let s2 := (stamp s1 c).1
    let s3 := (release s2 c).1
    eligB s3 hd.key = false := by
  intro hh hst hm s1 s2 s3
  have hm1 := (entryOf_some hm).1
  have he := (entryOf_some hm).2
  have hs1 : s1 = s.setEnt hd.key { m with value := none } := by
    show (gop s c .remove).1 = _; simp [gop, hh, hst, hm]
  have hs1h : s1.hs c = some hd := by rw [hs1]; exact hh
  have hs1e : s1.entryOf hd = some { m with value := none } := by
    rw [hs1]; simp [State.entryOf, State.setEnt, upd, he]
  have hs2 : s2 = (s1.setEnt hd.key { m with value := none }).setSt c hd (.stamped false) := by
    show (stamp s1 c).1 = _
    simp only [stamp, hs1h, hst, hs1e]
    cases s1.kind <;> simp
  have hs2h : s2.hs c = some { hd with st := .stamped false } := by
    rw [hs2]; simp [State.setSt, upd]
  have hs2e : s2.entryOf { hd with st := .stamped false } = some { m with value := none } := by
    rw [hs2]; simp [State.entryOf, State.setSt, State.setEnt, upd, he]
  have hw : s2.wedged = false := by rw [hs2, hs1]; exact hi.notWedged
  show eligB (release s2 c).1 hd.key = false
  simp only [release, hw, Bool.false_eq_true, ↓reduceIte, hs2h, hs2e]
  split
  · simp [eligB, State.removeKey, upd]
  · simp only [eligB, touch_ent]
    simp [State.setEnt, State.dropHandle, upd, handoff]

/-- **The loop ends for a cooperative callback** ("if the callback removes what it is given, the call returns"): with the
default callback (remove every guard it is given, return Ok) the soft-limit loop always reaches the lookup within the
fuel the API layer gives it (number of script rounds + number of entries + 2): each round strictly decreases the
number of evictable entries. Holds from every state satisfying the invariant, for every N ≥ 1, any population,
any set of keys held or awaited by others. -/
theorem C07_cooperative_terminates (a : Api) (h k n h0 : Nat) (hn : 1 ≤ n) (hi : Inv a.s)
    (hfr : a.s.hs h = none) (hlt : h < h0) (hfree : ∀ x, h0 ≤ x → a.s.hs x = none) (hlen : a.s.order.length ≤ supplyLen) :
    (match (a.lockPrelude h k (.soft n []) h0 (0 + a.s.order.length + 2) []).2.2 with | .ok => True | _ => False) := by
  apply lockPrelude_terminates h k n hn _ a h0 [] hi hfr hlt hfree hlen
  have : eligCount a.s ≤ a.s.order.length := by
    unfold eligCount; exact List.length_filter_le _ _
  omega

/-- **"If the callback removes what it is given, the call returns"**: a soft-limited acquisition with the cooperative callback
always comes back — with a guard, or `None` / a pending acquisition when somebody else holds or awaits the key. -/
theorem C07_cooperative_returns (a : Api) (v : Variant) (h k n h0 : Nat) (hn : 1 ≤ n) (hi : Inv a.s)
    (hfr : a.s.hs h = none) (hlt : h < h0) (hfree : ∀ x, h0 ≤ x → a.s.hs x = none) (hlen : a.s.order.length ≤ supplyLen) :
    Returned (a.lock v h k (.soft n []) h0).2.res :=
  lock_cooperative_returns a v h k n h0 hn hi hfr hlt hfree hlen

/-- **"... returns with the requested key locked"**: whenever the lock call itself (any variant, any limit, any callback script)
answers with a guard, the caller's handle is a holder of exactly the key that was asked for and the key's mutex names it as its owner.
Together with `C07_cooperative_returns` (the call comes back) and `C01_*` (holders are exclusive) this is the full sentence.
Scope: the call `Api.lock`; a call that answered `pending` or was suspended in its callback completes through a later `poll`
(`acquire` resp. `Api.resume`, which ends in `Api.lock` again) — for those the statement is `acquire_iff_grantable` / this theorem
applied to the resumed call. -/
theorem C07_guard_means_locked (a : Api) (v : Variant) (h k : Nat) (limit : Limit) (h0 : Nat) (hi : Inv a.s)
    (hfr : a.s.hs h = none) :
    match (a.lock v h k limit h0).2.res with
    | .guard => ∃ hd, (a.lock v h k limit h0).1.s.hs h = some hd ∧ hd.key = k ∧ hd.st = .holding ∧
        hold (a.lock v h k limit h0).1.s h k = true
    | _ => True := by
  have h1 := lock_guard_holds a v h k limit h0 hi hfr
  have hi' := inv_lock a v h k limit h0 hi
  cases hr : (a.lock v h k limit h0).2.res <;> simp only [hr] at h1 ⊢
  obtain ⟨hd, e1, e2, e3⟩ := h1
  refine ⟨hd, e1, e2, e3, ?_⟩
  obtain ⟨m, hm, _⟩ := eeid_inv (hi'.live h hd e1)
  have := hi'.guardHolds h hd e1 (by simp [e3, HSt.isGuard]) m hm
  rw [e2] at hm
  unfold hold; rw [hm]; simp [this]

/-- non-vacuity: limit 2, three valued entries one of which is locked: exactly two candidates, in order -/
example :
    let s := run (State.init .lru)
      [.lookup 1 1, .gop 1 (.insert 10), .stamp 1, .release 1, .lookup 2 2, .gop 2 (.insert 20),
       .lookup 3 3, .gop 3 (.insert 30), .stamp 3, .release 3]
    (limitLookup s 9 4 2 [100, 101, 102]).2 = .list [100, 101] ∧
    keyOfH (limitLookup s 9 4 2 [100, 101, 102]).1 100 = 1 ∧ keyOfH (limitLookup s 9 4 2 [100, 101, 102]).1 101 = 3 := by
  decide

end Lockable
