import Lockable.Model.Proto
open Lockable

partial def loop (h : IO.FS.Stream) (out : IO.FS.Stream) (a : DState) : IO Unit := do
  let line ← h.getLine
  if line.isEmpty then return ()
  if line.trimAscii.toString.isEmpty || line.startsWith "#" then
    loop h out a
  else
    let (a', reply) := handleLine a line
    out.putStrLn reply
    loop h out a'

def main : IO Unit := do
  let stdin ← IO.getStdin
  let stdout ← IO.getStdout
  loop stdin stdout (.seq (Api.init .hashMap))
  stdout.flush
