import Lockable.Model.Core
import Lockable.Model.Api
import Lockable.Model.Proto
import Lockable.Proofs.Inv
import Lockable.Proofs.Steps
import Lockable.Proofs.Steps2
import Lockable.Proofs.Steps3
