import Lockable.Model.Core
import Lockable.Model.Api
import Lockable.Model.Proto
