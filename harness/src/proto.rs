//! Request lines of /verif/PROTOCOL.md: data types, parser and printer.

use std::fmt;

#[derive(Debug, Clone, Copy, PartialEq, Eq)]
pub enum Kind {
    HashMap,
    Lru,
    Pool,
}

impl Kind {
    pub fn name(self) -> &'static str {
        match self {
            Kind::HashMap => "hashmap",
            Kind::Lru => "lru",
            Kind::Pool => "pool",
        }
    }
    pub fn parse(s: &str) -> Option<Kind> {
        match s {
            "hashmap" => Some(Kind::HashMap),
            "lru" => Some(Kind::Lru),
            "pool" => Some(Kind::Pool),
            _ => None,
        }
    }
}

#[derive(Debug, Clone, Copy, PartialEq, Eq, PartialOrd, Ord)]
pub enum Variant {
    B,
    Bo,
    T,
    To,
    A,
    Ao,
    Ta,
    Tao,
}

pub const ALL_VARIANTS: [Variant; 8] = [
    Variant::B,
    Variant::Bo,
    Variant::T,
    Variant::To,
    Variant::A,
    Variant::Ao,
    Variant::Ta,
    Variant::Tao,
];

impl Variant {
    pub fn name(self) -> &'static str {
        match self {
            Variant::B => "b",
            Variant::Bo => "bo",
            Variant::T => "t",
            Variant::To => "to",
            Variant::A => "a",
            Variant::Ao => "ao",
            Variant::Ta => "ta",
            Variant::Tao => "tao",
        }
    }
    pub fn parse(s: &str) -> Option<Variant> {
        ALL_VARIANTS.iter().copied().find(|v| v.name() == s)
    }
    pub fn is_blocking(self) -> bool {
        matches!(self, Variant::B | Variant::Bo)
    }
}

#[derive(Debug, Clone, Copy, PartialEq, Eq)]
pub enum Act {
    Rm,
    Keep,
    Set(u32),
    Stash,
}

#[derive(Debug, Clone, Copy, PartialEq, Eq)]
pub enum Fin {
    Ok,
    Err,
    Panic,
    /// the callback works on its guards first (methods called in place, stashed ones moved out), then panics:
    /// the guards that are left are dropped by the unwinding
    LatePanic,
    /// async variants only: the future returned by the callback is pending at its first poll; polled again it
    /// works on its guards and completes with Ok / Err
    PendOk,
    PendErr,
}

#[derive(Debug, Clone, PartialEq, Eq)]
pub struct Round {
    pub acts: Vec<Act>,
    pub recount: bool,
    pub fin: Fin,
}

impl Default for Round {
    fn default() -> Self {
        Round {
            acts: Vec::new(),
            recount: false,
            fin: Fin::Ok,
        }
    }
}

#[derive(Debug, Clone, PartialEq, Eq)]
pub enum Limit {
    None,
    Soft(usize, Vec<Round>),
}

#[derive(Debug, Clone, Copy, PartialEq, Eq)]
pub enum GOp {
    Value,
    Vmut(u32),
    Insert(u32),
    Tinsert(u32),
    Voi(u32),
    Voiw(u32),
    Voiwp,
    Remove,
    Key,
}

impl GOp {
    pub fn name(self) -> &'static str {
        match self {
            GOp::Value => "value",
            GOp::Vmut(_) => "vmut",
            GOp::Insert(_) => "insert",
            GOp::Tinsert(_) => "tinsert",
            GOp::Voi(_) => "voi",
            GOp::Voiw(_) => "voiw",
            GOp::Voiwp => "voiwp",
            GOp::Remove => "remove",
            GOp::Key => "key",
        }
    }
}

#[derive(Debug, Clone, PartialEq, Eq)]
pub enum Req {
    Init(Kind),
    Lock {
        var: Variant,
        h: u64,
        k: u32,
        h0: u64,
        limit: Limit,
    },
    Poll(u64),
    Cancel(u64),
    Drop(u64),
    Op(u64, GOp),
    Count,
    Keys,
    Adv(u64),
    /// d in ms; values >= 10^18 (also ones that do not fit into u64) mean `Duration::MAX`
    Expire(u128, u64),
    LockAll(u64, u64),
    Spoll(u64),
    Sdrop(u64),
    Into,
    Reorder(Vec<u32>),
    // scheduled mode
    SInit(Kind, usize),
    Prog(usize, Vec<Stmt>),
    Step(usize),
}

/// one statement of a thread program (scheduled mode)
#[derive(Debug, Clone, PartialEq, Eq)]
pub enum Stmt {
    Lock { var: Variant, k: u32, soft: Option<usize> },
    Op(usize, GOp),
    Drop(usize),
    Count,
    Keys,
    /// `async_lock` (`owned`: `async_lock_owned`) polled once by hand; the pending future stays in the slot
    ALock { owned: bool, k: u32 },
    APoll(usize),
    ACancel(usize),
    /// lru: `lock_entries_unlocked_for_at_least(0)`; the guards are dropped again at once, in order
    Expire,
    /// `lock_all_entries[_owned]()` polled once (the snapshot section); the thread keeps the stream
    SOpen { owned: bool },
    /// one `poll_next` by hand; a yielded guard is kept in the thread's list of stream guards
    SNext,
    /// drop the oldest guard the stream has yielded
    SDropG,
    /// drop the stream
    SClose,
}

fn parse_stmt(s: &str) -> Option<Stmt> {
    let toks: Vec<&str> = s.split_whitespace().collect();
    Some(match toks.as_slice() {
        ["lock", v, k] => Stmt::Lock {
            var: Variant::parse(v)?,
            k: nat(k)?,
            soft: None,
        },
        ["lock", v, k, "soft", n] => {
            let n: usize = nat(n)?;
            if n == 0 {
                return None;
            }
            Stmt::Lock {
                var: Variant::parse(v)?,
                k: nat(k)?,
                soft: Some(n),
            }
        }
        ["op", slot, rest @ ..] => {
            let g = parse_gop(rest)?;
            if g == GOp::Voiwp {
                return None;
            }
            Stmt::Op(nat(slot)?, g)
        }
        ["drop", slot] => Stmt::Drop(nat(slot)?),
        ["alock", "a", k] => Stmt::ALock { owned: false, k: nat(k)? },
        ["alock", "ao", k] => Stmt::ALock { owned: true, k: nat(k)? },
        ["apoll", slot] => Stmt::APoll(nat(slot)?),
        ["acancel", slot] => Stmt::ACancel(nat(slot)?),
        ["count"] => Stmt::Count,
        ["keys"] => Stmt::Keys,
        ["expire"] => Stmt::Expire,
        ["sopen"] => Stmt::SOpen { owned: false },
        ["sopeno"] => Stmt::SOpen { owned: true },
        ["snext"] => Stmt::SNext,
        ["sdropg"] => Stmt::SDropG,
        ["sclose"] => Stmt::SClose,
        _ => return None,
    })
}

/// `stmt;stmt;...` (empty pieces are ignored)
pub fn parse_program(s: &str) -> Option<Vec<Stmt>> {
    s.split(';').map(|p| p.trim()).filter(|p| !p.is_empty()).map(parse_stmt).collect()
}

impl fmt::Display for Stmt {
    fn fmt(&self, f: &mut fmt::Formatter<'_>) -> fmt::Result {
        match self {
            Stmt::Lock { var, k, soft: None } => write!(f, "lock {} {}", var.name(), k),
            Stmt::Lock { var, k, soft: Some(n) } => write!(f, "lock {} {} soft {}", var.name(), k, n),
            Stmt::Op(slot, g) => write!(f, "op {slot} {g}"),
            Stmt::Drop(slot) => write!(f, "drop {slot}"),
            Stmt::Count => write!(f, "count"),
            Stmt::Keys => write!(f, "keys"),
            Stmt::ALock { owned, k } => write!(f, "alock {} {}", if *owned { "ao" } else { "a" }, k),
            Stmt::APoll(slot) => write!(f, "apoll {slot}"),
            Stmt::ACancel(slot) => write!(f, "acancel {slot}"),
            Stmt::Expire => write!(f, "expire"),
            Stmt::SOpen { owned } => write!(f, "{}", if *owned { "sopeno" } else { "sopen" }),
            Stmt::SNext => write!(f, "snext"),
            Stmt::SDropG => write!(f, "sdropg"),
            Stmt::SClose => write!(f, "sclose"),
        }
    }
}

pub fn program_str(p: &[Stmt]) -> String {
    p.iter().map(|s| s.to_string()).collect::<Vec<_>>().join(";")
}

impl Req {
    /// name of the request kind, for statistics
    pub fn kind_name(&self) -> &'static str {
        match self {
            Req::Init(_) => "init",
            Req::Lock { .. } => "lock",
            Req::Poll(_) => "poll",
            Req::Cancel(_) => "cancel",
            Req::Drop(_) => "drop",
            Req::Op(..) => "op",
            Req::Count => "count",
            Req::Keys => "keys",
            Req::Adv(_) => "adv",
            Req::Expire(..) => "expire",
            Req::LockAll(..) => "lockall",
            Req::Spoll(_) => "spoll",
            Req::Sdrop(_) => "sdrop",
            Req::Into => "into",
            Req::Reorder(_) => "reorder",
            Req::SInit(..) => "sinit",
            Req::Prog(..) => "prog",
            Req::Step(_) => "step",
        }
    }
}

fn nat<T: std::str::FromStr>(s: &str) -> Option<T> {
    if s.is_empty() || !s.bytes().all(|b| b.is_ascii_digit()) {
        return None;
    }
    s.parse().ok()
}

fn parse_round(s: &str) -> Option<Round> {
    let toks: Vec<&str> = s.split(',').collect();
    let (last, mut init) = toks.split_last()?;
    let mut fin = match *last {
        "ok" => Fin::Ok,
        "err" => Fin::Err,
        "panic" => Fin::Panic,
        "lpanic" => Fin::LatePanic,
        _ => return None,
    };
    // `pend` must be the token right before `ok` / `err`
    if let Some((&"pend", rest)) = init.split_last() {
        fin = match fin {
            Fin::Ok => Fin::PendOk,
            Fin::Err => Fin::PendErr,
            _ => return None,
        };
        init = rest;
    }
    let mut acts = Vec::new();
    let mut recount = false;
    for t in init {
        match *t {
            "rm" => acts.push(Act::Rm),
            "keep" => acts.push(Act::Keep),
            "stash" => acts.push(Act::Stash),
            "recount" => recount = true,
            t => {
                let v = t.strip_prefix("set:")?;
                acts.push(Act::Set(nat(v)?));
            }
        }
    }
    if fin == Fin::LatePanic && recount {
        return None;
    }
    Some(Round { acts, recount, fin })
}

fn parse_script(s: &str) -> Option<Vec<Round>> {
    if s == "-" {
        return Some(Vec::new());
    }
    s.split(';').map(parse_round).collect()
}

fn parse_gop(toks: &[&str]) -> Option<GOp> {
    Some(match toks {
        ["value"] => GOp::Value,
        ["vmut", v] => GOp::Vmut(nat(v)?),
        ["insert", v] => GOp::Insert(nat(v)?),
        ["tinsert", v] => GOp::Tinsert(nat(v)?),
        ["voi", v] => GOp::Voi(nat(v)?),
        ["voiw", v] => GOp::Voiw(nat(v)?),
        ["voiwp"] => GOp::Voiwp,
        ["remove"] => GOp::Remove,
        ["key"] => GOp::Key,
        _ => return None,
    })
}

/// `None`: malformed line (`bad-op`)
pub fn parse(line: &str) -> Option<Req> {
    let toks: Vec<&str> = line.trim().split(' ').filter(|t| !t.is_empty()).collect();
    if let ["prog", t, ..] = toks.as_slice() {
        // statements contain blanks and are separated by ';'
        let rest = line.trim().strip_prefix("prog")?.trim_start().strip_prefix(t)?;
        return Some(Req::Prog(nat(t)?, parse_program(rest)?));
    }
    Some(match toks.as_slice() {
        ["sinit", k, n] => {
            let n: usize = nat(n)?;
            if n == 0 || n > 16 {
                return None;
            }
            Req::SInit(Kind::parse(k)?, n)
        }
        ["step", t] => Req::Step(nat(t)?),
        ["init", k] => Req::Init(Kind::parse(k)?),
        ["lock", v, h, k, h0, "none"] => Req::Lock {
            var: Variant::parse(v)?,
            h: nat(h)?,
            k: nat(k)?,
            h0: nat(h0)?,
            limit: Limit::None,
        },
        ["lock", v, h, k, h0, "soft", n, sc] => {
            let n: usize = nat(n)?;
            if n == 0 {
                return None;
            }
            let var = Variant::parse(v)?;
            let script = parse_script(sc)?;
            // only the callback of an async variant returns a future that can be pending
            let is_async = matches!(var, Variant::A | Variant::Ao | Variant::Ta | Variant::Tao);
            if !is_async && script.iter().any(|r| matches!(r.fin, Fin::PendOk | Fin::PendErr)) {
                return None;
            }
            Req::Lock {
                var,
                h: nat(h)?,
                k: nat(k)?,
                h0: nat(h0)?,
                limit: Limit::Soft(n, script),
            }
        }
        ["poll", h] => Req::Poll(nat(h)?),
        ["cancel", h] => Req::Cancel(nat(h)?),
        ["drop", h] => Req::Drop(nat(h)?),
        ["op", h, rest @ ..] => Req::Op(nat(h)?, parse_gop(rest)?),
        ["count"] => Req::Count,
        ["keys"] => Req::Keys,
        ["adv", d] => Req::Adv(nat(d)?),
        ["expire", d, h0] => {
            let d: u128 = match nat::<u128>(d) {
                Some(d) => d,
                // all digits but too long even for u128: certainly >= 10^18
                None if !d.is_empty() && d.bytes().all(|b| b.is_ascii_digit()) => u128::MAX,
                None => return None,
            };
            Req::Expire(d, nat(h0)?)
        }
        ["lockall", s, h0] => Req::LockAll(nat(s)?, nat(h0)?),
        ["spoll", s] => Req::Spoll(nat(s)?),
        ["sdrop", s] => Req::Sdrop(nat(s)?),
        ["into"] => Req::Into,
        ["reorder", ks @ ..] => Req::Reorder(ks.iter().map(|k| nat(k)).collect::<Option<Vec<u32>>>()?),
        _ => return None,
    })
}

impl fmt::Display for Round {
    fn fmt(&self, f: &mut fmt::Formatter<'_>) -> fmt::Result {
        for a in &self.acts {
            match a {
                Act::Rm => write!(f, "rm,")?,
                Act::Keep => write!(f, "keep,")?,
                Act::Stash => write!(f, "stash,")?,
                Act::Set(v) => write!(f, "set:{v},")?,
            }
        }
        if self.recount {
            write!(f, "recount,")?;
        }
        match self.fin {
            Fin::Ok => write!(f, "ok"),
            Fin::Err => write!(f, "err"),
            Fin::Panic => write!(f, "panic"),
            Fin::LatePanic => write!(f, "lpanic"),
            Fin::PendOk => write!(f, "pend,ok"),
            Fin::PendErr => write!(f, "pend,err"),
        }
    }
}

impl fmt::Display for GOp {
    fn fmt(&self, f: &mut fmt::Formatter<'_>) -> fmt::Result {
        match self {
            GOp::Vmut(v) | GOp::Insert(v) | GOp::Tinsert(v) | GOp::Voi(v) | GOp::Voiw(v) => {
                write!(f, "{} {}", self.name(), v)
            }
            _ => write!(f, "{}", self.name()),
        }
    }
}

impl fmt::Display for Req {
    fn fmt(&self, f: &mut fmt::Formatter<'_>) -> fmt::Result {
        match self {
            Req::Init(k) => write!(f, "init {}", k.name()),
            Req::Lock { var, h, k, h0, limit } => {
                write!(f, "lock {} {} {} {} ", var.name(), h, k, h0)?;
                match limit {
                    Limit::None => write!(f, "none"),
                    Limit::Soft(n, script) => {
                        write!(f, "soft {n} ")?;
                        if script.is_empty() {
                            write!(f, "-")
                        } else {
                            for (i, r) in script.iter().enumerate() {
                                if i > 0 {
                                    write!(f, ";")?;
                                }
                                write!(f, "{r}")?;
                            }
                            Ok(())
                        }
                    }
                }
            }
            Req::Poll(h) => write!(f, "poll {h}"),
            Req::Cancel(h) => write!(f, "cancel {h}"),
            Req::Drop(h) => write!(f, "drop {h}"),
            Req::Op(h, g) => write!(f, "op {h} {g}"),
            Req::Count => write!(f, "count"),
            Req::Keys => write!(f, "keys"),
            Req::Adv(d) => write!(f, "adv {d}"),
            Req::Expire(d, h0) => write!(f, "expire {d} {h0}"),
            Req::LockAll(s, h0) => write!(f, "lockall {s} {h0}"),
            Req::Spoll(s) => write!(f, "spoll {s}"),
            Req::Sdrop(s) => write!(f, "sdrop {s}"),
            Req::Into => write!(f, "into"),
            Req::Reorder(ks) => {
                write!(f, "reorder")?;
                for k in ks {
                    write!(f, " {k}")?;
                }
                Ok(())
            }
            Req::SInit(k, n) => write!(f, "sinit {} {}", k.name(), n),
            Req::Prog(t, p) => write!(f, "prog {} {}", t, program_str(p)),
            Req::Step(t) => write!(f, "step {t}"),
        }
    }
}
