//! Executes request lines on the real containers and produces the canonical reply lines.

use crate::container::*;
use crate::proto::*;
use std::cell::RefCell;
use std::collections::BTreeMap;
use std::panic::{AssertUnwindSafe, catch_unwind};
use std::rc::Rc;
use std::sync::atomic::Ordering;
use std::task::{Context, Poll};
use tokio::time::Duration;

// ---------------------------------------------------------------------------------------------
// panic capture
// ---------------------------------------------------------------------------------------------

thread_local! {
    /// message and location of the first panic since the last `take_panic()`
    static LAST_PANIC: RefCell<Option<(String, String)>> = const { RefCell::new(None) };
}

pub fn install_panic_hook() {
    std::panic::set_hook(Box::new(|info| {
        let msg = if let Some(s) = info.payload().downcast_ref::<&str>() {
            (*s).to_string()
        } else if let Some(s) = info.payload().downcast_ref::<String>() {
            s.clone()
        } else {
            "<non-string payload>".to_string()
        };
        let loc = info
            .location()
            .map(|l| format!("{}:{}", l.file(), l.line()))
            .unwrap_or_default();
        let nested = LAST_PANIC.with(|p| {
            let mut p = p.borrow_mut();
            if p.is_none() {
                *p = Some((msg.clone(), loc.clone()));
                false
            } else {
                true
            }
        });
        if nested && std::thread::panicking() {
            // most likely a panic while unwinding: the process is about to abort
            eprintln!("harness: nested panic '{msg}' at {loc}");
        }
    }));
}

pub(crate) fn take_panic() -> Option<(String, String)> {
    LAST_PANIC.with(|p| p.borrow_mut().take())
}

/// the table of PROTOCOL.md
pub(crate) fn classify_panic(msg: &str, _loc: &str) -> String {
    let table: [(&str, &str); 10] = [
        ("The global mutex protecting the LockableCache is poisoned", "poisoned"),
        ("This entry must exist", "panic:s551"),
        (
            "We're the only one who has access to this mutex. Locking can't fail.",
            "panic:s581",
        ),
        ("Lock poisoned", "panic:s599"),
        ("We're the only one with access, there shouldn't", "panic:s613"),
        ("Invariant 2 violated. There shouldn't be any `None`", "panic:s614"),
        ("Invariant 2 violated. Found an entry", "panic:inv716"),
        ("Invariant violated", "panic:s643"),
        ("We're the only one with access, locking can't fail", "panic:inv713"),
        (SCRIPT_PANIC, "upanic"),
    ];
    if msg == WOULD_BLOCK_PANIC {
        return "would-block".to_string();
    }
    for (pat, res) in table {
        if msg.contains(pat) {
            return res.to_string();
        }
    }
    "panic:other".to_string()
}

// ---------------------------------------------------------------------------------------------

/// perform a guard method, reply as in PROTOCOL.md
pub(crate) fn op_reply(g: &mut dyn GuardObj, op: GOp) -> String {
    fn opt(v: Option<u32>) -> String {
        match v {
            Some(v) => format!("some {v}"),
            None => "nil".to_string(),
        }
    }
    match op {
        GOp::Value => opt(g.value()),
        GOp::Vmut(v) => g.value_mut_set(v).to_string(),
        GOp::Insert(v) => opt(g.insert(v)),
        GOp::Tinsert(v) => g.try_insert(v).to_string(),
        GOp::Voi(v) => g.value_or_insert(v).to_string(),
        GOp::Voiw(v) => g.value_or_insert_with(&mut || v).to_string(),
        GOp::Voiwp => g
            .value_or_insert_with(&mut || std::panic::panic_any(SCRIPT_PANIC))
            .to_string(),
        GOp::Remove => opt(g.remove()),
        GOp::Key => g.key().to_string(),
    }
}

/// `[<entry> ...] now=<t>`
fn format_snapshot(entries: Option<Vec<SnapEntry>>, lru: bool, case_start: u64) -> String {
    let Some(mut entries) = entries else {
        return "[poisoned]".to_string();
    };
    if !lru {
        entries.sort_by_key(|e| e.key);
    }
    let strs: Vec<String> = entries
        .iter()
        .map(|e| {
            let (val, l) = match e.unlocked {
                None => ("?".to_string(), "L"),
                Some(None) => ("-".to_string(), "U"),
                Some(Some((v, stamp))) => {
                    let stamp = if lru { stamp.saturating_sub(case_start) } else { 0 };
                    (format!("{v}@{stamp}"), "U")
                }
            };
            format!("{}:{}:{}:{}", e.key, val, l, e.replicas)
        })
        .collect();
    format!("[{}] now={}", strs.join(" "), clock_ms() - case_start)
}

struct PendingSt {
    fut: LockFut,
    key: u32,
    /// the callback script of a soft-limited call: a later poll may run further rounds
    script: Option<Script>,
}

struct StreamSt {
    stream: GuardStream,
    order: Vec<u32>,
    h0: u64,
}

/// what the generator wants to know about the last executed request
#[derive(Default, Debug, Clone)]
pub struct ExecInfo {
    /// the `<result>` part without callback traces
    pub outcome: String,
    pub callback_invocations: usize,
    /// guards created by an `expire`
    pub guards_returned: usize,
    /// scheduled mode: what the last `step` did
    pub step: crate::sched::StepInfo,
}

pub struct Harness {
    // field order = drop order: the container goes last
    streams: BTreeMap<u64, StreamSt>,
    pending: BTreeMap<u64, PendingSt>,
    guards: BTreeMap<u64, GuardBox>,
    cont: Option<Box<dyn Container>>,
    kind: Kind,
    case_start: u64,
    /// the snapshot before a successful `into`, while no container exists
    frozen_snapshot: Option<String>,
    /// the running scheduled case (then there is no sequential one)
    sched: Option<crate::sched::SchedCase>,
    pub info: ExecInfo,
}

const SUPPLY: u64 = 48;

impl Harness {
    pub fn new() -> Self {
        Harness {
            streams: BTreeMap::new(),
            pending: BTreeMap::new(),
            guards: BTreeMap::new(),
            cont: None,
            kind: Kind::HashMap,
            case_start: 0,
            frozen_snapshot: None,
            sched: None,
            info: ExecInfo::default(),
        }
    }

    // ---- views for the generator -------------------------------------------------------------

    pub fn guard_ids(&self) -> Vec<u64> {
        self.guards.keys().copied().collect()
    }
    pub fn guard_key(&self, h: u64) -> Option<u32> {
        self.guards.get(&h).map(|g| g.key())
    }
    pub fn pending_ids(&self) -> Vec<u64> {
        self.pending.keys().copied().collect()
    }
    /// the pending call has a soft limit: polling it may run (further) eviction rounds
    pub fn pending_has_script(&self, h: u64) -> bool {
        self.pending.get(&h).map(|p| p.script.is_some()).unwrap_or(false)
    }
    pub fn pending_key(&self, h: u64) -> Option<u32> {
        self.pending.get(&h).map(|p| p.key)
    }
    pub fn stream_ids(&self) -> Vec<u64> {
        self.streams.keys().copied().collect()
    }
    /// scheduled mode: status of every thread (`S G K B W D`); empty if no scheduled case is running
    pub fn sched_statuses(&self) -> Vec<char> {
        match &self.sched {
            Some(sc) if !sc.hung => sc.statuses(),
            _ => Vec::new(),
        }
    }
    /// raw iteration order of the running case's container
    pub fn real_keys(&self) -> Vec<u32> {
        if let Some(sc) = &self.sched {
            if sc.hung {
                return Vec::new();
            }
            return catch_unwind(AssertUnwindSafe(|| sc.cont.keys())).unwrap_or_else(|_| {
                take_panic();
                Vec::new()
            });
        }
        match &self.cont {
            Some(c) => catch_unwind(AssertUnwindSafe(|| c.keys())).unwrap_or_else(|_| {
                take_panic();
                Vec::new()
            }),
            None => Vec::new(),
        }
    }
    pub fn real_snapshot(&self) -> Option<Vec<SnapEntry>> {
        self.cont.as_ref().and_then(|c| c.snapshot())
    }

    // ---- teardown -----------------------------------------------------------------------------

    /// drop everything in a safe order: streams, futures, guards, then the container
    fn reset(&mut self) {
        let poisoned = match &self.cont {
            Some(c) => c.snapshot().is_none(),
            None => false,
        };
        if poisoned {
            // Every drop would panic at the poisoned global lock (several of them inside one stream: abort). Leak.
            std::mem::forget(std::mem::take(&mut self.streams));
            std::mem::forget(std::mem::take(&mut self.pending));
            std::mem::forget(std::mem::take(&mut self.guards));
            std::mem::forget(self.cont.take());
            return;
        }
        let mut clean = true;
        while let Some((_, s)) = self.streams.pop_first() {
            clean &= catch_unwind(AssertUnwindSafe(move || drop(s))).is_ok();
        }
        while let Some((_, p)) = self.pending.pop_first() {
            clean &= catch_unwind(AssertUnwindSafe(move || drop(p))).is_ok();
        }
        while let Some((_, g)) = self.guards.pop_first() {
            clean &= catch_unwind(AssertUnwindSafe(move || drop(g))).is_ok();
        }
        take_panic();
        let c = self.cont.take();
        if clean {
            drop(c);
        } else {
            // something may still point into the container
            std::mem::forget(c);
        }
    }

    // ---- snapshot -----------------------------------------------------------------------------

    fn snapshot_str(&self) -> String {
        if let Some(sc) = &self.sched {
            return format_snapshot(sc.snapshot(), sc.kind == Kind::Lru, sc.case_start);
        }
        let Some(c) = &self.cont else {
            return match &self.frozen_snapshot {
                Some(s) => s.clone(),
                None => "[] now=0".to_string(),
            };
        };
        format_snapshot(c.snapshot(), self.kind == Kind::Lru, self.case_start)
    }

    fn key_is_locked(&self, k: u32) -> bool {
        match self.real_snapshot() {
            Some(entries) => entries.iter().any(|e| e.key == k && e.unlocked.is_none()),
            None => false,
        }
    }

    fn handle_live(&self, h: u64) -> bool {
        self.guards.contains_key(&h) || self.pending.contains_key(&h)
    }

    /// the ids h0 .. h0+SUPPLY must be unused
    fn block_fresh(&self, h0: u64) -> bool {
        let hi = h0.saturating_add(SUPPLY);
        self.guards.range(h0..hi).next().is_none() && self.pending.range(h0..hi).next().is_none()
    }

    // ---- execution ----------------------------------------------------------------------------

    /// one request line → one reply line
    pub fn exec_line(&mut self, line: &str) -> String {
        self.info = ExecInfo::default();
        let Some(req) = parse(line) else {
            self.info.outcome = "bad-op".to_string();
            return "bad-op".to_string();
        };
        take_panic();
        let result = match catch_unwind(AssertUnwindSafe(|| self.exec(&req))) {
            Ok(r) => r,
            Err(_) => {
                let (msg, loc) = take_panic().unwrap_or_default();
                classify_panic(&msg, &loc)
            }
        };
        take_panic();
        let snap = match catch_unwind(AssertUnwindSafe(|| self.snapshot_str())) {
            Ok(s) => s,
            Err(_) => {
                take_panic();
                "[snapshot-panic]".to_string()
            }
        };
        format!("{result} | {snap}")
    }

    fn set(&mut self, outcome: impl Into<String>) -> String {
        let o = outcome.into();
        self.info.outcome = o.clone();
        o
    }

    fn exec_sched(&mut self, req: &Req) -> String {
        let sc = self.sched.as_mut().unwrap();
        match req {
            Req::Prog(t, prog) => {
                if sc.set_prog(*t, prog) {
                    self.set("ok")
                } else {
                    self.set("bad")
                }
            }
            Req::Step(t) => {
                let mut info = crate::sched::StepInfo::default();
                let r = sc.step(*t, &mut info);
                self.info.step = info;
                match r {
                    Some(r) => {
                        let outcome = r.split(" ; ").next().unwrap_or("").to_string();
                        self.info.outcome = outcome;
                        r
                    }
                    None => self.set("bad"),
                }
            }
            Req::Adv(d) => {
                clock_advance(*d);
                self.set("ok")
            }
            Req::Reorder(ks) => {
                if sc.kind == Kind::Lru || sc.hung {
                    return self.set("bad");
                }
                let c = &sc.cont;
                let r = catch_unwind(AssertUnwindSafe(|| {
                    let mut real = c.keys();
                    let mut given = ks.clone();
                    real.sort_unstable();
                    given.sort_unstable();
                    if real == given { "ok".to_string() } else { "bad".to_string() }
                }));
                self.finish(r)
            }
            _ => self.set("bad"),
        }
    }

    fn exec(&mut self, req: &Req) -> String {
        if matches!(req, Req::Init(_) | Req::SInit(..)) {
            if let Some(sc) = self.sched.take() {
                sc.finish();
            }
        }
        if let Req::SInit(kind, n) = req {
            self.reset();
            self.frozen_snapshot = None;
            self.sched = Some(crate::sched::SchedCase::new(*kind, *n));
            return self.set("ok");
        }
        if self.sched.is_some() {
            return self.exec_sched(req);
        }
        if let Req::Init(kind) = req {
            self.reset();
            self.kind = *kind;
            self.cont = Some(new_container(*kind));
            self.case_start = clock_ms();
            self.frozen_snapshot = None;
            return self.set("ok");
        }
        if self.cont.is_none() {
            self.frozen_snapshot = None;
            return self.set("bad");
        }
        match req {
            Req::Init(_) => unreachable!(),
            Req::Lock { var, h, k, h0, limit } => self.do_lock(*var, *h, *k, *h0, limit),
            Req::Poll(h) => self.do_poll(*h),
            Req::Cancel(h) => match self.pending.remove(h) {
                Some(p) => self.guarded(move || {
                    drop(p);
                    "ok".to_string()
                }),
                None => self.set("bad"),
            },
            Req::Drop(h) => match self.guards.remove(h) {
                Some(g) => self.guarded(move || {
                    drop(g);
                    "ok".to_string()
                }),
                None => self.set("bad"),
            },
            Req::Op(h, op) => self.do_op(*h, *op),
            Req::Count => {
                let c = self.cont.as_ref().unwrap();
                let r = catch_unwind(AssertUnwindSafe(|| c.count().to_string()));
                self.finish(r)
            }
            Req::Keys => {
                let sorted = self.kind != Kind::Lru;
                let c = self.cont.as_ref().unwrap();
                let r = catch_unwind(AssertUnwindSafe(|| {
                    let mut ks = c.keys();
                    if sorted {
                        ks.sort_unstable();
                    }
                    list_str(&ks)
                }));
                self.finish(r)
            }
            Req::Adv(d) => {
                clock_advance(*d);
                self.set("ok")
            }
            Req::Expire(d, h0) => self.do_expire(*d, *h0),
            Req::LockAll(sid, h0) => self.do_lockall(*sid, *h0),
            Req::Spoll(sid) => self.do_spoll(*sid),
            Req::Sdrop(sid) => match self.streams.remove(sid) {
                Some(s) => self.guarded(move || {
                    drop(s);
                    "ok".to_string()
                }),
                None => self.set("bad"),
            },
            Req::Into => self.do_into(),
            Req::SInit(..) => unreachable!(),
            Req::Prog(..) | Req::Step(_) => self.set("bad"),
            Req::Reorder(ks) => {
                if self.kind == Kind::Lru {
                    return self.set("bad");
                }
                let c = self.cont.as_ref().unwrap();
                let r = catch_unwind(AssertUnwindSafe(|| {
                    let mut real = c.keys();
                    let mut given = ks.clone();
                    real.sort_unstable();
                    given.sort_unstable();
                    if real == given { "ok".to_string() } else { "bad".to_string() }
                }));
                self.finish(r)
            }
        }
    }

    /// run library code, turn a panic into its reply
    fn guarded(&mut self, f: impl FnOnce() -> String) -> String {
        let r = catch_unwind(AssertUnwindSafe(f));
        self.finish(r)
    }

    fn finish(&mut self, r: std::thread::Result<String>) -> String {
        match r {
            Ok(s) => self.set(s),
            Err(_) => {
                let (msg, loc) = take_panic().unwrap_or_default();
                self.set(classify_panic(&msg, &loc))
            }
        }
    }

    fn do_lock(&mut self, var: Variant, h: u64, k: u32, h0: u64, limit: &Limit) -> String {
        if self.handle_live(h) {
            return self.set("bad");
        }
        if self.kind == Kind::Pool
            && (!matches!(var, Variant::B | Variant::T | Variant::A) || *limit != Limit::None)
        {
            return self.set("bad");
        }
        if let Limit::Soft(..) = limit {
            if !self.block_fresh(h0) || (h0..h0.saturating_add(SUPPLY)).contains(&h) {
                return self.set("bad");
            }
        }
        if var.is_blocking() && self.key_is_locked(k) {
            return self.set("would-block");
        }
        let script: Option<Script> = match limit {
            Limit::None => None,
            Limit::Soft(_, rounds) => Some(Rc::new(RefCell::new(ScriptState::new(
                rounds.clone(),
                h0,
                self.kind != Kind::Lru,
                if var.is_blocking() { Some(k) } else { None },
            )))),
        };
        let soft: SoftLimit = match (limit, &script) {
            (Limit::Soft(n, _), Some(st)) => {
                Some((std::num::NonZeroUsize::new(*n).expect("parser rejects 0"), Rc::clone(st)))
            }
            _ => None,
        };
        let cont = self.cont.as_ref().unwrap();
        // create the future (sync variants run to completion here) and poll it once
        let r = catch_unwind(AssertUnwindSafe(|| {
            let mut fut = cont.lock(var, k, soft)?;
            Some(match poll_once(fut.as_mut()) {
                Poll::Ready(o) => Ok(o),
                Poll::Pending => Err(fut),
            })
        }));
        let mut traces = Vec::new();
        if let Some(st) = &script {
            let mut st = st.borrow_mut();
            traces = std::mem::take(&mut st.traces);
            self.info.callback_invocations = st.invocations;
            for (id, g) in st.stashed.drain(..) {
                self.guards.insert(id, g);
            }
        }
        let outcome = match r {
            Ok(None) => "bad".to_string(),
            Ok(Some(Ok(LockOutcome::Guard(g)))) => {
                self.guards.insert(h, g);
                "guard".to_string()
            }
            Ok(Some(Ok(LockOutcome::None))) => "none".to_string(),
            Ok(Some(Ok(LockOutcome::Err))) => "err".to_string(),
            Ok(Some(Err(fut))) => {
                self.pending.insert(h, PendingSt { fut, key: k, script: script.clone() });
                "pending".to_string()
            }
            Err(_) => {
                let (msg, loc) = take_panic().unwrap_or_default();
                classify_panic(&msg, &loc)
            }
        };
        self.info.outcome = outcome.clone();
        traces.push(outcome);
        traces.join(" ")
    }

    fn do_poll(&mut self, h: u64) -> String {
        let Some(mut p) = self.pending.remove(&h) else {
            return self.set("bad");
        };
        let script = p.script.clone();
        let r = catch_unwind(AssertUnwindSafe(|| match poll_once(p.fut.as_mut()) {
            Poll::Ready(o) => Ok(o),
            Poll::Pending => Err(p),
        }));
        // rounds of the eviction callback that ran during this poll
        let mut traces = Vec::new();
        if let Some(st) = &script {
            let mut st = st.borrow_mut();
            traces = std::mem::take(&mut st.traces);
            self.info.callback_invocations = st.invocations;
            for (id, g) in st.stashed.drain(..) {
                self.guards.insert(id, g);
            }
        }
        let outcome = match r {
            Ok(Ok(LockOutcome::Guard(g))) => {
                self.guards.insert(h, g);
                "guard".to_string()
            }
            Ok(Ok(LockOutcome::None)) => "none".to_string(),
            Ok(Ok(LockOutcome::Err)) => "err".to_string(),
            Ok(Err(p)) => {
                self.pending.insert(h, p);
                "pending".to_string()
            }
            Err(_) => {
                let (msg, loc) = take_panic().unwrap_or_default();
                classify_panic(&msg, &loc)
            }
        };
        self.info.outcome = outcome.clone();
        traces.push(outcome);
        traces.join(" ")
    }

    fn do_op(&mut self, h: u64, op: GOp) -> String {
        if self.kind == Kind::Pool {
            return self.set("bad");
        }
        let Some(g) = self.guards.get_mut(&h) else {
            return self.set("bad");
        };
        let r = catch_unwind(AssertUnwindSafe(|| op_reply(g.as_mut(), op)));
        self.finish(r)
    }

    fn do_expire(&mut self, d: u128, h0: u64) -> String {
        if self.kind != Kind::Lru || !self.block_fresh(h0) {
            return self.set("bad");
        }
        let dur = if d >= 1_000_000_000_000_000_000u128 {
            Duration::MAX
        } else {
            Duration::from_millis(d as u64)
        };
        let owned = h0 % 2 == 1;
        let cont = self.cont.as_ref().unwrap();
        let r = catch_unwind(AssertUnwindSafe(|| cont.expire(dur, owned)));
        match r {
            Ok(Some(gs)) => {
                let mut pairs = Vec::new();
                for (i, g) in gs.into_iter().enumerate() {
                    let id = h0 + i as u64;
                    pairs.push((id, g.key()));
                    self.guards.insert(id, g);
                }
                self.info.guards_returned = pairs.len();
                self.set(format!("hs {}", pairs_str(&pairs)))
            }
            Ok(None) => self.set("bad"),
            Err(e) => self.finish(Err(e)),
        }
    }

    fn do_lockall(&mut self, sid: u64, h0: u64) -> String {
        if self.kind == Kind::Pool || self.streams.contains_key(&sid) || !self.block_fresh(h0) {
            return self.set("bad");
        }
        let owned = h0 % 2 == 1;
        let cont = self.cont.as_ref().unwrap();
        let r = catch_unwind(AssertUnwindSafe(|| {
            // nothing happens between these two calls: this is the order the stream's items are created in
            let order = cont.keys();
            let stream = cont.lock_all(owned);
            (order, stream)
        }));
        match r {
            Ok((order, Some(stream))) => {
                let pairs: Vec<(u64, u32)> = order.iter().enumerate().map(|(i, k)| (h0 + i as u64, *k)).collect();
                self.streams.insert(sid, StreamSt { stream, order, h0 });
                self.set(format!("hs {}", pairs_str(&pairs)))
            }
            Ok((_, None)) => self.set("bad"),
            Err(e) => self.finish(Err(e)),
        }
    }

    fn do_spoll(&mut self, sid: u64) -> String {
        let Some(st) = self.streams.get_mut(&sid) else {
            return self.set("bad");
        };
        let r = catch_unwind(AssertUnwindSafe(|| {
            let (flag, waker) = flag_waker();
            let mut cx = Context::from_waker(&waker);
            let mut spins = 0usize;
            loop {
                flag.woken.store(false, Ordering::SeqCst);
                match st.stream.as_mut().poll_next(&mut cx) {
                    Poll::Ready(x) => return Some(x),
                    Poll::Pending => {
                        if !flag.woken.swap(false, Ordering::SeqCst) {
                            return None;
                        }
                        spins += 1;
                        if spins > 100_000 {
                            panic!("harness: stream keeps waking itself");
                        }
                    }
                }
            }
        }));
        match r {
            Ok(Some(Some(g))) => {
                let k = g.key();
                let st = self.streams.get(&sid).unwrap();
                match st.order.iter().position(|x| *x == k) {
                    Some(pos) => {
                        let id = st.h0 + pos as u64;
                        self.guards.insert(id, g);
                        self.set(format!("item {id}:{k}"))
                    }
                    None => {
                        // a key the stream was not created with: cannot be named in the protocol
                        let _ = catch_unwind(AssertUnwindSafe(move || drop(g)));
                        take_panic();
                        self.set(format!("item ?:{k}"))
                    }
                }
            }
            Ok(Some(None)) => self.set("end"),
            Ok(None) => self.set("pending"),
            Err(e) => self.finish(Err(e)),
        }
    }

    fn do_into(&mut self) -> String {
        if self.kind == Kind::Pool || !self.guards.is_empty() || !self.pending.is_empty() || !self.streams.is_empty() {
            return self.set("bad");
        }
        // the container is consumed: the reply carries the state right before
        let before = self.snapshot_str();
        let cont = self.cont.take().unwrap();
        self.frozen_snapshot = Some(before);
        let r = catch_unwind(AssertUnwindSafe(move || cont.into_entries()));
        match r {
            Ok(Some(mut entries)) => {
                entries.sort_unstable();
                let s = if entries.is_empty() {
                    "-".to_string()
                } else {
                    entries.iter().map(|(k, v)| format!("{k}={v}")).collect::<Vec<_>>().join(",")
                };
                self.set(s)
            }
            Ok(None) => self.set("bad"),
            Err(e) => self.finish(Err(e)),
        }
    }
}

impl Drop for Harness {
    fn drop(&mut self) {
        if let Some(sc) = self.sched.take() {
            sc.finish();
        }
        self.reset();
    }
}
