//! Test harness driving the real `lockable` containers with the line protocol of /verif/PROTOCOL.md.
//!
//! harness replay [--ops <file>] [--out <file>] [--rewrite <file>]      (default: stdin / stdout)
//! harness gen --seed <u64> --cases <n> --maxlen <n> --kind <hashmap|lru|pool|all> --profile <name>
//!             --ops <file> --out <file> --stats <file.json> [--avoid sdrop-order]

mod container;
mod exec;
mod r#gen;
mod proto;

use proto::{Kind, Req};
use std::collections::HashMap;
use std::fs::File;
use std::io::{BufRead, BufReader, BufWriter, Write};
use std::process::ExitCode;

fn usage() -> ExitCode {
    eprintln!(
        "usage:\n  harness replay [--ops <file>] [--out <file>] [--rewrite <file>]    (default: stdin / stdout)\n  harness gen --seed <u64> --cases <n> --maxlen <n> --kind <hashmap|lru|pool|all> \
         --profile <mixed|cancel|limit|expire|stream|pool> --ops <file> --out <file> --stats <file.json> [--avoid sdrop-order]"
    );
    ExitCode::from(2)
}

fn parse_flags(args: &[String]) -> Option<HashMap<String, String>> {
    let mut m = HashMap::new();
    let mut i = 0;
    while i < args.len() {
        let k = args[i].strip_prefix("--")?;
        let v = args.get(i + 1)?;
        m.insert(k.to_string(), v.clone());
        i += 2;
    }
    Some(m)
}

fn replay(flags: &HashMap<String, String>) -> Result<(), String> {
    // without --ops / --out (or with `-`): stdin / stdout, like the Lean driver
    let dash = "-".to_string();
    let ops_path = flags.get("ops").unwrap_or(&dash);
    let out_path = flags.get("out").unwrap_or(&dash);
    let ops: Box<dyn BufRead> = if ops_path == "-" {
        Box::new(BufReader::new(std::io::stdin()))
    } else {
        Box::new(BufReader::new(File::open(ops_path).map_err(|e| format!("{ops_path}: {e}"))?))
    };
    let mut out: Box<dyn Write> = if out_path == "-" {
        Box::new(std::io::stdout())
    } else {
        Box::new(BufWriter::new(File::create(out_path).map_err(|e| format!("{out_path}: {e}"))?))
    };
    // optional: the request lines as executed, with the key list of every `reorder` replaced by the
    // real iteration order at that point (a recorded hash map order cannot be reproduced)
    let mut rewrite = match flags.get("rewrite") {
        Some(p) => Some(BufWriter::new(File::create(p).map_err(|e| format!("{p}: {e}"))?)),
        None => None,
    };
    let mut h = exec::Harness::new();
    for line in ops.lines() {
        let line = line.map_err(|e| format!("{ops_path}: {e}"))?;
        let trimmed = line.trim();
        let skip = trimmed.is_empty() || trimmed.starts_with('#');
        let mut line = line.clone();
        if let Some(rw) = rewrite.as_mut() {
            if !skip {
                if let Some(Req::Reorder(_)) = proto::parse(&line) {
                    line = Req::Reorder(h.real_keys()).to_string();
                }
            }
            writeln!(rw, "{line}").and_then(|_| rw.flush()).map_err(|e| e.to_string())?;
        }
        if skip {
            continue;
        }
        let reply = h.exec_line(&line);
        writeln!(out, "{reply}").and_then(|_| out.flush()).map_err(|e| format!("{out_path}: {e}"))?;
    }
    Ok(())
}

fn generate(flags: &HashMap<String, String>) -> Result<(), String> {
    let num = |k: &str| -> Result<u64, String> {
        flags
            .get(k)
            .ok_or(format!("missing --{k}"))?
            .parse::<u64>()
            .map_err(|e| format!("--{k}: {e}"))
    };
    let seed = num("seed")?;
    let cases = num("cases")?;
    let maxlen = num("maxlen")?;
    let kind_s = flags.get("kind").ok_or("missing --kind")?.clone();
    let kind = match kind_s.as_str() {
        "all" => None,
        k => Some(Kind::parse(k).ok_or(format!("--kind: unknown kind {k}"))?),
    };
    let profile_s = flags.get("profile").cloned().unwrap_or_else(|| "mixed".to_string());
    let profile = r#gen::Profile::parse(&profile_s).ok_or(format!("--profile: unknown profile {profile_s}"))?;
    let avoid = flags.get("avoid").cloned().unwrap_or_default();
    let ops_path = flags.get("ops").ok_or("missing --ops")?;
    let out_path = flags.get("out").ok_or("missing --out")?;
    let stats_path = flags.get("stats").ok_or("missing --stats")?;
    let mut ops = BufWriter::new(File::create(ops_path).map_err(|e| format!("{ops_path}: {e}"))?);
    let mut out = BufWriter::new(File::create(out_path).map_err(|e| format!("{out_path}: {e}"))?);
    let stats_json = {
        let mut g = r#gen::Gen::new(seed, profile, &mut ops, &mut out);
        for a in avoid.split(',').filter(|a| !a.is_empty()) {
            match a {
                "sdrop-order" => g.avoid_sdrop_order = true,
                _ => return Err(format!("--avoid: unknown item {a}")),
            }
        }
        for i in 0..cases {
            let k = match (profile, kind) {
                // these profiles only make sense for one kind
                (r#gen::Profile::Expire, _) => Kind::Lru,
                (r#gen::Profile::Pool, _) => Kind::Pool,
                (_, Some(k)) => k,
                (_, None) => [Kind::HashMap, Kind::Lru, Kind::Pool][(i % 3) as usize],
            };
            g.run_case(k, maxlen, i).map_err(|e| format!("i/o error: {e}"))?;
        }
        g.stats.to_json(seed, &profile_s, &kind_s, maxlen)
    };
    ops.flush().map_err(|e| e.to_string())?;
    out.flush().map_err(|e| e.to_string())?;
    std::fs::write(stats_path, stats_json).map_err(|e| format!("{stats_path}: {e}"))?;
    Ok(())
}

fn main() -> ExitCode {
    let args: Vec<String> = std::env::args().collect();
    if args.len() < 2 {
        return usage();
    }
    let Some(flags) = parse_flags(&args[2..]) else {
        return usage();
    };
    exec::install_panic_hook();
    let r = match args[1].as_str() {
        "replay" => replay(&flags),
        "gen" => generate(&flags),
        _ => return usage(),
    };
    match r {
        Ok(()) => ExitCode::SUCCESS,
        Err(e) => {
            eprintln!("harness: {e}");
            ExitCode::from(1)
        }
    }
}
