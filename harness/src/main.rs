//! Test harness driving the real `lockable` containers with the line protocol of /verif/PROTOCOL.md.
//!
//! harness replay [--ops <file>] [--out <file>] [--rewrite <file>]      (default: stdin / stdout)
//! harness gen --seed <u64> --cases <n> --maxlen <n> --kind <hashmap|lru|pool|all> --profile <name>
//!             --ops <file> --out <file> --stats <file.json> [--avoid sdrop-order]
//! harness sgen --seed <u64> --cases <n> --kind <hashmap|lru|pool|all> --threads <0|1..16> --stmts <n>
//!              [--profile mixed|limit|pool|cancel] --ops <file> --out <file> --stats <file.json>
//! harness sdfs --kind <hashmap|lru|pool> --programs "<prog0> | <prog1> ..." --max-schedules <n>
//!              --ops <file> --out <file> --stats <file.json>
//! harness sdfs-gen --seed <u64> --count <n> --kind <hashmap|lru|pool|all> --max-schedules <n>
//!              --ops <file> --out <file> --stats <file.json>

mod container;
mod enumseq;
mod exec;
mod r#gen;
mod proto;
mod sched;
mod sgen;
mod stress;

use proto::{Kind, Req};
use std::collections::HashMap;
use std::fs::File;
use std::io::{BufRead, BufReader, BufWriter, Write};
use std::process::ExitCode;

fn usage() -> ExitCode {
    eprintln!(
        "usage:\n  harness replay [--ops <file>] [--out <file>] [--rewrite <file>]    (default: stdin / stdout)\n  harness gen --seed <u64> --cases <n> --maxlen <n> --kind <hashmap|lru|pool|all> \
         --profile <mixed|cancel|limit|expire|stream|pool> --ops <file> --out <file> --stats <file.json> [--avoid sdrop-order]\n  \
         harness sgen --seed <u64> --cases <n> --kind <hashmap|lru|pool|all> --threads <0|1..16> --stmts <n> [--profile mixed|limit|pool|cancel|stream] \
         --ops <file> --out <file> --stats <file.json>\n  \
         harness sdfs --kind <hashmap|lru|pool> --programs \"<prog0> | <prog1> ...\" --max-schedules <n> --ops <file> --out <file> --stats <file.json>\n  \
         harness sdfs-gen --seed <u64> --count <n> --kind <hashmap|lru|pool|all> --max-schedules <n> --ops <file> --out <file> --stats <file.json>"
    );
    ExitCode::from(2)
}

fn parse_flags(args: &[String]) -> Option<HashMap<String, String>> {
    let mut m = HashMap::new();
    let mut i = 0;
    while i < args.len() {
        let k = args[i].strip_prefix("--")?;
        let v = args.get(i + 1)?;
        m.insert(k.to_string(), v.clone());
        i += 2;
    }
    Some(m)
}

fn replay(flags: &HashMap<String, String>) -> Result<(), String> {
    // without --ops / --out (or with `-`): stdin / stdout, like the Lean driver
    let dash = "-".to_string();
    let ops_path = flags.get("ops").unwrap_or(&dash);
    let out_path = flags.get("out").unwrap_or(&dash);
    let ops: Box<dyn BufRead> = if ops_path == "-" {
        Box::new(BufReader::new(std::io::stdin()))
    } else {
        Box::new(BufReader::new(File::open(ops_path).map_err(|e| format!("{ops_path}: {e}"))?))
    };
    let mut out: Box<dyn Write> = if out_path == "-" {
        Box::new(std::io::stdout())
    } else {
        Box::new(BufWriter::new(File::create(out_path).map_err(|e| format!("{out_path}: {e}"))?))
    };
    // optional: the request lines as executed, with the key list of every `reorder` replaced by the
    // real iteration order at that point (a recorded hash map order cannot be reproduced)
    let mut rewrite = match flags.get("rewrite") {
        Some(p) => Some(BufWriter::new(File::create(p).map_err(|e| format!("{p}: {e}"))?)),
        None => None,
    };
    let mut h = exec::Harness::new();
    for line in ops.lines() {
        let line = line.map_err(|e| format!("{ops_path}: {e}"))?;
        let trimmed = line.trim();
        let skip = trimmed.is_empty() || trimmed.starts_with('#');
        let mut line = line.clone();
        if let Some(rw) = rewrite.as_mut() {
            if !skip {
                if let Some(Req::Reorder(_)) = proto::parse(&line) {
                    line = Req::Reorder(h.real_keys()).to_string();
                }
            }
            writeln!(rw, "{line}").and_then(|_| rw.flush()).map_err(|e| e.to_string())?;
        }
        if skip {
            continue;
        }
        let reply = h.exec_line(&line);
        writeln!(out, "{reply}").and_then(|_| out.flush()).map_err(|e| format!("{out_path}: {e}"))?;
    }
    Ok(())
}

fn generate(flags: &HashMap<String, String>) -> Result<(), String> {
    let num = |k: &str| -> Result<u64, String> {
        flags
            .get(k)
            .ok_or(format!("missing --{k}"))?
            .parse::<u64>()
            .map_err(|e| format!("--{k}: {e}"))
    };
    let seed = num("seed")?;
    let cases = num("cases")?;
    let maxlen = num("maxlen")?;
    let kind_s = flags.get("kind").ok_or("missing --kind")?.clone();
    let kind = match kind_s.as_str() {
        "all" => None,
        k => Some(Kind::parse(k).ok_or(format!("--kind: unknown kind {k}"))?),
    };
    let profile_s = flags.get("profile").cloned().unwrap_or_else(|| "mixed".to_string());
    let profile = r#gen::Profile::parse(&profile_s).ok_or(format!("--profile: unknown profile {profile_s}"))?;
    let avoid = flags.get("avoid").cloned().unwrap_or_default();
    let ops_path = flags.get("ops").ok_or("missing --ops")?;
    let out_path = flags.get("out").ok_or("missing --out")?;
    let stats_path = flags.get("stats").ok_or("missing --stats")?;
    let mut ops = BufWriter::new(File::create(ops_path).map_err(|e| format!("{ops_path}: {e}"))?);
    let mut out = BufWriter::new(File::create(out_path).map_err(|e| format!("{out_path}: {e}"))?);
    let stats_json = {
        let mut g = r#gen::Gen::new(seed, profile, &mut ops, &mut out);
        for a in avoid.split(',').filter(|a| !a.is_empty()) {
            match a {
                "sdrop-order" => g.avoid_sdrop_order = true,
                _ => return Err(format!("--avoid: unknown item {a}")),
            }
        }
        for i in 0..cases {
            let k = match (profile, kind) {
                // these profiles only make sense for one kind
                (r#gen::Profile::Expire, _) => Kind::Lru,
                (r#gen::Profile::Pool, _) => Kind::Pool,
                (_, Some(k)) => k,
                (_, None) => [Kind::HashMap, Kind::Lru, Kind::Pool][(i % 3) as usize],
            };
            g.run_case(k, maxlen, i).map_err(|e| format!("i/o error: {e}"))?;
        }
        g.stats.to_json(seed, &profile_s, &kind_s, maxlen)
    };
    ops.flush().map_err(|e| e.to_string())?;
    out.flush().map_err(|e| e.to_string())?;
    std::fs::write(stats_path, stats_json).map_err(|e| format!("{stats_path}: {e}"))?;
    Ok(())
}

fn open_out(flags: &HashMap<String, String>, k: &str) -> Result<BufWriter<File>, String> {
    let p = flags.get(k).ok_or(format!("missing --{k}"))?;
    Ok(BufWriter::new(File::create(p).map_err(|e| format!("{p}: {e}"))?))
}

fn flag_num(flags: &HashMap<String, String>, k: &str) -> Result<u64, String> {
    flags
        .get(k)
        .ok_or(format!("missing --{k}"))?
        .parse::<u64>()
        .map_err(|e| format!("--{k}: {e}"))
}

fn flag_kind(flags: &HashMap<String, String>) -> Result<(String, Option<Kind>), String> {
    let kind_s = flags.get("kind").ok_or("missing --kind")?.clone();
    let kind = match kind_s.as_str() {
        "all" => None,
        k => Some(Kind::parse(k).ok_or(format!("--kind: unknown kind {k}"))?),
    };
    Ok((kind_s, kind))
}

const KINDS: [Kind; 3] = [Kind::HashMap, Kind::Lru, Kind::Pool];

/// random programs with random schedules
fn sgen(flags: &HashMap<String, String>) -> Result<(), String> {
    let seed = flag_num(flags, "seed")?;
    let cases = flag_num(flags, "cases")?;
    let threads = flag_num(flags, "threads")?;
    if threads != 0 && !(1..=16).contains(&threads) {
        return Err("--threads: 0 (random 2..4) or 1..16".to_string());
    }
    let stmts = flag_num(flags, "stmts")?;
    let (kind_s, kind) = flag_kind(flags)?;
    let profile = flags.get("profile").cloned().unwrap_or_else(|| "mixed".to_string());
    // (soft limit, hand-polled acquisition) percentages of the lock statements
    let (soft_pct, alock_pct, stream_pct) = match profile.as_str() {
        "mixed" | "pool" => (25, 15, 0),
        "limit" => (60, 0, 0),
        "cancel" => (15, 55, 0),
        "stream" => (10, 15, 45),
        p => return Err(format!("--profile: unknown profile {p}")),
    };
    let mut ops = open_out(flags, "ops")?;
    let mut out = open_out(flags, "out")?;
    let stats_path = flags.get("stats").ok_or("missing --stats")?;
    let json = {
        let mut rng = r#gen::Rng::new(seed);
        let mut run = sgen::SRun::new(&mut ops, &mut out);
        for i in 0..cases {
            let k = match (profile.as_str(), kind) {
                ("pool", _) => Kind::Pool,
                (_, Some(k)) => k,
                (_, None) => KINDS[(i % 3) as usize],
            };
            let n = if threads == 0 { rng.range(2, 4) } else { threads };
            let cfg = sgen::ProgCfg {
                kind: k,
                nkeys: rng.range(1, 3) as u32,
                max_stmts: stmts,
                max_locks: u64::MAX,
                soft_pct,
                alock_pct,
                stream_pct,
            };
            let progs: Vec<_> = (0..n).map(|_| sgen::gen_program(&mut rng, &cfg)).collect();
            writeln!(run.ops, "# case {i} kind={} threads={n} keys={}", k.name(), cfg.nkeys).map_err(|e| e.to_string())?;
            run.run_random(&mut rng, k, &progs).map_err(|e| format!("i/o error: {e}"))?;
        }
        run.stats.to_json(&[
            ("mode", "\"sgen\"".to_string()),
            ("seed", seed.to_string()),
            ("kind", format!("\"{kind_s}\"")),
            ("profile", format!("\"{profile}\"")),
            ("threads", threads.to_string()),
            ("stmts", stmts.to_string()),
        ])
    };
    ops.flush().map_err(|e| e.to_string())?;
    out.flush().map_err(|e| e.to_string())?;
    std::fs::write(stats_path, json).map_err(|e| format!("{stats_path}: {e}"))
}

/// all schedules of the given programs
fn sdfs(flags: &HashMap<String, String>) -> Result<(), String> {
    let (kind_s, kind) = flag_kind(flags)?;
    let kind = kind.ok_or("--kind: one of hashmap, lru, pool")?;
    let max = flag_num(flags, "max-schedules")?;
    let programs = flags.get("programs").ok_or("missing --programs")?;
    let progs: Vec<Vec<proto::Stmt>> = programs
        .split('|')
        .map(|p| proto::parse_program(p).ok_or(format!("--programs: cannot parse '{}'", p.trim())))
        .collect::<Result<_, _>>()?;
    if progs.is_empty() || progs.len() > 16 {
        return Err("--programs: 1..16 programs".to_string());
    }
    let mut ops = open_out(flags, "ops")?;
    let mut out = open_out(flags, "out")?;
    let stats_path = flags.get("stats").ok_or("missing --stats")?;
    let json = {
        let mut run = sgen::SRun::new(&mut ops, &mut out);
        let exhausted = run.run_dfs(kind, &progs, max).map_err(|e| format!("i/o error: {e}"))?;
        run.stats.program_sets = 1;
        run.stats.program_sets_exhausted = exhausted as u64;
        run.stats.to_json(&[
            ("mode", "\"sdfs\"".to_string()),
            ("kind", format!("\"{kind_s}\"")),
            ("max_schedules", max.to_string()),
            ("exhausted", exhausted.to_string()),
        ])
    };
    ops.flush().map_err(|e| e.to_string())?;
    out.flush().map_err(|e| e.to_string())?;
    std::fs::write(stats_path, json).map_err(|e| format!("{stats_path}: {e}"))
}

/// all schedules of random small program sets
fn sdfs_gen(flags: &HashMap<String, String>) -> Result<(), String> {
    let seed = flag_num(flags, "seed")?;
    let count = flag_num(flags, "count")?;
    let max = flag_num(flags, "max-schedules")?;
    let (kind_s, kind) = flag_kind(flags)?;
    let mut ops = open_out(flags, "ops")?;
    let mut out = open_out(flags, "out")?;
    let stats_path = flags.get("stats").ok_or("missing --stats")?;
    let json = {
        let mut rng = r#gen::Rng::new(seed);
        let mut run = sgen::SRun::new(&mut ops, &mut out);
        for i in 0..count {
            let k = kind.unwrap_or(KINDS[(i % 3) as usize]);
            // about 30% of the program sets contain hand-polled acquisitions (a little longer, to have room for polls)
            let with_alock = rng.pct(30);
            // `--streams <pct>`: that share of the programs owns a `lock_all_entries` stream
            let stream_pct = flags.get("streams").and_then(|s| s.parse::<u64>().ok()).unwrap_or(0);
            let cfg = sgen::ProgCfg {
                kind: k,
                nkeys: 2,
                max_stmts: if with_alock { 6 } else { 5 },
                max_locks: 2,
                soft_pct: 30,
                alock_pct: if with_alock { 50 } else { 0 },
                stream_pct,
            };
            let progs: Vec<_> = (0..2).map(|_| sgen::gen_program(&mut rng, &cfg)).collect();
            writeln!(
                run.ops,
                "# program set {i} kind={}: {} | {}",
                k.name(),
                proto::program_str(&progs[0]),
                proto::program_str(&progs[1])
            )
            .map_err(|e| e.to_string())?;
            let exhausted = run.run_dfs(k, &progs, max).map_err(|e| format!("i/o error: {e}"))?;
            run.stats.program_sets += 1;
            run.stats.program_sets_exhausted += exhausted as u64;
        }
        run.stats.to_json(&[
            ("mode", "\"sdfs-gen\"".to_string()),
            ("seed", seed.to_string()),
            ("kind", format!("\"{kind_s}\"")),
            ("max_schedules", max.to_string()),
        ])
    };
    ops.flush().map_err(|e| e.to_string())?;
    out.flush().map_err(|e| e.to_string())?;
    std::fs::write(stats_path, json).map_err(|e| format!("{stats_path}: {e}"))
}

fn main() -> ExitCode {
    let args: Vec<String> = std::env::args().collect();
    if args.len() < 2 {
        return usage();
    }
    let Some(flags) = parse_flags(&args[2..]) else {
        return usage();
    };
    exec::install_panic_hook();
    // Everything runs on a thread that is driven by a `futures` executor, as the synchronous, non-blocking part of the
    // API may be called from such a thread (the blocking variants only ever park on `tokio`'s own primitives).
    // The harness never starts a second executor itself: it polls futures by hand.
    if args[1] == "stress" {
        return match stress_cmd(&flags) {
            Ok(()) => ExitCode::SUCCESS,
            Err(e) => {
                eprintln!("harness: {e}");
                ExitCode::from(1)
            }
        };
    }
    let r = futures::executor::block_on(async { run(&args, &flags) });
    let r = match r {
        Some(r) => r,
        None => return usage(),
    };
    match r {
        Ok(()) => ExitCode::SUCCESS,
        Err(e) => {
            eprintln!("harness: {e}");
            ExitCode::from(1)
        }
    }
}

/// `harness enum --kind K --depth D --max-cases N --seed S --ops f --out f --stats f`: all sequential histories up to depth D
fn enum_cmd(flags: &HashMap<String, String>) -> Result<(), String> {
    let (kind_s, kind) = flag_kind(flags)?;
    let kind = kind.ok_or("enum needs one --kind")?;
    let depth = flag_num(flags, "depth")? as usize;
    let max_cases = flag_num(flags, "max-cases")?;
    let seed = flag_num(flags, "seed")?;
    let mut ops = open_out(flags, "ops")?;
    let mut out = open_out(flags, "out")?;
    let shard = flags.get("shard").map(|s| s.parse::<usize>().unwrap_or(0)).unwrap_or(0);
    let of = flags.get("of").map(|s| s.parse::<usize>().unwrap_or(1)).unwrap_or(1);
    let st = enumseq::enumerate(kind, &kind_s, depth, max_cases, seed, shard, of, &mut ops, &mut out).map_err(|e| e.to_string())?;
    let json = format!(
        "{{\"kind\": \"{kind_s}\", \"depth\": {depth}, \"shard\": {shard}, \"of\": {of}, \"cases\": {}, \"requests\": {}, \"truncated\": {}}}",
        st.cases, st.requests, st.truncated
    );
    if let Some(p) = flags.get("stats") {
        std::fs::write(p, &json).map_err(|e| e.to_string())?;
    }
    println!("{json}");
    Ok(())
}

/// `harness stress --kind K --threads T --millis M --seed S --keys N`: prints one JSON line
fn stress_cmd(flags: &HashMap<String, String>) -> Result<(), String> {
    let (kind_s, kind) = flag_kind(flags)?;
    let kind = kind.ok_or("stress needs one --kind")?;
    let threads = flag_num(flags, "threads")? as usize;
    let millis = flag_num(flags, "millis")?;
    let seed = flag_num(flags, "seed")?;
    let keys = flag_num(flags, "keys")? as u32;
    let limits = flags.get("limits").map(|s| s != "off").unwrap_or(true);
    let rep = if let Some(h) = flags.get("hold") {
        // scenario "many held keys": --hold H --free F
        let held: u32 = h.parse().map_err(|e| format!("--hold: {e}"))?;
        let free = flag_num(flags, "free")? as u32;
        stress::run_holders(kind, threads.max(1), millis, held, free.max(1))
    } else {
        stress::run(kind, threads.max(1), millis, seed, keys.max(1), flags.get("stop-on").cloned(), limits)
    };
    let vio: Vec<String> = rep
        .violations
        .iter()
        .map(|v| format!("\"{}\"", v.replace('\\', "/").replace('"', "'").replace('\n', " ")))
        .collect();
    println!(
        "{{\"kind\": \"{kind_s}\", \"threads\": {threads}, \"millis\": {millis}, \"seed\": {seed}, \"keys\": {keys}, \"ops\": {}, \"violations\": [{}]}}",
        rep.ops,
        vio.join(", ")
    );
    Ok(())
}

fn run(args: &[String], flags: &HashMap<String, String>) -> Option<Result<(), String>> {
    let r = match args[1].as_str() {
        "replay" => replay(flags),
        "gen" => generate(flags),
        "sgen" => sgen(flags),
        "sdfs" => sdfs(flags),
        "sdfs-gen" => sdfs_gen(flags),
        "enum" => enum_cmd(flags),
        _ => return None,
    };
    Some(r)
}
