//! Generators for scheduled mode: random programs with random schedules (`sgen`), exhaustive
//! enumeration of the schedules of given programs (`sdfs`) and of random small program sets (`sdfs-gen`).

use crate::exec::Harness;
use crate::r#gen::Rng;
use crate::proto::*;
use std::collections::BTreeMap;
use std::io::Write;

const MAX_STEPS_PER_CASE: u64 = 20_000;

#[derive(Default)]
pub struct SStats {
    pub cases: u64,
    pub steps: u64,
    pub steps_by_status_before: BTreeMap<String, u64>,
    pub events_by_kind: BTreeMap<String, u64>,
    pub lock_outcomes: BTreeMap<String, u64>,
    pub locks_by_variant: BTreeMap<String, u64>,
    pub soft_locks: u64,
    /// outcome of the first poll of hand-polled acquisitions
    pub alock_outcomes: BTreeMap<String, u64>,
    pub apoll_outcomes: BTreeMap<String, u64>,
    /// pending acquisitions dropped, by `acancel` or at the end of a program
    pub cancels_executed: u64,
    pub cases_with_cancel: u64,
    pub notrunnable: u64,
    pub hangs: u64,
    pub panics: u64,
    pub deadlocks: u64,
    pub bad_replies: u64,
    pub steps_per_case_histogram: BTreeMap<u64, u64>,
    pub cases_with_blocked_thread: u64,
    pub context_switches: u64,
    // sdfs
    pub schedules: u64,
    pub max_depth: u64,
    pub program_sets: u64,
    pub program_sets_exhausted: u64,
}

fn bump(m: &mut BTreeMap<String, u64>, k: &str) {
    *m.entry(k.to_string()).or_insert(0) += 1;
}

fn json_map<K: std::fmt::Display>(m: &BTreeMap<K, u64>) -> String {
    let items: Vec<String> = m.iter().map(|(k, v)| format!("\"{k}\": {v}")).collect();
    format!("{{{}}}", items.join(", "))
}

impl SStats {
    pub fn to_json(&self, head: &[(&str, String)]) -> String {
        let mut s = String::from("{\n");
        for (k, v) in head {
            s.push_str(&format!("  \"{k}\": {v},\n"));
        }
        s.push_str(&format!("  \"cases\": {},\n", self.cases));
        s.push_str(&format!("  \"steps\": {},\n", self.steps));
        s.push_str(&format!("  \"steps_by_status_before\": {},\n", json_map(&self.steps_by_status_before)));
        s.push_str(&format!("  \"events_by_kind\": {},\n", json_map(&self.events_by_kind)));
        s.push_str(&format!("  \"lock_outcomes\": {},\n", json_map(&self.lock_outcomes)));
        s.push_str(&format!("  \"locks_by_variant\": {},\n", json_map(&self.locks_by_variant)));
        s.push_str(&format!("  \"soft_locks\": {},\n", self.soft_locks));
        s.push_str(&format!("  \"alock_outcomes\": {},\n", json_map(&self.alock_outcomes)));
        s.push_str(&format!("  \"apoll_outcomes\": {},\n", json_map(&self.apoll_outcomes)));
        s.push_str(&format!("  \"cancels_executed\": {},\n", self.cancels_executed));
        s.push_str(&format!("  \"cases_with_cancel\": {},\n", self.cases_with_cancel));
        s.push_str(&format!("  \"notrunnable\": {},\n", self.notrunnable));
        s.push_str(&format!("  \"hangs\": {},\n", self.hangs));
        s.push_str(&format!("  \"panics\": {},\n", self.panics));
        s.push_str(&format!("  \"deadlocks\": {},\n", self.deadlocks));
        s.push_str(&format!("  \"bad_replies\": {},\n", self.bad_replies));
        s.push_str(&format!("  \"cases_with_blocked_thread\": {},\n", self.cases_with_blocked_thread));
        s.push_str(&format!("  \"context_switches\": {},\n", self.context_switches));
        s.push_str(&format!("  \"schedules\": {},\n", self.schedules));
        s.push_str(&format!("  \"max_depth\": {},\n", self.max_depth));
        s.push_str(&format!("  \"program_sets\": {},\n", self.program_sets));
        s.push_str(&format!("  \"program_sets_exhausted\": {},\n", self.program_sets_exhausted));
        s.push_str(&format!(
            "  \"steps_per_case_histogram\": {}\n",
            json_map(&self.steps_per_case_histogram)
        ));
        s.push_str("}\n");
        s
    }
}

pub struct SRun<'a> {
    pub harness: Harness,
    pub ops: &'a mut dyn Write,
    pub out: &'a mut dyn Write,
    pub stats: SStats,
    // per case
    case_steps: u64,
    last_stepped: Option<usize>,
    saw_blocked: bool,
    saw_cancel: bool,
    /// per thread and slot: the slot belongs to an `alock`
    alock_slots: Vec<Vec<bool>>,
    /// hang or a `bad` step: the case cannot go on
    dead: bool,
}

fn runnable(statuses: &[char]) -> Vec<usize> {
    statuses
        .iter()
        .enumerate()
        .filter(|(_, c)| matches!(c, 'S' | 'G' | 'K' | 'W' | 'U'))
        .map(|(t, _)| t)
        .collect()
}

impl<'a> SRun<'a> {
    pub fn new(ops: &'a mut dyn Write, out: &'a mut dyn Write) -> Self {
        SRun {
            harness: Harness::new(),
            ops,
            out,
            stats: SStats::default(),
            case_steps: 0,
            last_stepped: None,
            saw_blocked: false,
            saw_cancel: false,
            alock_slots: Vec::new(),
            dead: false,
        }
    }

    fn comment(&mut self, c: &str) -> std::io::Result<()> {
        writeln!(self.ops, "# {c}")
    }

    fn emit(&mut self, req: Req) -> std::io::Result<String> {
        let line = req.to_string();
        writeln!(self.ops, "{line}")?;
        self.ops.flush()?;
        let reply = self.harness.exec_line(&line);
        writeln!(self.out, "{reply}")?;
        self.out.flush()?;
        let info = self.harness.info.clone();
        let st = &mut self.stats;
        if info.outcome == "bad" || info.outcome == "bad-op" {
            st.bad_replies += 1;
            if matches!(req, Req::Step(_)) {
                self.dead = true;
            }
        }
        if let Req::Step(t) = &req {
            st.steps += 1;
            self.case_steps += 1;
            if info.step.notrunnable {
                st.notrunnable += 1;
            } else {
                bump(&mut st.steps_by_status_before, &info.step.status_before.to_string());
                if self.last_stepped.is_some() && self.last_stepped != Some(*t) {
                    st.context_switches += 1;
                }
                self.last_stepped = Some(*t);
            }
            if info.step.hang {
                st.hangs += 1;
                self.dead = true;
            }
            st.cancels_executed += info.step.cancels;
            if info.step.cancels > 0 {
                self.saw_cancel = true;
            }
            for e in &info.step.events {
                let kind = if let Some(rest) = e.strip_prefix("lock") {
                    let mut it = rest.split('=');
                    let slot: usize = it.next().and_then(|x| x.parse().ok()).unwrap_or(usize::MAX);
                    let outcome = it.next().unwrap_or("?");
                    let alock = self.alock_slots.get(*t).and_then(|v| v.get(slot)).copied().unwrap_or(false);
                    if alock {
                        bump(&mut st.alock_outcomes, outcome);
                        "alock"
                    } else {
                        bump(&mut st.lock_outcomes, outcome);
                        "lock"
                    }
                } else if e.starts_with("poll") {
                    bump(&mut st.apoll_outcomes, e.split('=').nth(1).unwrap_or("?"));
                    "apoll"
                } else if e.starts_with("op") {
                    "op"
                } else if e.starts_with("count=") {
                    "count"
                } else if e.starts_with("keys=") {
                    "keys"
                } else if e.starts_with("ev=") {
                    "ev"
                } else if e == "skip" {
                    "skip"
                } else if e.starts_with("panic:") || e == "poisoned" || e == "upanic" {
                    st.panics += 1;
                    "panic"
                } else {
                    "other"
                };
                bump(&mut st.events_by_kind, kind);
            }
            if self.harness.sched_statuses().iter().any(|c| matches!(c, 'B' | 'W')) {
                self.saw_blocked = true;
            }
        }
        Ok(info.outcome)
    }

    fn begin_case(&mut self, kind: Kind, progs: &[Vec<Stmt>]) -> std::io::Result<()> {
        self.case_steps = 0;
        self.last_stepped = None;
        self.saw_blocked = false;
        self.saw_cancel = false;
        self.dead = false;
        self.alock_slots = progs
            .iter()
            .map(|p| {
                p.iter()
                    .filter_map(|s| match s {
                        Stmt::Lock { .. } => Some(false),
                        Stmt::ALock { .. } => Some(true),
                        _ => None,
                    })
                    .collect()
            })
            .collect();
        self.emit(Req::SInit(kind, progs.len()))?;
        for (t, p) in progs.iter().enumerate() {
            self.emit(Req::Prog(t, p.clone()))?;
            for s in p {
                if let Stmt::Lock { var, soft, .. } = s {
                    bump(&mut self.stats.locks_by_variant, var.name());
                    if soft.is_some() {
                        self.stats.soft_locks += 1;
                    }
                }
            }
        }
        Ok(())
    }

    fn end_case(&mut self) {
        self.stats.cases += 1;
        *self.stats.steps_per_case_histogram.entry(self.case_steps).or_insert(0) += 1;
        if self.saw_blocked {
            self.stats.cases_with_blocked_thread += 1;
        }
        if self.saw_cancel {
            self.stats.cases_with_cancel += 1;
        }
    }

    /// `reorder` (hashmap/pool, non-empty map) and `step t`
    fn step(&mut self, kind: Kind, t: usize) -> std::io::Result<()> {
        if kind != Kind::Lru {
            let keys = self.harness.real_keys();
            if !keys.is_empty() {
                self.emit(Req::Reorder(keys))?;
            }
        }
        if kind == Kind::Lru {
            // let the mock clock move between segments (a pseudo-random fifth of the steps): the library reads it outside
            // its critical sections (`on_unlock`, the cut-off of the expiry scan)
            let x = self.case_steps.wrapping_mul(2654435761).wrapping_add(t as u64 * 40503);
            if (x >> 7) % 5 == 0 {
                self.emit(Req::Adv(1 + (x >> 11) % 9))?;
            }
        }
        self.emit(Req::Step(t))?;
        Ok(())
    }

    /// one random schedule of the programs
    pub fn run_random(&mut self, rng: &mut Rng, kind: Kind, progs: &[Vec<Stmt>]) -> std::io::Result<()> {
        self.begin_case(kind, progs)?;
        let mut last: Option<usize> = None;
        while !self.dead && self.case_steps < MAX_STEPS_PER_CASE {
            let statuses = self.harness.sched_statuses();
            if statuses.iter().all(|c| *c == 'D') {
                break;
            }
            let run = runnable(&statuses);
            if run.is_empty() {
                self.comment("deadlock")?;
                self.stats.deadlocks += 1;
                break;
            }
            let t = match last {
                Some(l) if run.contains(&l) && rng.pct(50) => l,
                _ => rng.pick(&run),
            };
            last = Some(t);
            self.step(kind, t)?;
        }
        self.end_case();
        Ok(())
    }

    /// All schedules of the programs in lexicographic order of the thread choices (stateless search: every
    /// schedule is executed from the start as a case of its own). Returns whether the search was exhausted.
    pub fn run_dfs(&mut self, kind: Kind, progs: &[Vec<Stmt>], max_schedules: u64) -> std::io::Result<bool> {
        // per depth: (index chosen among the runnable threads, number of runnable threads)
        let mut prefix: Vec<(usize, usize)> = Vec::new();
        let mut done = 0u64;
        loop {
            if done >= max_schedules {
                return Ok(false);
            }
            self.comment(&format!("schedule {done}"))?;
            self.begin_case(kind, progs)?;
            let mut path: Vec<(usize, usize)> = Vec::new();
            while !self.dead && self.case_steps < MAX_STEPS_PER_CASE {
                let statuses = self.harness.sched_statuses();
                if statuses.iter().all(|c| *c == 'D') {
                    break;
                }
                let run = runnable(&statuses);
                if run.is_empty() {
                    self.comment("deadlock")?;
                    self.stats.deadlocks += 1;
                    break;
                }
                let d = path.len();
                // a hash map may iterate differently in a re-execution: tolerate a narrower choice
                let idx = if d < prefix.len() { prefix[d].0.min(run.len() - 1) } else { 0 };
                path.push((idx, run.len()));
                self.step(kind, run[idx])?;
            }
            self.end_case();
            done += 1;
            self.stats.schedules += 1;
            self.stats.max_depth = self.stats.max_depth.max(path.len() as u64);
            // next schedule: advance the deepest choice that has an alternative left
            while let Some((idx, width)) = path.pop() {
                if idx + 1 < width {
                    path.push((idx + 1, width));
                    break;
                }
            }
            if path.is_empty() {
                return Ok(true);
            }
            prefix = path;
        }
    }
}

// ---------------------------------------------------------------------------------------------
// random programs
// ---------------------------------------------------------------------------------------------

pub struct ProgCfg {
    pub kind: Kind,
    pub nkeys: u32,
    pub max_stmts: u64,
    pub max_locks: u64,
    pub soft_pct: u64,
    /// percentage of acquisitions that are hand-polled (`alock`)
    pub alock_pct: u64,
    /// percentage of the programs (hash map / lru) that own a `lock_all_entries` stream
    pub stream_pct: u64,
}

/// A program that owns a `lock_all_entries` stream. It never waits (its acquisitions are try variants and hand-polled ones, the
/// stream is polled by hand), so whatever it holds — guards, yielded guards, items that were handed a lock — is released by the
/// end of the program and nobody waits for it forever.
pub fn gen_stream_program(rng: &mut Rng, c: &ProgCfg) -> Vec<Stmt> {
    let len = rng.range(5, c.max_stmts.max(5) + 5) as usize;
    let mut p: Vec<Stmt> = Vec::new();
    let mut nlocks = 0usize;
    let mut held: Vec<usize> = Vec::new();
    let try_vars = [Variant::T, Variant::To, Variant::Ta, Variant::Tao];
    // some entries of its own first
    let setup = 1 + rng.below(3);
    for _ in 0..setup {
        let k = rng.below(c.nkeys as u64) as u32;
        p.push(Stmt::Lock { var: rng.pick(&try_vars), k, soft: None });
        let slot = nlocks;
        nlocks += 1;
        if rng.pct(90) {
            p.push(Stmt::Op(slot, GOp::Insert(rng.range(1, 9) as u32)));
        }
        if rng.pct(70) {
            p.push(Stmt::Drop(slot));
        } else {
            held.push(slot);
        }
    }
    p.push(Stmt::SOpen { owned: rng.pct(50) });
    let mut open = true;
    while p.len() < len {
        let h = if held.is_empty() { 0 } else { 1 };
        match rng.weighted(&[40, 14, 10 * h, 12 * h, 8, 10, 4, 2]) {
            0 => p.push(Stmt::SNext),
            1 => p.push(Stmt::SDropG),
            2 => {
                let slot = rng.pick(&held);
                p.push(gen_op(rng, slot));
            }
            3 => {
                let i = rng.below(held.len() as u64) as usize;
                p.push(Stmt::Drop(held.remove(i)));
            }
            4 => p.push(if rng.pct(50) { Stmt::Count } else { Stmt::Keys }),
            5 => {
                if (nlocks as u64) < c.max_locks {
                    let k = rng.below(c.nkeys as u64) as u32;
                    p.push(Stmt::Lock { var: rng.pick(&try_vars), k, soft: None });
                    held.push(nlocks);
                    nlocks += 1;
                }
            }
            6 => {
                p.push(Stmt::SClose);
                open = false;
            }
            _ => {
                if !open {
                    p.push(Stmt::SOpen { owned: rng.pct(50) });
                    open = true;
                }
            }
        }
    }
    p
}

fn gen_lock(rng: &mut Rng, c: &ProgCfg, k: u32) -> Stmt {
    let var = if c.kind == Kind::Pool {
        rng.pick(&[Variant::B, Variant::T, Variant::A])
    } else {
        rng.pick(&ALL_VARIANTS)
    };
    let soft = if c.kind != Kind::Pool && rng.pct(c.soft_pct) {
        Some(rng.range(1, 3) as usize)
    } else {
        None
    };
    Stmt::Lock { var, k, soft }
}

fn gen_op(rng: &mut Rng, slot: usize) -> Stmt {
    let v = rng.range(1, 9) as u32;
    let op = match rng.weighted(&[30, 15, 15, 10, 10, 10, 5, 5]) {
        0 => GOp::Insert(v),
        1 => GOp::Remove,
        2 => GOp::Value,
        3 => GOp::Voi(v),
        4 => GOp::Vmut(v),
        5 => GOp::Tinsert(v),
        6 => GOp::Voiw(v),
        _ => GOp::Key,
    };
    Stmt::Op(slot, op)
}

/// An acquisition statement for key `k`: `lock`, or with probability `alock_pct` a hand-polled `alock`
fn gen_acquire(rng: &mut Rng, c: &ProgCfg, k: u32) -> (Stmt, bool) {
    if rng.pct(c.alock_pct) {
        let owned = c.kind != Kind::Pool && rng.pct(50);
        (Stmt::ALock { owned, k }, true)
    } else {
        (gen_lock(rng, c, k), false)
    }
}

/// something to do with a held slot other than releasing it
fn gen_use(rng: &mut Rng, c: &ProgCfg, slot: usize, alock: bool, p: &mut Vec<Stmt>) {
    let pool = c.kind == Kind::Pool;
    if alock && rng.pct(if pool { 80 } else { 50 }) {
        if rng.pct(60) {
            // a statement with a park point, so that the holder can release the key before the poll
            p.push(if rng.pct(50) { Stmt::Count } else { Stmt::Keys });
        }
        p.push(Stmt::APoll(slot));
    } else if pool {
        p.push(if rng.pct(50) { Stmt::Count } else { Stmt::Keys });
    } else {
        p.push(gen_op(rng, slot));
    }
}

/// A program following a deadlock-free discipline:
/// * at most one slot in use at a time (guard or pending acquisition), or
/// * keys acquired in strictly ascending order (`lock` and `alock` alike), released in any order, or
/// * only hand-polled acquisitions (`alock`) on distinct keys: such a thread never waits.
/// It never acquires a key it may still hold or have a pending acquisition for.
pub fn gen_program(rng: &mut Rng, c: &ProgCfg) -> Vec<Stmt> {
    if c.kind != Kind::Pool && c.stream_pct > 0 && rng.pct(c.stream_pct) {
        return gen_stream_program(rng, c);
    }
    let len = rng.range(1, c.max_stmts.max(1)) as usize;
    let mut p: Vec<Stmt> = Vec::new();
    let mut nlocks = 0usize;
    let lru = c.kind == Kind::Lru;
    let misc = move |rng: &mut Rng| {
        if lru && rng.pct(40) {
            Stmt::Expire
        } else if rng.pct(50) {
            Stmt::Count
        } else {
            Stmt::Keys
        }
    };
    let discipline = if c.alock_pct > 0 && rng.pct(c.alock_pct / 2) {
        2
    } else if rng.pct(55) || c.nkeys == 1 {
        0
    } else {
        1
    };
    if discipline == 0 {
        // one slot at a time
        while p.len() < len && (nlocks as u64) < c.max_locks {
            if rng.pct(8) {
                p.push(misc(rng));
                continue;
            }
            let slot = nlocks;
            let k = rng.below(c.nkeys as u64) as u32;
            let (st, alock) = gen_acquire(rng, c, k);
            p.push(st);
            nlocks += 1;
            let nuses = rng.below(3);
            for _ in 0..nuses {
                if p.len() >= len {
                    break;
                }
                if rng.pct(10) {
                    p.push(misc(rng));
                } else {
                    gen_use(rng, c, slot, alock, &mut p);
                }
            }
            // released before the next acquisition; at the end the implicit release may do it
            if p.len() < len || rng.pct(50) {
                if alock {
                    // guard or still pending: one of the two is skipped
                    if rng.pct(50) {
                        p.push(Stmt::ACancel(slot));
                        p.push(Stmt::Drop(slot));
                    } else {
                        p.push(Stmt::Drop(slot));
                        p.push(Stmt::ACancel(slot));
                    }
                } else {
                    p.push(Stmt::Drop(slot));
                }
            }
        }
    } else {
        // ascending keys, or (only alocks) distinct keys in any order
        let mut keys: Vec<u32> = (0..c.nkeys).filter(|_| rng.pct(70)).collect();
        if keys.is_empty() {
            keys.push(rng.below(c.nkeys as u64) as u32);
        }
        if discipline == 2 {
            rng.shuffle(&mut keys);
        }
        let mut held: Vec<(usize, bool)> = Vec::new();
        let mut next_key = 0usize;
        while p.len() < len {
            let can_lock = next_key < keys.len() && (nlocks as u64) < c.max_locks;
            let h = if held.is_empty() { 0 } else { 1 };
            match rng.weighted(&[if can_lock { 40 } else { 0 }, 30 * h, 20 * h, 6]) {
                0 => {
                    let (st, alock) = if discipline == 2 {
                        let owned = c.kind != Kind::Pool && rng.pct(50);
                        (Stmt::ALock { owned, k: keys[next_key] }, true)
                    } else {
                        gen_acquire(rng, c, keys[next_key])
                    };
                    p.push(st);
                    next_key += 1;
                    held.push((nlocks, alock));
                    nlocks += 1;
                }
                1 => {
                    let (slot, alock) = rng.pick(&held);
                    gen_use(rng, c, slot, alock, &mut p);
                }
                2 => {
                    let i = rng.below(held.len() as u64) as usize;
                    let (slot, alock) = held[i];
                    if alock && rng.pct(60) {
                        // may be skipped (the acquisition may have completed): the slot stays in the list then
                        p.push(Stmt::ACancel(slot));
                        if rng.pct(50) {
                            held.remove(i);
                        }
                    } else {
                        p.push(Stmt::Drop(slot));
                        if !alock || rng.pct(50) {
                            held.remove(i);
                        }
                    }
                }
                _ => p.push(misc(rng)),
            }
        }
    }
    p
}
