//! Free-running stress mode: real threads, no scheduler, no hooks. It supports the *search for a failing input*
//! for changes whose effect needs true parallelism (an operation of one thread between two instructions of a
//! critical section of another): it cannot miss-report on a correct library, because every check below is exact
//! under any interleaving:
//!   * a guard is never obtained for a key whose guard is alive (per-key flag set while a guard is held),
//!   * the value a guard shows is the value the previous guard of that key left (per-key shadow written under the guard),
//!   * no library panic, no poisoned lock, every thread finishes (each holds at most one guard at a time),
//!   * when all threads are done: count and key list are exactly the valued keys, `into_entries_unordered` returns
//!     exactly the shadow.
use lockable::{AsyncLimit, LockPool, LockableHashMap, LockableLruCache, SyncLimit};
use std::collections::BTreeMap;
use std::future::Future;
use std::panic::{catch_unwind, AssertUnwindSafe};
use std::sync::atomic::{AtomicBool, AtomicI64, AtomicU64, Ordering};
use std::sync::{Arc, Mutex};
use std::task::{Context, Poll};
use std::time::{Duration, Instant};

use crate::proto::Kind;

pub struct Report {
    pub ops: u64,
    pub violations: Vec<String>,
}

struct Shared {
    occupied: Vec<AtomicBool>,
    shadow: Vec<AtomicI64>,
    stop: AtomicBool,
    ops: AtomicU64,
    done: AtomicU64,
    violations: Mutex<Vec<String>>,
    /// stop at the first violation whose tag mentions this property; with `None`: at the first violation of any kind
    stop_on: Option<String>,
    /// guards obtained by a sweep (stream, expiry) are only looked at
    sweeps_ro: bool,
}

impl Shared {
    fn new(nkeys: usize, stop_on: Option<String>, sweeps_ro: bool) -> Self {
        Shared {
            stop_on,
            sweeps_ro,
            occupied: (0..nkeys).map(|_| AtomicBool::new(false)).collect(),
            shadow: (0..nkeys).map(|_| AtomicI64::new(-1)).collect(),
            stop: AtomicBool::new(false),
            ops: AtomicU64::new(0),
            done: AtomicU64::new(0),
            violations: Mutex::new(Vec::new()),
        }
    }
    fn violation(&self, s: String) {
        let tag = s.split(':').next().unwrap_or("").to_string();
        let mut v = self.violations.lock().unwrap_or_else(|e| e.into_inner());
        // at most 4 reports per kind of violation, so that a later one of another kind is not crowded out
        if v.iter().filter(|x| x.split(':').next().unwrap_or("") == tag).count() < 4 {
            v.push(s);
        }
        let stop = match &self.stop_on {
            None => true,
            Some(p) => tag.split('/').any(|t| t == p) || tag == "harness",
        };
        if stop {
            self.stop.store(true, Ordering::SeqCst);
        }
    }
    fn enter(&self, k: u32, v: Option<u32>, how: &str) {
        if self.occupied[k as usize].swap(true, Ordering::SeqCst) {
            self.violation(format!("C01: {how} produced a guard for key {k} while another guard for it is alive"));
        }
        let s = self.shadow[k as usize].load(Ordering::SeqCst);
        let exp = if s < 0 { None } else { Some(s as u32) };
        if v != exp {
            self.violation(format!("C02: guard for key {k} ({how}) shows {v:?}, the previous guard left {exp:?}"));
        }
    }
    fn set(&self, k: u32, v: Option<u32>) {
        self.shadow[k as usize].store(v.map(|x| x as i64).unwrap_or(-1), Ordering::SeqCst);
    }
    fn leave(&self, k: u32) {
        self.occupied[k as usize].store(false, Ordering::SeqCst);
    }
}

struct Rng(u64);
impl Rng {
    fn next(&mut self) -> u64 {
        let mut x = self.0;
        x ^= x << 13;
        x ^= x >> 7;
        x ^= x << 17;
        self.0 = x;
        x
    }
    fn below(&mut self, n: u64) -> u64 {
        self.next() % n
    }
}

fn payload(e: Box<dyn std::any::Any + Send>) -> String {
    if let Some(s) = e.downcast_ref::<&str>() {
        s.to_string()
    } else if let Some(s) = e.downcast_ref::<String>() {
        s.clone()
    } else {
        "<non-string panic payload>".to_string()
    }
}

macro_rules! use_guard {
    ($sh:expr, $g:expr, $rng:expr, $how:expr) => {{
        let mut g = $g;
        let k = *g.key();
        $sh.enter(k, g.value().copied(), $how);
        match $rng.below(5) {
            0 => {
                let v = $rng.below(1000) as u32;
                g.insert(v);
                $sh.set(k, Some(v));
            }
            1 => {
                g.remove();
                $sh.set(k, None);
            }
            2 => {
                let v = $rng.below(1000) as u32;
                let had = g.value().copied();
                let got = *g.value_or_insert(v);
                if had.is_none() {
                    $sh.set(k, Some(v));
                }
                if got != had.unwrap_or(v) {
                    $sh.violation(format!("C05: value_or_insert on key {k} answered {got}, expected {}", had.unwrap_or(v)));
                }
            }
            _ => {}
        }
        $sh.leave(k);
        drop(g);
    }};
}

/// a guard obtained in a sweep over all entries, looked at but not changed (so that the population stays)
macro_rules! look_at_guard {
    ($sh:expr, $g:expr, $how:expr) => {{
        let g = $g;
        let k = *g.key();
        $sh.enter(k, g.value().copied(), $how);
        $sh.leave(k);
        drop(g);
    }};
}

macro_rules! evict_all {
    ($sh:expr, $gs:expr, $how:expr) => {{
        for mut g in $gs {
            let k = *g.key();
            $sh.enter(k, g.value().copied(), $how);
            if g.value().is_none() {
                $sh.violation(format!("C07: eviction callback was given a guard without value (key {k})"));
            }
            g.remove();
            $sh.set(k, None);
            $sh.leave(k);
            drop(g);
        }
    }};
}

macro_rules! stress_map {
    ($name:ident, $ty:ty, $lru:expr) => {
        fn $name(threads: usize, millis: u64, seed: u64, nkeys: u32, stop_on: Option<String>, limits: bool) -> Report {
            let map: Arc<$ty> = Arc::new(<$ty>::new());
            let sh = Arc::new(Shared::new(nkeys as usize, stop_on, !limits));
            let mut handles = Vec::new();
            for t in 0..threads {
                let map = Arc::clone(&map);
                let sh = Arc::clone(&sh);
                handles.push(std::thread::spawn(move || {
                    let mut rng = Rng(seed.wrapping_mul(0x9E37_79B9_7F4A_7C15).wrapping_add(t as u64 * 7919 + 1) | 1);
                    while !sh.stop.load(Ordering::Relaxed) {
                        let k = rng.below(nkeys as u64) as u32;
                        // now and then a limit far above the population
                        let limit = if rng.below(8) == 0 {
                            std::num::NonZeroUsize::new(usize::MAX).unwrap()
                        } else {
                            std::num::NonZeroUsize::new(1 + rng.below(nkeys as u64) as usize).unwrap()
                        };
                        // large populations: the soft-limited calls become plain calls and the sweeps over all entries (stream,
                        // expiry) only look at their guards, so that the population is not cut down all the time
                        let mut choice = rng.below(11);
                        if !limits && (choice == 4 || choice == 5) {
                            choice = 0;
                        }
                        let r = catch_unwind(AssertUnwindSafe(|| match choice {
                            0 | 1 => {
                                let g = map.blocking_lock_owned(k, SyncLimit::no_limit()).unwrap();
                                use_guard!(sh, g, rng, "blocking_lock_owned");
                            }
                            2 => {
                                let g = map.blocking_lock(k, SyncLimit::no_limit()).unwrap();
                                use_guard!(sh, g, rng, "blocking_lock");
                            }
                            3 => {
                                if let Some(g) = map.try_lock_owned(k, SyncLimit::no_limit()).unwrap() {
                                    use_guard!(sh, g, rng, "try_lock_owned");
                                }
                            }
                            4 => {
                                let sh2 = &sh;
                                let g = map
                                    .blocking_lock(
                                        k,
                                        SyncLimit::SoftLimit {
                                            max_entries: limit,
                                            on_evict: |gs: Vec<_>| {
                                                evict_all!(sh2, gs, "eviction callback (blocking_lock)");
                                                Ok::<(), lockable::Never>(())
                                            },
                                        },
                                    )
                                    .unwrap();
                                use_guard!(sh, g, rng, "blocking_lock with soft limit");
                            }
                            5 => {
                                let sh2 = &sh;
                                let g = futures::executor::block_on(map.try_lock_owned_async(
                                    k,
                                    AsyncLimit::SoftLimit {
                                        max_entries: limit,
                                        on_evict: |gs: Vec<_>| {
                                            evict_all!(sh2, gs, "eviction callback (try_lock_owned_async)");
                                            std::future::ready(Ok::<(), lockable::Never>(()))
                                        },
                                    },
                                ))
                                .unwrap();
                                if let Some(g) = g {
                                    use_guard!(sh, g, rng, "try_lock_owned_async with soft limit");
                                }
                            }
                            6 => {
                                let g = futures::executor::block_on(map.async_lock_owned(k, AsyncLimit::no_limit())).unwrap();
                                use_guard!(sh, g, rng, "async_lock_owned");
                            }
                            7 => {
                                // poll once, then abandon the acquisition if it is still pending
                                let mut fut = Box::pin(map.async_lock(k, AsyncLimit::no_limit()));
                                let waker = futures::task::noop_waker();
                                let mut cx = Context::from_waker(&waker);
                                match fut.as_mut().poll(&mut cx) {
                                    Poll::Ready(g) => {
                                        let g = g.unwrap();
                                        use_guard!(sh, g, rng, "async_lock (first poll)");
                                    }
                                    Poll::Pending => {
                                        if rng.below(2) == 0 {
                                            std::thread::yield_now();
                                            if let Poll::Ready(g) = fut.as_mut().poll(&mut cx) {
                                                let g = g.unwrap();
                                                use_guard!(sh, g, rng, "async_lock (second poll)");
                                            }
                                        }
                                        drop(fut);
                                    }
                                }
                            }
                            8 => {
                                let n = map.num_entries_or_locked();
                                let ks = map.keys_with_entries_or_locked();
                                if n > nkeys as usize || ks.len() > nkeys as usize {
                                    sh.violation(format!("C04: {n} entries / {} keys reported with only {nkeys} keys in use", ks.len()));
                                }
                            }
                            9 => {
                                use futures::StreamExt;
                                futures::executor::block_on(async {
                                    let mut stream = Box::pin(map.lock_all_entries().await);
                                    let take = rng.below(3);
                                    for _ in 0..take {
                                        match stream.next().await {
                                            Some(g) => {
                                                if g.value().is_none() {
                                                    sh.violation(format!("C11: stream yielded a guard without value (key {})", g.key()));
                                                }
                                                if sh.sweeps_ro {
                                                    look_at_guard!(sh, g, "lock_all_entries");
                                                } else {
                                                    let mut r2 = Rng(rng.next() | 1);
                                                    use_guard!(sh, g, r2, "lock_all_entries");
                                                }
                                            }
                                            None => break,
                                        }
                                    }
                                });
                            }
                            _ => {
                                if $lru {
                                    stress_expire(&map, &sh, &mut rng);
                                } else if let Some(g) = map.try_lock(k, SyncLimit::no_limit()).unwrap() {
                                    use_guard!(sh, g, rng, "try_lock");
                                }
                            }
                        }));
                        if let Err(e) = r {
                            sh.violation(format!("C13: panic inside the library or its caller: {}", payload(e)));
                            if sh.stop.load(Ordering::Relaxed) {
                                break;
                            }
                        }
                        sh.ops.fetch_add(1, Ordering::Relaxed);
                    }
                    sh.done.fetch_add(1, Ordering::SeqCst);
                }));
            }
            let start = Instant::now();
            while start.elapsed() < Duration::from_millis(millis) && !sh.stop.load(Ordering::Relaxed) {
                std::thread::sleep(Duration::from_millis(5));
            }
            sh.stop.store(true, Ordering::SeqCst);
            let deadline = Instant::now() + Duration::from_secs(10);
            while sh.done.load(Ordering::SeqCst) < threads as u64 && Instant::now() < deadline {
                std::thread::sleep(Duration::from_millis(5));
            }
            if sh.done.load(Ordering::SeqCst) < threads as u64 {
                sh.violation(format!(
                    "C03/C08/C13: {} of {threads} threads did not finish their current call within 10 s (each holds at most one guard at a time)",
                    threads as u64 - sh.done.load(Ordering::SeqCst)
                ));
                let v = sh.violations.lock().unwrap_or_else(|e| e.into_inner()).clone();
                return Report { ops: sh.ops.load(Ordering::Relaxed), violations: v };
            }
            for h in handles {
                let _ = h.join();
            }
            // quiescent: exactly the valued keys remain
            let fin = catch_unwind(AssertUnwindSafe(|| {
                let n = map.num_entries_or_locked();
                let mut ks = map.keys_with_entries_or_locked();
                ks.sort_unstable();
                let want: BTreeMap<u32, u32> = (0..nkeys)
                    .filter_map(|k| {
                        let s = sh.shadow[k as usize].load(Ordering::SeqCst);
                        if s >= 0 { Some((k, s as u32)) } else { None }
                    })
                    .collect();
                let wk: Vec<u32> = want.keys().copied().collect();
                if ks != wk || n != wk.len() {
                    sh.violation(format!("C04/C06: all threads done, count {n} keys {ks:?}, but exactly {wk:?} have values (every guard is dropped, every abandoned acquisition cleaned up)"));
                }
                match Arc::try_unwrap(map) {
                    Ok(m) => {
                        let got: BTreeMap<u32, u32> = m.into_entries_unordered().collect();
                        if got != want {
                            sh.violation(format!("C12: into_entries_unordered returned {got:?}, the guards left {want:?}"));
                        }
                    }
                    Err(_) => sh.violation("harness: container still shared at the end".to_string()),
                }
            }));
            if let Err(e) = fin {
                sh.violation(format!("C13/C12: panic in the final accounting: {}", payload(e)));
            }
            let v = sh.violations.lock().unwrap_or_else(|e| e.into_inner()).clone();
            Report { ops: sh.ops.load(Ordering::Relaxed), violations: v }
        }
    };
}

trait Expire {
    fn expire_all(&self, sh: &Shared, rng: &mut Rng);
}
impl Expire for LockableHashMap<u32, u32> {
    fn expire_all(&self, _sh: &Shared, _rng: &mut Rng) {}
}
impl Expire for LockableLruCache<u32, u32> {
    fn expire_all(&self, sh: &Shared, rng: &mut Rng) {
        let d = if rng.below(2) == 0 { Duration::ZERO } else { Duration::from_micros(50) };
        for g in self.lock_entries_unlocked_for_at_least(d) {
            if g.value().is_none() {
                sh.violation(format!("C10: expiry returned a guard without value (key {})", g.key()));
            }
            if sh.sweeps_ro {
                look_at_guard!(sh, g, "lock_entries_unlocked_for_at_least");
            } else {
                let mut r2 = Rng(rng.next() | 1);
                use_guard!(sh, g, r2, "lock_entries_unlocked_for_at_least");
            }
        }
    }
}
fn stress_expire<M: Expire>(m: &Arc<M>, sh: &Shared, rng: &mut Rng) {
    m.expire_all(sh, rng);
}

stress_map!(stress_hashmap, LockableHashMap<u32, u32>, false);
stress_map!(stress_lru, LockableLruCache<u32, u32>, true);

fn stress_pool(threads: usize, millis: u64, seed: u64, nkeys: u32, stop_on: Option<String>) -> Report {
    let pool: Arc<LockPool<u32>> = Arc::new(LockPool::new());
    let sh = Arc::new(Shared::new(nkeys as usize, stop_on, false));
    let mut handles = Vec::new();
    for t in 0..threads {
        let pool = Arc::clone(&pool);
        let sh = Arc::clone(&sh);
        handles.push(std::thread::spawn(move || {
            let mut rng = Rng(seed.wrapping_mul(0x9E37_79B9_7F4A_7C15).wrapping_add(t as u64 * 7919 + 1) | 1);
            while !sh.stop.load(Ordering::Relaxed) {
                let k = rng.below(nkeys as u64) as u32;
                let r = catch_unwind(AssertUnwindSafe(|| {
                    let hold = |how: &str| {
                        if sh.occupied[k as usize].swap(true, Ordering::SeqCst) {
                            sh.violation(format!("C14: {how} produced a guard for key {k} while another guard for it is alive"));
                        }
                        let n = pool.num_locked();
                        let ks = pool.locked_keys();
                        if n == 0 || !ks.contains(&k) {
                            sh.violation(format!("C14: key {k} is held but num_locked() = {n}, locked_keys() = {ks:?}"));
                        }
                        sh.occupied[k as usize].store(false, Ordering::SeqCst);
                    };
                    match rng.below(4) {
                        0 => {
                            let g = pool.blocking_lock(k);
                            hold("blocking_lock");
                            drop(g);
                        }
                        1 => {
                            if let Some(g) = pool.try_lock(k) {
                                hold("try_lock");
                                drop(g);
                            }
                        }
                        2 => {
                            let g = futures::executor::block_on(pool.async_lock(k));
                            hold("async_lock");
                            drop(g);
                        }
                        _ => {
                            let mut fut = Box::pin(pool.async_lock(k));
                            let waker = futures::task::noop_waker();
                            let mut cx = Context::from_waker(&waker);
                            match fut.as_mut().poll(&mut cx) {
                                Poll::Ready(g) => {
                                    hold("async_lock (first poll)");
                                    drop(g);
                                }
                                Poll::Pending => drop(fut),
                            }
                        }
                    }
                }));
                if let Err(e) = r {
                    sh.violation(format!("C13: panic inside the library or its caller: {}", payload(e)));
                    break;
                }
                sh.ops.fetch_add(1, Ordering::Relaxed);
            }
            sh.done.fetch_add(1, Ordering::SeqCst);
        }));
    }
    let start = Instant::now();
    while start.elapsed() < Duration::from_millis(millis) && !sh.stop.load(Ordering::Relaxed) {
        std::thread::sleep(Duration::from_millis(5));
    }
    sh.stop.store(true, Ordering::SeqCst);
    let deadline = Instant::now() + Duration::from_secs(10);
    while sh.done.load(Ordering::SeqCst) < threads as u64 && Instant::now() < deadline {
        std::thread::sleep(Duration::from_millis(5));
    }
    if sh.done.load(Ordering::SeqCst) < threads as u64 {
        sh.violation(format!(
            "C03/C14: {} of {threads} threads did not finish their current call within 10 s",
            threads as u64 - sh.done.load(Ordering::SeqCst)
        ));
    } else {
        for h in handles {
            let _ = h.join();
        }
        let fin = catch_unwind(AssertUnwindSafe(|| (pool.num_locked(), pool.locked_keys())));
        match fin {
            Ok((n, ks)) => {
                if n != 0 || !ks.is_empty() {
                    sh.violation(format!("C14: all threads done but num_locked() = {n}, locked_keys() = {ks:?}"));
                }
            }
            Err(e) => sh.violation(format!("C13: panic in the final accounting: {}", payload(e))),
        }
    }
    let v = sh.violations.lock().unwrap_or_else(|e| e.into_inner()).clone();
    Report { ops: sh.ops.load(Ordering::Relaxed), violations: v }
}

/// Scenario "many held keys": `held` keys are locked (with values) for the whole run by the main thread; `free` further keys have
/// values and are only looked at. Worker threads create `lock_all_entries` streams and must be given the `free` entries — each
/// exactly once per stream, without waiting for the held ones (C11: the stream yields every entry whose lock it can obtain;
/// other keys stay usable while items are pending). A stream that cannot get past the held entries shows as a timeout.
macro_rules! holders_map {
    ($name:ident, $ty:ty) => {
        fn $name(threads: usize, millis: u64, held: u32, free: u32) -> Report {
            let map: Arc<$ty> = Arc::new(<$ty>::new());
            let violations: Arc<Mutex<Vec<String>>> = Arc::new(Mutex::new(Vec::new()));
            let ops = Arc::new(AtomicU64::new(0));
            let setup = catch_unwind(AssertUnwindSafe(|| {
                let mut guards = Vec::new();
                for k in 0..held {
                    let mut g = map.blocking_lock_owned(k, SyncLimit::no_limit()).unwrap();
                    g.insert(k);
                    guards.push(g);
                }
                for k in held..held + free {
                    let mut g = map.blocking_lock_owned(k, SyncLimit::no_limit()).unwrap();
                    g.insert(k);
                }
                guards
            }));
            let guards = match setup {
                Ok(g) => g,
                Err(e) => return Report { ops: 0, violations: vec![format!("C13: panic while filling the container: {}", payload(e))] },
            };
            let stop = Arc::new(AtomicBool::new(false));
            let (tx, rx) = std::sync::mpsc::channel::<Result<(), String>>();
            for _ in 0..threads {
                let map = Arc::clone(&map);
                let stop = Arc::clone(&stop);
                let tx = tx.clone();
                let ops = Arc::clone(&ops);
                std::thread::spawn(move || {
                    use futures::StreamExt;
                    while !stop.load(Ordering::Relaxed) {
                        let r = catch_unwind(AssertUnwindSafe(|| {
                            futures::executor::block_on(async {
                                let mut stream = Box::pin(map.lock_all_entries().await);
                                let mut seen = std::collections::BTreeSet::new();
                                for _ in 0..free {
                                    match stream.next().await {
                                        Some(g) => {
                                            let k = *g.key();
                                            if k < held {
                                                return Err(format!("C11/C01: the stream yielded a guard for key {k}, which is held for the whole run"));
                                            }
                                            if g.value().copied() != Some(k) {
                                                return Err(format!("C11/C02: the stream's guard for key {k} shows {:?}", g.value()));
                                            }
                                            if !seen.insert(k) {
                                                return Err(format!("C11: the stream yielded key {k} twice"));
                                            }
                                        }
                                        None => return Err("C11: the stream ended although held entries are still unresolved".to_string()),
                                    }
                                }
                                Ok(())
                            })
                        }));
                        ops.fetch_add(1, Ordering::Relaxed);
                        let msg = match r {
                            Ok(x) => x,
                            Err(e) => Err(format!("C13: panic inside the library or its caller: {}", payload(e))),
                        };
                        let bad = msg.is_err();
                        let _ = tx.send(msg);
                        if bad {
                            break;
                        }
                    }
                });
            }
            drop(tx);
            // every stream must deliver its free entries in time
            let start = Instant::now();
            let mut out = Vec::new();
            loop {
                match rx.recv_timeout(Duration::from_secs(8)) {
                    Ok(Ok(())) => {}
                    Ok(Err(m)) => {
                        out.push(m);
                        break;
                    }
                    Err(std::sync::mpsc::RecvTimeoutError::Timeout) => {
                        out.push(format!(
                            "C11/C03: no stream delivered its {free} unlocked entries within 8 s while {held} other entries are held \
                             (a stream must yield the entries it can lock without waiting for the others)"
                        ));
                        break;
                    }
                    Err(std::sync::mpsc::RecvTimeoutError::Disconnected) => break,
                }
                if start.elapsed() >= Duration::from_millis(millis) {
                    break;
                }
            }
            stop.store(true, Ordering::SeqCst);
            if out.is_empty() {
                // give the workers time to finish their current stream, then release the held keys and check the accounting
                std::thread::sleep(Duration::from_millis(200));
                let fin = catch_unwind(AssertUnwindSafe(|| {
                    drop(guards);
                    map.num_entries_or_locked()
                }));
                match fin {
                    Ok(n) if n == (held + free) as usize => {}
                    Ok(n) => {
                        // a worker may still hold one guard of its last stream: only more than that is wrong
                        if n > (held + free) as usize {
                            out.push(format!("C04: {n} entries reported, {} keys have values", held + free));
                        }
                    }
                    Err(e) => out.push(format!("C13: panic while releasing the held keys: {}", payload(e))),
                }
            } else {
                // leave the stuck threads alone: the process ends with the report
                std::mem::forget(guards);
            }
            *violations.lock().unwrap_or_else(|e| e.into_inner()) = out.clone();
            Report { ops: ops.load(Ordering::Relaxed), violations: out }
        }
    };
}

holders_map!(holders_hashmap, LockableHashMap<u32, u32>);
holders_map!(holders_lru, LockableLruCache<u32, u32>);

pub fn run_holders(kind: Kind, threads: usize, millis: u64, held: u32, free: u32) -> Report {
    match kind {
        Kind::HashMap => holders_hashmap(threads, millis, held, free),
        Kind::Lru => holders_lru(threads, millis, held, free),
        Kind::Pool => Report { ops: 0, violations: Vec::new() },
    }
}

pub fn run(kind: Kind, threads: usize, millis: u64, seed: u64, nkeys: u32, stop_on: Option<String>, limits: bool) -> Report {
    match kind {
        Kind::HashMap => stress_hashmap(threads, millis, seed, nkeys, stop_on, limits),
        Kind::Lru => stress_lru(threads, millis, seed, nkeys, stop_on, limits),
        Kind::Pool => stress_pool(threads, millis, seed, nkeys, stop_on),
    }
}

#[allow(dead_code)]
fn _assert_future<F: Future>(_: &F) {}
