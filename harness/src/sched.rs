//! Scheduled mode: real OS threads running one at a time, switching at the `lockable::verif` hook points.
//! See the section "Scheduled mode" of /verif/PROTOCOL.md.

use crate::container::*;
use crate::exec::{classify_panic, op_reply, take_panic};
use crate::proto::*;
use lockable::verif::{Hook, Site};
use std::cell::{Cell, RefCell};
use std::panic::{AssertUnwindSafe, catch_unwind};
use std::rc::Rc;
use std::sync::atomic::{AtomicBool, Ordering};
use std::sync::{Arc, Condvar, Mutex, MutexGuard};
use std::time::{Duration, Instant};

pub const WATCHDOG: Duration = Duration::from_secs(10);
const SNAPSHOT_TIMEOUT: Duration = Duration::from_secs(2);

#[derive(Debug, Clone, Copy, PartialEq, Eq)]
pub enum Status {
    /// not started
    S,
    /// parked at `Site::Global`
    G,
    /// parked at `Site::Key`
    K,
    /// parked in `verif::block_on`
    B,
    /// parked at `Site::Unprotected`: a per-key mutex is released, or a waiter woken, outside the global lock
    U,
    /// finished
    D,
    /// has the turn (only visible when a step hangs)
    R,
}

/// `&AtomicBool` of `Hook::blocked`, valid as long as the thread is parked in there
struct WokenPtr(*const AtomicBool);
unsafe impl Send for WokenPtr {}

struct TState {
    status: Status,
    woken: Option<WokenPtr>,
    events: Vec<String>,
    /// pending futures dropped (`acancel` or program end) since the last reply
    cancels: u64,
}

struct Inner {
    threads: Vec<TState>,
    /// the worker that may run; `None`: the scheduler
    turn: Option<usize>,
}

struct Shared {
    m: Mutex<Inner>,
    cv: Condvar,
}

impl Shared {
    fn lock(&self) -> MutexGuard<'_, Inner> {
        self.m.lock().unwrap_or_else(|e| e.into_inner())
    }
}

// ---------------------------------------------------------------------------------------------
// worker side
// ---------------------------------------------------------------------------------------------

thread_local! {
    /// events of the running segment, moved to the shared state when the thread parks
    static SEG_EVENTS: RefCell<Vec<String>> = const { RefCell::new(Vec::new()) };
    /// number of eviction candidates handed to this thread's callbacks so far
    static CANDS: Cell<u64> = const { Cell::new(0) };
    /// pending futures dropped in the running segment
    static SEG_CANCELS: Cell<u64> = const { Cell::new(0) };
}

/// what a slot of a worker holds
enum Slot {
    Empty,
    Guard(GuardBox),
    Pending(LockFut),
}

impl Slot {
    /// drop the guard / cancel the pending future
    fn release(&mut self) {
        match std::mem::replace(self, Slot::Empty) {
            Slot::Empty => {}
            Slot::Guard(g) => drop(g),
            Slot::Pending(f) => {
                SEG_CANCELS.with(|c| c.set(c.get() + 1));
                drop(f);
            }
        }
    }
}

/// called on a worker thread
pub fn push_event(e: String) {
    SEG_EVENTS.with(|v| v.borrow_mut().push(e));
}

struct WorkerHook {
    shared: Arc<Shared>,
    t: usize,
}

impl WorkerHook {
    /// publish the status, give the turn back, wait for the next turn
    fn park(&self, status: Status, woken: Option<WokenPtr>) {
        let mut g = self.shared.lock();
        let evs = SEG_EVENTS.with(|v| std::mem::take(&mut *v.borrow_mut()));
        let ts = &mut g.threads[self.t];
        ts.events.extend(evs);
        ts.cancels += SEG_CANCELS.with(|c| c.replace(0));
        ts.status = status;
        ts.woken = woken;
        g.turn = None;
        self.shared.cv.notify_all();
        // threads of an abandoned case wait here forever
        while g.turn != Some(self.t) {
            g = self.shared.cv.wait(g).unwrap_or_else(|e| e.into_inner());
        }
        let ts = &mut g.threads[self.t];
        ts.status = Status::R;
        ts.woken = None;
    }
}

impl Hook for WorkerHook {
    fn at(&self, site: Site) {
        if std::thread::panicking() {
            // the drops of an unwinding worker run through: the whole unwinding is one segment
            return;
        }
        self.park(
            match site {
                Site::Global => Status::G,
                Site::Key => Status::K,
                Site::Unprotected => Status::U,
            },
            None,
        );
    }

    fn blocked(&self, woken: &AtomicBool) {
        if std::thread::panicking() {
            return;
        }
        self.park(Status::B, Some(WokenPtr(woken as *const AtomicBool)));
    }
}

/// one `poll_next` by hand, as in the sequential mode: polled again as long as the stream woke itself
fn poll_next_by_hand(stream: &mut crate::container::GuardStream) -> Option<Option<GuardBox>> {
    let (flag, waker) = crate::container::flag_waker();
    let mut cx = std::task::Context::from_waker(&waker);
    let mut spins = 0usize;
    loop {
        flag.woken.store(false, std::sync::atomic::Ordering::SeqCst);
        match stream.as_mut().poll_next(&mut cx) {
            std::task::Poll::Ready(x) => return Some(x),
            std::task::Poll::Pending => {
                if !flag.woken.swap(false, std::sync::atomic::Ordering::SeqCst) {
                    return None;
                }
                spins += 1;
                if spins > 100_000 {
                    panic!("harness: stream keeps waking itself");
                }
            }
        }
    }
}

fn run_program(prog: &[Stmt], slots: &mut Vec<Slot>, cont: &dyn Container, kind: Kind, t: usize) {
    let mut stream: Option<crate::container::GuardStream> = None;
    let mut sgot: std::collections::VecDeque<GuardBox> = std::collections::VecDeque::new();
    for stmt in prog {
        match stmt {
            Stmt::SOpen { owned } => {
                if stream.is_some() {
                    push_event("skip".to_string());
                } else {
                    // the first poll of `lock_all_entries()` passes one G hook: the snapshot section
                    let s = cont.lock_all(*owned).expect("set_prog rejects streams for the pool");
                    stream = Some(s);
                    push_event("sopen".to_string());
                }
            }
            Stmt::SNext => match stream.as_mut() {
                None => push_event("skip".to_string()),
                Some(s) => match poll_next_by_hand(s) {
                    Some(Some(g)) => {
                        push_event(format!("item={}", g.key()));
                        sgot.push_back(g);
                    }
                    Some(None) => push_event("snext=end".to_string()),
                    None => push_event("snext=pending".to_string()),
                },
            },
            Stmt::SDropG => match sgot.pop_front() {
                Some(g) => drop(g),
                None => push_event("skip".to_string()),
            },
            Stmt::SClose => match stream.take() {
                Some(s) => {
                    drop(s);
                    push_event("sclosed".to_string());
                }
                None => push_event("skip".to_string()),
            },
            Stmt::Lock { var, k, soft } => {
                let slot = slots.len();
                let base = 1000 * (t as u64 + 1) + 500;
                let script: Option<Script> = soft.map(|_| {
                    let mut st = ScriptState::new(Vec::new(), base + CANDS.with(|c| c.get()), kind != Kind::Lru, None);
                    st.sched = true;
                    Rc::new(RefCell::new(st))
                });
                let limit: SoftLimit = match (soft, &script) {
                    (Some(n), Some(st)) => Some((std::num::NonZeroUsize::new(*n).expect("parser rejects 0"), Rc::clone(st))),
                    _ => None,
                };
                let outcome = match cont.lock(*var, *k, limit) {
                    // sync variants are done already, async ones run here; either way waiting goes through the hook
                    Some(fut) => lockable::verif::block_on(fut),
                    None => panic!("harness: variant not available"),
                };
                if let Some(st) = &script {
                    CANDS.with(|c| c.set(st.borrow().next_h - base));
                }
                match outcome {
                    LockOutcome::Guard(g) => {
                        slots.push(Slot::Guard(g));
                        push_event(format!("lock{slot}=guard"));
                    }
                    LockOutcome::None => {
                        slots.push(Slot::Empty);
                        push_event(format!("lock{slot}=none"));
                    }
                    LockOutcome::Err => {
                        slots.push(Slot::Empty);
                        push_event(format!("lock{slot}=err"));
                    }
                }
            }
            Stmt::ALock { owned, k } => {
                let slot = slots.len();
                let var = if *owned { Variant::Ao } else { Variant::A };
                let Some(mut fut) = cont.lock(var, *k, None) else {
                    panic!("harness: variant not available");
                };
                // polled by hand, once: the thread never waits here (the hooks G and K are passed inside this poll)
                match poll_once(fut.as_mut()) {
                    std::task::Poll::Ready(LockOutcome::Guard(g)) => {
                        slots.push(Slot::Guard(g));
                        push_event(format!("lock{slot}=guard"));
                    }
                    std::task::Poll::Ready(_) => {
                        slots.push(Slot::Empty);
                        push_event(format!("lock{slot}=none"));
                    }
                    std::task::Poll::Pending => {
                        slots.push(Slot::Pending(fut));
                        push_event(format!("lock{slot}=pending"));
                    }
                }
            }
            Stmt::APoll(slot) => match slots.get_mut(*slot) {
                Some(s @ Slot::Pending(_)) => {
                    let Slot::Pending(fut) = s else { unreachable!() };
                    match poll_once(fut.as_mut()) {
                        std::task::Poll::Ready(LockOutcome::Guard(g)) => {
                            *s = Slot::Guard(g);
                            push_event(format!("poll{slot}=guard"));
                        }
                        std::task::Poll::Ready(_) => {
                            *s = Slot::Empty;
                            push_event(format!("poll{slot}=none"));
                        }
                        std::task::Poll::Pending => push_event(format!("poll{slot}=pending")),
                    }
                }
                _ => push_event("skip".to_string()),
            },
            Stmt::ACancel(slot) => match slots.get_mut(*slot) {
                Some(s @ Slot::Pending(_)) => s.release(),
                _ => push_event("skip".to_string()),
            },
            Stmt::Op(slot, op) => match slots.get_mut(*slot) {
                Some(Slot::Guard(g)) => {
                    let r = op_reply(g.as_mut(), *op);
                    push_event(format!("op{slot}={r}"));
                }
                _ => push_event("skip".to_string()),
            },
            Stmt::Drop(slot) => match slots.get_mut(*slot) {
                Some(s @ Slot::Guard(_)) => s.release(),
                _ => push_event("skip".to_string()),
            },
            Stmt::Expire => {
                let base = 1000 * (t as u64 + 1) + 500;
                let gs = cont.expire(std::time::Duration::ZERO, false).expect("set_prog rejects expire for other kinds");
                let first = base + CANDS.with(|c| c.get());
                let ids: Vec<(u64, u32)> = gs.iter().enumerate().map(|(i, g)| (first + i as u64, g.key())).collect();
                CANDS.with(|c| c.set(c.get() + gs.len() as u64));
                // before the guards are dropped: every drop passes a hook point, i.e. ends the segment
                push_event(format!("exp={}", crate::container::pairs_str(&ids)));
                for g in gs {
                    drop(g);
                }
            }
            Stmt::Count => push_event(format!("count={}", cont.count())),
            Stmt::Keys => {
                let mut ks = cont.keys();
                if kind != Kind::Lru {
                    ks.sort_unstable();
                }
                push_event(format!("keys={}", list_str(&ks)));
            }
        }
    }
    // the slots still in use are released in ascending order: a guard is dropped, a pending future cancelled
    for s in slots.iter_mut() {
        s.release();
    }
    // then the guards the stream yielded, oldest first, then the stream itself
    while let Some(g) = sgot.pop_front() {
        drop(g);
    }
    if let Some(s) = stream.take() {
        drop(s);
        push_event("sclosed".to_string());
    }
}

fn worker(shared: Arc<Shared>, t: usize, cont: Arc<dyn Container + Send + Sync>, kind: Kind, prog: Vec<Stmt>) {
    let hook = Arc::new(WorkerHook {
        shared: Arc::clone(&shared),
        t,
    });
    lockable::verif::install(Some(hook));
    take_panic();
    let mut slots: Vec<Slot> = Vec::new();
    // like the main thread: a thread driven by a `futures` executor (see main.rs)
    let r = catch_unwind(AssertUnwindSafe(|| {
        futures::executor::block_on(async { run_program(&prog, &mut slots, &*cont, kind, t) })
    }));
    lockable::verif::install(None);
    if r.is_err() {
        let (msg, loc) = take_panic().unwrap_or_default();
        push_event(classify_panic(&msg, &loc));
        // The guards and pending futures this thread still holds are not released (that would pass further hook points):
        // the thread is done. They point into the container, which therefore must stay alive.
        std::mem::forget(std::mem::take(&mut slots));
        std::mem::forget(Arc::clone(&cont));
    }
    drop(slots);
    let mut g = shared.lock();
    let evs = SEG_EVENTS.with(|v| std::mem::take(&mut *v.borrow_mut()));
    let ts = &mut g.threads[t];
    ts.events.extend(evs);
    ts.cancels += SEG_CANCELS.with(|c| c.replace(0));
    ts.status = Status::D;
    ts.woken = None;
    g.turn = None;
    shared.cv.notify_all();
}

// ---------------------------------------------------------------------------------------------
// scheduler side
// ---------------------------------------------------------------------------------------------

pub struct SchedCase {
    pub kind: Kind,
    pub cont: Arc<dyn Container + Send + Sync>,
    shared: Arc<Shared>,
    progs: Vec<Option<Vec<Stmt>>>,
    started: Vec<bool>,
    handles: Vec<Option<std::thread::JoinHandle<()>>>,
    pub case_start: u64,
    /// a step ran into the watchdog: the case is over
    pub hung: bool,
}

/// what a `step` did, for the generators
#[derive(Default, Debug, Clone)]
pub struct StepInfo {
    pub events: Vec<String>,
    /// `S G K W`: status of the stepped thread before the step; `-` if it was not runnable
    pub status_before: char,
    pub notrunnable: bool,
    pub hang: bool,
    /// pending futures whose drop was started in this step
    pub cancels: u64,
}

impl SchedCase {
    pub fn new(kind: Kind, n: usize) -> Self {
        SchedCase {
            kind,
            cont: new_shared_container(kind),
            shared: Arc::new(Shared {
                m: Mutex::new(Inner {
                    threads: (0..n)
                        .map(|_| TState {
                            status: Status::S,
                            woken: None,
                            events: Vec::new(),
                            cancels: 0,
                        })
                        .collect(),
                    turn: None,
                }),
                cv: Condvar::new(),
            }),
            progs: vec![None; n],
            started: vec![false; n],
            handles: (0..n).map(|_| None).collect(),
            case_start: clock_ms(),
            hung: false,
        }
    }

    pub fn nthreads(&self) -> usize {
        self.progs.len()
    }

    /// `false`: not acceptable (thread out of range, already started, statement not available for this kind)
    pub fn set_prog(&mut self, t: usize, prog: &[Stmt]) -> bool {
        if t >= self.nthreads() || self.started.iter().any(|s| *s) || self.hung {
            return false;
        }
        if self.kind != Kind::Lru && prog.iter().any(|s| matches!(s, Stmt::Expire)) {
            return false;
        }
        if self.kind == Kind::Pool {
            let ok = prog.iter().all(|s| match s {
                Stmt::Lock { var, soft, .. } => matches!(var, Variant::B | Variant::T | Variant::A) && soft.is_none(),
                Stmt::Op(..) => false,
                Stmt::ALock { owned, .. } => !*owned,
                Stmt::SOpen { .. } | Stmt::SNext | Stmt::SDropG | Stmt::SClose => false,
                _ => true,
            });
            if !ok {
                return false;
            }
        }
        self.progs[t] = Some(prog.to_vec());
        true
    }

    fn status_char(ts: &TState) -> char {
        match ts.status {
            Status::S => 'S',
            Status::G => 'G',
            Status::K => 'K',
            Status::U => 'U',
            Status::D => 'D',
            Status::R => 'R',
            Status::B => {
                let woken = match &ts.woken {
                    // the thread is parked inside `blocked(woken)`: the reference is alive
                    Some(p) => unsafe { (*p.0).load(Ordering::SeqCst) },
                    None => false,
                };
                if woken { 'W' } else { 'B' }
            }
        }
    }

    pub fn statuses(&self) -> Vec<char> {
        let g = self.shared.lock();
        g.threads.iter().map(Self::status_char).collect()
    }

    fn statuses_str(&self) -> String {
        self.statuses()
            .iter()
            .enumerate()
            .map(|(t, c)| format!("{t}:{c}"))
            .collect::<Vec<_>>()
            .join(" ")
    }

    /// `None`: request not executable
    pub fn step(&mut self, t: usize, info: &mut StepInfo) -> Option<String> {
        if self.hung || t >= self.nthreads() {
            return None;
        }
        let before = self.statuses()[t];
        if before == 'D' || before == 'B' {
            info.notrunnable = true;
            info.status_before = '-';
            return Some(format!("notrunnable ; {}", self.statuses_str()));
        }
        info.status_before = before;
        {
            let mut g = self.shared.lock();
            g.threads[t].events.clear();
            g.turn = Some(t);
            if before != 'S' {
                self.shared.cv.notify_all();
            }
        }
        if before == 'S' {
            self.started[t] = true;
            let shared = Arc::clone(&self.shared);
            let cont = Arc::clone(&self.cont);
            let kind = self.kind;
            let prog = self.progs[t].clone().unwrap_or_default();
            {
                let mut g = self.shared.lock();
                g.threads[t].status = Status::R;
            }
            let h = std::thread::Builder::new()
                .name(format!("worker{t}"))
                .stack_size(1 << 20)
                .spawn(move || worker(shared, t, cont, kind, prog))
                .expect("cannot spawn worker thread");
            self.handles[t] = Some(h);
        }
        // wait until the worker parks again or finishes
        let deadline = Instant::now() + WATCHDOG;
        let mut g = self.shared.lock();
        while g.turn.is_some() {
            let now = Instant::now();
            if now >= deadline {
                break;
            }
            g = self.shared.cv.wait_timeout(g, deadline - now).unwrap_or_else(|e| e.into_inner()).0;
        }
        if g.turn.is_some() {
            drop(g);
            self.hung = true;
            info.hang = true;
            return Some(format!("hang ; {}", self.statuses_str()));
        }
        let events = std::mem::take(&mut g.threads[t].events);
        info.cancels = std::mem::take(&mut g.threads[t].cancels);
        drop(g);
        let evs = if events.is_empty() { "-".to_string() } else { events.join(",") };
        info.events = events;
        Some(format!("{} ; {}", evs, self.statuses_str()))
    }

    pub fn all_done(&self) -> bool {
        self.statuses().iter().all(|c| *c == 'D')
    }

    /// Snapshot of the container's entries, taken on a helper thread if the case hangs
    /// (a hung worker may hold the global lock for good).
    pub fn snapshot(&self) -> Option<Vec<SnapEntry>> {
        if !self.hung {
            return self.cont.snapshot();
        }
        let (tx, rx) = std::sync::mpsc::channel();
        let cont = Arc::clone(&self.cont);
        std::thread::spawn(move || {
            let _ = tx.send(cont.snapshot());
        });
        rx.recv_timeout(SNAPSHOT_TIMEOUT).ok().flatten()
    }

    /// End of the case. Workers that are not done stay parked for good (they keep the container alive).
    pub fn finish(mut self) {
        let done = self.all_done();
        for h in self.handles.iter_mut() {
            if let Some(h) = h.take() {
                if done {
                    let _ = h.join();
                }
                // else: detached
            }
        }
    }
}
