//! Random history generator. Histories are executed while they are generated, so the generator can
//! look at the real state (live guards, pending futures, streams, snapshot) to produce mostly valid requests.

use crate::container::clock_ms;
use crate::exec::Harness;
use crate::proto::*;
use std::collections::BTreeMap;
use std::io::Write;

// ---------------------------------------------------------------------------------------------
// PRNG
// ---------------------------------------------------------------------------------------------

pub struct Rng(u64);

impl Rng {
    pub fn new(seed: u64) -> Self {
        Rng(seed)
    }
    /// splitmix64
    pub fn next(&mut self) -> u64 {
        self.0 = self.0.wrapping_add(0x9E37_79B9_7F4A_7C15);
        let mut z = self.0;
        z = (z ^ (z >> 30)).wrapping_mul(0xBF58_476D_1CE4_E5B9);
        z = (z ^ (z >> 27)).wrapping_mul(0x94D0_49BB_1331_11EB);
        z ^ (z >> 31)
    }
    /// uniform in 0..n (n > 0)
    pub fn below(&mut self, n: u64) -> u64 {
        self.next() % n
    }
    /// uniform in lo..=hi
    pub fn range(&mut self, lo: u64, hi: u64) -> u64 {
        lo + self.below(hi - lo + 1)
    }
    pub fn pct(&mut self, p: u64) -> bool {
        self.below(100) < p
    }
    pub fn pick<T: Copy>(&mut self, l: &[T]) -> T {
        l[self.below(l.len() as u64) as usize]
    }
    /// index by weight; total weight must be > 0
    pub fn weighted(&mut self, w: &[u64]) -> usize {
        let total: u64 = w.iter().sum();
        let mut x = self.below(total);
        for (i, wi) in w.iter().enumerate() {
            if x < *wi {
                return i;
            }
            x -= wi;
        }
        unreachable!()
    }
    pub fn shuffle<T>(&mut self, l: &mut [T]) {
        for i in (1..l.len()).rev() {
            let j = self.below(i as u64 + 1) as usize;
            l.swap(i, j);
        }
    }
}

// ---------------------------------------------------------------------------------------------
// profiles
// ---------------------------------------------------------------------------------------------

#[derive(Debug, Clone, Copy, PartialEq, Eq)]
pub enum Profile {
    Mixed,
    Cancel,
    Limit,
    Expire,
    Stream,
    Pool,
}

impl Profile {
    pub fn parse(s: &str) -> Option<Profile> {
        Some(match s {
            "mixed" => Profile::Mixed,
            "cancel" => Profile::Cancel,
            "limit" => Profile::Limit,
            "expire" => Profile::Expire,
            "stream" => Profile::Stream,
            "pool" => Profile::Pool,
            _ => return None,
        })
    }
}

#[derive(Clone, Copy)]
enum Action {
    Lock,
    Op,
    Drop,
    Poll,
    Cancel,
    Count,
    Keys,
    Adv,
    Expire,
    LockAll,
    Spoll,
    Sdrop,
    /// lock a free key, insert a value, unlock: three requests
    Populate,
}

const ACTIONS: [Action; 13] = [
    Action::Lock,
    Action::Op,
    Action::Drop,
    Action::Poll,
    Action::Cancel,
    Action::Count,
    Action::Keys,
    Action::Adv,
    Action::Expire,
    Action::LockAll,
    Action::Spoll,
    Action::Sdrop,
    Action::Populate,
];

struct Cfg {
    /// weights in the order of `ACTIONS`
    w: [u64; 13],
    /// percentage of locks with a soft limit
    soft_pct: u64,
    /// percentage of locks that go for a currently locked key (if there is one) with an async variant
    held_pct: u64,
    /// weights of rm, keep, set, stash in scripts
    act_w: [u64; 4],
    /// weights of ok, err, panic
    fin_w: [u64; 3],
}

fn cfg(profile: Profile, kind: Kind) -> Cfg {
    let lru = kind == Kind::Lru;
    //                 lock op drop poll cancel count keys adv expire lockall spoll sdrop populate
    let mut c = match profile {
        Profile::Mixed | Profile::Pool => Cfg {
            w: [30, 22, 14, 6, 4, 2, 2, 3, 5, 3, 6, 2, 6],
            soft_pct: 30,
            held_pct: 15,
            act_w: [50, 20, 15, 15],
            fin_w: [76, 12, 12],
        },
        Profile::Cancel => Cfg {
            w: [32, 8, 12, 12, 16, 2, 2, 1, 2, 6, 5, 6, 4],
            soft_pct: 10,
            held_pct: 65,
            act_w: [50, 20, 15, 15],
            fin_w: [76, 12, 12],
        },
        Profile::Limit => Cfg {
            w: [40, 20, 14, 4, 3, 2, 2, 2, 3, 2, 3, 1, 15],
            soft_pct: 50,
            held_pct: 10,
            act_w: [35, 20, 15, 30],
            fin_w: [60, 20, 20],
        },
        Profile::Expire => Cfg {
            w: [25, 14, 16, 3, 2, 1, 1, 15, 16, 1, 2, 1, 12],
            soft_pct: 15,
            held_pct: 10,
            act_w: [50, 20, 15, 15],
            fin_w: [76, 12, 12],
        },
        Profile::Stream => Cfg {
            w: [24, 14, 18, 5, 3, 1, 1, 2, 3, 10, 16, 4, 12],
            soft_pct: 15,
            held_pct: 25,
            act_w: [50, 20, 15, 15],
            fin_w: [76, 12, 12],
        },
    };
    if lru {
        c.w[7] *= 2; // adv
    }
    c
}

// ---------------------------------------------------------------------------------------------
// statistics
// ---------------------------------------------------------------------------------------------

#[derive(Default)]
pub struct Stats {
    pub cases: u64,
    pub requests: u64,
    pub requests_by_kind: BTreeMap<String, u64>,
    pub lock_by_variant: BTreeMap<String, u64>,
    pub lock_by_outcome: BTreeMap<String, u64>,
    pub limited_locks: u64,
    pub callback_invocations: u64,
    pub rounds_panic: u64,
    pub rounds_err: u64,
    pub cancels_by_state: BTreeMap<String, u64>,
    pub polls_by_outcome: BTreeMap<String, u64>,
    pub stream_items_yielded: u64,
    pub spolls_by_outcome: BTreeMap<String, u64>,
    pub ops_by_name: BTreeMap<String, u64>,
    pub expire_calls: u64,
    pub expire_guards_returned: u64,
    pub into_calls: u64,
    pub bad_replies: u64,
    pub bad_op_replies: u64,
    pub would_block_replies: u64,
    pub library_panic_replies: u64,
    pub cases_aborted_after_library_panic: u64,
    pub case_length_histogram: BTreeMap<u64, u64>,
}

fn bump(m: &mut BTreeMap<String, u64>, k: &str) {
    *m.entry(k.to_string()).or_insert(0) += 1;
}

fn json_map<K: std::fmt::Display>(m: &BTreeMap<K, u64>) -> String {
    let items: Vec<String> = m.iter().map(|(k, v)| format!("\"{k}\": {v}")).collect();
    format!("{{{}}}", items.join(", "))
}

impl Stats {
    pub fn to_json(&self, seed: u64, profile: &str, kind: &str, maxlen: u64) -> String {
        let mut s = String::new();
        s.push_str("{\n");
        s.push_str(&format!("  \"seed\": {seed},\n"));
        s.push_str(&format!("  \"profile\": \"{profile}\",\n"));
        s.push_str(&format!("  \"kind\": \"{kind}\",\n"));
        s.push_str(&format!("  \"maxlen\": {maxlen},\n"));
        s.push_str(&format!("  \"cases\": {},\n", self.cases));
        s.push_str(&format!("  \"requests\": {},\n", self.requests));
        s.push_str(&format!("  \"requests_by_kind\": {},\n", json_map(&self.requests_by_kind)));
        s.push_str(&format!("  \"lock_by_variant\": {},\n", json_map(&self.lock_by_variant)));
        s.push_str(&format!("  \"lock_by_outcome\": {},\n", json_map(&self.lock_by_outcome)));
        s.push_str(&format!("  \"limited_locks\": {},\n", self.limited_locks));
        s.push_str(&format!("  \"callback_invocations\": {},\n", self.callback_invocations));
        s.push_str(&format!("  \"rounds_panic\": {},\n", self.rounds_panic));
        s.push_str(&format!("  \"rounds_err\": {},\n", self.rounds_err));
        s.push_str(&format!("  \"cancels_by_state\": {},\n", json_map(&self.cancels_by_state)));
        s.push_str(&format!("  \"polls_by_outcome\": {},\n", json_map(&self.polls_by_outcome)));
        s.push_str(&format!("  \"stream_items_yielded\": {},\n", self.stream_items_yielded));
        s.push_str(&format!("  \"spolls_by_outcome\": {},\n", json_map(&self.spolls_by_outcome)));
        s.push_str(&format!("  \"ops_by_name\": {},\n", json_map(&self.ops_by_name)));
        s.push_str(&format!("  \"expire_calls\": {},\n", self.expire_calls));
        s.push_str(&format!("  \"expire_guards_returned\": {},\n", self.expire_guards_returned));
        s.push_str(&format!("  \"into_calls\": {},\n", self.into_calls));
        s.push_str(&format!("  \"bad_replies\": {},\n", self.bad_replies));
        s.push_str(&format!("  \"bad_op_replies\": {},\n", self.bad_op_replies));
        s.push_str(&format!("  \"would_block_replies\": {},\n", self.would_block_replies));
        s.push_str(&format!("  \"library_panic_replies\": {},\n", self.library_panic_replies));
        s.push_str(&format!(
            "  \"cases_aborted_after_library_panic\": {},\n",
            self.cases_aborted_after_library_panic
        ));
        s.push_str(&format!(
            "  \"case_length_histogram\": {}\n",
            json_map(&self.case_length_histogram)
        ));
        s.push_str("}\n");
        s
    }
}

// ---------------------------------------------------------------------------------------------
// generator
// ---------------------------------------------------------------------------------------------

pub struct Gen<'a> {
    pub rng: Rng,
    pub harness: Harness,
    pub ops: &'a mut dyn Write,
    pub out: &'a mut dyn Write,
    pub stats: Stats,
    pub profile: Profile,
    // per case
    kind: Kind,
    nkeys: u64,
    next_h: u64,
    next_sid: u64,
    emitted: u64,
    fatal: bool,
    /// `--avoid sdrop-order`: on an lru never drop a stream that was polled and has not ended
    /// (see notes/sdrop_lru_order.txt: the model's drop order of the unresolved items differs)
    pub avoid_sdrop_order: bool,
    /// per live stream: (was polled, has ended)
    stream_state: BTreeMap<u64, (bool, bool)>,
}

impl<'a> Gen<'a> {
    pub fn new(seed: u64, profile: Profile, ops: &'a mut dyn Write, out: &'a mut dyn Write) -> Self {
        Gen {
            rng: Rng::new(seed),
            harness: Harness::new(),
            ops,
            out,
            stats: Stats::default(),
            profile,
            kind: Kind::HashMap,
            nkeys: 2,
            next_h: 1,
            next_sid: 1,
            emitted: 0,
            fatal: false,
            avoid_sdrop_order: false,
            stream_state: BTreeMap::new(),
        }
    }

    fn fresh_h(&mut self) -> u64 {
        let h = self.next_h;
        self.next_h += 1;
        h
    }

    fn fresh_block(&mut self) -> u64 {
        let h = self.next_h;
        // wide blocks: the 48-id window of a call slides by the candidates it has used; it must never reach the next block
        self.next_h += 256;
        h
    }

    /// write the request, execute it, write the reply; returns the outcome (result without traces)
    fn emit(&mut self, req: Req) -> std::io::Result<String> {
        // resuming a soft-limited call runs eviction scans: they depend on the iteration order
        if let Req::Poll(h) = &req {
            if self.kind != Kind::Lru && self.harness.pending_has_script(*h) {
                let keys = self.harness.real_keys();
                if !keys.is_empty() {
                    self.emit(Req::Reorder(keys))?;
                }
            }
        }
        // information needed for the statistics that is gone after the execution
        let cancel_state = if let Req::Cancel(h) = &req {
            let key = self.harness.pending_key(*h);
            let held_by_guard = self
                .harness
                .guard_ids()
                .iter()
                .any(|g| self.harness.guard_key(*g) == key && key.is_some());
            Some(if held_by_guard { "queued_behind_live_guard" } else { "no_live_guard_on_key" })
        } else {
            None
        };

        let line = req.to_string();
        writeln!(self.ops, "{line}")?;
        self.ops.flush()?;
        let reply = self.harness.exec_line(&line);
        writeln!(self.out, "{reply}")?;
        self.out.flush()?;
        self.emitted += 1;

        let info = self.harness.info.clone();
        let outcome = info.outcome.clone();
        let st = &mut self.stats;
        st.requests += 1;
        bump(&mut st.requests_by_kind, req.kind_name());
        match outcome.as_str() {
            "bad" => st.bad_replies += 1,
            "bad-op" => st.bad_op_replies += 1,
            "would-block" => st.would_block_replies += 1,
            _ => {}
        }
        if outcome.starts_with("panic:") || outcome == "poisoned" || reply.contains("[poisoned]") || reply.contains("[snapshot-panic]") {
            st.library_panic_replies += 1;
            self.fatal = true;
        }
        match &req {
            Req::Lock { var, limit, .. } => {
                bump(&mut st.lock_by_variant, var.name());
                bump(&mut st.lock_by_outcome, &outcome);
                if *limit != Limit::None {
                    st.limited_locks += 1;
                }
                st.callback_invocations += info.callback_invocations as u64;
                if outcome == "upanic" {
                    st.rounds_panic += 1;
                }
                if outcome == "err" {
                    st.rounds_err += 1;
                }
            }
            Req::Cancel(_) => bump(&mut st.cancels_by_state, cancel_state.unwrap_or("?")),
            Req::Poll(_) => bump(&mut st.polls_by_outcome, &outcome),
            Req::LockAll(sid, _) => {
                if outcome.starts_with("hs") {
                    self.stream_state.insert(*sid, (false, false));
                }
            }
            Req::Sdrop(sid) => {
                self.stream_state.remove(sid);
            }
            Req::Spoll(sid) => {
                if let Some(e) = self.stream_state.get_mut(sid) {
                    e.0 = true;
                    e.1 |= outcome == "end";
                }
                let o = outcome.split(' ').next().unwrap_or("");
                bump(&mut st.spolls_by_outcome, o);
                if o == "item" {
                    st.stream_items_yielded += 1;
                }
            }
            Req::Op(_, g) => bump(&mut st.ops_by_name, g.name()),
            Req::Expire(..) => {
                st.expire_calls += 1;
                st.expire_guards_returned += info.guards_returned as u64;
            }
            Req::Into => st.into_calls += 1,
            _ => {}
        }
        Ok(outcome)
    }

    fn rand_val(&mut self) -> u32 {
        self.rng.range(1, 9) as u32
    }

    fn locked_keys(&self) -> Vec<u32> {
        match self.harness.real_snapshot() {
            Some(es) => {
                let mut v: Vec<u32> = es.iter().filter(|e| e.unlocked.is_none()).map(|e| e.key).collect();
                v.sort_unstable();
                v
            }
            None => Vec::new(),
        }
    }

    /// an unlocked entry with a value: can be handed to an eviction callback
    fn evictable(&self, k: u32) -> bool {
        match self.harness.real_snapshot() {
            Some(es) => es.iter().any(|e| e.key == k && matches!(e.unlocked, Some(Some(_)))),
            None => false,
        }
    }

    fn emit_reorder(&mut self) -> std::io::Result<()> {
        if self.kind == Kind::Lru {
            return Ok(());
        }
        let keys = self.harness.real_keys();
        if !keys.is_empty() {
            self.emit(Req::Reorder(keys))?;
        }
        Ok(())
    }

    fn gen_round(&mut self, c: &Cfg, allow_stash: bool, is_async: bool) -> Round {
        let nacts = self.rng.below(4);
        let mut acts = Vec::new();
        for _ in 0..nacts {
            let a = match self.rng.weighted(&c.act_w) {
                0 => Act::Rm,
                1 => Act::Keep,
                2 => Act::Set(self.rand_val()),
                _ => {
                    if allow_stash {
                        Act::Stash
                    } else {
                        Act::Keep
                    }
                }
            };
            acts.push(a);
        }
        let mut recount = self.rng.pct(30);
        let fin = match self.rng.weighted(&c.fin_w) {
            0 => Fin::Ok,
            1 => Fin::Err,
            _ => {
                if self.rng.pct(50) {
                    recount = false;
                    Fin::LatePanic
                } else {
                    Fin::Panic
                }
            }
        };
        // an async callback whose future is pending at its first poll (the call can then be polled on or abandoned)
        let fin = match fin {
            Fin::Ok if is_async && self.rng.pct(25) => Fin::PendOk,
            Fin::Err if is_async && self.rng.pct(25) => Fin::PendErr,
            f => f,
        };
        Round { acts, recount, fin }
    }

    fn gen_lock(&mut self, c: &Cfg) -> std::io::Result<()> {
        let locked = self.locked_keys();
        let pool = self.kind == Kind::Pool;
        let (k, mut var) = if !locked.is_empty() && self.rng.pct(c.held_pct) {
            let k = self.rng.pick(&locked);
            let var = if pool {
                self.rng.pick(&[Variant::A, Variant::A, Variant::T])
            } else {
                self.rng.pick(&[
                    Variant::A,
                    Variant::A,
                    Variant::Ao,
                    Variant::Ao,
                    Variant::T,
                    Variant::To,
                    Variant::Ta,
                    Variant::Tao,
                ])
            };
            (k, var)
        } else {
            let k = self.rng.below(self.nkeys) as u32;
            let var = if pool {
                self.rng.pick(&[Variant::B, Variant::T, Variant::A])
            } else {
                self.rng.pick(&ALL_VARIANTS)
            };
            (k, var)
        };
        if var.is_blocking() && locked.contains(&k) {
            var = match (var, self.rng.pct(50)) {
                (Variant::B, true) => Variant::T,
                (Variant::B, false) => Variant::A,
                (_, true) => Variant::To,
                (_, false) => Variant::Ao,
            };
        }
        let soft = !pool && self.rng.pct(c.soft_pct);
        let h = self.fresh_h();
        let (h0, limit) = if soft {
            // now and then a limit far above any population (`usize::MAX` as "unlimited")
            let n = if self.rng.pct(6) { usize::MAX } else { self.rng.range(1, 4) as usize };
            // a blocking lock whose callback keeps the guard of the key itself would never return
            let allow_stash = !(var.is_blocking() && self.evictable(k));
            let nrounds = self.rng.below(4);
            let is_async = matches!(var, Variant::A | Variant::Ao | Variant::Ta | Variant::Tao);
            let script: Vec<Round> = (0..nrounds).map(|_| self.gen_round(c, allow_stash, is_async)).collect();
            self.emit_reorder()?;
            (self.fresh_block(), Limit::Soft(n, script))
        } else {
            (0, Limit::None)
        };
        self.emit(Req::Lock { var, h, k, h0, limit })?;
        Ok(())
    }

    fn gen_op(&mut self) -> std::io::Result<()> {
        let ids = self.harness.guard_ids();
        let h = self.rng.pick(&ids);
        let v = self.rand_val();
        let op = match self.rng.weighted(&[10, 10, 30, 10, 10, 10, 3, 12, 5]) {
            0 => GOp::Value,
            1 => GOp::Vmut(v),
            2 => GOp::Insert(v),
            3 => GOp::Tinsert(v),
            4 => GOp::Voi(v),
            5 => GOp::Voiw(v),
            6 => GOp::Voiwp,
            7 => GOp::Remove,
            _ => GOp::Key,
        };
        self.emit(Req::Op(h, op))?;
        Ok(())
    }

    fn gen_expire(&mut self) -> std::io::Result<()> {
        let d: u128 = match self.rng.weighted(&[20, 35, 35, 10]) {
            0 => 0,
            1 => self.rng.range(1, 30) as u128,
            2 => {
                let stamps: Vec<u64> = match self.harness.real_snapshot() {
                    Some(es) => es.iter().filter_map(|e| e.unlocked.flatten().map(|(_, s)| s)).collect(),
                    None => Vec::new(),
                };
                if stamps.is_empty() {
                    self.rng.range(1, 30) as u128
                } else {
                    (clock_ms() - self.rng.pick(&stamps)) as u128
                }
            }
            _ => 1_000_000_000_000_000_000,
        };
        let h0 = self.fresh_block();
        self.emit(Req::Expire(d, h0))?;
        Ok(())
    }

    fn step(&mut self, c: &Cfg) -> std::io::Result<()> {
        let h = &self.harness;
        let pool = self.kind == Kind::Pool;
        let have_guards = !h.guard_ids().is_empty();
        let have_pending = !h.pending_ids().is_empty();
        let nstreams = h.stream_ids().len();
        let nguards = h.guard_ids().len() as u64;
        let droppable = self.droppable_streams();
        // a lock call suspended in its eviction callback: make it likely that it is polled on or abandoned soon
        let suspended: Vec<u64> = h.pending_ids().into_iter().filter(|p| h.pending_has_script(*p)).collect();
        if !suspended.is_empty() && self.rng.pct(35) {
            let p = self.rng.pick(&suspended);
            if self.rng.pct(65) {
                self.emit(Req::Poll(p))?;
            } else {
                self.emit(Req::Cancel(p))?;
            }
            return Ok(());
        }
        let h = &self.harness;
        let avail = |a: Action| -> bool {
            match a {
                Action::Lock | Action::Count | Action::Keys | Action::Adv => true,
                Action::Op => have_guards && !pool,
                Action::Drop => have_guards,
                Action::Poll | Action::Cancel => have_pending,
                Action::Expire => self.kind == Kind::Lru,
                Action::LockAll => !pool && nstreams < 2,
                Action::Spoll => nstreams > 0,
                Action::Sdrop => !droppable.is_empty(),
                Action::Populate => !pool,
            }
        };
        let w: Vec<u64> = ACTIONS
            .iter()
            .zip(c.w.iter())
            .map(|(a, w)| match a {
                _ if !avail(*a) => 0,
                // the more guards are held, the more likely one is released
                Action::Drop => *w * nguards.clamp(1, 3),
                _ => *w,
            })
            .collect();
        match ACTIONS[self.rng.weighted(&w)] {
            Action::Lock => self.gen_lock(c)?,
            Action::Op => self.gen_op()?,
            Action::Drop => {
                let h = self.rng.pick(&self.harness.guard_ids());
                self.emit(Req::Drop(h))?;
            }
            Action::Poll => {
                let h = self.rng.pick(&self.harness.pending_ids());
                self.emit(Req::Poll(h))?;
            }
            Action::Cancel => {
                let h = self.rng.pick(&self.harness.pending_ids());
                self.emit(Req::Cancel(h))?;
            }
            Action::Count => {
                self.emit(Req::Count)?;
            }
            Action::Keys => {
                self.emit(Req::Keys)?;
            }
            Action::Adv => {
                let d = self.rng.range(1, 20);
                self.emit(Req::Adv(d))?;
            }
            Action::Expire => self.gen_expire()?,
            Action::LockAll => {
                self.emit_reorder()?;
                let sid = self.next_sid;
                self.next_sid += 1;
                let h0 = self.fresh_block();
                self.emit(Req::LockAll(sid, h0))?;
            }
            Action::Spoll => {
                let s = self.rng.pick(&self.harness.stream_ids());
                self.emit(Req::Spoll(s))?;
            }
            Action::Sdrop => {
                let s = self.rng.pick(&droppable);
                self.emit(Req::Sdrop(s))?;
            }
            Action::Populate => {
                let locked = self.locked_keys();
                let free: Vec<u32> = (0..self.nkeys as u32).filter(|k| !locked.contains(k)).collect();
                if free.is_empty() {
                    self.emit(Req::Count)?;
                } else {
                    let k = self.rng.pick(&free);
                    let var = self.rng.pick(&[Variant::B, Variant::Bo, Variant::A, Variant::Ao, Variant::T, Variant::Tao]);
                    let h = self.fresh_h();
                    let o = self.emit(Req::Lock { var, h, k, h0: 0, limit: Limit::None })?;
                    if o == "guard" && !self.fatal {
                        let v = self.rand_val();
                        self.emit(Req::Op(h, GOp::Insert(v)))?;
                        if !self.fatal && self.rng.pct(80) {
                            self.emit(Req::Drop(h))?;
                        }
                    }
                }
            }
        }
        Ok(())
    }

    fn droppable_streams(&self) -> Vec<u64> {
        let all = self.harness.stream_ids();
        if !(self.avoid_sdrop_order && self.kind == Kind::Lru) {
            return all;
        }
        all.into_iter()
            .filter(|s| match self.stream_state.get(s) {
                Some((polled, ended)) => !*polled || *ended,
                None => true,
            })
            .collect()
    }

    /// `--avoid sdrop-order`: drive the streams that may not be dropped yet to their end
    fn drain_streams(&mut self) -> std::io::Result<()> {
        for _round in 0..1000 {
            let todo: Vec<u64> = self
                .harness
                .stream_ids()
                .into_iter()
                .filter(|s| !self.droppable_streams().contains(s))
                .collect();
            if todo.is_empty() {
                return Ok(());
            }
            // release whatever the streams may be waiting for
            let mut pend = self.harness.pending_ids();
            self.rng.shuffle(&mut pend);
            for h in pend {
                self.emit(Req::Cancel(h))?;
                if self.fatal {
                    return Ok(());
                }
            }
            let mut gs = self.harness.guard_ids();
            self.rng.shuffle(&mut gs);
            for h in gs {
                self.emit(Req::Drop(h))?;
                if self.fatal {
                    return Ok(());
                }
            }
            for s in todo {
                loop {
                    let o = self.emit(Req::Spoll(s))?;
                    if self.fatal {
                        return Ok(());
                    }
                    if !o.starts_with("item") {
                        break;
                    }
                }
            }
        }
        Ok(())
    }

    /// release everything, then look at what is left
    fn epilogue(&mut self) -> std::io::Result<()> {
        if self.avoid_sdrop_order && self.kind == Kind::Lru {
            self.drain_streams()?;
            if self.fatal {
                return Ok(());
            }
        }
        let mut sids = self.harness.stream_ids();
        self.rng.shuffle(&mut sids);
        for s in sids {
            self.emit(Req::Sdrop(s))?;
            if self.fatal {
                return Ok(());
            }
        }
        let mut pend = self.harness.pending_ids();
        self.rng.shuffle(&mut pend);
        for h in pend {
            if self.rng.pct(50) {
                self.emit(Req::Cancel(h))?;
            } else {
                self.emit(Req::Poll(h))?;
            }
            if self.fatal {
                return Ok(());
            }
        }
        // guards in random order; waiters that are still pending get their lock along the way
        for _round in 0..1000 {
            let mut gs = self.harness.guard_ids();
            if gs.is_empty() {
                break;
            }
            self.rng.shuffle(&mut gs);
            for h in gs {
                self.emit(Req::Drop(h))?;
                if self.fatal {
                    return Ok(());
                }
            }
            let mut progress = false;
            for h in self.harness.pending_ids() {
                let o = self.emit(Req::Poll(h))?;
                if self.fatal {
                    return Ok(());
                }
                progress |= o == "guard";
            }
            if !progress {
                break;
            }
        }
        for h in self.harness.pending_ids() {
            self.emit(Req::Cancel(h))?;
            if self.fatal {
                return Ok(());
            }
        }
        for h in self.harness.guard_ids() {
            self.emit(Req::Drop(h))?;
            if self.fatal {
                return Ok(());
            }
        }
        self.emit(Req::Count)?;
        if self.fatal {
            return Ok(());
        }
        self.emit(Req::Keys)?;
        if self.fatal {
            return Ok(());
        }
        if self.kind != Kind::Pool {
            self.emit(Req::Into)?;
        }
        Ok(())
    }

    pub fn run_case(&mut self, kind: Kind, maxlen: u64, case_no: u64) -> std::io::Result<()> {
        self.kind = kind;
        self.nkeys = self.rng.range(2, 6);
        let len = self.rng.range(5, maxlen.max(5));
        self.next_h = 1;
        self.next_sid = 1;
        self.emitted = 0;
        self.fatal = false;
        self.stream_state.clear();
        let c = cfg(self.profile, kind);
        writeln!(self.ops, "# case {case_no} kind={} keys={} len={}", kind.name(), self.nkeys, len)?;
        self.emit(Req::Init(kind))?;
        while self.emitted < len + 1 && !self.fatal {
            self.step(&c)?;
        }
        if !self.fatal {
            self.epilogue()?;
        }
        if self.fatal {
            self.stats.cases_aborted_after_library_panic += 1;
        }
        self.stats.cases += 1;
        *self.stats.case_length_histogram.entry(self.emitted).or_insert(0) += 1;
        Ok(())
    }
}
